(* C14 proofs: gcd and lcm (fixed code: commits af8d03e, d16fb09) for all 64 pairs of argument types
   and all values whose result is representable in the common type. *)
From Tetl Require Import Lib.Base C14.Spec C14.Model C14.Arith.
From Coq Require Import ZifyBool.
Local Open Scope Z_scope.
Ltac Zify.zify_post_hook ::= Z.to_euclidean_division_equations.

(** the Euclidean loop on w-bit unsigned values: 2w iterations always suffice *)
Lemma gcd_loop_ok wr : 0 <= wr -> forall (k : nat) a b,
  0 <= a < 2 ^ wr -> 0 <= b < 2 ^ wr -> b < 2 ^ Z.of_nat k ->
  gcd_loop (2 * k) wr a b = Ok (Z.gcd a b).
Proof.
  intros Hw k. induction k as [|k IH]; intros a b Ha Hb Hk.
  - assert (b = 0) by (cbn in Hk; lia). subst b. cbn. rewrite Z.gcd_0_r, Z.abs_eq by lia. reflexivity.
  - replace (2 * S k)%nat with (S (S (2 * k))) by lia.
    cbn [gcd_loop].
    destruct (Z.eqb_spec b 0) as [->|Hb0].
    { rewrite Z.gcd_0_r, Z.abs_eq by lia. reflexivity. }
    assert (Hr1 : wu wr (Z.rem a b) = a mod b).
    { rewrite Z.rem_mod_nonneg by lia. apply wu_small; [lia|].
      pose proof (Z.mod_pos_bound a b). lia. }
    rewrite Hr1. set (r1 := a mod b).
    assert (R1 : 0 <= r1 < b) by (apply Z.mod_pos_bound; lia).
    assert (G1 : Z.gcd a b = Z.gcd b r1).
    { unfold r1. rewrite (Z.gcd_comm b (a mod b)), Z.gcd_mod by lia. apply Z.gcd_comm. }
    destruct (Z.eqb_spec r1 0) as [E|Hr0].
    { rewrite G1, E, Z.gcd_0_r, Z.abs_eq by lia. reflexivity. }
    assert (Hr2 : wu wr (Z.rem b r1) = b mod r1).
    { rewrite Z.rem_mod_nonneg by lia. apply wu_small; [lia|].
      pose proof (Z.mod_pos_bound b r1). lia. }
    rewrite Hr2. set (r2 := b mod r1).
    assert (R2 : 0 <= r2 < r1) by (apply Z.mod_pos_bound; lia).
    assert (G2 : Z.gcd b r1 = Z.gcd r1 r2).
    { unfold r2. rewrite (Z.gcd_comm r1 (b mod r1)), Z.gcd_mod by lia. apply Z.gcd_comm. }
    assert (Hhalf : 2 * r2 < b).
    { assert (Q : b = r1 * (b / r1) + r2) by (apply Z.div_mod; lia).
      assert (1 <= b / r1) by (apply Z.div_le_lower_bound; lia).
      nia. }
    rewrite G1, G2. apply IH; try lia.
    rewrite Nat2Z.inj_succ, Z.pow_succ_r in Hk by lia. lia.
Qed.

(** detail::gcd_abs<U> *)
Lemma gcd_abs_ok wr tv v : W wr -> in_ty tv v = true -> (sgn tv = false -> 0 <= v) ->
  Z.abs v < 2 ^ wr -> gcd_abs_m wr tv v = Ok (Z.abs v).
Proof.
  intros HW Hin Hs Hv. unfold gcd_abs_m. pose proof (W_pos wr HW) as Hp.
  destruct (sgn tv) eqn:S; cbn [andb].
  - destruct (Z.ltb_spec v 0) as [N|N].
    + destruct HW as [ -> | [ -> | [ -> | -> ] ] ]; unfold arith; widths; run; fin.
    + f_equal. rewrite Z.abs_eq by lia. apply wu_small; lia.
  - specialize (Hs eq_refl). f_equal. rewrite Z.abs_eq by lia. apply wu_small; lia.
Qed.

(* |v| always fits the unsigned version of the common type *)
Lemma abs_fits_common tm tn m n : WT tm -> WT tn -> in_ty tm m = true -> in_ty tn n = true ->
  W (bits (common_type tm tn))
  /\ Z.abs m < 2 ^ bits (common_type tm tn) /\ Z.abs n < 2 ^ bits (common_type tm tn).
Proof.
  intros HM HN Hm Hn.
  types tm HM; types tn HN; range Hm; range Hn;
    match goal with
    | |- context [common_type ?x ?y] =>
        let c := eval vm_compute in (common_type x y) in change (common_type x y) with c
    end; cbn [bits]; unfold W; consts; lia.
Qed.

Lemma WT_common_type tm tn : WT tm -> WT tn -> WT (common_type tm tn).
Proof.
  intros HM HN. types tm HM; types tn HN; vm_compute; tauto.
Qed.

Lemma gcd_ok tm tn m n : WT tm -> WT tn -> in_ty tm m = true -> in_ty tn n = true ->
  in_ty (common_type tm tn) (Z.gcd m n) = true ->
  gcd_m tm tn m n = Ok (gcd_spec m n).
Proof.
  intros HM HN Hm Hn Hg. unfold gcd_m, gcd_spec.
  destruct (abs_fits_common tm tn m n HM HN Hm Hn) as (HW & Am & An).
  set (r := common_type tm tn) in *. set (wr := bits r) in *.
  assert (Hw0 : 0 <= wr) by (destruct HW as [ -> | [ -> | [ -> | -> ] ] ]; lia).
  rewrite (gcd_abs_ok wr tm m), (gcd_abs_ok wr tn n); auto;
    try (intros S; apply in_ty_range in Hm; apply in_ty_range in Hn; unfold imin in *; rewrite S in *; lia).
  cbn [rbind].
  replace (Z.to_nat (2 * wr)) with (2 * Z.to_nat wr)%nat by lia.
  rewrite gcd_loop_ok; try lia.
  - cbn [rbind]. rewrite Z.gcd_abs_l, Z.gcd_abs_r. f_equal.
    apply cast_id; [apply WT_common_type; assumption | assumption].
  - rewrite Z2Nat.id; lia.
Qed.

(** lcm *)
Lemma lcm_as_quot m n : m <> 0 -> n <> 0 ->
  Z.abs m ÷ Z.gcd m n * Z.abs n = Z.lcm m n.
Proof.
  intros Hm Hn.
  set (g := Z.gcd m n).
  assert (Hg : 0 < g).
  { pose proof (Z.gcd_nonneg m n). assert (g <> 0); [|unfold g in *; lia].
    unfold g. intros E. apply Z.gcd_eq_0_l in E. contradiction. }
  destruct (Z.gcd_divide_l m n) as [m' Em]. destruct (Z.gcd_divide_r m n) as [n' En].
  fold g in Em, En.
  assert (Bm : Z.abs m = Z.abs m' * g) by (rewrite Em at 1; rewrite Z.abs_mul, (Z.abs_eq g) by lia; reflexivity).
  assert (Bn : Z.abs n = Z.abs n' * g) by (rewrite En at 1; rewrite Z.abs_mul, (Z.abs_eq g) by lia; reflexivity).
  assert (A1 : Z.abs m / g = Z.abs m') by (rewrite Bm; apply Z.div_mul; lia).
  assert (A2 : n / g = n') by (rewrite En at 1; apply Z.div_mul; lia).
  unfold Z.lcm. fold g.
  rewrite Z.quot_div_nonneg by lia.
  rewrite A1, A2, Z.abs_mul, Bn, Bm. ring.
Qed.

Lemma lcm_ok tm tn m n : WT tm -> WT tn -> in_ty tm m = true -> in_ty tn n = true ->
  in_ty (common_type tm tn) (Z.lcm m n) = true ->
  lcm_m tm tn m n = Ok (lcm_spec m n).
Proof.
  intros HM HN Hm Hn Hl. unfold lcm_m, lcm_spec.
  destruct (Z.eqb_spec m 0) as [->|Hm0]; [cbn [orb]; now rewrite Z.lcm_0_l|].
  destruct (Z.eqb_spec n 0) as [->|Hn0]; [cbn [orb]; now rewrite Z.lcm_0_r|].
  cbn [orb].
  destruct (abs_fits_common tm tn m n HM HN Hm Hn) as (HW & Am & An).
  pose proof (WT_common_type tm tn HM HN) as HR.
  (* gcd <= |m| <= lcm, so the gcd is representable too *)
  assert (Hg0 : 0 < Z.gcd m n).
  { pose proof (Z.gcd_nonneg m n). assert (Z.gcd m n <> 0); [|lia].
    intros E. apply Z.gcd_eq_0_l in E. contradiction. }
  assert (Hgm : Z.gcd m n <= Z.abs m).
  { apply Z.divide_pos_le; [lia|]. apply Z.divide_abs_r. apply Z.gcd_divide_l. }
  assert (Hml : Z.abs m <= Z.lcm m n).
  { pose proof (Z.lcm_nonneg m n).
    assert (Z.lcm m n <> 0) by (intros E; apply Z.lcm_eq_0 in E; tauto).
    apply Z.divide_pos_le; [lia|]. apply Z.divide_abs_l. apply Z.divide_lcm_l. }
  assert (Hgin : in_ty (common_type tm tn) (Z.gcd m n) = true).
  { apply in_ty_range. apply in_ty_range in Hl.
    pose proof (in_ty_0 _ HR) as Z0. apply in_ty_range in Z0. lia. }
  rewrite (gcd_ok tm tn m n HM HN Hm Hn Hgin). unfold gcd_spec.
  set (r := common_type tm tn) in *. set (wr := bits r) in *.
  assert (Hw0 : 0 <= wr) by (destruct HW as [ -> | [ -> | [ -> | -> ] ] ]; lia).
  rewrite (gcd_abs_ok wr tm m), (gcd_abs_ok wr tn n); auto;
    try (intros S; apply in_ty_range in Hm; apply in_ty_range in Hn; unfold imin in *; rewrite S in *; lia).
  cbn [rbind].
  rewrite (wu_small wr (Z.gcd m n)) by lia.
  destruct (Z.eqb_spec (Z.gcd m n) 0) as [E|_]; [lia|].
  set (q := Z.abs m ÷ Z.gcd m n).
  assert (Hq : 0 <= q <= Z.abs m).
  { unfold q. rewrite Z.quot_div_nonneg by lia. split; [apply Z.div_pos; lia|].
    apply Z.div_le_upper_bound; [lia|]. nia. }
  assert (Hqn : q * Z.abs n = Z.lcm m n) by (apply lcm_as_quot; assumption).
  assert (Hlr : Z.lcm m n < 2 ^ wr).
  { apply in_ty_range in Hl. assert (imax r < 2 ^ wr); [|lia].
    unfold wr. clearbody r. clear - HR. types r HR; consts; lia. }
  assert (Ha : arith (U wr) q = Ok q).
  { unfold arith. destruct HW as [ -> | [ -> | [ -> | -> ] ] ]; widths;
      first [ apply arith_in_signed; [reflexivity | consts; lia]
            | rewrite arith_in_unsigned by reflexivity; widths; f_equal; apply wu_small; consts; lia ]. }
  rewrite Ha. cbn [rbind]. f_equal.
  set (ww := bits (common (U wr) u32)).
  assert (Hww : 0 <= ww /\ 2 ^ wr <= 2 ^ ww).
  { unfold ww. destruct HW as [ -> | [ -> | [ -> | -> ] ] ]; vm_compute; split; congruence. }
  rewrite (wu_small ww q), (wu_small ww (Z.abs n)) by lia.
  rewrite Hqn, (wu_small ww) by (pose proof (Z.lcm_nonneg m n); lia).
  now apply cast_id.
Qed.
