(* C14 — Bit and integer utilities equal their mathematical definition for all values.
   Property theorems only: each is closed by [exact] of lemmas proved in Proofs*.v, followed by
   Print Assumptions.  Related functions are stated together as one conjunctive theorem, and the assumptions are
   printed once for the tuple of all theorems at the end of the file (every Print Assumptions costs ~1 s per run
   of ./check, which recompiles this file).
   [W w] = w is one of the widths 8/16/32/64; [WT t] = t is one of the eight integer types (such a
   width, signed or unsigned); [in_ty t x] = x is a value of t.  [Ok v] in a conclusion also says
   that the computation meets no undefined behaviour (no signed overflow, no bad shift, no division
   by zero), no contract failure and does not run out of fuel.  Model functions ([_m]) mirror the
   C++ code; spec functions ([_spec]) are the mathematical definitions of Spec.v. *)
From Tetl Require Import Lib.Base C14.Spec C14.Model C14.Arith
  C14.ProofsSat C14.ProofsCmp C14.ProofsMid C14.ProofsNum C14.ProofsGcd C14.ProofsRot C14.ProofsBit C14.ProofsCount C14.ProofsPop C14.ProofsSwap C14.ProofsTpl C14.SpecFacts C14.NonVac.
Local Open Scope Z_scope.

(** saturation arithmetic: add_sat (builtin path and portable fallback), div_sat, saturate_cast for all 64
    (To, From) pairs: the exact result clamped to the range of the type; safe comparisons for all 64 type pairs and
    in_range for all 64 (R, T) pairs: the mathematical comparison of the two values / membership in the range of R *)
Theorem C14_saturation_cmp :
  ((forall t, WT t -> forall x y, in_ty t x = true -> in_ty t y = true ->
     add_sat_m t x y = Ok (add_sat_spec t x y) /\ add_sat_fallback_m t x y = Ok (add_sat_spec t x y))
  /\ (forall t, WT t -> forall x y, in_ty t x = true -> in_ty t y = true -> y <> 0 ->
     div_sat_m t x y = Ok (div_sat_spec t x y))
  /\ (forall t x, div_sat_m t x 0 = Contract)
  /\ (forall to from x, WT to -> WT from -> in_ty from x = true ->
     saturate_cast_m to from x = Ok (saturate_cast_spec to x)))
  /\
  ((forall tt tu t u, WT tt -> WT tu -> in_ty tt t = true -> in_ty tu u = true ->
     cmp_equal_m tt tu t u = cmp_equal_spec t u
     /\ cmp_not_equal_m tt tu t u = cmp_not_equal_spec t u
     /\ cmp_less_m tt tu t u = cmp_less_spec t u
     /\ cmp_greater_m tt tu t u = cmp_greater_spec t u
     /\ cmp_less_equal_m tt tu t u = cmp_less_equal_spec t u
     /\ cmp_greater_equal_m tt tu t u = cmp_greater_equal_spec t u)
  /\ (forall r tt t, WT r -> WT tt -> in_ty tt t = true -> in_range_m r tt t = in_range_spec r t)).
Proof.
  exact (conj ((conj (fun t HT x y Hx Hy => conj (add_sat_ok t HT x y Hx Hy) (add_sat_fallback_ok t HT x y Hx Hy))
        (conj div_sat_ok (conj div_sat_contract saturate_cast_ok))))
              ((conj (fun tt tu t u H1 H2 H3 H4 =>
    conj (cmp_equal_ok tt tu t u H1 H2 H3 H4) (conj (cmp_not_equal_ok tt tu t u H1 H2 H3 H4)
    (conj (cmp_less_ok tt tu t u H1 H2 H3 H4) (conj (cmp_greater_ok tt tu t u H1 H2 H3 H4)
    (conj (cmp_less_equal_ok tt tu t u H1 H2 H3 H4) (cmp_greater_equal_ok tt tu t u H1 H2 H3 H4))))))
    in_range_ok))).
Qed.

(** midpoint: a + (b - a) / 2 rounded towards a, for every pair of values incl. the limits with opposite signs;
    gcd, lcm for all 64 (M, N) pairs: the non-negative gcd / lcm of |m| and |n| whenever it is a value of the
    common type (the standard's domain); abs, idiv, ipow, ipow<2>, ilog2: exact integer arithmetic whenever
    the result is representable *)
Theorem C14_numeric :
  (forall t, WT t -> forall a b, in_ty t a = true -> in_ty t b = true -> midpoint_m t a b = Ok (midpoint_spec a b))
  /\ (forall tm tn m n, WT tm -> WT tn -> in_ty tm m = true -> in_ty tn n = true ->
     (in_ty (common_type tm tn) (Z.gcd m n) = true -> gcd_m tm tn m n = Ok (gcd_spec m n))
     /\ (in_ty (common_type tm tn) (Z.lcm m n) = true -> lcm_m tm tn m n = Ok (lcm_spec m n)))
  /\ (forall t, WT t ->
     (forall x, in_ty t x = true -> in_ty t (Z.abs x) = true -> abs_m t x = Ok (abs_spec x))
     /\ (forall x y, in_ty t x = true -> in_ty t y = true -> y <> 0 -> in_ty t (Z.quot x y) = true ->
         idiv_m t x y = Ok (idiv_spec x y))
     /\ (forall b e, in_ty t b = true -> in_ty t e = true -> 0 <= e -> in_ty t (b ^ e) = true ->
         ipow_m t b e = Ok (ipow_spec b e))
     /\ (forall e, 0 <= e -> in_ty t (2 ^ e) = true -> ipow2_m t e = Ok (ipow_spec 2 e))
     /\ (forall x, 1 <= x -> in_ty t x = true -> ilog2_m t x = Ok (ilog2_spec x))).
Proof.
  exact (conj midpoint_ok (conj (fun tm tn m n H1 H2 H3 H4 => conj (gcd_ok tm tn m n H1 H2 H3 H4) (lcm_ok tm tn m n H1 H2 H3 H4))
              (fun t HT => conj (abs_ok t HT) (conj (idiv_ok t HT) (conj (ipow_ok t HT) (conj (ipow2_ok t HT) (ilog2_ok t HT))))))).
Qed.

(** rotl / rotr: every width, every value, EVERY count s (any integer, hence any int: negative, zero, multiples of
    the width, INT_MIN): the count is taken modulo the width, no shift is out of range; and the specification read
    bit by bit: bit i of rotl x s is bit (i - s) mod w of x.
    single-bit updates: every width, every word, every position; the precondition pos < digits is checked exactly
    (contract failure for every other position, no shift out of range) *)
Theorem C14_rot_single_bit :
  (forall w, W w -> forall x s, 0 <= x < 2 ^ w ->
  rotl_m w x s = Ok (rotl_spec w x s) /\ rotr_m w x s = Ok (rotr_spec w x s)
  /\ (forall i, 0 <= i < w -> Z.testbit (rotl_spec w x s) i = Z.testbit x ((i - s) mod w)))
  /\
  (forall w, W w -> forall word pos, 0 <= word < 2 ^ w -> 0 <= pos ->
  (pos < w ->
     set_bit_m w word pos = Ok (set_bit_spec word pos)
     /\ reset_bit_m w word pos = Ok (reset_bit_spec word pos)
     /\ flip_bit_m w word pos = Ok (flip_bit_spec word pos)
     /\ test_bit_m w word pos = Ok (test_bit_spec word pos)
     /\ (forall v, assign_bit_m w word pos v = Ok (assign_bit_spec word pos v)))
  /\ (w <= pos ->
     set_bit_m w word pos = Contract /\ reset_bit_m w word pos = Contract /\ flip_bit_m w word pos = Contract
     /\ test_bit_m w word pos = Contract /\ (forall v, assign_bit_m w word pos v = Contract))).
Proof. exact (conj rot_all single_bit_all). Qed.

(** the compile-time-position overloads set_bit<Pos>(word), set_bit<Pos>(word, value), reset_bit<Pos>(word),
    flip_bit<Pos>(word), test_bit<Pos>(word) ([Some r]: the instantiation compiles and returns r; [None]: it does not
    compile, static_assert(Pos < digits)): every width, EVERY word, every Pos < digits: the wrapper is the run-time
    function at position Pos (forwarding, no hypothesis on the word), hence - for a word of the type - the single-bit
    update of Spec.v, for both values of [value] whether the bit was set or clear; every Pos >= digits is rejected at
    compile time.  ipow<Base>(exponent) (both branches of its `if constexpr`): the exact power whenever representable *)
Theorem C14_template_position :
  (forall w, W w -> forall word Pos, 0 <= Pos ->
  (Pos < w ->
     (set_bit_tpl_m w Pos word = Some (set_bit_m w word Pos)
      /\ (forall v, assign_bit_tpl_m w Pos word v = Some (assign_bit_m w word Pos v))
      /\ reset_bit_tpl_m w Pos word = Some (reset_bit_m w word Pos)
      /\ flip_bit_tpl_m w Pos word = Some (flip_bit_m w word Pos)
      /\ test_bit_tpl_m w Pos word = Some (test_bit_m w word Pos))
     /\ (0 <= word < 2 ^ w ->
         set_bit_tpl_m w Pos word = Some (Ok (set_bit_spec word Pos))
         /\ (forall v, assign_bit_tpl_m w Pos word v = Some (Ok (assign_bit_spec word Pos v)))
         /\ reset_bit_tpl_m w Pos word = Some (Ok (reset_bit_spec word Pos))
         /\ flip_bit_tpl_m w Pos word = Some (Ok (flip_bit_spec word Pos))
         /\ test_bit_tpl_m w Pos word = Some (Ok (test_bit_spec word Pos))))
  /\ (w <= Pos ->
      set_bit_tpl_m w Pos word = None /\ (forall v, assign_bit_tpl_m w Pos word v = None)
      /\ reset_bit_tpl_m w Pos word = None /\ flip_bit_tpl_m w Pos word = None /\ test_bit_tpl_m w Pos word = None))
  /\
  (forall t, WT t -> forall b e, in_ty t b = true -> in_ty t e = true -> 0 <= e -> in_ty t (b ^ e) = true ->
     ipow_base_m t b e = Ok (ipow_spec b e)).
Proof. exact (conj tpl_all ipow_base_ok). Qed.

(** popcount (run-time builtin by its documented meaning; the portable "val &= val - 1" loop by induction),
    has_single_bit, countl_zero/one (shift-left loops), countr_zero/one (test_bit loops), bit_width, bit_floor
    and bit_ceil (both promotion branches; on the standard's domain x <= 2^(w-1); above it the code shifts by the
    full width: undefined behaviour, never a wrong value): every width, every value *)
Theorem C14_counts : forall w, W w -> forall x, 0 <= x < 2 ^ w ->
  (popcount_m w x = Ok (popcount_spec w x) /\ popcount_fallback_m w x = Ok (popcount_spec w x)
   /\ has_single_bit_m w x = Ok (has_single_bit_spec x))
  /\ (countl_zero_m w x = Ok (countl_zero_spec w x) /\ countl_one_m w x = Ok (countl_one_spec w x)
   /\ countr_zero_m w x = Ok (countr_zero_spec w x) /\ countr_one_m w x = Ok (countr_one_spec w x)
   /\ bit_width_m w x = Ok (bit_width_spec x) /\ bit_floor_m w x = Ok (bit_floor_spec x)
   /\ (bit_ceil_dom w x = true -> bit_ceil_m w x = Ok (bit_ceil_spec x))
   /\ (bit_ceil_dom w x = false -> bit_ceil_m w x = UB BadShift)).
Proof. exact (fun w HW x Hx => conj (pop_all w HW x Hx) (count_all w HW x Hx)). Qed.

(** byteswap for the eight types (run-time path: __builtin_bswapN by its documented meaning), the portable
    shift-and-mask fallbacks for 16/32/64 bits, and hton/ntoh for 8/16/32 bits: the bytes in reverse order *)
Theorem C14_byteswap :
  (forall t x, WT t -> in_ty t x = true -> byteswap_m t x = Ok (byteswap_spec t x))
  /\ (forall w v, w = 16 \/ w = 32 \/ w = 64 -> 0 <= v < 2 ^ w ->
        byteswap_fallback_m w v = Ok (byteswap_u_spec (Z.to_nat (w / 8)) v))
  /\ (forall w v, w = 8 \/ w = 16 \/ w = 32 -> 0 <= v < 2 ^ w ->
        hton_m w v = Ok (hton_spec w v) /\ ntoh_m w v = Ok (hton_spec w v)).
Proof. exact swap_all. Qed.

(** (1) what the model does OUTSIDE the documented domain, exactly - so that "no result depends on overflow" is seen
    to hold precisely on the documented domain: abs(min) and idiv(min, -1) are computed in int for signed char /
    short (the result converts back to min) and are signed overflow (UB) for int / long; idiv by zero is a division
    by zero (no precondition in the code); ipow with a non-positive exponent is 1; ilog2 of a value below 2 is 0
    (div_sat by zero and single-bit positions >= digits are contract failures: C14_saturation_cmp, C14_rot_single_bit;
    bit_ceil above 2^(w-1) is UB BadShift: C14_counts).
    (2) the specification read back against the wording of the standard (no code, no model involved): bit_ceil is
    the least power of two >= x, bit_floor the greatest power of two <= x, bit_width the position of the highest set
    bit, rotl stays in range, midpoint lies between its arguments with the odd half on a's side, byteswap of n
    bytes is an involution, countr_zero is the index of the lowest set bit (2^k divides x) *)
Theorem C14_domain_and_spec :
  (forall t, WT t ->
  (sgn t = true -> bits t < 32 -> abs_m t (imin t) = Ok (imin t) /\ idiv_m t (imin t) (-1) = Ok (imin t, 0))
  /\ (sgn t = true -> 32 <= bits t -> abs_m t (imin t) = UB SignedOverflow /\ idiv_m t (imin t) (-1) = UB SignedOverflow)
  /\ (forall x, idiv_m t x 0 = UB DivByZero)
  /\ (forall b e, e <= 0 -> ipow_m t b e = Ok 1)
  /\ (forall x, x <= 1 -> ilog2_m t x = Ok 0))
  /\
  ((forall x, 0 <= x ->
     (exists k, 0 <= k /\ bit_ceil_spec x = 2 ^ k) /\ x <= bit_ceil_spec x
     /\ (forall k, 0 <= k -> x <= 2 ^ k -> bit_ceil_spec x <= 2 ^ k))
  /\ (forall x, 0 < x -> (exists k, 0 <= k /\ bit_floor_spec x = 2 ^ k) /\ bit_floor_spec x <= x < 2 * bit_floor_spec x)
  /\ (forall x, 0 <= x -> 0 <= bit_width_spec x /\ x < 2 ^ bit_width_spec x /\ (0 < x -> 2 ^ (bit_width_spec x - 1) <= x))
  /\ (forall w x s, 0 < w -> 0 <= x < 2 ^ w -> 0 <= rotl_spec w x s < 2 ^ w)
  /\ (forall a b,
        (a <= b -> a <= midpoint_spec a b <= b /\ 0 <= (b - midpoint_spec a b) - (midpoint_spec a b - a) <= 1)
        /\ (b <= a -> b <= midpoint_spec a b <= a /\ 0 <= (midpoint_spec a b - b) - (a - midpoint_spec a b) <= 1))
  /\ (forall n x, 0 <= x < 256 ^ Z.of_nat n ->
        0 <= byteswap_u_spec n x < 256 ^ Z.of_nat n /\ byteswap_u_spec n (byteswap_u_spec n x) = x)
  /\ (forall w x k, 0 <= k < w -> 0 <= x -> Z.testbit x k = true -> (forall j, 0 <= j < k -> Z.testbit x j = false) ->
        countr_zero_spec w x = k /\ x mod 2 ^ k = 0)).
Proof. exact (conj outside_domain spec_facts). Qed.

(** assumptions of every theorem above, asked once: the tuple depends on exactly the union of their assumptions *)
Definition C14_all_theorems := (C14_saturation_cmp, C14_numeric, C14_rot_single_bit, C14_template_position, C14_counts, C14_byteswap, C14_domain_and_spec).
Print Assumptions C14_all_theorems.

(** the hypotheses above are satisfiable at the corners the property is about *)
Example C14_nonvacuous :
  (WT i8 /\ WT u8 /\ WT i16 /\ WT u16 /\ WT i32 /\ WT u32 /\ WT i64 /\ WT u64)
  /\ in_ty i8 (-128) = true /\ in_ty i64 (-9223372036854775808) = true /\ in_ty u64 18446744073709551615 = true
  /\ midpoint_m i64 (-9223372036854775808) 9223372036854775807 = Ok (-1)
  /\ midpoint_m i64 9223372036854775807 (-9223372036854775808) = Ok 0
  /\ add_sat_m i32 2147483647 1 = Ok 2147483647
  /\ add_sat_fallback_m i64 (-9223372036854775808) (-1) = Ok (-9223372036854775808)
  /\ div_sat_m i8 (-128) (-1) = Ok 127
  /\ saturate_cast_m i8 u64 18446744073709551615 = Ok 127
  /\ cmp_less_m i32 u32 (-1) 4294967295 = true
  /\ gcd_m i8 i64 (-128) (-9223372036854775808) = Ok 128
  /\ lcm_m i32 i32 196608 131072 = Ok 393216
  /\ rotl_m 8 129 (-2147483648) = Ok 129
  /\ rotl_m 64 9223372036854775809 (-1) = Ok 13835058055282163712.
Proof. exact (conj WT_all nonvac_values). Qed.

Example C14_nonvacuous_bits :
  (W 8 /\ W 16 /\ W 32 /\ W 64)
  /\ bit_ceil_dom 8 128 = true /\ bit_ceil_m 8 128 = Ok 128
  /\ bit_ceil_dom 64 9223372036854775807 = true /\ bit_ceil_m 64 9223372036854775807 = Ok 9223372036854775808
  /\ countl_zero_m 64 1 = Ok 63 /\ countl_one_m 8 254 = Ok 7 /\ countr_zero_m 64 0 = Ok 64
  /\ popcount_fallback_m 64 18446744073709551615 = Ok 64
  /\ flip_bit_m 64 0 63 = Ok 9223372036854775808 /\ test_bit_m 64 0 64 = Contract
  /\ in_ty i16 (-256) = true /\ byteswap_m i16 (-256) = Ok 255
  /\ byteswap_fallback_m 64 72623859790382856 = Ok 578437695752307201
  /\ hton_m 32 305419896 = Ok 2018915346.
Proof. exact (conj W_all nonvac_bits). Qed.

Example C14_nonvacuous_template_position :
  set_bit_tpl_m 8 0 1 = Some (Ok 1) /\ assign_bit_tpl_m 8 0 1 false = Some (Ok 0)
  /\ assign_bit_tpl_m 64 63 9223372036854775808 false = Some (Ok 0)
  /\ assign_bit_tpl_m 64 63 0 true = Some (Ok 9223372036854775808)
  /\ reset_bit_tpl_m 16 15 65535 = Some (Ok 32767) /\ flip_bit_tpl_m 32 31 0 = Some (Ok 2147483648)
  /\ test_bit_tpl_m 8 7 128 = Some (Ok true) /\ test_bit_tpl_m 8 8 128 = None
  /\ ipow_base_m i32 3 4 = Ok 81 /\ ipow_base_m i64 2 62 = Ok 4611686018427387904.
Proof. exact nonvac_tpl. Qed.

