(* C14 — Bit and integer utilities equal their mathematical definition for all values.
   Property theorems only: each is closed by [exact] of a lemma proved in Proofs*.v, followed by
   Print Assumptions.  [WT t] = t is one of the eight integer types (width 8/16/32/64, signed or
   unsigned); [in_ty t x] = x is a value of t.  [Ok v] in a conclusion also says that the
   computation meets no undefined behaviour (no signed overflow, no bad shift), no contract
   failure and does not run out of fuel. *)
From Tetl Require Import Lib.Base C14.Spec C14.Model C14.Arith
  C14.ProofsSat C14.ProofsCmp C14.ProofsMid C14.ProofsNum C14.ProofsGcd.
Local Open Scope Z_scope.

(** saturation arithmetic *)
Theorem C14_add_sat : forall t, WT t -> forall x y, in_ty t x = true -> in_ty t y = true ->
  add_sat_m t x y = Ok (add_sat_spec t x y).
Proof. exact add_sat_ok. Qed.
Print Assumptions C14_add_sat.

Theorem C14_add_sat_fallback : forall t, WT t -> forall x y, in_ty t x = true -> in_ty t y = true ->
  add_sat_fallback_m t x y = Ok (add_sat_spec t x y).
Proof. exact add_sat_fallback_ok. Qed.
Print Assumptions C14_add_sat_fallback.

Theorem C14_div_sat : forall t, WT t -> forall x y, in_ty t x = true -> in_ty t y = true -> y <> 0 ->
  div_sat_m t x y = Ok (div_sat_spec t x y).
Proof. exact div_sat_ok. Qed.
Print Assumptions C14_div_sat.

Theorem C14_saturate_cast : forall to from x, WT to -> WT from -> in_ty from x = true ->
  saturate_cast_m to from x = Ok (saturate_cast_spec to x).
Proof. exact saturate_cast_ok. Qed.
Print Assumptions C14_saturate_cast.

(** safe comparisons: the mathematical comparison, for all 64 type pairs *)
Theorem C14_cmp_equal : forall tt tu t u, WT tt -> WT tu -> in_ty tt t = true -> in_ty tu u = true ->
  cmp_equal_m tt tu t u = cmp_equal_spec t u.
Proof. exact cmp_equal_ok. Qed.
Print Assumptions C14_cmp_equal.

Theorem C14_cmp_not_equal : forall tt tu t u, WT tt -> WT tu -> in_ty tt t = true -> in_ty tu u = true ->
  cmp_not_equal_m tt tu t u = cmp_not_equal_spec t u.
Proof. exact cmp_not_equal_ok. Qed.
Print Assumptions C14_cmp_not_equal.

Theorem C14_cmp_less : forall tt tu t u, WT tt -> WT tu -> in_ty tt t = true -> in_ty tu u = true ->
  cmp_less_m tt tu t u = cmp_less_spec t u.
Proof. exact cmp_less_ok. Qed.
Print Assumptions C14_cmp_less.

Theorem C14_cmp_greater : forall tt tu t u, WT tt -> WT tu -> in_ty tt t = true -> in_ty tu u = true ->
  cmp_greater_m tt tu t u = cmp_greater_spec t u.
Proof. exact cmp_greater_ok. Qed.
Print Assumptions C14_cmp_greater.

Theorem C14_cmp_less_equal : forall tt tu t u, WT tt -> WT tu -> in_ty tt t = true -> in_ty tu u = true ->
  cmp_less_equal_m tt tu t u = cmp_less_equal_spec t u.
Proof. exact cmp_less_equal_ok. Qed.
Print Assumptions C14_cmp_less_equal.

Theorem C14_cmp_greater_equal : forall tt tu t u, WT tt -> WT tu -> in_ty tt t = true -> in_ty tu u = true ->
  cmp_greater_equal_m tt tu t u = cmp_greater_equal_spec t u.
Proof. exact cmp_greater_equal_ok. Qed.
Print Assumptions C14_cmp_greater_equal.

Theorem C14_in_range : forall r tt t, WT r -> WT tt -> in_ty tt t = true ->
  in_range_m r tt t = in_range_spec r t.
Proof. exact in_range_ok. Qed.
Print Assumptions C14_in_range.

(** midpoint, gcd, lcm, abs *)
Theorem C14_midpoint : forall t, WT t -> forall a b, in_ty t a = true -> in_ty t b = true ->
  midpoint_m t a b = Ok (midpoint_spec a b).
Proof. exact midpoint_ok. Qed.
Print Assumptions C14_midpoint.

Theorem C14_gcd : forall tm tn m n, WT tm -> WT tn -> in_ty tm m = true -> in_ty tn n = true ->
  in_ty (common_type tm tn) (Z.gcd m n) = true ->
  gcd_m tm tn m n = Ok (gcd_spec m n).
Proof. exact gcd_ok. Qed.
Print Assumptions C14_gcd.

Theorem C14_lcm : forall tm tn m n, WT tm -> WT tn -> in_ty tm m = true -> in_ty tn n = true ->
  in_ty (common_type tm tn) (Z.lcm m n) = true ->
  lcm_m tm tn m n = Ok (lcm_spec m n).
Proof. exact lcm_ok. Qed.
Print Assumptions C14_lcm.

Theorem C14_abs : forall t, WT t -> forall x, in_ty t x = true -> in_ty t (Z.abs x) = true ->
  abs_m t x = Ok (abs_spec x).
Proof. exact abs_ok. Qed.
Print Assumptions C14_abs.

(** idiv, ipow, ilog2 *)
Theorem C14_idiv : forall t, WT t -> forall x y, in_ty t x = true -> in_ty t y = true -> y <> 0 ->
  in_ty t (Z.quot x y) = true -> idiv_m t x y = Ok (idiv_spec x y).
Proof. exact idiv_ok. Qed.
Print Assumptions C14_idiv.

Theorem C14_ipow : forall t, WT t -> forall b e, in_ty t b = true -> in_ty t e = true -> 0 <= e ->
  in_ty t (b ^ e) = true -> ipow_m t b e = Ok (ipow_spec b e).
Proof. exact ipow_ok. Qed.
Print Assumptions C14_ipow.

Theorem C14_ipow2 : forall t, WT t -> forall e, 0 <= e -> in_ty t (2 ^ e) = true ->
  ipow2_m t e = Ok (ipow_spec 2 e).
Proof. exact ipow2_ok. Qed.
Print Assumptions C14_ipow2.

Theorem C14_ilog2 : forall t, WT t -> forall x, 1 <= x -> in_ty t x = true ->
  ilog2_m t x = Ok (ilog2_spec x).
Proof. exact ilog2_ok. Qed.
Print Assumptions C14_ilog2.
