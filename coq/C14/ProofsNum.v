(* C14 proofs: abs, idiv, ipow, ilog2 for the eight integer types and all values of the
   documented domain. *)
From Tetl Require Import Lib.Base C14.Spec C14.Model C14.Arith.
From Coq Require Import ZifyBool.
Local Open Scope Z_scope.
Ltac Zify.zify_post_hook ::= Z.to_euclidean_division_equations.

(** abs: |x| whenever it is representable (i.e. x is not the most negative value) *)
Lemma abs_ok t : WT t -> forall x, in_ty t x = true -> in_ty t (Z.abs x) = true ->
  abs_m t x = Ok (abs_spec x).
Proof.
  intros HT x Hx Ha.
  types t HT; range Hx; range Ha; unfold abs_m, abs_spec, arith; widths; run; fin.
Qed.

(* the 8- and 16-bit types negate in int: abs of the minimum is the minimum again (no UB);
   for int and long the negation overflows *)
Lemma abs_min_small t : WT t -> sgn t = true -> bits t < 32 -> abs_m t (imin t) = Ok (imin t).
Proof. intros HT Hs Hb. types t HT; try discriminate; try (cbn in Hb; lia); reflexivity. Qed.
Lemma abs_min_ub t : WT t -> sgn t = true -> 32 <= bits t -> abs_m t (imin t) = UB SignedOverflow.
Proof. intros HT Hs Hb. types t HT; try discriminate; try (cbn in Hb; lia); reflexivity. Qed.

(** idiv: truncating quotient and remainder, whenever the quotient is representable *)
Lemma idiv_ok t : WT t -> forall x y, in_ty t x = true -> in_ty t y = true -> y <> 0 ->
  in_ty t (Z.quot x y) = true -> idiv_m t x y = Ok (idiv_spec x y).
Proof.
  intros HT x y Hx Hy Hy0 Hq.
  pose proof (quot_cases x y Hy0) as Hc.
  assert (Hr : Z.abs (Z.rem x y) < Z.abs y /\ (0 <= x -> 0 <= Z.rem x y) /\ (x <= 0 -> Z.rem x y <= 0)).
  { pose proof (Z.rem_bound_abs x y Hy0). 
    split; [lia|]. split; intros.
    - apply Z.rem_nonneg; lia.
    - apply Z.rem_nonpos; lia. }
  unfold idiv_m, idiv_spec.
  set (q := x ÷ y) in *. set (r := Z.rem x y) in *. clearbody q r.
  types t HT; range Hx; range Hy; range Hq; unfold arith; widths;
    (destruct (Z.eqb_spec y 0) as [?|_]; [contradiction|]); run;
    rewrite ?cast_eq by (cbn; lia); widths; consts; ifs; try lia; repeat f_equal; lia.
Qed.
