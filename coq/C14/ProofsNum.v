(* C14 proofs: abs, idiv, ipow, ilog2 for the eight integer types and all values of the
   documented domain. *)
From Tetl Require Import Lib.Base C14.Spec C14.Model C14.Arith.
From Coq Require Import ZifyBool.
Local Open Scope Z_scope.
Ltac Zify.zify_post_hook ::= Z.to_euclidean_division_equations.

(** abs: |x| whenever it is representable (i.e. x is not the most negative value) *)
Lemma abs_ok t : WT t -> forall x, in_ty t x = true -> in_ty t (Z.abs x) = true ->
  abs_m t x = Ok (abs_spec x).
Proof.
  intros HT x Hx Ha.
  types t HT; range Hx; range Ha; unfold abs_m, abs_spec, arith; widths; run; fin.
Qed.

(* the 8- and 16-bit types negate in int: abs of the minimum is the minimum again (no UB);
   for int and long the negation overflows *)
Lemma abs_min_small t : WT t -> sgn t = true -> bits t < 32 -> abs_m t (imin t) = Ok (imin t).
Proof. intros HT Hs Hb. types t HT; try discriminate; try (cbn in Hb; lia); reflexivity. Qed.
Lemma abs_min_ub t : WT t -> sgn t = true -> 32 <= bits t -> abs_m t (imin t) = UB SignedOverflow.
Proof. intros HT Hs Hb. types t HT; try discriminate; try (cbn in Hb; lia); reflexivity. Qed.

(** idiv: truncating quotient and remainder, whenever the quotient is representable *)
Lemma idiv_ok t : WT t -> forall x y, in_ty t x = true -> in_ty t y = true -> y <> 0 ->
  in_ty t (Z.quot x y) = true -> idiv_m t x y = Ok (idiv_spec x y).
Proof.
  intros HT x y Hx Hy Hy0 Hq.
  assert (Hr : Z.abs (Z.rem x y) < Z.abs y /\ (0 <= x -> 0 <= Z.rem x y) /\ (x <= 0 -> Z.rem x y <= 0)).
  { pose proof (Z.rem_bound_abs x y Hy0). 
    split; [lia|]. split; intros.
    - apply Z.rem_nonneg; lia.
    - apply Z.rem_nonpos; lia. }
  unfold idiv_m, idiv_spec.
  set (q := x ÷ y) in *. set (r := Z.rem x y) in *. clearbody q r.
  types t HT; range Hx; range Hy; range Hq; unfold arith; widths;
    (destruct (Z.eqb_spec y 0) as [?|_]; [contradiction|]); run;
    rewrite ?cast_eq, ?wu_eq by (cbn; lia); widths; consts; ifs; try lia; repeat f_equal; lia.
Qed.

(** ipow: base^e for e >= 0 whenever the power is representable *)

(* powers below a representable power are representable *)
Lemma abs_pow_le b j e : 1 <= Z.abs b -> 0 <= j <= e -> Z.abs (b ^ j) <= Z.abs (b ^ e).
Proof.
  intros Hb Hj. rewrite !Z.abs_pow. apply Z.pow_le_mono_r; lia.
Qed.

Lemma abs_pow_half b j e : 2 <= Z.abs b -> 0 <= j < e -> 2 * Z.abs (b ^ j) <= Z.abs (b ^ e).
Proof.
  intros Hb Hj.
  assert (H1 : Z.abs (b ^ (j + 1)) <= Z.abs (b ^ e)) by (apply abs_pow_le; lia).
  rewrite Z.pow_add_r, Z.pow_1_r, Z.abs_mul in H1 by lia.
  assert (0 <= Z.abs (b ^ j)) by lia. nia.
Qed.

Lemma pow_in_ty t b j e : WT t -> in_ty t b = true -> in_ty t (b ^ e) = true -> 0 <= j <= e ->
  in_ty t (b ^ j) = true.
Proof.
  intros HT Hb He Hj.
  destruct (Z.eq_dec j e) as [->|Hne]; [assumption|].
  destruct (Z.eq_dec j 0) as [->|Hj0]; [rewrite Z.pow_0_r; now apply in_ty_1|].
  destruct (Z.eq_dec b 0) as [->|Hb0]; [rewrite Z.pow_0_l by lia; now apply in_ty_0|].
  destruct (Z.eq_dec b 1) as [->|Hb1]; [rewrite Z.pow_1_l by lia; now apply in_ty_1|].
  destruct (Z.eq_dec b (-1)) as [->|Hbm].
  { assert (A : Z.abs ((-1) ^ j) = 1) by (rewrite Z.abs_pow; apply Z.pow_1_l; lia).
    types t HT; range Hb; try lia; apply in_ty_range; consts; lia. }
  assert (A : 2 * Z.abs (b ^ j) <= Z.abs (b ^ e)) by (apply abs_pow_half; lia).
  assert (P : 0 <= b -> 0 <= b ^ j) by (intros; apply Z.pow_nonneg; lia).
  types t HT; range Hb; range He; apply in_ty_range; consts; lia.
Qed.

Lemma ipow_loop_ok t b e : WT t -> in_ty t b = true -> in_ty t e = true ->
  (forall j, 0 <= j <= e -> in_ty t (b ^ j) = true) ->
  forall n i, 0 <= i <= e -> n = Z.to_nat (e - i) ->
  ipow_loop n t b e i (b ^ i) = Ok (b ^ e).
Proof.
  intros HT Hb He Hpow n.
  induction n as [|n IH]; intros i Hi Hn.
  - assert (i = e) by lia. subst i. cbn [ipow_loop]. now rewrite Z.ltb_irrefl.
  - cbn [ipow_loop]. destruct (Z.ltb_spec i e) as [L|L]; [|lia].
    assert (Hp : b ^ i * b = b ^ (i + 1)) by (rewrite Z.pow_add_r, Z.pow_1_r by lia; reflexivity).
    rewrite Hp, (arith_ok t (b ^ (i + 1))) by (auto; apply Hpow; lia).
    cbn [rbind].
    assert (Hi1 : in_ty t (i + 1) = true).
    { apply in_ty_range. apply in_ty_range in He.
      assert (imin t <= 0) by (unfold imin, smin; destruct (sgn t); [assert (0 < 2 ^ (bits t - 1)) by (apply Z.pow_pos_nonneg; (wcases HT; lia)); lia | lia]).
      lia. }
    rewrite (arith_ok t (i + 1)) by auto. cbn [rbind].
    rewrite !cast_id by (auto; apply Hpow; lia).
    apply IH; lia.
Qed.

Lemma ipow_ok t : WT t -> forall b e, in_ty t b = true -> in_ty t e = true -> 0 <= e ->
  in_ty t (b ^ e) = true -> ipow_m t b e = Ok (ipow_spec b e).
Proof.
  intros HT b e Hb He H0 Hp. unfold ipow_m, ipow_spec.
  change 1 with (b ^ 0).
  apply ipow_loop_ok; auto; try lia.
  intros j Hj. now apply (pow_in_ty t b j e).
Qed.

(* a negative exponent never enters the loop: the result is 1 (outside the documented domain) *)
Lemma ipow_negative t b e : e <= 0 -> ipow_m t b e = Ok 1.
Proof.
  intros He. unfold ipow_m. replace (Z.to_nat e) with O by lia. cbn [ipow_loop].
  destruct (Z.ltb_spec 0 e); [lia|reflexivity].
Qed.

(** ipow<2>(e) = 2^e *)
Lemma ipow2_ok t : WT t -> forall e, 0 <= e -> in_ty t (2 ^ e) = true -> ipow2_m t e = Ok (ipow_spec 2 e).
Proof.
  intros HT e H0 Hp. unfold ipow2_m, ipow_spec, shl.
  assert (He : e < bits t).
  { apply in_ty_range in Hp. apply (Z.pow_lt_mono_r_iff 2); try lia.
    - (wcases HT; lia).
    - assert (imax t < 2 ^ bits t); [|lia].
      unfold imax, smax, umax. destruct (sgn t); [|lia].
      assert (2 ^ (bits t - 1) < 2 ^ bits t); [|lia].
      apply Z.pow_lt_mono_r; (wcases HT; lia). }
  rewrite Z.shiftl_1_l.
  assert (Hb : bits t <= bits (promote t)).
  { unfold promote. destruct (Z.ltb_spec (bits t) 32); cbn; lia. }
  replace ((0 <=? e) && (e <? bits (promote t))) with true by lia.
  cbn [rbind]. f_equal.
  assert (Hc : cast (promote t) (2 ^ e) = 2 ^ e).
  { types t HT; range Hp; widths; unfold cast; cbn [sgn bits];
      first [apply ws_small | apply wu_small]; widths; consts; lia. }
  rewrite Hc. now apply cast_id.
Qed.

(** ilog2: floor(log2 x) for x >= 1 *)
Lemma ilog2_loop_ok t : WT t -> forall n x r, 1 <= x -> in_ty t x = true -> 0 <= r ->
  r + Z.log2 x <= 63 -> (Z.log2 x < Z.of_nat n) ->
  ilog2_loop n t x r = Ok (r + Z.log2 x).
Proof.
  intros HT n. induction n as [|n IH]; intros x r Hx Hin Hr Hsum Hn.
  - pose proof (Z.log2_nonneg x). lia.
  - cbn [ilog2_loop]. destruct (Z.gtb_spec x 1) as [G|G].
    + unfold shr.
      assert (Hb : 1 < bits (promote t)).
      { unfold promote. destruct (Z.ltb_spec (bits t) 32); cbn; (wcases HT; lia). }
      replace ((0 <=? 1) && (1 <? bits (promote t))) with true by lia.
      cbn [rbind].
      assert (Hh : Z.shiftr x 1 = x / 2) by (rewrite Z.shiftr_div_pow2 by lia; reflexivity).
      assert (Hl : Z.log2 (x / 2) = Z.log2 x - 1).
      { rewrite <- Hh, Z.log2_shiftr by lia. pose proof (Z.log2_pos x). lia. }
      assert (Hin2 : in_ty t (x / 2) = true).
      { apply in_ty_range. apply in_ty_range in Hin.
        assert (imin t <= 0) by (pose proof (in_ty_0 t HT) as Z0; apply in_ty_range in Z0; lia).
        assert (0 <= x / 2 <= x) by lia. lia. }
      assert (Hr1 : in_ty t (r + 1) = true).
      { pose proof (Z.log2_pos x). apply in_ty_range. types t HT; consts; lia. }
      rewrite (arith_ok t (r + 1)) by auto. cbn [rbind].
      rewrite Hh, !cast_id by auto.
      rewrite IH; try lia; auto.
      * f_equal. lia.
    + assert (x = 1) by lia. subst x. cbn. f_equal. lia.
Qed.

Lemma ilog2_ok t : WT t -> forall x, 1 <= x -> in_ty t x = true -> ilog2_m t x = Ok (ilog2_spec x).
Proof.
  intros HT x Hx Hin. unfold ilog2_m, ilog2_spec.
  assert (Hl : Z.log2 x < bits t).
  { apply Z.log2_lt_pow2; try lia. apply in_ty_range in Hin.
    assert (imax t < 2 ^ bits t); [|lia].
    types t HT; consts; lia. }
  rewrite (ilog2_loop_ok t HT _ x 0); auto; try lia; (wcases HT; lia).
Qed.

(* values below 1 leave the loop at once: the result is 0 (outside the documented domain) *)
Lemma ilog2_nonpositive t x : x <= 1 -> ilog2_m t x = Ok 0.
Proof.
  intros Hx. unfold ilog2_m. destruct (Z.to_nat (bits t)); cbn [ilog2_loop];
    destruct (Z.gtb_spec x 1); try lia; reflexivity.
Qed.

(** outside the documented domain: what the code does there, exactly *)
(* min / -1: the 8- and 16-bit types divide in int and convert back (min again, remainder 0); int and long overflow *)
Lemma idiv_min_small t : WT t -> sgn t = true -> bits t < 32 -> idiv_m t (imin t) (-1) = Ok (imin t, 0).
Proof. intros HT Hs Hb. types t HT; try discriminate; try (cbn in Hb; lia); reflexivity. Qed.
Lemma idiv_min_ub t : WT t -> sgn t = true -> 32 <= bits t -> idiv_m t (imin t) (-1) = UB SignedOverflow.
Proof. intros HT Hs Hb. types t HT; try discriminate; try (cbn in Hb; lia); reflexivity. Qed.
Lemma idiv_zero t x : idiv_m t x 0 = UB DivByZero.
Proof. reflexivity. Qed.

Lemma outside_domain t : WT t ->
  (sgn t = true -> bits t < 32 -> abs_m t (imin t) = Ok (imin t) /\ idiv_m t (imin t) (-1) = Ok (imin t, 0))
  /\ (sgn t = true -> 32 <= bits t -> abs_m t (imin t) = UB SignedOverflow /\ idiv_m t (imin t) (-1) = UB SignedOverflow)
  /\ (forall x, idiv_m t x 0 = UB DivByZero)
  /\ (forall b e, e <= 0 -> ipow_m t b e = Ok 1)
  /\ (forall x, x <= 1 -> ilog2_m t x = Ok 0).
Proof.
  intros HT.
  split; [intros Hs Hb; split; [now apply abs_min_small | now apply idiv_min_small]|].
  split; [intros Hs Hb; split; [now apply abs_min_ub | now apply idiv_min_ub]|].
  split; [intros x; apply idiv_zero|].
  split; [intros b e He; now apply ipow_negative | intros x Hx; now apply ilog2_nonpositive].
Qed.
