(* C14 — the specification read back against the wording of the standard (no code, no model involved):
   bit_ceil is the least power of two >= x, bit_floor the greatest power of two <= x, bit_width the position of
   the highest set bit, rotl stays in range, midpoint lies between its arguments with the odd half on a's side,
   byteswap of n bytes is an involution, countr_zero is the index of the lowest set bit (2^k divides x).
   Together with C14_rot's bit-by-bit reading of rotl_spec these are the Coq-side check that Spec.v says what
   [bit] / [numeric.ops] say; the run-time check is the comparison with libstdc++ on every run. *)
From Tetl Require Import Lib.Base C14.Spec C14.SpecFacts C14.Model C14.Arith C14.ProofsNum.
Local Open Scope Z_scope.

Theorem C14_spec_readback :
  (forall x, 0 <= x ->
     (exists k, 0 <= k /\ bit_ceil_spec x = 2 ^ k) /\ x <= bit_ceil_spec x
     /\ (forall k, 0 <= k -> x <= 2 ^ k -> bit_ceil_spec x <= 2 ^ k))
  /\ (forall x, 0 < x -> (exists k, 0 <= k /\ bit_floor_spec x = 2 ^ k) /\ bit_floor_spec x <= x < 2 * bit_floor_spec x)
  /\ (forall x, 0 <= x -> 0 <= bit_width_spec x /\ x < 2 ^ bit_width_spec x /\ (0 < x -> 2 ^ (bit_width_spec x - 1) <= x))
  /\ (forall w x s, 0 < w -> 0 <= x < 2 ^ w -> 0 <= rotl_spec w x s < 2 ^ w)
  /\ (forall a b,
        (a <= b -> a <= midpoint_spec a b <= b /\ 0 <= (b - midpoint_spec a b) - (midpoint_spec a b - a) <= 1)
        /\ (b <= a -> b <= midpoint_spec a b <= a /\ 0 <= (midpoint_spec a b - b) - (a - midpoint_spec a b) <= 1))
  /\ (forall n x, 0 <= x < 256 ^ Z.of_nat n ->
        0 <= byteswap_u_spec n x < 256 ^ Z.of_nat n /\ byteswap_u_spec n (byteswap_u_spec n x) = x)
  /\ (forall w x k, 0 <= k < w -> 0 <= x -> Z.testbit x k = true -> (forall j, 0 <= j < k -> Z.testbit x j = false) ->
        countr_zero_spec w x = k /\ x mod 2 ^ k = 0).
Proof. exact spec_facts. Qed.
Print Assumptions C14_spec_readback.

(** outside the documented domain the theorems of Properties.v say nothing; this is what the code (model) does
    there, exactly - so that "no result depends on overflow" is seen to hold precisely on the documented domain:
    abs(min) and idiv(min, -1) are computed in int for signed char / short (the result converts back to min) and are
    signed overflow (UB) for int / long; idiv by zero is a division by zero (no precondition in the code); ipow with a
    non-positive exponent is 1; ilog2 of a value below 2 is 0.  (div_sat by zero and single-bit positions >= digits
    are contract failures: C14_saturation, C14_single_bit; bit_ceil above 2^(w-1) is UB BadShift: C14_counts.) *)
Theorem C14_outside_domain : forall t, WT t ->
  (sgn t = true -> bits t < 32 -> abs_m t (imin t) = Ok (imin t) /\ idiv_m t (imin t) (-1) = Ok (imin t, 0))
  /\ (sgn t = true -> 32 <= bits t -> abs_m t (imin t) = UB SignedOverflow /\ idiv_m t (imin t) (-1) = UB SignedOverflow)
  /\ (forall x, idiv_m t x 0 = UB DivByZero)
  /\ (forall b e, e <= 0 -> ipow_m t b e = Ok 1)
  /\ (forall x, x <= 1 -> ilog2_m t x = Ok 0).
Proof. exact outside_domain. Qed.
Print Assumptions C14_outside_domain.
