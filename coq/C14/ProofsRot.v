(* C14 proofs: rotl / rotr for every width, every value and every count (any int, negative
   counts included): the count is reduced modulo the width. *)
From Tetl Require Import Lib.Base C14.Spec C14.Model C14.Arith C14.Bits.
From Coq Require Import ZifyBool Znumtheory.
Local Open Scope Z_scope.

(* static_cast<unsigned>(s) % digits = s mod digits, because the width divides 2^32 *)
Lemma rot_count w s : W w -> (wu 32 s) mod w = s mod w.
Proof.
  intros HW. rewrite wu_eq by lia. symmetry.
  apply Zmod_div_mod; [wcases HW; lia | lia |].
  destruct HW as [ -> | [ -> | [ -> | -> ] ] ];
    [exists (2 ^ 29) | exists (2 ^ 28) | exists (2 ^ 27) | exists (2 ^ 26)]; reflexivity.
Qed.

Lemma mod_pow2_add_low a' b r w : 0 <= r <= w -> 0 <= b < 2 ^ r ->
  (a' * 2 ^ r + b) mod 2 ^ w = (a' * 2 ^ r) mod 2 ^ w + b.
Proof.
  intros Hr Hb.
  assert (Pr : 0 < 2 ^ r) by (apply pow2_pos; lia).
  assert (Pw : 0 < 2 ^ (w - r)) by (apply pow2_pos; lia).
  assert (E : 2 ^ w = 2 ^ (w - r) * 2 ^ r) by (rewrite <- Z.pow_add_r by lia; f_equal; lia).
  rewrite E, Z.mul_mod_distr_r by lia.
  set (m := a' mod 2 ^ (w - r)). set (q := a' / 2 ^ (w - r)).
  assert (Hm : 0 <= m < 2 ^ (w - r)) by (apply Z.mod_pos_bound; lia).
  assert (Ha : a' = 2 ^ (w - r) * q + m) by (apply Z.div_mod; lia).
  symmetry. apply (Z.mod_unique_pos _ _ q); [nia|]. rewrite Ha at 1. ring.
Qed.

Lemma shr_U w x k : W w -> 0 <= k < w -> shr (U w) x k = Ok (x / 2 ^ k).
Proof.
  intros HW Hk. unfold shr.
  assert (Hb : w <= bits (promote (U w))) by (wcases HW; vm_compute; congruence).
  replace ((0 <=? k) && (k <? bits (promote (U w)))) with true by lia.
  now rewrite Z.shiftr_div_pow2 by lia.
Qed.

Lemma shl_small w x k : w = 8 \/ w = 16 -> 0 <= x < 2 ^ w -> 0 <= k < w -> shl (U w) x k = Ok (x * 2 ^ k).
Proof.
  intros HW Hx Hk. unfold shl.
  assert (P : 0 < 2 ^ k <= 2 ^ (w - 1)) by (split; [apply pow2_pos; lia | apply pow2_le; lia]).
  destruct HW as [ -> | -> ]; widths; (replace ((0 <=? k) && (k <? 32)) with true by lia);
    rewrite Z.shiftl_mul_pow2 by lia; f_equal; apply ws_small; widths; consts; nia.
Qed.

Lemma shl_big w x k : w = 32 \/ w = 64 -> 0 <= k < w -> shl (U w) x k = Ok ((x * 2 ^ k) mod 2 ^ w).
Proof.
  intros HW Hk. unfold shl.
  destruct HW as [ -> | -> ]; widths;
    match goal with |- context [(0 <=? k) && (k <? ?n)] => replace ((0 <=? k) && (k <? n)) with true by lia end;
    rewrite Z.shiftl_mul_pow2 by lia; f_equal; apply wu_eq; lia.
Qed.

(* the two halves of a rotation by k, 0 < k < w, put together *)
Lemma rot_join_small w x k : 0 < k < w -> 0 <= x < 2 ^ w ->
  wu w (Z.lor (x * 2 ^ k) (x / 2 ^ (w - k))) = (x * 2 ^ k) mod 2 ^ w + x / 2 ^ (w - k).
Proof.
  intros Hk Hx.
  assert (Pk : 0 < 2 ^ (w - k)) by (apply pow2_pos; lia).
  assert (E : 2 ^ w = 2 ^ (w - k) * 2 ^ k) by (rewrite <- Z.pow_add_r by lia; f_equal; lia).
  assert (Hb : 0 <= x / 2 ^ (w - k) < 2 ^ k).
  { split; [apply Z.div_pos; lia|]. apply Z.div_lt_upper_bound; lia. }
  rewrite lor_disjoint_add, wu_eq by lia. apply mod_pow2_add_low; lia.
Qed.

Lemma rot_join_big w x k : 0 < k < w -> 0 <= x < 2 ^ w ->
  wu w (Z.lor ((x * 2 ^ k) mod 2 ^ w) (x / 2 ^ (w - k))) = (x * 2 ^ k) mod 2 ^ w + x / 2 ^ (w - k).
Proof.
  intros Hk Hx.
  assert (Pk : 0 < 2 ^ (w - k)) by (apply pow2_pos; lia).
  assert (P2 : 0 < 2 ^ k) by (apply pow2_pos; lia).
  assert (E : 2 ^ w = 2 ^ (w - k) * 2 ^ k) by (rewrite <- Z.pow_add_r by lia; f_equal; lia).
  assert (Hb : 0 <= x / 2 ^ (w - k) < 2 ^ k).
  { split; [apply Z.div_pos; lia|]. apply Z.div_lt_upper_bound; lia. }
  assert (A : (x * 2 ^ k) mod 2 ^ w = (x mod 2 ^ (w - k)) * 2 ^ k) by (rewrite E; apply Z.mul_mod_distr_r; lia).
  rewrite A, lor_disjoint_add by lia.
  apply wu_small; [lia|].
  pose proof (Z.mod_pos_bound x (2 ^ (w - k)) Pk). nia.
Qed.

Lemma rot_zero w x : 0 <= w -> 0 <= x < 2 ^ w -> (x * 2 ^ 0) mod 2 ^ w + x / 2 ^ (w - 0) = x.
Proof.
  intros Hw Hx. rewrite Z.pow_0_r, Z.mul_1_r, Z.sub_0_r, Z.mod_small, Z.div_small by lia. lia.
Qed.

Lemma rotl_ok w x s : W w -> 0 <= x < 2 ^ w -> rotl_m w x s = Ok (rotl_spec w x s).
Proof.
  intros HW Hx. unfold rotl_m, rotl_spec. rewrite rot_count by assumption.
  pose proof (W_pos w HW) as Hp.
  assert (Hr : 0 <= s mod w < w) by (apply Z.mod_pos_bound; lia).
  set (r := s mod w) in *.
  destruct (Z.eqb_spec r 0) as [->|Hr0]; [now rewrite rot_zero by lia|].
  assert (Hwr : wu 32 (w - r) = w - r) by (apply wu_small; [lia | change (2 ^ 32) with 4294967296; lia]).
  rewrite Hwr, shr_U by (auto; lia).
  destruct HW as [ -> | [ -> | [ -> | -> ] ] ].
  - rewrite shl_small by (auto; lia). cbn [rbind]. f_equal. apply rot_join_small; lia.
  - rewrite shl_small by (auto; lia). cbn [rbind]. f_equal. apply rot_join_small; lia.
  - rewrite shl_big by (auto; lia). cbn [rbind]. f_equal. apply rot_join_big; lia.
  - rewrite shl_big by (auto; lia). cbn [rbind]. f_equal. apply rot_join_big; lia.
Qed.

Lemma rotr_ok w x s : W w -> 0 <= x < 2 ^ w -> rotr_m w x s = Ok (rotr_spec w x s).
Proof.
  intros HW Hx. unfold rotr_m, rotr_spec, rotl_spec. rewrite rot_count by assumption.
  pose proof (W_pos w HW) as Hp.
  assert (Hr : 0 <= s mod w < w) by (apply Z.mod_pos_bound; lia).
  destruct (Z.eqb_spec (s mod w) 0) as [E|Hr0].
  { rewrite Z.mod_opp_l_z by lia. now rewrite rot_zero by lia. }
  rewrite Z.mod_opp_l_nz by lia.
  set (r := s mod w) in *.
  assert (Hwr : wu 32 (w - r) = w - r) by (apply wu_small; [lia | change (2 ^ 32) with 4294967296; lia]).
  rewrite Hwr, shr_U by (auto; lia).
  replace (x / 2 ^ r) with (x / 2 ^ (w - (w - r))) by (do 2 f_equal; lia).
  destruct HW as [ -> | [ -> | [ -> | -> ] ] ].
  - rewrite shl_small by (auto; lia). cbn [rbind]. f_equal. rewrite Z.lor_comm. apply rot_join_small; lia.
  - rewrite shl_small by (auto; lia). cbn [rbind]. f_equal. rewrite Z.lor_comm. apply rot_join_small; lia.
  - rewrite shl_big by (auto; lia). cbn [rbind]. f_equal. rewrite Z.lor_comm. apply rot_join_big; lia.
  - rewrite shl_big by (auto; lia). cbn [rbind]. f_equal. rewrite Z.lor_comm. apply rot_join_big; lia.
Qed.

(* the specification itself, read bit by bit: bit i of rotl x s is bit (i - s) mod w of x *)
Lemma rotl_spec_bits w x s i : 0 < w -> 0 <= x < 2 ^ w -> 0 <= i < w ->
  Z.testbit (rotl_spec w x s) i = Z.testbit x ((i - s) mod w).
Proof.
  intros Hw Hx Hi. unfold rotl_spec.
  assert (Hr : 0 <= s mod w < w) by (apply Z.mod_pos_bound; lia).
  set (r := s mod w) in *.
  assert (Pk : 0 < 2 ^ (w - r)) by (apply pow2_pos; lia).
  assert (P2 : 0 < 2 ^ r) by (apply pow2_pos; lia).
  assert (E : 2 ^ w = 2 ^ (w - r) * 2 ^ r) by (rewrite <- Z.pow_add_r by lia; f_equal; lia).
  assert (Hb : 0 <= x / 2 ^ (w - r) < 2 ^ r).
  { split; [apply Z.div_pos; lia|]. apply Z.div_lt_upper_bound; lia. }
  assert (A : (x * 2 ^ r) mod 2 ^ w = (x mod 2 ^ (w - r)) * 2 ^ r) by (rewrite E; apply Z.mul_mod_distr_r; lia).
  rewrite A, <- lor_disjoint_add, Z.lor_spec by lia.
  assert (M : (i - s) mod w = if i <? r then i - r + w else i - r).
  { unfold r. destruct (Z.ltb_spec i (s mod w)) as [L|L].
    - symmetry. apply (Z.mod_unique_pos _ _ (- (s / w) - 1)); [lia|].
      pose proof (Z.div_mod s w ltac:(lia)). lia.
    - symmetry. apply (Z.mod_unique_pos _ _ (- (s / w))); [lia|].
      pose proof (Z.div_mod s w ltac:(lia)). lia. }
  rewrite M. destruct (Z.ltb_spec i r) as [L|L].
  - rewrite Z.mul_pow2_bits_low by lia. cbn [orb].
    rewrite Z.div_pow2_bits by lia. f_equal. lia.
  - rewrite Z.mul_pow2_bits by lia. rewrite Z.mod_pow2_bits_low by lia.
    rewrite (testbit_high (x / 2 ^ (w - r)) r i) by lia. apply orb_false_r.
Qed.

(* the three statements together, as Properties.v states them *)
Lemma rot_all w : W w -> forall x s, 0 <= x < 2 ^ w ->
  rotl_m w x s = Ok (rotl_spec w x s) /\ rotr_m w x s = Ok (rotr_spec w x s)
  /\ (forall i, 0 <= i < w -> Z.testbit (rotl_spec w x s) i = Z.testbit x ((i - s) mod w)).
Proof.
  intros HW x s Hx. pose proof (W_pos w HW) as Hp.
  split; [now apply rotl_ok | split; [now apply rotr_ok |]].
  intros i Hi. apply rotl_spec_bits; lia.
Qed.
