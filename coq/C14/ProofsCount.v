(* C14 proofs: countl_zero / countl_one (shift-left loops), countr_zero / countr_one (test_bit loops),
   bit_width, bit_floor, bit_ceil for every width and every value: induction over the loops. *)
From Tetl Require Import Lib.Base C14.Spec C14.Model C14.Arith C14.Bits C14.ProofsRot C14.ProofsBit.
From Coq Require Import ZifyBool.
Local Open Scope Z_scope.

(** * facts about the specification's bit runs *)
Lemma run_down_bounds b n i x : 0 <= run_down b n i x <= Z.of_nat n.
Proof.
  revert i. induction n as [|k IH]; intros i; cbn [run_down]; [lia|].
  destruct (Bool.eqb (Z.testbit x i) b); [specialize (IH (i - 1)); lia | lia].
Qed.

Lemma run_up_bounds b n i x : 0 <= run_up b n i x <= Z.of_nat n.
Proof.
  revert i. induction n as [|k IH]; intros i; cbn [run_up]; [lia|].
  destruct (Bool.eqb (Z.testbit x i) b); [specialize (IH (i + 1)); lia | lia].
Qed.

(* the run stops at the first bit (going down from i) that differs from b *)
Lemma run_down_stop b x : forall (m n : nat) i, (m < n)%nat ->
  (forall j, i - Z.of_nat m < j <= i -> Z.testbit x j = b) -> Z.testbit x (i - Z.of_nat m) = negb b ->
  run_down b n i x = Z.of_nat m.
Proof.
  induction m as [|m IH]; intros n i Hn Hall Hstop.
  - destruct n as [|n]; [lia|]. cbn [run_down]. replace (i - Z.of_nat 0) with i in Hstop by lia.
    rewrite Hstop. destruct b; reflexivity.
  - destruct n as [|n]; [lia|]. cbn [run_down]. rewrite (Hall i) by lia.
    rewrite Bool.eqb_reflx. rewrite (IH n (i - 1)); [lia | lia | |].
    + intros j Hj. apply Hall. lia.
    + replace (i - 1 - Z.of_nat m) with (i - Z.of_nat (S m)) by lia. exact Hstop.
Qed.

Lemma run_down_all b x : forall (n : nat) i,
  (forall j, i - Z.of_nat n < j <= i -> Z.testbit x j = b) -> run_down b n i x = Z.of_nat n.
Proof.
  induction n as [|n IH]; intros i Hall; [reflexivity|].
  cbn [run_down]. rewrite (Hall i) by lia. rewrite Bool.eqb_reflx.
  rewrite IH; [lia|]. intros j Hj. apply Hall. lia.
Qed.

Lemma ones_bits w i : 0 <= i < w -> Z.testbit (2 ^ w - 1) i = true.
Proof.
  intros Hi. replace (2 ^ w - 1) with (Z.ones w) by (rewrite Z.ones_equiv; lia).
  apply Z.ones_spec_low. lia.
Qed.

(* countl_zero of a non-zero value, in closed form *)
Lemma countl_zero_spec_log2 w x : 0 < w -> 0 < x < 2 ^ w -> countl_zero_spec w x = w - 1 - Z.log2 x.
Proof.
  intros Hw Hx. unfold countl_zero_spec.
  assert (Hl : 0 <= Z.log2 x < w).
  { split; [apply Z.log2_nonneg|]. apply Z.log2_lt_pow2; lia. }
  replace (w - 1 - Z.log2 x) with (Z.of_nat (Z.to_nat (w - 1 - Z.log2 x))) by lia.
  apply run_down_stop.
  - lia.
  - intros j Hj. apply Z.bits_above_log2; lia.
  - replace (w - 1 - Z.of_nat (Z.to_nat (w - 1 - Z.log2 x))) with (Z.log2 x) by lia.
    apply Z.bit_log2. lia.
Qed.

Lemma countl_zero_spec_0 w : 0 <= w -> countl_zero_spec w 0 = w.
Proof.
  intros Hw. unfold countl_zero_spec. rewrite run_down_all; [lia|].
  intros j _. apply Z.bits_0.
Qed.

Lemma countl_one_spec_max w : 0 <= w -> countl_one_spec w (2 ^ w - 1) = w.
Proof.
  intros Hw. unfold countl_one_spec. rewrite run_down_all; [lia|].
  intros j Hj. apply ones_bits. lia.
Qed.

(** * machine steps shared by the loops *)
Lemma incr_i32 r : 0 <= r <= 1000 -> arith_in i32 (r + 1) = Ok (r + 1).
Proof. intros Hr. apply arith_in_signed; [reflexivity | consts; lia]. Qed.

(* x << k followed by the conversion back to UInt: (x * 2^k) mod 2^w, and no bad shift *)
Lemma shl_wu w x k : W w -> 0 <= x < 2 ^ w -> 0 <= k < w ->
  exists y, shl (U w) x k = Ok y /\ wu w y = (x * 2 ^ k) mod 2 ^ w.
Proof.
  intros HW Hx Hk. pose proof (W_pos w HW).
  destruct (W_small_big w HW) as [S|B].
  - exists (x * 2 ^ k). split; [now apply shl_small | apply wu_eq; lia].
  - exists ((x * 2 ^ k) mod 2 ^ w). split; [now apply shl_big |].
    rewrite wu_eq by lia. apply Z.mod_mod. assert (0 < 2 ^ w) by (apply pow2_pos; lia). lia.
Qed.

Lemma top_mask_ok w : W w -> top_mask w = Ok (2 ^ (w - 1)).
Proof.
  intros HW. pose proof (W_pos w HW). unfold top_mask.
  assert (w - 1 < 2 ^ w).
  { destruct HW as [ -> | [ -> | [ -> | -> ] ] ]; consts; lia. }
  rewrite arith_U by (auto; lia). cbn [rbind]. apply shl_one; [assumption | lia].
Qed.

(** * countl_zero / countl_one *)
Lemma countl_loop_ok w b x : W w -> 0 <= x < 2 ^ w ->
  forall (n fuel : nat) r, Z.of_nat n <= w -> 0 <= r -> r + Z.of_nat n <= 1000 ->
  run_down b n (Z.of_nat n - 1) x <= Z.of_nat fuel ->
  (b = false -> run_down b n (Z.of_nat n - 1) x < Z.of_nat n) ->
  countl_loop fuel b w (2 ^ (w - 1)) ((x * 2 ^ (w - Z.of_nat n)) mod 2 ^ w) r
  = Ok (r + run_down b n (Z.of_nat n - 1) x).
Proof.
  intros HW Hx. pose proof (W_pos w HW) as Hp.
  assert (P : 0 < 2 ^ w) by (apply pow2_pos; lia).
  induction n as [|k IH]; intros fuel r Hn Hr Hr2 Hfuel Hstop.
  - cbn [run_down] in *. replace (w - Z.of_nat 0) with w by lia. rewrite Z.mod_mul by lia.
    destruct b; [|specialize (Hstop eq_refl); lia].
    rewrite Z.add_0_r. destruct fuel; reflexivity.
  - set (xj := (x * 2 ^ (w - Z.of_nat (S k))) mod 2 ^ w).
    assert (Hxj : 0 <= xj < 2 ^ w) by (apply Z.mod_pos_bound; lia).
    assert (Hbit : Z.testbit xj (w - 1) = Z.testbit x (Z.of_nat k)).
    { unfold xj. rewrite Z.mod_pow2_bits_low by lia. rewrite Z.mul_pow2_bits by lia. f_equal. lia. }
    assert (Hcond : negb (Z.land xj (2 ^ (w - 1)) =? 0) = Z.testbit x (Z.of_nat k)).
    { rewrite land_pow2, Hbit by lia. assert (0 < 2 ^ (w - 1)) by (apply pow2_pos; lia).
      destruct (Z.testbit x (Z.of_nat k)); [destruct (Z.eqb_spec (2 ^ (w - 1)) 0); [lia|reflexivity] | reflexivity]. }
    cbn [run_down] in *. replace (Z.of_nat (S k) - 1) with (Z.of_nat k) in * by lia.
    destruct (Bool.eqb (Z.testbit x (Z.of_nat k)) b) eqn:E.
    + pose proof (run_down_bounds b k (Z.of_nat k - 1) x) as Hb.
      destruct fuel as [|f]; [lia|].
      cbn [countl_loop]. rewrite Hcond, E.
      destruct (shl_wu w xj 1 HW Hxj ltac:(lia)) as (y & Hy & Hwy). rewrite Hy. cbn [rbind].
      rewrite incr_i32 by lia. cbn [rbind]. rewrite Hwy.
      assert (Hnext : (xj * 2 ^ 1) mod 2 ^ w = (x * 2 ^ (w - Z.of_nat k)) mod 2 ^ w).
      { unfold xj. rewrite Z.mul_mod_idemp_l by lia. f_equal. rewrite <- Z.mul_assoc. f_equal.
        rewrite <- Z.pow_add_r by lia. f_equal. lia. }
      rewrite Hnext. rewrite IH; try lia. f_equal. lia.
    + destruct fuel as [|f]; cbn [countl_loop]; rewrite Hcond, E; f_equal; lia.
Qed.

Lemma countl_start w x : 0 <= w -> 0 <= x < 2 ^ w -> (x * 2 ^ (w - Z.of_nat (Z.to_nat w))) mod 2 ^ w = x.
Proof. intros Hw Hx. replace (w - Z.of_nat (Z.to_nat w)) with 0 by lia. rewrite Z.mul_1_r. now apply Z.mod_small. Qed.

Lemma countl_zero_ok w x : W w -> 0 <= x < 2 ^ w -> countl_zero_m w x = Ok (countl_zero_spec w x).
Proof.
  intros HW Hx. pose proof (W_pos w HW) as Hp. unfold countl_zero_m.
  destruct (Z.eqb_spec x 0) as [->|Hx0]; [now rewrite countl_zero_spec_0 by lia|].
  rewrite top_mask_ok by assumption. cbn [rbind].
  pose proof (countl_zero_spec_log2 w x ltac:(lia) ltac:(lia)) as Hs.
  assert (Hl : 0 <= Z.log2 x) by apply Z.log2_nonneg.
  unfold countl_zero_spec in *.
  pose proof (countl_loop_ok w false x HW Hx (Z.to_nat w) (Z.to_nat w) 0) as L.
  rewrite countl_start in L by lia. replace (Z.of_nat (Z.to_nat w) - 1) with (w - 1) in L by lia.
  rewrite L; [reflexivity | lia | lia | lia | lia | intros _; lia].
Qed.

Lemma countl_one_ok w x : W w -> 0 <= x < 2 ^ w -> countl_one_m w x = Ok (countl_one_spec w x).
Proof.
  intros HW Hx. pose proof (W_pos w HW) as Hp. unfold countl_one_m.
  replace (tmax (U w)) with (2 ^ w - 1) by (unfold tmax; cbn [U sgn bits]; now rewrite pow2_eq).
  destruct (Z.eqb_spec x (2 ^ w - 1)) as [->|Hx0]; [now rewrite countl_one_spec_max by lia|].
  rewrite top_mask_ok by assumption. cbn [rbind].
  unfold countl_one_spec.
  pose proof (countl_loop_ok w true x HW Hx (Z.to_nat w) (Z.to_nat w) 0) as L.
  rewrite countl_start in L by lia. replace (Z.of_nat (Z.to_nat w) - 1) with (w - 1) in L by lia.
  pose proof (run_down_bounds true (Z.to_nat w) (w - 1) x).
  rewrite L; [reflexivity | lia | lia | lia | lia | discriminate].
Qed.

(** * countr_zero / countr_one *)
Lemma countr_loop_ok w s x : W w -> 0 <= x < 2 ^ w ->
  forall (n fuel : nat) r, r = w - Z.of_nat n -> 0 <= r -> (n <= fuel)%nat ->
  countr_loop fuel s w x r = Ok (r + run_up (negb s) n r x).
Proof.
  intros HW Hx. pose proof (W_pos w HW) as Hp.
  induction n as [|k IH]; intros fuel r Hr Hr0 Hfuel.
  - cbn [run_up]. rewrite Z.add_0_r.
    destruct fuel; cbn [countr_loop]; (replace (r =? w) with true by lia); reflexivity.
  - destruct fuel as [|f]; [lia|]. cbn [countr_loop run_up].
    replace (r =? w) with false by lia.
    assert (r < 2 ^ w).
    { assert (w < 2 ^ w); [|lia]. destruct HW as [ -> | [ -> | [ -> | -> ] ] ]; consts; lia. }
    rewrite wu_small by lia. rewrite test_bit_ok by (auto; lia). cbn [rbind]. unfold test_bit_spec.
    destruct (Z.testbit x r), s; cbn [Bool.eqb negb]; try (f_equal; lia);
      rewrite incr_i32 by lia; cbn [rbind]; rewrite (IH f (r + 1)) by lia; cbn [negb]; f_equal; lia.
Qed.

Lemma countr_zero_ok w x : W w -> 0 <= x < 2 ^ w -> countr_zero_m w x = Ok (countr_zero_spec w x).
Proof.
  intros HW Hx. pose proof (W_pos w HW). unfold countr_zero_m, countr_zero_spec.
  now rewrite (countr_loop_ok w true x HW Hx (Z.to_nat w)) by lia.
Qed.

Lemma countr_one_ok w x : W w -> 0 <= x < 2 ^ w -> countr_one_m w x = Ok (countr_one_spec w x).
Proof.
  intros HW Hx. pose proof (W_pos w HW). unfold countr_one_m, countr_one_spec.
  now rewrite (countr_loop_ok w false x HW Hx (Z.to_nat w)) by lia.
Qed.

(** * bit_width, bit_floor, bit_ceil *)
Lemma bit_width_ok w x : W w -> 0 <= x < 2 ^ w -> bit_width_m w x = Ok (bit_width_spec x).
Proof.
  intros HW Hx. pose proof (W_pos w HW). unfold bit_width_m, bit_width_spec.
  rewrite countl_zero_ok by assumption. cbn [rbind].
  destruct (Z.eqb_spec x 0) as [->|Hx0].
  - rewrite countl_zero_spec_0 by lia. rewrite arith_in_signed; [f_equal; lia | reflexivity | consts; lia].
  - rewrite countl_zero_spec_log2 by lia.
    assert (0 <= Z.log2 x < w) by (split; [apply Z.log2_nonneg | apply Z.log2_lt_pow2; lia]).
    rewrite arith_in_signed; [f_equal; lia | reflexivity | consts; lia].
Qed.

Lemma bit_floor_ok w x : W w -> 0 <= x < 2 ^ w -> bit_floor_m w x = Ok (bit_floor_spec x).
Proof.
  intros HW Hx. pose proof (W_pos w HW). unfold bit_floor_m, bit_floor_spec.
  destruct (Z.eqb_spec x 0) as [->|Hx0]; [reflexivity|].
  rewrite bit_width_ok by assumption. cbn [rbind]. unfold bit_width_spec.
  replace (x =? 0) with false by lia.
  assert (Hl : 0 <= Z.log2 x < w) by (split; [apply Z.log2_nonneg | apply Z.log2_lt_pow2; lia]).
  assert (Hw2 : w < 2 ^ w) by (destruct HW as [ -> | [ -> | [ -> | -> ] ] ]; consts; lia).
  rewrite (wu_small w (Z.log2 x + 1)) by lia.
  rewrite arith_U by (auto; lia). cbn [rbind].
  replace (Z.log2 x + 1 - 1) with (Z.log2 x) by lia.
  rewrite (wu_small w (Z.log2 x)) by lia.
  rewrite shl_one by (auto; lia). cbn [rbind]. f_equal.
  apply wu_small; [lia | apply pow2_range; lia].
Qed.

Lemma log2_up_pred x : 1 < x -> Z.log2_up x = Z.log2 (x - 1) + 1.
Proof.
  intros Hx. unfold Z.log2_up. destruct (Z.compare_spec 1 x); try lia.
  rewrite <- Z.sub_1_r. lia.
Qed.

Lemma bit_ceil_ok w x : W w -> 0 <= x <= 2 ^ (w - 1) -> bit_ceil_m w x = Ok (bit_ceil_spec x).
Proof.
  intros HW Hx. pose proof (W_pos w HW) as Hp. unfold bit_ceil_m, bit_ceil_spec.
  assert (Hhalf : 2 ^ w = 2 * 2 ^ (w - 1)) by (rewrite <- Z.pow_succ_r by lia; f_equal; lia).
  assert (Ph : 0 < 2 ^ (w - 1)) by (apply pow2_pos; lia).
  destruct (Z.leb_spec x 1) as [L|L].
  - f_equal. assert (x = 0 \/ x = 1) as [-> | ->] by lia; reflexivity.
  - rewrite log2_up_pred by lia.
    assert (Hl : 0 <= Z.log2 (x - 1) < w - 1).
    { split; [apply Z.log2_nonneg | apply Z.log2_lt_pow2; lia]. }
    set (l := Z.log2 (x - 1)) in *.
    assert (Hbw : bit_width_m w (x - 1) = Ok (l + 1)).
    { rewrite bit_width_ok by (auto; lia). unfold bit_width_spec. replace (x - 1 =? 0) with false by lia. reflexivity. }
    destruct (Z.leb_spec 32 w) as [B|S].
    + rewrite arith_U by (auto; lia). cbn [rbind]. rewrite Hbw. cbn [rbind].
      apply shl_one; [assumption | lia].
    + assert (Hw : w = 8 \/ w = 16) by (destruct HW as [ -> | [ -> | [ -> | -> ] ] ]; lia).
      assert (E1 : wu w (wu 32 (x - 1)) = x - 1).
      { assert (Hx32 : 0 <= x - 1 < 2 ^ 32) by (pose proof (pow2_le (w - 1) 32 ltac:(lia)); lia).
        rewrite (wu_small 32) by lia. apply wu_small; lia. }
      rewrite E1, Hbw. cbn [rbind].
      rewrite arith_in_signed by (try reflexivity; consts; lia). cbn [rbind].
      assert (W32 : W 32) by (unfold W; lia).
      change u32 with (U 32).
      rewrite (shl_one 32) by (auto; lia). cbn [rbind].
      rewrite (shr_U 32) by (auto; lia). cbn [rbind]. f_equal.
      replace (l + 1 + (32 - w)) with ((l + 1) + (32 - w)) by lia.
      rewrite Z.pow_add_r by lia. rewrite Z.div_mul by (assert (0 < 2 ^ (32 - w)) by (apply pow2_pos; lia); lia).
      apply wu_small; [lia | apply pow2_range; lia].
Qed.

(* above the standard's domain (no representable power of two >= x) the code shifts by the full width of the
   (promoted) operand: undefined behaviour, never a wrong value *)
Lemma bit_ceil_out_of_domain w x : W w -> 2 ^ (w - 1) < x < 2 ^ w -> bit_ceil_m w x = UB BadShift.
Proof.
  intros HW Hx. pose proof (W_pos w HW) as Hp. unfold bit_ceil_m.
  assert (Ph : 0 < 2 ^ (w - 1)) by (apply pow2_pos; lia).
  replace (x <=? 1) with false by lia.
  assert (Hl : Z.log2 (x - 1) = w - 1).
  { apply Z.log2_unique; [lia|]. replace (Z.succ (w - 1)) with w by lia. lia. }
  assert (Hbw : bit_width_m w (x - 1) = Ok w).
  { rewrite bit_width_ok by (auto; lia). unfold bit_width_spec. replace (x - 1 =? 0) with false by lia.
    rewrite Hl. f_equal. lia. }
  destruct (Z.leb_spec 32 w) as [B|S].
  - rewrite arith_U by (auto; lia). cbn [rbind]. rewrite Hbw. cbn [rbind].
    unfold shl. assert (Hb : bits (promote (U w)) = w).
    { destruct HW as [ -> | [ -> | [ -> | -> ] ] ]; try lia; reflexivity. }
    rewrite Hb. replace ((0 <=? w) && (w <? w)) with false by lia. reflexivity.
  - assert (Hw : w = 8 \/ w = 16) by (destruct HW as [ -> | [ -> | [ -> | -> ] ] ]; lia).
    assert (E1 : wu w (wu 32 (x - 1)) = x - 1).
    { assert (Hx32 : 0 <= x - 1 < 2 ^ 32) by (pose proof (pow2_le w 32 ltac:(lia)); lia).
      rewrite (wu_small 32) by lia. apply wu_small; lia. }
    rewrite E1, Hbw. cbn [rbind].
    rewrite arith_in_signed by (try reflexivity; consts; lia). cbn [rbind].
    replace (w + (32 - w)) with 32 by lia. reflexivity.
Qed.

(* all of the above, as Properties.v states them *)
Lemma count_all w : W w -> forall x, 0 <= x < 2 ^ w ->
  countl_zero_m w x = Ok (countl_zero_spec w x) /\ countl_one_m w x = Ok (countl_one_spec w x)
  /\ countr_zero_m w x = Ok (countr_zero_spec w x) /\ countr_one_m w x = Ok (countr_one_spec w x)
  /\ bit_width_m w x = Ok (bit_width_spec x) /\ bit_floor_m w x = Ok (bit_floor_spec x)
  /\ (bit_ceil_dom w x = true -> bit_ceil_m w x = Ok (bit_ceil_spec x))
  /\ (bit_ceil_dom w x = false -> bit_ceil_m w x = UB BadShift).
Proof.
  intros HW x Hx.
  split; [now apply countl_zero_ok|]. split; [now apply countl_one_ok|]. split; [now apply countr_zero_ok|].
  split; [now apply countr_one_ok|]. split; [now apply bit_width_ok|]. split; [now apply bit_floor_ok|].
  unfold bit_ceil_dom. split; intros Hd.
  - apply bit_ceil_ok; [assumption | lia].
  - apply bit_ceil_out_of_domain; [assumption | lia].
Qed.
