(* C14, translator tie, end to end: the kernels REGENERATED from /repo's current source (coq/Gen/Gen_bits.v)
   return exactly the mathematical definition of Spec.v on the documented domain — the composition of
   GenEquiv.v (generated = model) with the property lemmas (model = specification). *)
From Tetl Require Import Lib.Base Lib.MachOps C14.Spec C14.Model C14.Arith C14.ProofsRot C14.ProofsBit C14.ProofsMid C14.ProofsSat C14.ProofsCmp C14.ProofsNum C14.GenEquiv.
From Tetl Require Gen.Gen_bits.
Local Open Scope Z_scope.

Lemma W8 : W 8. Proof. unfold W; lia. Qed.
Lemma W16 : W 16. Proof. unfold W; lia. Qed.
Lemma W32 : W 32. Proof. unfold W; lia. Qed.
Lemma W64 : W 64. Proof. unfold W; lia. Qed.

Lemma rot_u8_spec x s : 0 <= x < 2 ^ 8 ->
  Gen_bits.rotl_u8_g x s = Some (rotl_spec 8 x s) /\ Gen_bits.rotr_u8_g x s = Some (rotr_spec 8 x s).
Proof. intros H. rewrite rotl_u8_eq, rotr_u8_eq, (rotl_ok 8 x s W8 H), (rotr_ok 8 x s W8 H) by exact H. split; reflexivity. Qed.

Lemma bit_u8_spec word pos v : 0 <= word < 2 ^ 8 -> 0 <= pos < 8 ->
  Gen_bits.test_bit_u8_g word pos = Some (test_bit_spec word pos)
  /\ Gen_bits.set_bit_u8_g word pos = Some (set_bit_spec word pos)
  /\ Gen_bits.set_bit_val_u8_g word pos v = Some (assign_bit_spec word pos v)
  /\ Gen_bits.reset_bit_u8_g word pos = Some (reset_bit_spec word pos)
  /\ Gen_bits.flip_bit_u8_g word pos = Some (flip_bit_spec word pos).
Proof.
  intros Hw Hp.
  rewrite test_bit_u8_eq, set_bit_u8_eq, set_bit_val_u8_eq, reset_bit_u8_eq, flip_bit_u8_eq by assumption.
  rewrite (test_bit_ok 8 word pos W8 Hw Hp), (set_bit_ok 8 word pos W8 Hw Hp), (assign_bit_ok 8 word pos v W8 Hw Hp),
    (reset_bit_ok 8 word pos W8 Hw Hp), (flip_bit_ok 8 word pos W8 Hw Hp).
  repeat (split; [reflexivity|]). reflexivity.
Qed.

Lemma rot_u16_spec x s : 0 <= x < 2 ^ 16 ->
  Gen_bits.rotl_u16_g x s = Some (rotl_spec 16 x s) /\ Gen_bits.rotr_u16_g x s = Some (rotr_spec 16 x s).
Proof. intros H. rewrite rotl_u16_eq, rotr_u16_eq, (rotl_ok 16 x s W16 H), (rotr_ok 16 x s W16 H) by exact H. split; reflexivity. Qed.

Lemma bit_u16_spec word pos v : 0 <= word < 2 ^ 16 -> 0 <= pos < 16 ->
  Gen_bits.test_bit_u16_g word pos = Some (test_bit_spec word pos)
  /\ Gen_bits.set_bit_u16_g word pos = Some (set_bit_spec word pos)
  /\ Gen_bits.set_bit_val_u16_g word pos v = Some (assign_bit_spec word pos v)
  /\ Gen_bits.reset_bit_u16_g word pos = Some (reset_bit_spec word pos)
  /\ Gen_bits.flip_bit_u16_g word pos = Some (flip_bit_spec word pos).
Proof.
  intros Hw Hp.
  rewrite test_bit_u16_eq, set_bit_u16_eq, set_bit_val_u16_eq, reset_bit_u16_eq, flip_bit_u16_eq by assumption.
  rewrite (test_bit_ok 16 word pos W16 Hw Hp), (set_bit_ok 16 word pos W16 Hw Hp), (assign_bit_ok 16 word pos v W16 Hw Hp),
    (reset_bit_ok 16 word pos W16 Hw Hp), (flip_bit_ok 16 word pos W16 Hw Hp).
  repeat (split; [reflexivity|]). reflexivity.
Qed.

Lemma rot_u32_spec x s : 0 <= x < 2 ^ 32 ->
  Gen_bits.rotl_u32_g x s = Some (rotl_spec 32 x s) /\ Gen_bits.rotr_u32_g x s = Some (rotr_spec 32 x s).
Proof. intros H. rewrite rotl_u32_eq, rotr_u32_eq, (rotl_ok 32 x s W32 H), (rotr_ok 32 x s W32 H) by exact H. split; reflexivity. Qed.

Lemma bit_u32_spec word pos v : 0 <= word < 2 ^ 32 -> 0 <= pos < 32 ->
  Gen_bits.test_bit_u32_g word pos = Some (test_bit_spec word pos)
  /\ Gen_bits.set_bit_u32_g word pos = Some (set_bit_spec word pos)
  /\ Gen_bits.set_bit_val_u32_g word pos v = Some (assign_bit_spec word pos v)
  /\ Gen_bits.reset_bit_u32_g word pos = Some (reset_bit_spec word pos)
  /\ Gen_bits.flip_bit_u32_g word pos = Some (flip_bit_spec word pos).
Proof.
  intros Hw Hp.
  rewrite test_bit_u32_eq, set_bit_u32_eq, set_bit_val_u32_eq, reset_bit_u32_eq, flip_bit_u32_eq by assumption.
  rewrite (test_bit_ok 32 word pos W32 Hw Hp), (set_bit_ok 32 word pos W32 Hw Hp), (assign_bit_ok 32 word pos v W32 Hw Hp),
    (reset_bit_ok 32 word pos W32 Hw Hp), (flip_bit_ok 32 word pos W32 Hw Hp).
  repeat (split; [reflexivity|]). reflexivity.
Qed.

Lemma rot_u64_spec x s : 0 <= x < 2 ^ 64 ->
  Gen_bits.rotl_u64_g x s = Some (rotl_spec 64 x s) /\ Gen_bits.rotr_u64_g x s = Some (rotr_spec 64 x s).
Proof. intros H. rewrite rotl_u64_eq, rotr_u64_eq, (rotl_ok 64 x s W64 H), (rotr_ok 64 x s W64 H) by exact H. split; reflexivity. Qed.

Lemma bit_u64_spec word pos v : 0 <= word < 2 ^ 64 -> 0 <= pos < 64 ->
  Gen_bits.test_bit_u64_g word pos = Some (test_bit_spec word pos)
  /\ Gen_bits.set_bit_u64_g word pos = Some (set_bit_spec word pos)
  /\ Gen_bits.set_bit_val_u64_g word pos v = Some (assign_bit_spec word pos v)
  /\ Gen_bits.reset_bit_u64_g word pos = Some (reset_bit_spec word pos)
  /\ Gen_bits.flip_bit_u64_g word pos = Some (flip_bit_spec word pos).
Proof.
  intros Hw Hp.
  rewrite test_bit_u64_eq, set_bit_u64_eq, set_bit_val_u64_eq, reset_bit_u64_eq, flip_bit_u64_eq by assumption.
  rewrite (test_bit_ok 64 word pos W64 Hw Hp), (set_bit_ok 64 word pos W64 Hw Hp), (assign_bit_ok 64 word pos v W64 Hw Hp),
    (reset_bit_ok 64 word pos W64 Hw Hp), (flip_bit_ok 64 word pos W64 Hw Hp).
  repeat (split; [reflexivity|]). reflexivity.
Qed.

Lemma mid_i8_spec a b : in_ty i8 a = true -> in_ty i8 b = true -> Gen_bits.midpoint_i8_g a b = Some (midpoint_spec a b).
Proof. intros Ha Hb. rewrite midpoint_i8_eq, (midpoint_ok i8 ltac:(unfold WT, W; cbn; lia) a b Ha Hb). reflexivity. Qed.

Lemma mid_i16_spec a b : in_ty i16 a = true -> in_ty i16 b = true -> Gen_bits.midpoint_i16_g a b = Some (midpoint_spec a b).
Proof. intros Ha Hb. rewrite midpoint_i16_eq, (midpoint_ok i16 ltac:(unfold WT, W; cbn; lia) a b Ha Hb). reflexivity. Qed.

Lemma mid_i32_spec a b : in_ty i32 a = true -> in_ty i32 b = true -> Gen_bits.midpoint_i32_g a b = Some (midpoint_spec a b).
Proof. intros Ha Hb. rewrite midpoint_i32_eq, (midpoint_ok i32 ltac:(unfold WT, W; cbn; lia) a b Ha Hb). reflexivity. Qed.

Lemma mid_i64_spec a b : in_ty i64 a = true -> in_ty i64 b = true -> Gen_bits.midpoint_i64_g a b = Some (midpoint_spec a b).
Proof. intros Ha Hb. rewrite midpoint_i64_eq, (midpoint_ok i64 ltac:(unfold WT, W; cbn; lia) a b Ha Hb). reflexivity. Qed.

Lemma mid_u32_spec a b : in_ty u32 a = true -> in_ty u32 b = true -> Gen_bits.midpoint_u32_g a b = Some (midpoint_spec a b).
Proof. intros Ha Hb. rewrite midpoint_u32_eq, (midpoint_ok u32 ltac:(unfold WT, W; cbn; lia) a b Ha Hb). reflexivity. Qed.

Lemma mid_u64_spec a b : in_ty u64 a = true -> in_ty u64 b = true -> Gen_bits.midpoint_u64_g a b = Some (midpoint_spec a b).
Proof. intros Ha Hb. rewrite midpoint_u64_eq, (midpoint_ok u64 ltac:(unfold WT, W; cbn; lia) a b Ha Hb). reflexivity. Qed.

Lemma mid_u8_spec a b : in_ty u8 a = true -> in_ty u8 b = true -> Gen_bits.midpoint_u8_g a b = Some (midpoint_spec a b).
Proof. intros Ha Hb. rewrite midpoint_u8_eq, (midpoint_ok u8 ltac:(unfold WT, W; cbn; lia) a b Ha Hb) by assumption. reflexivity. Qed.

Lemma mid_u16_spec a b : in_ty u16 a = true -> in_ty u16 b = true -> Gen_bits.midpoint_u16_g a b = Some (midpoint_spec a b).
Proof. intros Ha Hb. rewrite midpoint_u16_eq, (midpoint_ok u16 ltac:(unfold WT, W; cbn; lia) a b Ha Hb) by assumption. reflexivity. Qed.

Lemma gen_spec_all : forall x s word pos v a b,
  (0 <= x < 2 ^ 8 -> Gen_bits.rotl_u8_g x s = Some (rotl_spec 8 x s) /\ Gen_bits.rotr_u8_g x s = Some (rotr_spec 8 x s))
  /\ (0 <= x < 2 ^ 16 -> Gen_bits.rotl_u16_g x s = Some (rotl_spec 16 x s) /\ Gen_bits.rotr_u16_g x s = Some (rotr_spec 16 x s))
  /\ (0 <= x < 2 ^ 32 -> Gen_bits.rotl_u32_g x s = Some (rotl_spec 32 x s) /\ Gen_bits.rotr_u32_g x s = Some (rotr_spec 32 x s))
  /\ (0 <= x < 2 ^ 64 -> Gen_bits.rotl_u64_g x s = Some (rotl_spec 64 x s) /\ Gen_bits.rotr_u64_g x s = Some (rotr_spec 64 x s))
  /\ (0 <= word < 2 ^ 8 -> 0 <= pos < 8 ->
      Gen_bits.test_bit_u8_g word pos = Some (test_bit_spec word pos)
      /\ Gen_bits.set_bit_u8_g word pos = Some (set_bit_spec word pos)
      /\ Gen_bits.set_bit_val_u8_g word pos v = Some (assign_bit_spec word pos v)
      /\ Gen_bits.reset_bit_u8_g word pos = Some (reset_bit_spec word pos)
      /\ Gen_bits.flip_bit_u8_g word pos = Some (flip_bit_spec word pos))
  /\ (0 <= word < 2 ^ 16 -> 0 <= pos < 16 ->
      Gen_bits.test_bit_u16_g word pos = Some (test_bit_spec word pos)
      /\ Gen_bits.set_bit_u16_g word pos = Some (set_bit_spec word pos)
      /\ Gen_bits.set_bit_val_u16_g word pos v = Some (assign_bit_spec word pos v)
      /\ Gen_bits.reset_bit_u16_g word pos = Some (reset_bit_spec word pos)
      /\ Gen_bits.flip_bit_u16_g word pos = Some (flip_bit_spec word pos))
  /\ (0 <= word < 2 ^ 32 -> 0 <= pos < 32 ->
      Gen_bits.test_bit_u32_g word pos = Some (test_bit_spec word pos)
      /\ Gen_bits.set_bit_u32_g word pos = Some (set_bit_spec word pos)
      /\ Gen_bits.set_bit_val_u32_g word pos v = Some (assign_bit_spec word pos v)
      /\ Gen_bits.reset_bit_u32_g word pos = Some (reset_bit_spec word pos)
      /\ Gen_bits.flip_bit_u32_g word pos = Some (flip_bit_spec word pos))
  /\ (0 <= word < 2 ^ 64 -> 0 <= pos < 64 ->
      Gen_bits.test_bit_u64_g word pos = Some (test_bit_spec word pos)
      /\ Gen_bits.set_bit_u64_g word pos = Some (set_bit_spec word pos)
      /\ Gen_bits.set_bit_val_u64_g word pos v = Some (assign_bit_spec word pos v)
      /\ Gen_bits.reset_bit_u64_g word pos = Some (reset_bit_spec word pos)
      /\ Gen_bits.flip_bit_u64_g word pos = Some (flip_bit_spec word pos))
  /\ (in_ty i8 a = true -> in_ty i8 b = true -> Gen_bits.midpoint_i8_g a b = Some (midpoint_spec a b))
  /\ (in_ty i16 a = true -> in_ty i16 b = true -> Gen_bits.midpoint_i16_g a b = Some (midpoint_spec a b))
  /\ (in_ty i32 a = true -> in_ty i32 b = true -> Gen_bits.midpoint_i32_g a b = Some (midpoint_spec a b))
  /\ (in_ty i64 a = true -> in_ty i64 b = true -> Gen_bits.midpoint_i64_g a b = Some (midpoint_spec a b))
  /\ (in_ty u8 a = true -> in_ty u8 b = true -> Gen_bits.midpoint_u8_g a b = Some (midpoint_spec a b))
  /\ (in_ty u16 a = true -> in_ty u16 b = true -> Gen_bits.midpoint_u16_g a b = Some (midpoint_spec a b))
  /\ (in_ty u32 a = true -> in_ty u32 b = true -> Gen_bits.midpoint_u32_g a b = Some (midpoint_spec a b))
  /\ (in_ty u64 a = true -> in_ty u64 b = true -> Gen_bits.midpoint_u64_g a b = Some (midpoint_spec a b)).
Proof.
  intros x s word pos v a b. exact (conj (rot_u8_spec x s) (conj (rot_u16_spec x s) (conj (rot_u32_spec x s) (conj (rot_u64_spec x s) (conj (bit_u8_spec word pos v) (conj (bit_u16_spec word pos v) (conj (bit_u32_spec word pos v) (conj (bit_u64_spec word pos v) (conj (mid_i8_spec a b) (conj (mid_i16_spec a b) (conj (mid_i32_spec a b) (conj (mid_i64_spec a b) (conj (mid_u8_spec a b) (conj (mid_u16_spec a b) (conj (mid_u32_spec a b) (mid_u64_spec a b)))))))))))))))).
Qed.

(** * second batch *)
Lemma div_sat_i8_spec x y : in_ty i8 x = true -> in_ty i8 y = true -> y <> 0 ->
  Gen_bits.div_sat_i8_g x y = Some (div_sat_spec i8 x y).
Proof. intros Hx Hy Hy0. rewrite div_sat_i8_eq. rewrite (div_sat_ok i8 ltac:(unfold WT, W; cbn; lia) x y Hx Hy Hy0). reflexivity. Qed.

Lemma div_sat_i16_spec x y : in_ty i16 x = true -> in_ty i16 y = true -> y <> 0 ->
  Gen_bits.div_sat_i16_g x y = Some (div_sat_spec i16 x y).
Proof. intros Hx Hy Hy0. rewrite div_sat_i16_eq. rewrite (div_sat_ok i16 ltac:(unfold WT, W; cbn; lia) x y Hx Hy Hy0). reflexivity. Qed.

Lemma div_sat_i32_spec x y : in_ty i32 x = true -> in_ty i32 y = true -> y <> 0 ->
  Gen_bits.div_sat_i32_g x y = Some (div_sat_spec i32 x y).
Proof. intros Hx Hy Hy0. rewrite div_sat_i32_eq. rewrite (div_sat_ok i32 ltac:(unfold WT, W; cbn; lia) x y Hx Hy Hy0). reflexivity. Qed.

Lemma div_sat_i64_spec x y : in_ty i64 x = true -> in_ty i64 y = true -> y <> 0 ->
  Gen_bits.div_sat_i64_g x y = Some (div_sat_spec i64 x y).
Proof. intros Hx Hy Hy0. rewrite div_sat_i64_eq. rewrite (div_sat_ok i64 ltac:(unfold WT, W; cbn; lia) x y Hx Hy Hy0). reflexivity. Qed.

Lemma div_sat_u8_spec x y : in_ty u8 x = true -> in_ty u8 y = true -> y <> 0 ->
  Gen_bits.div_sat_u8_g x y = Some (div_sat_spec u8 x y).
Proof. intros Hx Hy Hy0. rewrite div_sat_u8_eq. rewrite (div_sat_ok u8 ltac:(unfold WT, W; cbn; lia) x y Hx Hy Hy0). reflexivity. Qed.

Lemma div_sat_u16_spec x y : in_ty u16 x = true -> in_ty u16 y = true -> y <> 0 ->
  Gen_bits.div_sat_u16_g x y = Some (div_sat_spec u16 x y).
Proof. intros Hx Hy Hy0. rewrite div_sat_u16_eq. rewrite (div_sat_ok u16 ltac:(unfold WT, W; cbn; lia) x y Hx Hy Hy0). reflexivity. Qed.

Lemma div_sat_u32_spec x y : in_ty u32 x = true -> in_ty u32 y = true -> y <> 0 ->
  Gen_bits.div_sat_u32_g x y = Some (div_sat_spec u32 x y).
Proof. intros Hx Hy Hy0. rewrite div_sat_u32_eq by assumption. rewrite (div_sat_ok u32 ltac:(unfold WT, W; cbn; lia) x y Hx Hy Hy0). reflexivity. Qed.

Lemma div_sat_u64_spec x y : in_ty u64 x = true -> in_ty u64 y = true -> y <> 0 ->
  Gen_bits.div_sat_u64_g x y = Some (div_sat_spec u64 x y).
Proof. intros Hx Hy Hy0. rewrite div_sat_u64_eq by assumption. rewrite (div_sat_ok u64 ltac:(unfold WT, W; cbn; lia) x y Hx Hy Hy0). reflexivity. Qed.

Lemma abs_i8_spec x : in_ty i8 x = true -> in_ty i8 (Z.abs x) = true -> Gen_bits.abs_i8_g x = Some (abs_spec x).
Proof. intros Hx Ha. rewrite abs_i8_eq, (abs_ok i8 ltac:(unfold WT, W; cbn; lia) x Hx Ha). reflexivity. Qed.

Lemma abs_i16_spec x : in_ty i16 x = true -> in_ty i16 (Z.abs x) = true -> Gen_bits.abs_i16_g x = Some (abs_spec x).
Proof. intros Hx Ha. rewrite abs_i16_eq, (abs_ok i16 ltac:(unfold WT, W; cbn; lia) x Hx Ha). reflexivity. Qed.

Lemma cmp_i32_u32_spec t u : in_ty i32 t = true -> in_ty u32 u = true ->
  Gen_bits.cmp_less_i32_u32_g t u = Some (cmp_less_spec t u) /\ Gen_bits.cmp_equal_i32_u32_g t u = Some (cmp_equal_spec t u).
Proof.
  intros Ht Hu. rewrite cmp_less_i32_u32_eq, cmp_equal_i32_u32_eq by assumption.
  rewrite (cmp_less_ok i32 u32 t u ltac:(wt) ltac:(wt) Ht Hu), (cmp_equal_ok i32 u32 t u ltac:(wt) ltac:(wt) Ht Hu). split; reflexivity.
Qed.

Lemma cmp_i8_u64_spec t u : in_ty i8 t = true -> in_ty u64 u = true ->
  Gen_bits.cmp_less_i8_u64_g t u = Some (cmp_less_spec t u) /\ Gen_bits.cmp_equal_i8_u64_g t u = Some (cmp_equal_spec t u).
Proof.
  intros Ht Hu. rewrite cmp_less_i8_u64_eq, cmp_equal_i8_u64_eq by assumption.
  rewrite (cmp_less_ok i8 u64 t u ltac:(wt) ltac:(wt) Ht Hu), (cmp_equal_ok i8 u64 t u ltac:(wt) ltac:(wt) Ht Hu). split; reflexivity.
Qed.

Lemma cmp_u32_i64_spec t u : in_ty u32 t = true -> in_ty i64 u = true ->
  Gen_bits.cmp_less_u32_i64_g t u = Some (cmp_less_spec t u) /\ Gen_bits.cmp_equal_u32_i64_g t u = Some (cmp_equal_spec t u).
Proof.
  intros Ht Hu. rewrite cmp_less_u32_i64_eq, cmp_equal_u32_i64_eq by assumption.
  rewrite (cmp_less_ok u32 i64 t u ltac:(wt) ltac:(wt) Ht Hu), (cmp_equal_ok u32 i64 t u ltac:(wt) ltac:(wt) Ht Hu). split; reflexivity.
Qed.

Lemma cmp_i64_u64_spec t u : in_ty i64 t = true -> in_ty u64 u = true ->
  Gen_bits.cmp_less_i64_u64_g t u = Some (cmp_less_spec t u) /\ Gen_bits.cmp_equal_i64_u64_g t u = Some (cmp_equal_spec t u).
Proof.
  intros Ht Hu. rewrite cmp_less_i64_u64_eq, cmp_equal_i64_u64_eq by assumption.
  rewrite (cmp_less_ok i64 u64 t u ltac:(wt) ltac:(wt) Ht Hu), (cmp_equal_ok i64 u64 t u ltac:(wt) ltac:(wt) Ht Hu). split; reflexivity.
Qed.

Lemma cmp_u8_i8_spec t u : in_ty u8 t = true -> in_ty i8 u = true ->
  Gen_bits.cmp_less_u8_i8_g t u = Some (cmp_less_spec t u) /\ Gen_bits.cmp_equal_u8_i8_g t u = Some (cmp_equal_spec t u).
Proof.
  intros Ht Hu. rewrite cmp_less_u8_i8_eq, cmp_equal_u8_i8_eq by assumption.
  rewrite (cmp_less_ok u8 i8 t u ltac:(wt) ltac:(wt) Ht Hu), (cmp_equal_ok u8 i8 t u ltac:(wt) ltac:(wt) Ht Hu). split; reflexivity.
Qed.

Lemma cmp_i16_i32_spec t u : in_ty i16 t = true -> in_ty i32 u = true ->
  Gen_bits.cmp_less_i16_i32_g t u = Some (cmp_less_spec t u) /\ Gen_bits.cmp_equal_i16_i32_g t u = Some (cmp_equal_spec t u).
Proof.
  intros Ht Hu. rewrite cmp_less_i16_i32_eq, cmp_equal_i16_i32_eq by assumption.
  rewrite (cmp_less_ok i16 i32 t u ltac:(wt) ltac:(wt) Ht Hu), (cmp_equal_ok i16 i32 t u ltac:(wt) ltac:(wt) Ht Hu). split; reflexivity.
Qed.

Lemma gen_spec_arith : forall x y t u,
  (in_ty i8 x = true -> in_ty i8 y = true -> y <> 0 -> Gen_bits.div_sat_i8_g x y = Some (div_sat_spec i8 x y))
  /\ (in_ty i16 x = true -> in_ty i16 y = true -> y <> 0 -> Gen_bits.div_sat_i16_g x y = Some (div_sat_spec i16 x y))
  /\ (in_ty i32 x = true -> in_ty i32 y = true -> y <> 0 -> Gen_bits.div_sat_i32_g x y = Some (div_sat_spec i32 x y))
  /\ (in_ty i64 x = true -> in_ty i64 y = true -> y <> 0 -> Gen_bits.div_sat_i64_g x y = Some (div_sat_spec i64 x y))
  /\ (in_ty u8 x = true -> in_ty u8 y = true -> y <> 0 -> Gen_bits.div_sat_u8_g x y = Some (div_sat_spec u8 x y))
  /\ (in_ty u16 x = true -> in_ty u16 y = true -> y <> 0 -> Gen_bits.div_sat_u16_g x y = Some (div_sat_spec u16 x y))
  /\ (in_ty u32 x = true -> in_ty u32 y = true -> y <> 0 -> Gen_bits.div_sat_u32_g x y = Some (div_sat_spec u32 x y))
  /\ (in_ty u64 x = true -> in_ty u64 y = true -> y <> 0 -> Gen_bits.div_sat_u64_g x y = Some (div_sat_spec u64 x y))
  /\ (in_ty i8 x = true -> in_ty i8 (Z.abs x) = true -> Gen_bits.abs_i8_g x = Some (abs_spec x))
  /\ (in_ty i16 x = true -> in_ty i16 (Z.abs x) = true -> Gen_bits.abs_i16_g x = Some (abs_spec x))
  /\ (in_ty i32 t = true -> in_ty u32 u = true ->
      Gen_bits.cmp_less_i32_u32_g t u = Some (cmp_less_spec t u) /\ Gen_bits.cmp_equal_i32_u32_g t u = Some (cmp_equal_spec t u))
  /\ (in_ty i8 t = true -> in_ty u64 u = true ->
      Gen_bits.cmp_less_i8_u64_g t u = Some (cmp_less_spec t u) /\ Gen_bits.cmp_equal_i8_u64_g t u = Some (cmp_equal_spec t u))
  /\ (in_ty u32 t = true -> in_ty i64 u = true ->
      Gen_bits.cmp_less_u32_i64_g t u = Some (cmp_less_spec t u) /\ Gen_bits.cmp_equal_u32_i64_g t u = Some (cmp_equal_spec t u))
  /\ (in_ty i64 t = true -> in_ty u64 u = true ->
      Gen_bits.cmp_less_i64_u64_g t u = Some (cmp_less_spec t u) /\ Gen_bits.cmp_equal_i64_u64_g t u = Some (cmp_equal_spec t u))
  /\ (in_ty u8 t = true -> in_ty i8 u = true ->
      Gen_bits.cmp_less_u8_i8_g t u = Some (cmp_less_spec t u) /\ Gen_bits.cmp_equal_u8_i8_g t u = Some (cmp_equal_spec t u))
  /\ (in_ty i16 t = true -> in_ty i32 u = true ->
      Gen_bits.cmp_less_i16_i32_g t u = Some (cmp_less_spec t u) /\ Gen_bits.cmp_equal_i16_i32_g t u = Some (cmp_equal_spec t u)).
Proof.
  intros x y t u. exact (conj (div_sat_i8_spec x y) (conj (div_sat_i16_spec x y) (conj (div_sat_i32_spec x y) (conj (div_sat_i64_spec x y) (conj (div_sat_u8_spec x y) (conj (div_sat_u16_spec x y) (conj (div_sat_u32_spec x y) (conj (div_sat_u64_spec x y) (conj (abs_i8_spec x) (conj (abs_i16_spec x) (conj (cmp_i32_u32_spec t u) (conj (cmp_i8_u64_spec t u) (conj (cmp_u32_i64_spec t u) (conj (cmp_i64_u64_spec t u) (conj (cmp_u8_i8_spec t u) (cmp_i16_i32_spec t u)))))))))))))))).
Qed.
