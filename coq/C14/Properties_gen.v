(* C14 — translator obligations: the 58 kernels regenerated from /repo's rotl.hpp, rotr.hpp, test_bit.hpp,
   set_bit.hpp, reset_bit.hpp, flip_bit.hpp, midpoint.hpp, div_sat.hpp, abs.hpp, cmp_less.hpp and cmp_equal.hpp ON THIS RUN (coq/Gen/Gen_bits.v) compute what the
   hand-written model computes, for ALL arguments of the documented domain (GenEquiv.v), hence exactly the
   mathematical definition (GenSpec.v).  [ok_of]: Ok v -> Some v, any other model outcome -> None.
   The property theorems of Properties.v are about the model; these theorems tie the model to the
   current C++ text.  A semantic edit of one of these kernels breaks the build of this file. *)
From Tetl Require Import Lib.Base C14.Spec C14.Model C14.GenEquiv C14.GenSpec.
From Tetl Require Gen.Gen_bits.
Local Open Scope Z_scope.

(** generated = model.
    First batch - rotl / rotr: every value of the type, EVERY count; single-bit functions: every word, every
    pos < digits (the generated code has no contract check); integral midpoint: every pair of integers (every pair
    of values for unsigned char / short).
    Second batch - div_sat for the eight types: ALL integer pairs for the types that divide in int or are signed
    (y = 0: None on the generated side, Contract in the model), values of the type for unsigned int / long; abs for
    signed char / short: all integers; cmp_less / cmp_equal for six (T, U) pairs: values of the two types *)
Theorem C14_gen_model :
  (forall x s word pos v a b,
  (
  (0 <= x < 2 ^ 8 -> Gen_bits.rotl_u8_g x s = ok_of (rotl_m 8 x s) /\ Gen_bits.rotr_u8_g x s = ok_of (rotr_m 8 x s))
  /\ (0 <= x < 2 ^ 16 -> Gen_bits.rotl_u16_g x s = ok_of (rotl_m 16 x s) /\ Gen_bits.rotr_u16_g x s = ok_of (rotr_m 16 x s))
  /\ (0 <= x < 2 ^ 32 -> Gen_bits.rotl_u32_g x s = ok_of (rotl_m 32 x s) /\ Gen_bits.rotr_u32_g x s = ok_of (rotr_m 32 x s))
  /\ (0 <= x < 2 ^ 64 -> Gen_bits.rotl_u64_g x s = ok_of (rotl_m 64 x s) /\ Gen_bits.rotr_u64_g x s = ok_of (rotr_m 64 x s)))
  /\ (
  (0 <= word < 2 ^ 8 -> 0 <= pos < 8 ->
      Gen_bits.test_bit_u8_g word pos = ok_of (test_bit_m 8 word pos)
      /\ Gen_bits.set_bit_u8_g word pos = ok_of (set_bit_m 8 word pos)
      /\ Gen_bits.set_bit_val_u8_g word pos v = ok_of (assign_bit_m 8 word pos v)
      /\ Gen_bits.reset_bit_u8_g word pos = ok_of (reset_bit_m 8 word pos)
      /\ Gen_bits.flip_bit_u8_g word pos = ok_of (flip_bit_m 8 word pos))
  /\ (0 <= word < 2 ^ 16 -> 0 <= pos < 16 ->
      Gen_bits.test_bit_u16_g word pos = ok_of (test_bit_m 16 word pos)
      /\ Gen_bits.set_bit_u16_g word pos = ok_of (set_bit_m 16 word pos)
      /\ Gen_bits.set_bit_val_u16_g word pos v = ok_of (assign_bit_m 16 word pos v)
      /\ Gen_bits.reset_bit_u16_g word pos = ok_of (reset_bit_m 16 word pos)
      /\ Gen_bits.flip_bit_u16_g word pos = ok_of (flip_bit_m 16 word pos))
  /\ (0 <= word < 2 ^ 32 -> 0 <= pos < 32 ->
      Gen_bits.test_bit_u32_g word pos = ok_of (test_bit_m 32 word pos)
      /\ Gen_bits.set_bit_u32_g word pos = ok_of (set_bit_m 32 word pos)
      /\ Gen_bits.set_bit_val_u32_g word pos v = ok_of (assign_bit_m 32 word pos v)
      /\ Gen_bits.reset_bit_u32_g word pos = ok_of (reset_bit_m 32 word pos)
      /\ Gen_bits.flip_bit_u32_g word pos = ok_of (flip_bit_m 32 word pos))
  /\ (0 <= word < 2 ^ 64 -> 0 <= pos < 64 ->
      Gen_bits.test_bit_u64_g word pos = ok_of (test_bit_m 64 word pos)
      /\ Gen_bits.set_bit_u64_g word pos = ok_of (set_bit_m 64 word pos)
      /\ Gen_bits.set_bit_val_u64_g word pos v = ok_of (assign_bit_m 64 word pos v)
      /\ Gen_bits.reset_bit_u64_g word pos = ok_of (reset_bit_m 64 word pos)
      /\ Gen_bits.flip_bit_u64_g word pos = ok_of (flip_bit_m 64 word pos)))
  /\ (
  Gen_bits.midpoint_i8_g a b = ok_of (midpoint_m i8 a b)
  /\ Gen_bits.midpoint_i16_g a b = ok_of (midpoint_m i16 a b)
  /\ Gen_bits.midpoint_i32_g a b = ok_of (midpoint_m i32 a b)
  /\ Gen_bits.midpoint_i64_g a b = ok_of (midpoint_m i64 a b)
  /\ Gen_bits.midpoint_u32_g a b = ok_of (midpoint_m u32 a b)
  /\ Gen_bits.midpoint_u64_g a b = ok_of (midpoint_m u64 a b)
  /\ (in_ty u8 a = true -> in_ty u8 b = true -> Gen_bits.midpoint_u8_g a b = ok_of (midpoint_m u8 a b))
  /\ (in_ty u16 a = true -> in_ty u16 b = true -> Gen_bits.midpoint_u16_g a b = ok_of (midpoint_m u16 a b))))
  /\
  (forall x y t u,
  (Gen_bits.div_sat_i8_g x y = ok_of (div_sat_m i8 x y)
   /\ Gen_bits.div_sat_i16_g x y = ok_of (div_sat_m i16 x y)
   /\ Gen_bits.div_sat_i32_g x y = ok_of (div_sat_m i32 x y)
   /\ Gen_bits.div_sat_i64_g x y = ok_of (div_sat_m i64 x y)
   /\ Gen_bits.div_sat_u8_g x y = ok_of (div_sat_m u8 x y)
   /\ Gen_bits.div_sat_u16_g x y = ok_of (div_sat_m u16 x y)
   /\ (in_ty u32 x = true -> in_ty u32 y = true -> Gen_bits.div_sat_u32_g x y = ok_of (div_sat_m u32 x y))
   /\ (in_ty u64 x = true -> in_ty u64 y = true -> Gen_bits.div_sat_u64_g x y = ok_of (div_sat_m u64 x y)))
  /\ (Gen_bits.abs_i8_g x = ok_of (abs_m i8 x)
   /\ Gen_bits.abs_i16_g x = ok_of (abs_m i16 x))
  /\ ((in_ty i32 t = true -> in_ty u32 u = true ->
      Gen_bits.cmp_less_i32_u32_g t u = Some (cmp_less_m i32 u32 t u) /\ Gen_bits.cmp_equal_i32_u32_g t u = Some (cmp_equal_m i32 u32 t u))
   /\ (in_ty i8 t = true -> in_ty u64 u = true ->
      Gen_bits.cmp_less_i8_u64_g t u = Some (cmp_less_m i8 u64 t u) /\ Gen_bits.cmp_equal_i8_u64_g t u = Some (cmp_equal_m i8 u64 t u))
   /\ (in_ty u32 t = true -> in_ty i64 u = true ->
      Gen_bits.cmp_less_u32_i64_g t u = Some (cmp_less_m u32 i64 t u) /\ Gen_bits.cmp_equal_u32_i64_g t u = Some (cmp_equal_m u32 i64 t u))
   /\ (in_ty i64 t = true -> in_ty u64 u = true ->
      Gen_bits.cmp_less_i64_u64_g t u = Some (cmp_less_m i64 u64 t u) /\ Gen_bits.cmp_equal_i64_u64_g t u = Some (cmp_equal_m i64 u64 t u))
   /\ (in_ty u8 t = true -> in_ty i8 u = true ->
      Gen_bits.cmp_less_u8_i8_g t u = Some (cmp_less_m u8 i8 t u) /\ Gen_bits.cmp_equal_u8_i8_g t u = Some (cmp_equal_m u8 i8 t u))
   /\ (in_ty i16 t = true -> in_ty i32 u = true ->
      Gen_bits.cmp_less_i16_i32_g t u = Some (cmp_less_m i16 i32 t u) /\ Gen_bits.cmp_equal_i16_i32_g t u = Some (cmp_equal_m i16 i32 t u)))).
Proof.
  exact (conj (fun x s word pos v a b => conj (gen_rot_equiv x s) (conj (gen_bit_equiv word pos v) (gen_mid_equiv a b)))
              gen_arith_equiv).
Qed.

(** end to end: the regenerated kernels return the mathematical definition on the documented domain *)
Theorem C14_gen_spec :
  (forall x s word pos v a b,
  (0 <= x < 2 ^ 8 -> Gen_bits.rotl_u8_g x s = Some (rotl_spec 8 x s) /\ Gen_bits.rotr_u8_g x s = Some (rotr_spec 8 x s))
  /\ (0 <= x < 2 ^ 16 -> Gen_bits.rotl_u16_g x s = Some (rotl_spec 16 x s) /\ Gen_bits.rotr_u16_g x s = Some (rotr_spec 16 x s))
  /\ (0 <= x < 2 ^ 32 -> Gen_bits.rotl_u32_g x s = Some (rotl_spec 32 x s) /\ Gen_bits.rotr_u32_g x s = Some (rotr_spec 32 x s))
  /\ (0 <= x < 2 ^ 64 -> Gen_bits.rotl_u64_g x s = Some (rotl_spec 64 x s) /\ Gen_bits.rotr_u64_g x s = Some (rotr_spec 64 x s))
  /\ (0 <= word < 2 ^ 8 -> 0 <= pos < 8 ->
      Gen_bits.test_bit_u8_g word pos = Some (test_bit_spec word pos)
      /\ Gen_bits.set_bit_u8_g word pos = Some (set_bit_spec word pos)
      /\ Gen_bits.set_bit_val_u8_g word pos v = Some (assign_bit_spec word pos v)
      /\ Gen_bits.reset_bit_u8_g word pos = Some (reset_bit_spec word pos)
      /\ Gen_bits.flip_bit_u8_g word pos = Some (flip_bit_spec word pos))
  /\ (0 <= word < 2 ^ 16 -> 0 <= pos < 16 ->
      Gen_bits.test_bit_u16_g word pos = Some (test_bit_spec word pos)
      /\ Gen_bits.set_bit_u16_g word pos = Some (set_bit_spec word pos)
      /\ Gen_bits.set_bit_val_u16_g word pos v = Some (assign_bit_spec word pos v)
      /\ Gen_bits.reset_bit_u16_g word pos = Some (reset_bit_spec word pos)
      /\ Gen_bits.flip_bit_u16_g word pos = Some (flip_bit_spec word pos))
  /\ (0 <= word < 2 ^ 32 -> 0 <= pos < 32 ->
      Gen_bits.test_bit_u32_g word pos = Some (test_bit_spec word pos)
      /\ Gen_bits.set_bit_u32_g word pos = Some (set_bit_spec word pos)
      /\ Gen_bits.set_bit_val_u32_g word pos v = Some (assign_bit_spec word pos v)
      /\ Gen_bits.reset_bit_u32_g word pos = Some (reset_bit_spec word pos)
      /\ Gen_bits.flip_bit_u32_g word pos = Some (flip_bit_spec word pos))
  /\ (0 <= word < 2 ^ 64 -> 0 <= pos < 64 ->
      Gen_bits.test_bit_u64_g word pos = Some (test_bit_spec word pos)
      /\ Gen_bits.set_bit_u64_g word pos = Some (set_bit_spec word pos)
      /\ Gen_bits.set_bit_val_u64_g word pos v = Some (assign_bit_spec word pos v)
      /\ Gen_bits.reset_bit_u64_g word pos = Some (reset_bit_spec word pos)
      /\ Gen_bits.flip_bit_u64_g word pos = Some (flip_bit_spec word pos))
  /\ (in_ty i8 a = true -> in_ty i8 b = true -> Gen_bits.midpoint_i8_g a b = Some (midpoint_spec a b))
  /\ (in_ty i16 a = true -> in_ty i16 b = true -> Gen_bits.midpoint_i16_g a b = Some (midpoint_spec a b))
  /\ (in_ty i32 a = true -> in_ty i32 b = true -> Gen_bits.midpoint_i32_g a b = Some (midpoint_spec a b))
  /\ (in_ty i64 a = true -> in_ty i64 b = true -> Gen_bits.midpoint_i64_g a b = Some (midpoint_spec a b))
  /\ (in_ty u8 a = true -> in_ty u8 b = true -> Gen_bits.midpoint_u8_g a b = Some (midpoint_spec a b))
  /\ (in_ty u16 a = true -> in_ty u16 b = true -> Gen_bits.midpoint_u16_g a b = Some (midpoint_spec a b))
  /\ (in_ty u32 a = true -> in_ty u32 b = true -> Gen_bits.midpoint_u32_g a b = Some (midpoint_spec a b))
  /\ (in_ty u64 a = true -> in_ty u64 b = true -> Gen_bits.midpoint_u64_g a b = Some (midpoint_spec a b)))
  /\
  (forall x y t u,
  (in_ty i8 x = true -> in_ty i8 y = true -> y <> 0 -> Gen_bits.div_sat_i8_g x y = Some (div_sat_spec i8 x y))
  /\ (in_ty i16 x = true -> in_ty i16 y = true -> y <> 0 -> Gen_bits.div_sat_i16_g x y = Some (div_sat_spec i16 x y))
  /\ (in_ty i32 x = true -> in_ty i32 y = true -> y <> 0 -> Gen_bits.div_sat_i32_g x y = Some (div_sat_spec i32 x y))
  /\ (in_ty i64 x = true -> in_ty i64 y = true -> y <> 0 -> Gen_bits.div_sat_i64_g x y = Some (div_sat_spec i64 x y))
  /\ (in_ty u8 x = true -> in_ty u8 y = true -> y <> 0 -> Gen_bits.div_sat_u8_g x y = Some (div_sat_spec u8 x y))
  /\ (in_ty u16 x = true -> in_ty u16 y = true -> y <> 0 -> Gen_bits.div_sat_u16_g x y = Some (div_sat_spec u16 x y))
  /\ (in_ty u32 x = true -> in_ty u32 y = true -> y <> 0 -> Gen_bits.div_sat_u32_g x y = Some (div_sat_spec u32 x y))
  /\ (in_ty u64 x = true -> in_ty u64 y = true -> y <> 0 -> Gen_bits.div_sat_u64_g x y = Some (div_sat_spec u64 x y))
  /\ (in_ty i8 x = true -> in_ty i8 (Z.abs x) = true -> Gen_bits.abs_i8_g x = Some (abs_spec x))
  /\ (in_ty i16 x = true -> in_ty i16 (Z.abs x) = true -> Gen_bits.abs_i16_g x = Some (abs_spec x))
  /\ (in_ty i32 t = true -> in_ty u32 u = true ->
      Gen_bits.cmp_less_i32_u32_g t u = Some (cmp_less_spec t u) /\ Gen_bits.cmp_equal_i32_u32_g t u = Some (cmp_equal_spec t u))
  /\ (in_ty i8 t = true -> in_ty u64 u = true ->
      Gen_bits.cmp_less_i8_u64_g t u = Some (cmp_less_spec t u) /\ Gen_bits.cmp_equal_i8_u64_g t u = Some (cmp_equal_spec t u))
  /\ (in_ty u32 t = true -> in_ty i64 u = true ->
      Gen_bits.cmp_less_u32_i64_g t u = Some (cmp_less_spec t u) /\ Gen_bits.cmp_equal_u32_i64_g t u = Some (cmp_equal_spec t u))
  /\ (in_ty i64 t = true -> in_ty u64 u = true ->
      Gen_bits.cmp_less_i64_u64_g t u = Some (cmp_less_spec t u) /\ Gen_bits.cmp_equal_i64_u64_g t u = Some (cmp_equal_spec t u))
  /\ (in_ty u8 t = true -> in_ty i8 u = true ->
      Gen_bits.cmp_less_u8_i8_g t u = Some (cmp_less_spec t u) /\ Gen_bits.cmp_equal_u8_i8_g t u = Some (cmp_equal_spec t u))
  /\ (in_ty i16 t = true -> in_ty i32 u = true ->
      Gen_bits.cmp_less_i16_i32_g t u = Some (cmp_less_spec t u) /\ Gen_bits.cmp_equal_i16_i32_g t u = Some (cmp_equal_spec t u))).
Proof. exact (conj gen_spec_all gen_spec_arith). Qed.

Definition C14_gen_theorems := (C14_gen_model, C14_gen_spec).
Print Assumptions C14_gen_theorems.
