(* C07 — what the standard prescribes for the special members of variant / optional / expected, in terms of the
   operations of the contained alternative (no "bytewise" anywhere: the standard only says WHEN a special member
   of the wrapper is trivial, and a trivial one is indistinguishable from performing the alternative's own -
   then trivial - operation).
   [variant.ctor]/7-13, [variant.assign]/1-10, [variant.dtor], [optional.ctor], [optional.assign],
   [expected.object.cons], [expected.object.assign] (the nothrow branch of reinit-expected: every operation of
   the element types here is noexcept). *)
From Tetl Require Import Lib.Base C07.ModelSm.
Local Open Scope Z_scope.

(** * variant *)
(* emplace<I>(args): destroys the contained value, then initializes the I-th alternative *)
Definition s_emplace (alts : list smf) (s : obj) (i : nat) (v : Z) : obj * list ev :=
  (sm_mk i v, e_dt (sm_alt alts (oi s)) (ov s) ++ e_init (sm_alt alts i) v).

(* variant(variant const& w): initializes with get<j>(w), j = w.index() *)
Definition s_copy_ctor (alts : list smf) (src : obj) : obj * list ev :=
  (sm_mk (oi src) (ov src), e_cc (sm_alt alts (oi src)) (ov src)).

(* variant(variant&& w): initializes with get<j>(std::move(w)) *)
Definition s_move_ctor (alts : list smf) (src : obj) : obj * obj * list ev :=
  let f := sm_alt alts (oi src) in (sm_mk (oi src) (ov src), sm_mk (oi src) (mc_src f (ov src)), e_mc f (ov src)).

(* operator=(variant const& rhs): index() == j: get<j>( *this) = get<j>(rhs); otherwise emplace<j>(get<j>(rhs))
   (is_nothrow_copy_constructible_v<T_j> holds) *)
Definition s_assign_copy (alts : list smf) (lhs rhs : obj) : obj * list ev :=
  let f := sm_alt alts (oi rhs) in
  if Nat.eqb (oi lhs) (oi rhs) then (sm_mk (oi lhs) (ov rhs), e_ca f (ov lhs) (ov rhs))
  else (sm_mk (oi rhs) (ov rhs), e_dt (sm_alt alts (oi lhs)) (ov lhs) ++ e_cc f (ov rhs)).

(* operator=(variant&& rhs): index() == j: get<j>( *this) = get<j>(std::move(rhs)); otherwise
   emplace<j>(get<j>(std::move(rhs))) *)
Definition s_assign_move (alts : list smf) (lhs rhs : obj) : obj * obj * list ev :=
  let f := sm_alt alts (oi rhs) in
  if Nat.eqb (oi lhs) (oi rhs)
  then (sm_mk (oi lhs) (ov rhs), sm_mk (oi rhs) (ma_src f (ov rhs)), e_ma f (ov lhs) (ov rhs))
  else (sm_mk (oi rhs) (ov rhs), sm_mk (oi rhs) (mc_src f (ov rhs)), e_dt (sm_alt alts (oi lhs)) (ov lhs) ++ e_mc f (ov rhs)).

(* x = std::move(x): get<j>(x) = std::move(get<j>(x)); what that does to the value is the element type's business
   (Sm guards this == &other: the value stays) *)
Definition s_self_move (alts : list smf) (s : obj) : obj * list ev := (s, e_ma (sm_alt alts (oi s)) (ov s) (ov s)).

(* ~variant(): destroys the contained value *)
Definition s_dtor (alts : list smf) (s : obj) : list ev := e_dt (sm_alt alts (oi s)) (ov s).

Definition s_assign_temp (alts : list smf) (x : obj) (i : nat) (v : Z) : obj * list ev :=
  let '(x', tmp', e) := s_assign_move alts x (sm_mk i v) in
  (x', e_init (sm_alt alts i) v ++ e ++ s_dtor alts tmp').

(* [variant.ctor]/9,13, [variant.assign]/5,10, [variant.dtor]/2: when the special members are trivial *)
Definition s_traits (alts : list smf) : nat :=
  wrapper_traits (forallb t_cc alts) (forallb t_mc alts)
                 (forallb (fun f => t_cc f && t_ca f && t_dt f) alts)
                 (forallb (fun f => t_mc f && t_ma f && t_dt f) alts)
                 (forallb t_dt alts).

(** * optional<T>::operator=(optional<U> const& / &&)  [optional.assign]/table:
      rhs empty: destroys the contained value if any; rhs engaged: assigns *rhs to the contained value if there is
      one, else direct-non-list-initializes it with *rhs *)
Definition s_conv_assign (f : smf) (x c : obj) (mv : bool) : obj * obj * list ev :=
  let c' := if mv then sm_mk (oi c) SM_MOVED else c in
  match sm_has c, sm_has x with
  | false, true => (sm_mk 0 0, c, e_dt f (ov x))
  | false, false => (sm_mk 0 0, c, [])
  | true, true => (sm_mk 1 (ov c), c', [if mv then EvXMA (ov x) (ov c) else EvXA (ov x) (ov c)])
  | true, false => (sm_mk 1 (ov c), c', [if mv then EvXM (ov c) else EvXC (ov c)])
  end.

Definition s_step (alts : list smf) (s : sstate) (o : sop) : sstate * option obj * list ev :=
  match o with
  | SEmplace t i v => let '(x, y) := sm_pick t s in let '(x', e) := s_emplace alts x i v in (sm_put t s x' y, None, e)
  | SInPlace t i v => let '(x, y) := sm_pick t s in let '(x', e) := s_assign_temp alts x i v in (sm_put t s x' y, None, e)
  | SCopyAssign t => let '(x, y) := sm_pick t s in let '(x', e) := s_assign_copy alts x y in (sm_put t s x' y, None, e)
  | SMoveAssign t => let '(x, y) := sm_pick t s in let '(x', y', e) := s_assign_move alts x y in (sm_put t s x' y', None, e)
  | SCopyCtor t => let '(x, y) := sm_pick t s in let '(tmp, e) := s_copy_ctor alts y in (s, Some tmp, e ++ s_dtor alts tmp)
  | SMoveCtor t => let '(x, y) := sm_pick t s in
                   let '(tmp, y', e) := s_move_ctor alts y in (sm_put t s x y', Some tmp, e ++ s_dtor alts tmp)
  | SSelfCopy t => let '(x, y) := sm_pick t s in let '(x', e) := s_assign_copy alts x x in (sm_put t s x' y, None, e)
  | SSelfMove t => let '(x, y) := sm_pick t s in let '(x', e) := s_self_move alts x in (sm_put t s x' y, None, e)
  | SSetC v => let '(a, b, _) := s in ((a, b, sm_mk 1 v), None, [])
  | SResetC => let '(a, b, _) := s in ((a, b, sm_mk 0 0), None, [])
  | SConvCopy t => let '(x, y) := sm_pick t s in let '(_, _, c) := s in
                   let '(x', c', e) := s_conv_assign (sm_alt alts 1) x c false in
                   let '(a', b', _) := sm_put t s x' y in ((a', b', c'), None, e)
  | SConvMove t => let '(x, y) := sm_pick t s in let '(_, _, c) := s in
                   let '(x', c', e) := s_conv_assign (sm_alt alts 1) x c true in
                   let '(a', b', _) := sm_put t s x' y in ((a', b', c'), None, e)
  end.

Fixpoint s_run (alts : list smf) (s : sstate) (ops : list sop)
  : list (sstate * option obj * list ev) * list ev :=
  match ops with
  | [] => let '(a, b, _) := s in ([], s_dtor alts b ++ s_dtor alts a)
  | o :: r => let '(s', tmp, e) := s_step alts s o in
              let '(l, fin) := s_run alts s' r in ((s', tmp, e) :: l, fin)
  end.

(** * optional and expected in their own words (the theorems relate them to the variant statements above) *)
(* optional<T>: None / Some v.  [optional.assign]/1-8 (copy: table "*this contains a value" x "rhs contains a value") *)
Definition so_assign_copy (f : smf) (l r : option Z) : option Z * list ev :=
  match l, r with
  | Some o, Some n => (Some n, e_ca f o n)           (* assigns *rhs to the contained value *)
  | None, Some n => (Some n, e_cc f n)               (* direct-non-list-initializes the contained value with *rhs *)
  | Some o, None => (None, e_dt f o)                 (* destroys the contained value *)
  | None, None => (None, [])
  end.
Definition so_assign_move (f : smf) (l r : option Z) : option Z * option Z * list ev :=
  match l, r with
  | Some o, Some n => (Some n, Some (ma_src f n), e_ma f o n)
  | None, Some n => (Some n, Some (mc_src f n), e_mc f n)   (* rhs.has_value() is unchanged *)
  | Some o, None => (None, None, e_dt f o)
  | None, None => (None, None, [])
  end.
Definition so_copy_ctor (f : smf) (r : option Z) : option Z * list ev :=
  match r with Some n => (Some n, e_cc f n) | None => (None, []) end.
Definition so_move_ctor (f : smf) (r : option Z) : option Z * option Z * list ev :=
  match r with Some n => (Some n, Some (mc_src f n), e_mc f n) | None => (None, None, []) end.
Definition so_dtor (f : smf) (s : option Z) : list ev := match s with Some v => e_dt f v | None => [] end.
(* [optional.ctor]/6,10, [optional.assign]/7,13 (+ trivially destructible), [optional.dtor]/2 *)
Definition so_traits (f : smf) : nat :=
  wrapper_traits (t_cc f) (t_mc f) (t_cc f && t_ca f && t_dt f) (t_mc f && t_ma f && t_dt f) (t_dt f).

(* expected<T, E>: inl v (value) / inr e (error); fT, fE the flags of T and E.  [expected.object.assign]/2:
   both values: val = rhs.val; value <- error: reinit-expected(unex, val, rhs.unex) = destroy val, construct unex;
   error <- value: reinit-expected(val, unex, rhs.val); both errors: unex = rhs.unex *)
Definition se_assign_copy (fT fE : smf) (l r : Z + Z) : (Z + Z) * list ev :=
  match l, r with
  | inl o, inl n => (inl n, e_ca fT o n)
  | inl o, inr n => (inr n, e_dt fT o ++ e_cc fE n)
  | inr o, inl n => (inl n, e_dt fE o ++ e_cc fT n)
  | inr o, inr n => (inr n, e_ca fE o n)
  end.
Definition se_assign_move (fT fE : smf) (l r : Z + Z) : (Z + Z) * (Z + Z) * list ev :=
  match l, r with
  | inl o, inl n => (inl n, inl (ma_src fT n), e_ma fT o n)
  | inl o, inr n => (inr n, inr (mc_src fE n), e_dt fT o ++ e_mc fE n)
  | inr o, inl n => (inl n, inl (mc_src fT n), e_dt fE o ++ e_mc fT n)
  | inr o, inr n => (inr n, inr (ma_src fE n), e_ma fE o n)
  end.
Definition se_copy_ctor (fT fE : smf) (r : Z + Z) : (Z + Z) * list ev :=
  match r with inl n => (inl n, e_cc fT n) | inr n => (inr n, e_cc fE n) end.
Definition se_move_ctor (fT fE : smf) (r : Z + Z) : (Z + Z) * (Z + Z) * list ev :=
  match r with inl n => (inl n, inl (mc_src fT n), e_mc fT n) | inr n => (inr n, inr (mc_src fE n), e_mc fE n) end.
Definition se_dtor (fT fE : smf) (s : Z + Z) : list ev := match s with inl v => e_dt fT v | inr v => e_dt fE v end.
