(* C07 — review round (second engineer).  Property theorems only, see Properties.v for the main ones.
   (1) The value relation of Types.v has an UNORDERED element (NANV, the NaN of a floating alternative): on it
       only != answers true, so the six relations are independent; on every other pair of values it is the usual
       total order.  All relational theorems of Properties.v (variant, optional/optional, optional/value,
       unexpected ==) are stated over this relation, i.e. they also cover optional<double> / variant<..., double>
       holding a NaN.
   (2) Executable models of two plausible rewrites are refuted against the same specs by kernel-checked witnesses,
       and proved to agree with the real code exactly where the old value domain / the old harness families
       could not tell them apart: a relational operator rewritten through another one (>= as not <, <= as not >
       swapped), and variant::assign deciding "same alternative" by type instead of by index. *)
From Tetl Require Import Lib.Base C07.Types C07.Model C07.Spec C07.Dispatch C07.VariantProofs C07.OptionalProofs
  C07.MutantsRev.
Local Open Scope nat_scope.

Theorem C07_value_relation_unordered_element :
  (forall k y, rel_z k NANV y = Nat.eqb k 1) /\ (forall k x, rel_z k x NANV = Nat.eqb k 1)
  /\ (forall k x y, x <> NANV -> y <> NANV -> rel_z k x y = rel_tot k x y).
Proof. exact (conj rel_z_nan_l (conj rel_z_nan_r rel_z_ordered)). Qed.
Print Assumptions C07_value_relation_unordered_element.

(* optional operator>= written as not (lhs < rhs): equal to the real operator on ordered values, wrong on a NaN *)
Theorem C07_rewritten_optional_ge_agrees_on_ordered_values : forall l r, val l <> NANV -> val r <> NANV ->
  opt_rel_ge_rewritten l r = opt_rel 5 l r.
Proof. exact opt_rel_ge_rewritten_ordered. Qed.
Print Assumptions C07_rewritten_optional_ge_agrees_on_ordered_values.

Theorem C07_rewritten_optional_ge_refuted :
  let l := replace 1 NANV in let r := replace 1 2%Z in
  opt_rel_ge_rewritten l r = Ok true /\ opt_rel 5 l r = Ok false /\ so_rel 5 (abso l) (abso r) = false.
Proof. exact opt_rel_ge_rewritten_refuted. Qed.
Print Assumptions C07_rewritten_optional_ge_refuted.

Theorem C07_rewritten_variant_le_refuted :
  let alts := [TInt; TDouble] in let a := replace 1 2%Z in let b := replace 1 NANV in
  wfv alts a /\ wfv alts b
  /\ var_rel_le_rewritten alts a b = Ok true /\ var_rel alts 3 a b = Ok false /\ sv_rel 3 (absv a) (absv b) = false.
Proof. exact var_rel_le_rewritten_refuted. Qed.
Print Assumptions C07_rewritten_variant_le_refuted.

(* variant::assign deciding by the alternatives' TYPES: the same function as the real assign() when no alternative
   type is repeated, wrong on variant<Tracked, Tracked> *)
Theorem C07_assign_by_type_agrees_without_repeated_types : forall alts lhs rhs, NoDup (map ty_id alts) ->
  wfv alts lhs -> wfv alts rhs -> assign_copy_bytype alts lhs rhs = assign_copy alts lhs rhs.
Proof. exact assign_copy_bytype_distinct. Qed.
Print Assumptions C07_assign_by_type_agrees_without_repeated_types.

Theorem C07_assign_by_type_refuted :
  let alts := [TTr; TTr] in let a := replace 0 1%Z in let b := replace 1 2%Z in
  wfv alts a /\ wfv alts b
  /\ assign_copy_bytype alts a b = Ok (replace 0 2%Z)
  /\ assign_copy alts a b = Ok b
  /\ fst (sv_step alts (absv a, absv b) (VCopyAssign false)) = absv b.
Proof. exact assign_copy_bytype_refuted. Qed.
Print Assumptions C07_assign_by_type_refuted.

(** non-vacuity: the refinement theorem's hypotheses are met by a variant with a REPEATED alternative type, on a
    history that copy-assigns between the two occurrences (a holds <0>, b holds <2>: a must end up holding <2>) and
    moves back; NaN states are ordinary well-formed states and the relations see them as unordered *)
Example C07_rev_nonvacuous :
  let alts := [TTr; TInt; TTr] in
  let ops := [VEmplace false 0 1%Z; VEmplace true 2 2%Z; VCopyAssign false; VEmplace true 0 3%Z; VMoveAssign false] in
  wfs alts (var_default, var_default) /\ Forall (wf_vop alts) ops
  /\ vrun alts (var_default, var_default) [VEmplace false 0 1%Z; VEmplace true 2 2%Z; VCopyAssign false]
     = Ok (replace 2 2%Z, replace 2 2%Z)
  /\ vrun alts (var_default, var_default) ops = Ok (replace 0 3%Z, replace 0 99%Z)
  /\ wfos (replace 1 NANV, replace 1 NANV, opt_empty)
  /\ opt_rel 0 (replace 1 NANV) (replace 1 NANV) = Ok false /\ opt_rel 1 (replace 1 NANV) (replace 1 NANV) = Ok true
  /\ opt_rel 5 (replace 1 NANV) opt_empty = Ok true /\ opt_rel_val 3 true (replace 1 2%Z) NANV = Ok false.
Proof.
  vm_compute. repeat split; try lia; repeat constructor; lia.
Qed.
