(* C07 — executable mirror of `value_or` of optional.hpp / expected.hpp for a fallback of any arithmetic type U:

     template <typename U> constexpr auto value_or(U&& fallback) const& -> T
     { return has_value() ? **this : static_cast<T>(etl::forward<U>(fallback)); }            (&&: etl::move of **this)

   The body is ONE conditional expression inside a function returning T.  The model spells out what the language does
   with it: the third operand is converted to T by the static_cast, the conditional expression gets the type
   [expr.cond] assigns to its two operand types (here T and T), only the selected operand is evaluated and converted to
   that type, and the result is converted to the return type.  With that, dropping the static_cast (seed C07-i1) or
   casting to the wrong type is a different function (MutantsVo).  For the scalar T of these families `etl::move` of the
   held value is a copy: both overloads are the same function of (engaged, held, fallback).  No proofs. *)
From Tetl Require Import Lib.Base C07.TypesVo.
Local Open Scope Z_scope.

(* `return c ? x : y;` in a function returning R, x of type tx, y of type ty (y is evaluated only when c is false) *)
Definition vo_cond_return (R tx ty : sty) (c : bool) (x : Z) (y : res Z) : res Z :=
  let C := cond_type tx ty in
  rbind (if c then vo_conv tx C x else rbind y (vo_conv ty C)) (vo_conv C R).

Definition vo_value_or (T U : sty) (engaged : bool) (held fb : Z) : res Z :=
  vo_cond_return T T T engaged held (vo_conv U T fb).
