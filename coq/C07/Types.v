(* C07 — element-type universe shared by model and spec: the alternative / value types the
   C++ harness instantiates, how their values are encoded as integers, what a move leaves
   behind, and the C++ LANGUAGE rules the converting constructor delegates to (implicit
   conversion ranks, narrowing, overload resolution among F(T_i)).  These are facts about the
   element types and the language, not about the library; they are validated on every run by
   both C++ legs (g++ resolves the same overload sets for etl and for libstdc++). *)
From Tetl Require Import Lib.Base.
Local Open Scope Z_scope.

Inductive ty :=
| TBool | TChar | TShort | TInt | TLong | TFloat | TDouble
| TTr        (* Tracked : class, implicit Tracked(int), every special member user-provided *)
| TTr2       (* Tracked2: class, explicit Tracked2(int), implicit Tracked2(Tracked) *)
| TNullopt   (* nullopt_t: optional<T> is variant<nullopt_t, T> *)
| TPtr       (* char const* : a source type only (string literals); converts to bool (a NARROWING conversion
                since P1957) and to Str *)
| TStr.      (* Str : class, implicit Str(const char* p), every special member user-provided *)

Definition ty_id (t : ty) : nat :=
  match t with
  | TBool => 0 | TChar => 1 | TShort => 2 | TInt => 3 | TLong => 4 | TFloat => 5 | TDouble => 6
  | TTr => 7 | TTr2 => 8 | TNullopt => 9 | TPtr => 10 | TStr => 11
  end%nat.

Definition ty_of_id (n : nat) : ty :=
  match n with
  | 0 => TBool | 1 => TChar | 2 => TShort | 3 => TInt | 4 => TLong | 5 => TFloat | 6 => TDouble
  | 7 => TTr | 8 => TTr2 | 10 => TPtr | 11 => TStr | _ => TNullopt
  end%nat.

Definition ty_eqb (a b : ty) : bool := Nat.eqb (ty_id a) (ty_id b).

Lemma ty_eqb_eq : forall a b, ty_eqb a b = true <-> a = b.
Proof. intros a b; destruct a, b; cbv; split; intro H; try reflexivity; discriminate. Qed.

Lemma ty_eqb_refl : forall a, ty_eqb a a = true.
Proof. intro a; apply ty_eqb_eq; reflexivity. Qed.

Definition is_class (t : ty) : bool := match t with TTr | TTr2 | TStr => true | _ => false end.
(* trivially copyable / destructible: selects the defaulted special members of variant *)
Definition trivial (t : ty) : bool := negb (is_class t).
Definition is_int_ty (t : ty) : bool :=
  match t with TBool | TChar | TShort | TInt | TLong => true | _ => false end.
Definition is_fp_ty (t : ty) : bool := match t with TFloat | TDouble => true | _ => false end.
Definition is_arith (t : ty) : bool := is_int_ty t || is_fp_ty t.
Definition is_scalar (t : ty) : bool := is_arith t.

(* Values are integers: bool 0/1, integer types the value, float/double TWICE the value,
   classes their int payload, a char const* the length of the string it points to, Str the
   length of the string it was constructed from. *)
Definition MOVED : Z := 99.

(* what a move construction / move assignment leaves in the source object *)
Definition moved_val (t : ty) (v : Z) : Z := if is_class t then MOVED else v.

(* value conversion performed by an implicit conversion src -> dst that the selection admits:
   the only one that changes the encoding is floating -> Tracked(int) (truncation) *)
Definition conv (src dst : ty) (v : Z) : Z :=
  if is_fp_ty src && is_class dst then Z.quot v 2 else v.

(** * Implicit conversion sequences, ranks, narrowing *)
(* 0 exact match, 1 promotion, 2 conversion, 3 user-defined conversion *)
Definition promotion (src dst : ty) : bool :=
  match src, dst with
  | TBool, TInt | TChar, TInt | TShort, TInt | TFloat, TDouble => true
  | _, _ => false
  end.

Definition ics (src dst : ty) : option nat :=
  if ty_eqb src dst then Some 0%nat
  else if is_arith src && is_arith dst then (if promotion src dst then Some 1%nat else Some 2%nat)
  else match dst with
       | TTr => if is_arith src then Some 3%nat else None
       | TTr2 => match src with TTr => Some 3%nat | _ => None end
       | TStr => match src with TPtr => Some 3%nat | _ => None end
       | TBool => match src with TPtr => Some 2%nat | _ => None end     (* boolean conversion *)
       | _ => None
       end.

Definition int_bits (t : ty) : Z :=
  match t with TBool => 1 | TChar => 8 | TShort => 16 | TInt => 32 | TLong => 64 | _ => 0 end.

(* [dcl.init.list]: narrowing for a non-constant source expression, decided by the types *)
Definition narrowing (src dst : ty) : bool :=
  if is_fp_ty src && is_int_ty dst then true
  else if ty_eqb src TPtr && ty_eqb dst TBool then true        (* P1957: pointer -> bool is narrowing *)
  else if is_int_ty src && is_fp_ty dst then true
  else if is_fp_ty src && is_fp_ty dst then (match src, dst with TDouble, TFloat => true | _, _ => false end)
  else if is_int_ty src && is_int_ty dst then
         (match dst with TBool => negb (ty_eqb src TBool) | _ => int_bits dst <? int_bits src end)
  else false.

(** * Overload resolution among the imaginary functions F(T_i) of [variant.ctor] *)
Fixpoint cands (src : ty) (alts : list ty) (j : nat) : list (nat * nat) :=
  match alts with
  | [] => []
  | t :: r =>
    match ics src t with
    | Some rk => if narrowing src t then cands src r (S j) else (j, rk) :: cands src r (S j)
    | None => cands src r (S j)
    end
  end.

Definition min_rank (c : list (nat * nat)) : nat := fold_right (fun p m => Nat.min (snd p) m) 9%nat c.

(* the unique best viable candidate; None = no candidate or ambiguous (the call is ill-formed) *)
Definition select (alts : list ty) (src : ty) : option nat :=
  let c := cands src alts 0 in
  match filter (fun p => Nat.eqb (snd p) (min_rank c)) c with
  | [(j, _)] => Some j
  | _ => None
  end.

(* meta::index_of_v<T, list<Ts...>>: first position of T; length if absent *)
Fixpoint index_of (t : ty) (alts : list ty) : nat :=
  match alts with
  | [] => 0%nat
  | a :: r => if ty_eqb t a then 0%nat else S (index_of t r)
  end.

Definition alt_ty (alts : list ty) (i : nat) : ty := nth i alts TNullopt.

(* the six relations on encoded values (encodings are monotone within a type and across the
   class pair), numbered == != < <= > >=.
   A floating alternative can also hold a NaN, encoded as NANV: it is UNORDERED with every value,
   itself included (IEEE 754 / [expr.rel]): only != answers true.  With it the six relations are
   independent (x >= y is not the negation of x < y, x <= y is not x < y || x == y ...), so the
   relational theorems distinguish an operator written with the element type's own operator from
   one rewritten through another operator.  (The harness feeds NANV only to float / double
   alternatives; the integer alternatives' values stay far below it.) *)
Definition NANV : Z := 1000.
Definition is_nan (x : Z) : bool := Z.eqb x NANV.

Definition rel_tot (k : nat) (x y : Z) : bool :=
  match k with
  | O => Z.eqb x y
  | 1%nat => negb (Z.eqb x y)
  | 2%nat => Z.ltb x y
  | 3%nat => Z.leb x y
  | 4%nat => Z.gtb x y
  | _ => Z.geb x y
  end.

Definition rel_z (k : nat) (x y : Z) : bool :=
  if is_nan x || is_nan y then Nat.eqb k 1 else rel_tot k x y.

(** * Operation alphabets of the histories (shared vocabulary of model, spec and harness).
    t = false: the operation targets object a (x = a, y = b); t = true: x = b, y = a. *)
Inductive vop :=
| VEmplace (t : bool) (i : nat) (v : Z)          (* x.emplace<i>(v) *)
| VEmplaceT (t : bool) (a : ty) (v : Z)          (* x.emplace<T>(v) *)
| VInPlace (t : bool) (i : nat) (v : Z)          (* x = V(in_place_index<i>, v) *)
| VInPlaceT (t : bool) (a : ty) (v : Z)          (* x = V(in_place_type<T>, v) *)
| VConvAssign (t : bool) (src : ty) (v : Z)      (* x = value of type src *)
| VConvCtor (t : bool) (src : ty) (v : Z)        (* x = V(value of type src) *)
| VCopyAssign (t : bool)                         (* x = y *)
| VMoveAssign (t : bool)                         (* x = move(y) *)
| VCopyCtor (t : bool)                           (* V tmp(y); x = move(tmp) *)
| VMoveCtor (t : bool)                           (* V tmp(move(y)); x = move(tmp) *)
| VSwap
| VSelfCopy (t : bool)                           (* x = x *)
| VSelfMove (t : bool)                           (* x = move(x) *)
| VAlias (t : bool)                              (* x = *get_if<x.index()>(&x) *)
| VDefault (t : bool).                           (* x = V() *)

Inductive oop :=
| OEmplace (t : bool) (v : Z)        (* e *)
| OAssignT (t : bool) (v : Z)        (* a, w : x = T value *)
| OAssignU (t : bool) (v : Z)        (* u : x = U value *)
| ONullopt (t : bool)                (* n *)
| OBraces (t : bool)                 (* b : x = {} *)
| OReset (t : bool)                  (* r *)
| OCopyAssign (t : bool)             (* c *)
| OMoveAssign (t : bool)             (* m *)
| OCopyCtor (t : bool)               (* k *)
| OMoveCtor (t : bool)               (* l *)
| OSwap                              (* s, S *)
| OSelfCopy (t : bool)               (* f *)
| OSelfMove (t : bool)               (* g *)
| OOwnValue (t : bool)               (* h : if (x) x = *x *)
| OAssignOptU (t : bool)             (* x : x = c (optional<U> const&) *)
| OMoveOptU (t : bool)               (* y : x = move(c) *)
| OCtorOptU (t : bool)               (* X : x = O(c) *)
| OCtorMoveOptU (t : bool)           (* Y : x = O(move(c)) *)
| OEmplaceC (v : Z)                  (* E : c.emplace(v) *)
| OResetC                            (* R *)
| OCtorValue (t : bool) (v : Z)      (* i, j, p, P, q : x = O(in_place, v) / O(T value) / make_optional(value) /
                                        make_optional<T>(args) / make_optional(lvalue) *)
| OCtorValueU (t : bool) (v : Z)     (* J : x = O(U value) *)
| OCtorEmpty (t : bool)              (* d, D : x = O() / O(nullopt) *)
| OOwnMember (t : bool).             (* v : if (x) x = x->v  -- an int that lives inside the contained object (T a class) *)

Inductive eop :=
| EValue (t : bool) (v : Z)          (* v : x = X(in_place, v) *)
| EUnexpect (t : bool) (v : Z)       (* u : x = X(unexpect, v) *)
| EEmplace (t : bool) (v : Z)        (* e : x.emplace(v) *)
| ECopyAssign (t : bool) | EMoveAssign (t : bool) | ECopyCtor (t : bool) | EMoveCtor (t : bool)
| ESelfCopy (t : bool) | ESelfMove (t : bool)
| EDefault (t : bool).               (* d : x = X() *)

(* optional<T&>: objects a, b of optional<T&> (T possibly const), z of optional<T0&> (T0 = T without
   const), a source src of optional<T0>, three referent cells.  What an optional<T&> refers to: *)
Inductive rtgt :=
| RCell (c : nat)                    (* one of the referent cells *)
| RSrc.                              (* the object contained in src *)

Inductive rop :=
| RBind (t : bool) (c : nat)         (* a, e, j : x = cell / x.emplace(cell) / x = O(cell) *)
| RNull (t : bool)                   (* n, r *)
| RCopy (t : bool)                   (* c, m, k : x = y (trivially copyable) *)
| RSwap                              (* s : swap(_ptr, rhs._ptr) *)
| RWrite (t : bool) (v : Z)          (* w : if (x) *x = v   (T not const) *)
| RSelf (t : bool)                   (* f *)
| RCellSet (c : nat) (v : Z)         (* W : cells[c] = v, not through any optional *)
| RFromOpt (t : bool)                (* o, i, O, Q : x = O(as_const(src)) / O(src) : optional<T&>(optional<U> const&) resp. (optional<U>&)
                                        (same initialiser), U = T0; for T not const x = src is x = O(src) *)
| RFromRef (t : bool)                (* x, X : x = O(as_const(z)) / O(z)        : optional<T&>(optional<U> const&), U = T0& *)
| RAssignOpt (t : bool)              (* q, Q : x = as_const(src) / x = src      : operator=(optional<U> const&), U = T0 *)
| RAssignRef (t : bool)              (* y, Y : x = as_const(z) / x = z          : operator=(optional<U> const&), U = T0& *)
| RZBind (c : nat)                   (* z : z = cell *)
| RZNull                             (* Z : z.reset() *)
| RSrcAssign (v : Z)                 (* S : src = T0(v) *)
| RSrcEmplace (v : Z)                (* E : src.emplace(v) *)
| RSrcReset.                         (* R : src.reset() *)

(* the four ref-qualified overloads of a member function / the value category of an argument:
   & (lvalue), const& (const lvalue), && (rvalue), const&& (const rvalue) *)
Inductive qual := QL | QC | QR | QCR.
(* a move constructor can steal only from a non-const rvalue *)
Definition is_rv (q : qual) : bool := match q with QR => true | _ => false end.

(* unexpected<E>: objects a, b of unexpected<E> and c of unexpected<E2> *)
Inductive uop :=
| UValue (t : bool) (v : Z)          (* v, i : x = unexpected(v) / unexpected(in_place, v) *)
| UCopy (t : bool)                   (* c : x = y *)
| UMove (t : bool)                   (* m : x = move(y) *)
| USwap                              (* s, S : a.swap(b) / swap(a, b) *)
| USetC (v : Z).                     (* E : c = unexpected<E2>(v) *)
