(* C07 — optional, variant and expected track the same state and value as the std types.
   Property theorems only: each is closed by [exact] of a lemma proved in Dispatch.v,
   VariantProofs.v, OptionalProofs.v, ExpectedProofs.v, RefProofs.v, SelectProofs.v, followed by
   Print Assumptions.
   Model = executable mirror of the etl code (Model.v); Spec = tagged values (Spec.v).
   "wf" hypotheses say only that the active index of the initial objects is a valid index
   (true of every constructed object) and that emplace<I> / in_place_index<I> name an existing
   alternative (otherwise the C++ call does not compile).  A model result [Ok _] excludes the
   outcomes Contract (a TETL_PRECONDITION in unchecked_get / operator* / error() fired),
   UB and OutOfFuel. *)
From Tetl Require Import Lib.Base C07.Types C07.Model C07.Spec C07.Dispatch C07.VariantProofs
  C07.OptionalProofs C07.ExpectedProofs C07.RefProofs C07.SelectProofs C07.Mutants.
Local Open Scope nat_scope.

(** * visit: the dispatcher reaches exactly the tuple of active indices — any arity, any sizes *)
Theorem C07_visit_dispatch_exact : forall sizes active, Forall2 lt active sizes ->
  dispatch sizes active = Some active.
Proof. exact dispatch_exact. Qed.
Print Assumptions C07_visit_dispatch_exact.

(* the visitor receives (active index, contained value) of every variant and no
   unchecked_get precondition fires *)
Theorem C07_visit_receives_active : forall sizes vs, Forall2 (fun s n => idx s < n) vs sizes ->
  visit_vals sizes vs = Ok (map (fun s => (idx s, val s)) vs).
Proof. exact visit_vals_ok. Qed.
Print Assumptions C07_visit_receives_active.

(* visit(f, vs...) over variants with their own alternative lists: f sees the active
   alternative's type and value, as [variant.visit] says *)
Theorem C07_visit_spec : forall altss vs, Forall2 (fun s al => wfv al s) vs altss ->
  visit_types altss vs = Ok (sv_visit altss (map absv vs)).
Proof. exact visit_types_ok. Qed.
Print Assumptions C07_visit_spec.

(** * variant *)
(* one operation: abs (step s o) = spec_step (abs s) o, for any list of alternatives *)
Theorem C07_variant_step_refines_std : forall alts s o, wfs alts s -> wf_vop alts o ->
  exists s', vstep alts s o = Ok s' /\ abss s' = sv_step alts (abss s) o /\ wfs alts s'.
Proof. exact vstep_refines. Qed.
Print Assumptions C07_variant_step_refines_std.

(* every history of constructions, emplace, converting/copy/move assignments, swap, self and
   aliasing assignments, from every pair of states *)
Theorem C07_variant_refines_std : forall alts ops s, wfs alts s -> Forall (wf_vop alts) ops ->
  exists s', vrun alts s ops = Ok s' /\ abss s' = sv_run alts (abss s) ops /\ wfs alts s'.
Proof. exact vrun_refines. Qed.
Print Assumptions C07_variant_refines_std.

(* the six relations: [variant.relops], index first, then the values *)
Theorem C07_variant_relops_spec : forall alts k a b, wfv alts a -> wfv alts b ->
  var_rel alts k a b = Ok (sv_rel k (absv a) (absv b)).
Proof. exact var_rel_ok. Qed.
Print Assumptions C07_variant_relops_spec.

Theorem C07_get_if_spec : forall s i, get_if s i = Ok (sv_get_if (absv s) i).
Proof. exact get_if_ok. Qed.
Print Assumptions C07_get_if_spec.

Theorem C07_holds_alternative_spec : forall alts s t,
  holds_alternative alts s t = sv_holds alts (absv s) t.
Proof. exact holds_alternative_ok. Qed.
Print Assumptions C07_holds_alternative_spec.

(* generic etl::swap (three moves) exchanges the two variants and leaves no moved-from residue *)
Theorem C07_swap_exchanges : forall alts a b, wfv alts a -> wfv alts b ->
  swap_generic alts a b = Ok (b, a).
Proof. exact swap_generic_ok. Qed.
Print Assumptions C07_swap_exchanges.

(* the converting constructor / assignment picks the alternative that overload resolution over
   the non-narrowing candidates picks: the unique viable alternative that is strictly better
   than every other viable one ([over.match.best]); otherwise the call is ill-formed *)
Theorem C07_select_is_best_viable : forall alts src j,
  select alts src = Some j <->
  exists rk, viable alts src j rk /\ forall k rk', k <> j -> viable alts src k rk' -> rk < rk'.
Proof. exact select_spec. Qed.
Print Assumptions C07_select_is_best_viable.

(** * optional *)
Theorem C07_optional_step_refines_std : forall T U s o, wfos s ->
  exists s', ostep T U s o = Ok s' /\ absos s' = so_step T U (absos s) o /\ wfos s'.
Proof. exact ostep_refines. Qed.
Print Assumptions C07_optional_step_refines_std.

Theorem C07_optional_refines_std : forall T U ops s, wfos s ->
  exists s', orun T U s ops = Ok s' /\ absos s' = so_run T U (absos s) ops /\ wfos s'.
Proof. exact orun_refines. Qed.
Print Assumptions C07_optional_refines_std.

(* all six relations: optional/optional (also mixed optional<T>/optional<U>), optional/nullopt
   in the forms the header provides, optional/value in both argument orders *)
Theorem C07_optional_relops_spec : forall k l r, opt_rel k l r = Ok (so_rel k (abso l) (abso r)).
Proof. exact opt_rel_ok. Qed.
Print Assumptions C07_optional_relops_spec.

Theorem C07_optional_nullopt_relops_spec : forall k s, opt_rel_null k s = so_rel_null k (abso s).
Proof. exact opt_rel_null_ok. Qed.
Print Assumptions C07_optional_nullopt_relops_spec.

Theorem C07_optional_value_relops_spec : forall k rev s v,
  opt_rel_val k rev s v = Ok (so_rel_val k rev (abso s) v).
Proof. exact opt_rel_val_ok. Qed.
Print Assumptions C07_optional_value_relops_spec.

Theorem C07_optional_value_or_spec : forall s d, opt_value_or s d = Ok (so_value_or (abso s) d).
Proof. exact opt_value_or_ok. Qed.
Print Assumptions C07_optional_value_or_spec.

Theorem C07_optional_and_then_spec : forall s f, opt_and_then s f = Ok (so_and_then (abso s) f).
Proof. exact opt_and_then_ok. Qed.
Print Assumptions C07_optional_and_then_spec.

Theorem C07_optional_or_else_spec : forall T s g, wfo s ->
  opt_or_else T s g = Ok (so_or_else (abso s) g).
Proof. exact opt_or_else_ok. Qed.
Print Assumptions C07_optional_or_else_spec.

(* the ref-qualified overloads of and_then (4), or_else (2), value_or (2), operator* (4), by the value
   category q of the object: result, category handed to the callable, and the object afterwards
   (a non-const rvalue is left engaged with a moved-from value when something was move-constructed from it) *)
Theorem C07_optional_and_then_qualified_spec : forall T q s f byval, wfo s ->
  exists m, opt_and_then_q T q s f byval = Ok m /\ abs_oq m = so_and_then_q T q (abso s) f byval /\ wfo (snd m).
Proof. exact opt_and_then_q_ok. Qed.
Print Assumptions C07_optional_and_then_qualified_spec.

Theorem C07_optional_or_else_qualified_spec : forall T q s g, wfo s ->
  exists m, opt_or_else_q T q s g = Ok m /\ abs_pq m = so_or_else_q T q (abso s) g /\ wfo (snd m).
Proof. exact opt_or_else_q_ok. Qed.
Print Assumptions C07_optional_or_else_qualified_spec.

Theorem C07_optional_value_or_qualified_spec : forall T q s d, wfo s ->
  exists m, opt_value_or_q T q s d = Ok m /\ abs_pq m = so_value_or_q T q (abso s) d /\ wfo (snd m).
Proof. exact opt_value_or_q_ok. Qed.
Print Assumptions C07_optional_value_or_qualified_spec.

Theorem C07_optional_take_qualified_spec : forall T q s r, wfo s -> so_take_q T q (abso s) = Some r ->
  exists m, opt_take_q T q s = Ok m /\ abs_pq m = r /\ wfo (snd m).
Proof. exact opt_take_q_ok. Qed.
Print Assumptions C07_optional_take_qualified_spec.

Theorem C07_optional_deref_spec : forall s v, abso s = Some v -> opt_deref s = Ok v.
Proof. exact opt_deref_spec. Qed.
Print Assumptions C07_optional_deref_spec.

(** * expected *)
Theorem C07_expected_refines_std : forall T E ops s, wfes s ->
  exists s', erun T E s ops = Ok s' /\ abses s' = se_run T E (abses s) ops /\ wfes s'.
Proof. exact erun_refines. Qed.
Print Assumptions C07_expected_refines_std.

Theorem C07_expected_observe_spec : forall s, wfe s ->
  match abse s with
  | inl v => exp_has_value s = true /\ exp_deref s = Ok v
  | inr e => exp_has_value s = false /\ exp_error s = Ok e
  end.
Proof. exact exp_observe_ok. Qed.
Print Assumptions C07_expected_observe_spec.

Theorem C07_expected_value_or_spec : forall s d, exp_value_or s d = Ok (se_value_or (abse s) d).
Proof. exact exp_value_or_ok. Qed.
Print Assumptions C07_expected_value_or_spec.

Theorem C07_expected_and_then_spec : forall s f, wfe s ->
  exp_and_then s f = Ok (se_and_then (abse s) f).
Proof. exact exp_and_then_ok. Qed.
Print Assumptions C07_expected_and_then_spec.

Theorem C07_expected_or_else_spec : forall s g, wfe s ->
  exp_or_else s g = Ok (se_or_else (abse s) g).
Proof. exact exp_or_else_ok. Qed.
Print Assumptions C07_expected_or_else_spec.

(* the four ref-qualified overloads: value category handed to the callable, result, and what the
   object is left with (fix 5f9f27c: && moves, const& does not) *)
Theorem C07_expected_and_then_qualified_spec : forall T E q s f byval, wfe s ->
  exists m, exp_and_then_q T E q s f byval = Ok m
    /\ abs_qres m = se_and_then_q T E q (abse s) f byval /\ wfe (snd m).
Proof. exact exp_and_then_q_ok. Qed.
Print Assumptions C07_expected_and_then_qualified_spec.

Theorem C07_expected_or_else_qualified_spec : forall T E q s g byval, wfe s ->
  exists m, exp_or_else_q T E q s g byval = Ok m
    /\ abs_qres m = se_or_else_q T E q (abse s) g byval /\ wfe (snd m).
Proof. exact exp_or_else_q_ok. Qed.
Print Assumptions C07_expected_or_else_qualified_spec.

Theorem C07_expected_value_or_qualified_spec : forall T q s d, wfe s ->
  exists m, exp_value_or_q T q s d = Ok m /\ abs_eq m = se_value_or_q T q (abse s) d /\ wfe (snd m).
Proof. exact exp_value_or_q_ok. Qed.
Print Assumptions C07_expected_value_or_qualified_spec.

Theorem C07_expected_take_qualified_spec : forall T q s r, wfe s -> se_take_q T q (abse s) = Some r ->
  exists m, exp_take_q T q s = Ok m /\ abs_eq m = r /\ wfe (snd m).
Proof. exact exp_take_q_ok. Qed.
Print Assumptions C07_expected_take_qualified_spec.

Theorem C07_expected_take_error_qualified_spec : forall E q s r, wfe s -> se_take_error_q E q (abse s) = Some r ->
  exists m, exp_take_error_q E q s = Ok m /\ abs_eq m = r /\ wfe (snd m).
Proof. exact exp_take_error_q_ok. Qed.
Print Assumptions C07_expected_take_error_qualified_spec.

(** * optional<T&> (incl. the converting constructor optional<T&>(optional<U> const&)) *)
(* whenever the P2988 pointer-cell semantics is defined for a history (it is undefined only for a
   write through a reference whose referent, the source's contained object, has been destroyed),
   the code runs without contract violation / UB and ends in the prescribed state *)
Theorem C07_optional_ref_refines_pointer_cell : forall T ops s s1,
  wfr s -> sr_run (absr s) ops = Some s1 ->
  exists s', rrun T s ops = Ok s' /\ absr s' = s1 /\ wfr s'.
Proof. exact rrun_refines. Qed.
Print Assumptions C07_optional_ref_refines_pointer_cell.

Theorem C07_optional_ref_deref_spec : forall s p v,
  sr_deref (cells s) (abso (src s)) p = Some v -> ref_deref (cells s) (src s) p = Ok v.
Proof. exact ref_deref_ok. Qed.
Print Assumptions C07_optional_ref_deref_spec.

(* fix af01b1f: engaged iff the source optional is engaged, then bound to the contained object *)
Theorem C07_optional_ref_from_optional_engaged_iff : forall T s t, wfr s ->
  exists s', rstep T s (RFromOpt t) = Ok s'
    /\ fst (rpick t s') = (if has_value (src s) then Some RSrc else None)
    /\ snd (rpick t s') = snd (rpick t s) /\ src s' = src s /\ cells s' = cells s /\ pz s' = pz s.
Proof. exact ref_from_opt_engaged_iff. Qed.
Print Assumptions C07_optional_ref_from_optional_engaged_iff.

Theorem C07_optional_ref_sees_source_assignment : forall T s v, wfr s ->
  exists s', rstep T s (RSrcAssign v) = Ok s' /\ pa s' = pa s /\ pb s' = pb s /\ pz s' = pz s
    /\ ref_deref (cells s') (src s') (Some RSrc) = Ok v.
Proof. exact ref_sees_source_assignment. Qed.
Print Assumptions C07_optional_ref_sees_source_assignment.

(** * unexpected *)
Theorem C07_unexpected_refines_std : forall E ops s, urun E s ops = su_run E s ops.
Proof. exact urun_refines. Qed.
Print Assumptions C07_unexpected_refines_std.

(** * the specifications reject the repaired behaviours (models of the pre-fix code, Mutants.v) *)
Theorem C07_prefix_optional_ref_from_empty_refuted :
  ref_from_opt_prefix opt_empty = Contract /\ ref_from_opt opt_empty = Ok None
  /\ (forall sr, ref_from_opt_prefix sr <> Ok None).
Proof. exact ref_from_opt_prefix_refuted. Qed.
Print Assumptions C07_prefix_optional_ref_from_empty_refuted.

Theorem C07_prefix_expected_swapped_overloads_refuted :
  let s := {| idx := 0; val := 1%Z |} in
  let f := fun v : Z => (true, v) in
  wfe s
  /\ (exists m, exp_and_then_q_prefix TTr TTr2 QR s f true = Ok m
        /\ abs_qres m <> se_and_then_q TTr TTr2 QR (abse s) f true)
  /\ (exists m, exp_and_then_q_prefix TTr TTr2 QC s f false = Ok m
        /\ abs_qres m <> se_and_then_q TTr TTr2 QC (abse s) f false).
Proof. exact exp_and_then_q_prefix_refuted. Qed.
Print Assumptions C07_prefix_expected_swapped_overloads_refuted.

Theorem C07_prefix_selection_without_narrowing_refuted :
  select_prefix [TBool; TTr] TInt = Some 0 /\ select [TBool; TTr] TInt = Some 1
  /\ select_prefix [TBool; TStr] TPtr = Some 0 /\ select [TBool; TStr] TPtr = Some 1
  /\ select_prefix [TFloat; TLong] TInt = None /\ select [TFloat; TLong] TInt = Some 1.
Proof. exact select_prefix_refuted. Qed.
Print Assumptions C07_prefix_selection_without_narrowing_refuted.

(** non-vacuity: the hypotheses are met by ordinary objects and the statements are not trivial
    (a history that changes alternative, moves, swaps; a dispatch over three variants; the
    selection rule on the fixed defect's witness variant<bool, Tracked>{int}) *)
Example C07_nonvacuous :
  wfs [TInt; TTr; TFloat] (var_default, var_default)
  /\ Forall (wf_vop [TInt; TTr; TFloat]) [VEmplace false 1 2%Z; VMoveAssign true; VSwap; VConvAssign false TShort 3%Z]
  /\ vrun [TInt; TTr; TFloat] (var_default, var_default)
       [VEmplace false 1 2%Z; VMoveAssign true; VSwap; VConvAssign false TShort 3%Z]
     = Ok ({| idx := 0; val := 3%Z |}, {| idx := 1; val := 99%Z |})
  /\ Forall2 lt [2; 0; 3] [3; 1; 4] /\ dispatch [3; 1; 4] [2; 0; 3] = Some [2; 0; 3]
  /\ select [TBool; TTr] TInt = Some 1 /\ select [TFloat; TLong] TInt = Some 1
  /\ select [TInt; TFloat] TDouble = None
  /\ wfos (opt_empty, opt_empty, opt_empty)
  /\ opt_rel 2 opt_empty (replace 1 5%Z) = Ok true
  /\ select [TBool; TStr] TPtr = Some 1
  (* optional<T const&>: source := 5; a := O(src); b := a; source := 6; both read 6 through &*src *)
  /\ (let s0 := {| cells := [1; 2; 3]%Z; src := opt_empty; pa := None; pb := None; pz := None |} in
      wfr s0
      /\ exists s', rrun TInt s0 [RSrcAssign 5%Z; RFromOpt false; RCopy true; RSrcAssign 6%Z] = Ok s'
          /\ pa s' = Some RSrc /\ pb s' = Some RSrc /\ ref_deref (cells s') (src s') (pb s') = Ok 6%Z)
  /\ sr_run (absr {| cells := [1; 2; 3]%Z; src := opt_empty; pa := None; pb := None; pz := None |})
        [RSrcAssign 5%Z; RFromOpt false; RSrcReset; RWrite false 7%Z] = None.
Proof.
  vm_compute. repeat split; try congruence; repeat constructor.
  eexists. repeat split.
Qed.
