(* C07 — placeholder; theorems follow *)
From Tetl Require Import Lib.Base C07.Types C07.Model C07.Spec.
