(* C07 — optional<T&> is the rebinding pointer cell of P2988, including the converting
   constructor optional<T&>(optional<U> const&) from a source optional<T0> (binds to the contained
   object iff the source is engaged) and from an optional<T0&> (binds to its referent). *)
From Tetl Require Import Lib.Base C07.Types C07.Model C07.Spec C07.Dispatch C07.VariantProofs C07.OptionalProofs.
Local Open Scope nat_scope.

Definition wfr (s : rstate) : Prop := wfo (src s).
Definition absr (s : rstate) : srstate := (cells s, abso (src s), ((pa s, pb s), pz s)).

Lemma set_nth_spec : forall l i v, set_nth l i v = sr_set l i v.
Proof.
  unfold sr_set. induction l as [|a l IH]; intros i v.
  - destruct i; reflexivity.
  - destruct i as [|i]; cbn [set_nth firstn skipn app]; [reflexivity|]. rewrite IH. reflexivity.
Qed.


(* the converting constructor: engaged iff the source is, and then bound to the contained object;
   operator* of the source is evaluated only inside its precondition *)
Lemma ref_from_opt_ok : forall sr,
  ref_from_opt sr = Ok (match abso sr with Some _ => Some RSrc | None => None end).
Proof.
  intro sr. unfold ref_from_opt, abso. destruct (has_value sr) eqn:E; [|reflexivity].
  rewrite opt_deref_ok by exact E. reflexivity.
Qed.

Lemma ref_from_ref_ok : forall z, ref_from_ref z = Ok z.
Proof. intros [g|]; reflexivity. Qed.

Ltac rwrap := eexists; split; [reflexivity|split; [reflexivity|assumption]].

Theorem rstep_refines : forall T s o s1, wfr s -> sr_step (absr s) o = Some s1 ->
  exists s', rstep T s o = Ok s' /\ absr s' = s1 /\ wfr s'.
Proof.
  intros T [cs sr a b z] o s1 Hw. unfold wfr in Hw. cbn [src] in Hw. unfold absr. cbn [rput cells src pa pb pz].
  destruct o as [t c|t|t| |t v|t|c v|t|t|t|t|c| |v|v| ];
    cbn [rstep sr_step rpick rput spick sput cells src pa pb pz fst snd]; intro H.
  - destruct t; inversion H; subst; rwrap.
  - destruct t; inversion H; subst; rwrap.
  - destruct t; inversion H; subst; rwrap.
  - inversion H; subst; rwrap.
  - (* write through *)
    destruct t; cbn [fst snd] in H |- *.
    + destruct b as [[c|]|]; cbn [ref_star rbind].
      * inversion H; subst. eexists; split; [reflexivity|]. cbn [rput cells src pa pb pz]. rewrite set_nth_spec.
        split; [reflexivity|exact Hw].
      * destruct (has_value sr) eqn:E.
        -- rewrite abso_engaged in H by exact E. inversion H; subst. eexists; split; [reflexivity|].
           cbn [rput cells src pa pb pz]. unfold abso, has_value in *. cbn [idx val]. rewrite E.
           split; [reflexivity|]. unfold wfr, wfo. cbn [src idx]. exact Hw.
        -- rewrite abso_disengaged in H by exact E. discriminate H.
      * inversion H; subst. rwrap.
    + destruct a as [[c|]|]; cbn [ref_star rbind].
      * inversion H; subst. eexists; split; [reflexivity|]. cbn [rput cells src pa pb pz]. rewrite set_nth_spec.
        split; [reflexivity|exact Hw].
      * destruct (has_value sr) eqn:E.
        -- rewrite abso_engaged in H by exact E. inversion H; subst. eexists; split; [reflexivity|].
           cbn [rput cells src pa pb pz]. unfold abso, has_value in *. cbn [idx val]. rewrite E.
           split; [reflexivity|]. unfold wfr, wfo. cbn [src idx]. exact Hw.
        -- rewrite abso_disengaged in H by exact E. discriminate H.
      * inversion H; subst. rwrap.
  - destruct t; inversion H; subst; rwrap.
  - inversion H; subst. eexists; split; [reflexivity|]. cbn [rput cells src pa pb pz]. rewrite set_nth_spec.
    split; [reflexivity|exact Hw].
  - (* from optional<T0> const& *)
    rewrite ref_from_opt_ok. cbn [rbind]. destruct t; inversion H; subst; rwrap.
  - rewrite ref_from_ref_ok. cbn [rbind]. destruct t; inversion H; subst; rwrap.
  - rewrite ref_from_opt_ok. cbn [rbind]. destruct t; inversion H; subst; rwrap.
  - rewrite ref_from_ref_ok. cbn [rbind]. destruct t; inversion H; subst; rwrap.
  - inversion H; subst; rwrap.
  - inversion H; subst; rwrap.
  - rewrite opt_assign_value_ok by exact Hw. rewrite conv_self. cbn [rbind]. inversion H; subst.
    eexists; split; [reflexivity|]. cbn [rput cells src pa pb pz]. rewrite abso_some.
    split; [reflexivity|apply wfo_replace1].
  - rewrite opt_emplace_ok by exact Hw. cbn [rbind]. inversion H; subst.
    eexists; split; [reflexivity|]. cbn [rput cells src pa pb pz]. rewrite abso_some.
    split; [reflexivity|apply wfo_replace1].
  - rewrite opt_reset_ok by exact Hw. cbn [rbind]. inversion H; subst.
    eexists; split; [reflexivity|]. cbn [rput cells src pa pb pz]. rewrite abso_none.
    split; [reflexivity|apply wfo_replace0].
Qed.

Theorem rrun_refines : forall T ops s s1, wfr s -> sr_run (absr s) ops = Some s1 ->
  exists s', rrun T s ops = Ok s' /\ absr s' = s1 /\ wfr s'.
Proof.
  intros T. induction ops as [|o r IH]; intros s s1 Hw H.
  - cbn [sr_run] in H. inversion H; subst. exists s. split; [reflexivity|split; [reflexivity|exact Hw]].
  - cbn [sr_run] in H. destruct (sr_step (absr s) o) as [m|] eqn:E; [|discriminate H].
    destruct (rstep_refines T s o m Hw E) as [s2 [H1 [Ha1 Hw1]]]. subst m.
    destruct (IH s2 s1 Hw1 H) as [s3 [H2 [Ha2 Hw2]]].
    exists s3. cbn [rrun]. rewrite H1. cbn [rbind]. split; [exact H2|split; [exact Ha2|exact Hw2]].
Qed.

(* what is read through a reference: the spec's value whenever it has one; a disengaged
   reference is a contract violation, a dangling one is undefined *)
Theorem ref_deref_ok : forall s p v, sr_deref (cells s) (abso (src s)) p = Some v ->
  ref_deref (cells s) (src s) p = Ok v.
Proof.
  intros s p v H. unfold ref_deref. destruct p as [[c|]|]; cbn [ref_star rbind tgt_read sr_deref] in *.
  - rewrite H. reflexivity.
  - unfold abso in H. destruct (has_value (src s)); [inversion H; reflexivity|discriminate H].
  - discriminate H.
Qed.

(* the repaired defect, as a statement of its own: a reference constructed from an optional is
   engaged iff the optional is and then designates the contained object; nothing else changes and
   no precondition of the source's operator* is evaluated outside its domain (the result is Ok) *)
Theorem ref_from_opt_engaged_iff : forall T s t, wfr s ->
  exists s', rstep T s (RFromOpt t) = Ok s'
    /\ fst (rpick t s') = (if has_value (src s) then Some RSrc else None)
    /\ snd (rpick t s') = snd (rpick t s) /\ src s' = src s /\ cells s' = cells s /\ pz s' = pz s.
Proof.
  intros T [cs sr a b z] t Hw. cbn [rstep rpick cells src pa pb pz]. rewrite ref_from_opt_ok. cbn [rbind].
  unfold abso. destruct t; cbn [fst snd]; eexists; (split; [reflexivity|]); cbn [rput rpick cells src pa pb pz fst snd];
    destruct (has_value sr); repeat split.
Qed.

(* a later assignment to the source is seen through a reference bound to its contained object *)
Theorem ref_sees_source_assignment : forall T s v, wfr s ->
  exists s', rstep T s (RSrcAssign v) = Ok s' /\ pa s' = pa s /\ pb s' = pb s /\ pz s' = pz s
    /\ ref_deref (cells s') (src s') (Some RSrc) = Ok v.
Proof.
  intros T [cs sr a b z] v Hw. unfold wfr in Hw. cbn [src] in Hw. cbn [rstep cells src pa pb pz].
  rewrite opt_assign_value_ok by exact Hw. rewrite conv_self. cbn [rbind].
  eexists; split; [reflexivity|]. cbn [cells src pa pb pz]. repeat split.
Qed.
