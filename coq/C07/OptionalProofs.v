(* C07 — optional<T> (= variant<nullopt_t, T> in the code) refines std::optional (= option). *)
From Tetl Require Import Lib.Base C07.Types C07.Model C07.Spec C07.Dispatch C07.VariantProofs.
Local Open Scope nat_scope.
Ltac Zify.zify_post_hook ::= Z.to_euclidean_division_equations.

Definition wfo (s : var) : Prop := idx s < 2.
Definition abso (s : var) : option Z := if has_value s then Some (val s) else None.

Lemma abso_engaged : forall s, has_value s = true -> abso s = Some (val s).
Proof. intros s H. unfold abso. rewrite H. reflexivity. Qed.
Lemma abso_disengaged : forall s, has_value s = false -> abso s = None.
Proof. intros s H. unfold abso. rewrite H. reflexivity. Qed.

Lemma wfo_wfv : forall T s, wfo s -> wfv (oalts T) s.
Proof. intros T s H; exact H. Qed.

Lemma opt_deref_ok : forall s, has_value s = true -> opt_deref s = Ok (val s).
Proof.
  intros s H. unfold opt_deref. rewrite H. unfold has_value in H. apply Nat.eqb_eq in H.
  unfold uget. rewrite H. reflexivity.
Qed.

Lemma abso_some : forall v, abso (replace 1 v) = Some v.
Proof. reflexivity. Qed.
Lemma abso_none : forall v, abso (replace 0 v) = None.
Proof. reflexivity. Qed.
Lemma wfo_replace1 : forall v, wfo (replace 1 v).
Proof. intro v; unfold wfo, replace; cbn [idx]; lia. Qed.
Lemma wfo_replace0 : forall v, wfo (replace 0 v).
Proof. intro v; unfold wfo, replace; cbn [idx]; lia. Qed.

Lemma abso_moved : forall T y, wfo y -> abso (moved (oalts T) y) = so_moved T (abso y).
Proof.
  intros T [i v] H. unfold wfo in H. cbn [idx] in H.
  destruct i as [|[|i]]; [reflexivity|reflexivity|lia].
Qed.

Lemma wfo_moved : forall T y, wfo y -> wfo (moved (oalts T) y).
Proof. intros T y H; exact H. Qed.

Lemma opt_reset_ok : forall T s, wfo s -> opt_reset T s = Ok (replace 0 0%Z).
Proof. intros T s H. unfold opt_reset. apply emplace_ok. exact H. Qed.

Lemma opt_emplace_ok : forall T s v, wfo s -> opt_emplace T s v = Ok (replace 1 v).
Proof. intros T s v H. unfold opt_emplace. apply emplace_ok. exact H. Qed.

Lemma opt_assign_value_ok : forall T s src v, wfo s ->
  opt_assign_value T s src v = Ok (replace 1 (conv src T v)).
Proof.
  intros T s src v H. unfold opt_assign_value.
  destruct (negb (is_scalar T) && negb (ty_eqb T src)).
  - destruct (has_value s) eqn:E.
    + rewrite opt_deref_ok by exact E. cbn [rbind]. unfold has_value in E. apply Nat.eqb_eq in E.
      rewrite E. reflexivity.
    + apply opt_emplace_ok. exact H.
  - apply assign_temp_ok; [exact H|apply wfo_replace1].
Qed.

Definition conv_result (U T : ty) (c : var) : var :=
  if has_value c then replace 1 (conv U T (val c)) else replace 0 0%Z.

Lemma abso_conv_result : forall U T c, abso (conv_result U T c) = so_conv U T (abso c).
Proof. intros U T c. unfold conv_result, abso. destruct (has_value c); reflexivity. Qed.

Lemma wfo_conv_result : forall U T c, wfo (conv_result U T c).
Proof. intros U T c. unfold conv_result. destruct (has_value c); [apply wfo_replace1|apply wfo_replace0]. Qed.

Lemma opt_assign_conv_ok : forall T U s c, wfo s -> opt_assign_conv T U s c = Ok (conv_result U T c).
Proof.
  intros T U s c H. unfold opt_assign_conv, conv_result. destruct (has_value c) eqn:E; cbn [negb].
  - destruct (has_value s) eqn:Es.
    + rewrite (opt_deref_ok c) by exact E. cbn [rbind]. rewrite (opt_deref_ok s) by exact Es. cbn [rbind].
      unfold has_value in Es. apply Nat.eqb_eq in Es. rewrite Es. reflexivity.
    + rewrite opt_deref_ok by exact E. cbn [rbind]. apply opt_emplace_ok. exact H.
  - apply opt_reset_ok. exact H.
Qed.

Lemma opt_ctor_conv_ok : forall T U c, opt_ctor_conv T U c = Ok (conv_result U T c).
Proof.
  intros T U c. unfold opt_ctor_conv, conv_result. destruct (has_value c) eqn:E.
  - rewrite opt_deref_ok by exact E. cbn [rbind]. apply opt_emplace_ok. apply wfo_replace0.
  - reflexivity.
Qed.

Lemma abso_moved_src : forall U c, abso (opt_moved_src U c) = so_moved U (abso c).
Proof.
  intros U c. unfold opt_moved_src, abso. destruct (has_value c) eqn:E; [|rewrite E; reflexivity].
  unfold has_value in *. cbn [idx val]. rewrite E. reflexivity.
Qed.

Lemma wfo_moved_src : forall U c, wfo c -> wfo (opt_moved_src U c).
Proof. intros U c H. unfold opt_moved_src. destruct (has_value c); exact H. Qed.

(** ** one step *)
Definition wfos (s : ostate) : Prop := wfo (fst (fst s)) /\ wfo (snd (fst s)) /\ wfo (snd s).
Definition absos (s : ostate) : option Z * option Z * option Z :=
  ((abso (fst (fst s)), abso (snd (fst s))), abso (snd s)).

Lemma opick_spick : forall t (ab : var * var),
  (let '(x, y) := pick t ab in (abso x, abso y)) = spick t (abso (fst ab), abso (snd ab)).
Proof. intros [|] [a b]; reflexivity. Qed.

Lemma abso_put : forall t x y, (abso (fst (put t x y)), abso (snd (put t x y))) = sput t (abso x) (abso y).
Proof. intros [|] x y; reflexivity. Qed.

Lemma wfo_pick : forall t (ab : var * var), wfo (fst ab) -> wfo (snd ab) ->
  wfo (fst (pick t ab)) /\ wfo (snd (pick t ab)).
Proof. intros [|] [a b] Ha Hb; split; assumption. Qed.

Lemma wfo_put : forall t x y, wfo x -> wfo y -> wfo (fst (put t x y)) /\ wfo (snd (put t x y)).
Proof. intros [|] x y Hx Hy; split; assumption. Qed.

Ltac ostep_setup t ab x y Hx Hy Hput :=
  let P := fresh "P" in
  destruct (wfo_pick t ab ltac:(assumption) ltac:(assumption)) as [Hx Hy];
  pose proof (opick_spick t ab) as P;
  pose proof (put_pick t ab) as Hput;
  destruct (pick t ab) as [x y]; cbn [fst snd] in Hx, Hy, Hput;
  destruct (spick t (abso (fst ab), abso (snd ab))) as [sx sy]; inversion P; subst sx sy; clear P.

Ltac ofinish t x' y c' :=
  eexists; split; [reflexivity|]; split;
  [ unfold absos; cbn [fst snd]; rewrite (abso_put t x' y); reflexivity
  | unfold wfos; cbn [fst snd]; destruct (wfo_put t x' y ltac:(auto) ltac:(auto)) as [? ?]; auto ].

Theorem ostep_refines : forall T U s o, wfos s ->
  exists s', ostep T U s o = Ok s' /\ absos s' = so_step T U (absos s) o /\ wfos s'.
Proof.
  intros T U [ab c] o [Ha [Hb Hc]]. cbn [fst snd] in Ha, Hb, Hc.
  pose proof wfo_replace1 as W1. pose proof wfo_replace0 as W0. pose proof (wfo_replace0 0%Z : wfo opt_empty) as We.
  destruct o as [t v|t v|t v|t|t|t|t|t|t|t| |t|t|t|t|t|t|t|v| |t v|t v|t|t];
    unfold absos; cbn [ostep so_step fst snd].
  - (* emplace *)
    ostep_setup t ab x y Hx Hy Hput. rewrite opt_emplace_ok by exact Hx. cbn [rbind].
    ofinish t (replace 1 v) y c.
  - (* x = T value *)
    ostep_setup t ab x y Hx Hy Hput. rewrite opt_assign_value_ok by exact Hx. cbn [rbind].
    rewrite conv_self. ofinish t (replace 1 v) y c.
  - (* x = U value *)
    ostep_setup t ab x y Hx Hy Hput. rewrite opt_assign_value_ok by exact Hx. cbn [rbind].
    ofinish t (replace 1 (conv U T v)) y c.
  - (* x = nullopt *)
    ostep_setup t ab x y Hx Hy Hput. rewrite opt_reset_ok by exact Hx. cbn [rbind].
    ofinish t (replace 0 0%Z) y c.
  - (* x = {} *)
    ostep_setup t ab x y Hx Hy Hput. rewrite assign_temp_ok by (try exact Hx; apply W0). cbn [rbind].
    ofinish t opt_empty y c.
  - (* reset *)
    ostep_setup t ab x y Hx Hy Hput. rewrite opt_reset_ok by exact Hx. cbn [rbind].
    ofinish t (replace 0 0%Z) y c.
  - (* copy assignment *)
    ostep_setup t ab x y Hx Hy Hput. rewrite assign_copy_ok by assumption. cbn [rbind].
    ofinish t y y c.
  - (* move assignment *)
    ostep_setup t ab x y Hx Hy Hput. rewrite assign_move_ok by assumption. cbn [rbind fst snd].
    eexists; split; [reflexivity|]. split.
    + unfold absos; cbn [fst snd]. rewrite (abso_put t y (moved (oalts T) y)), abso_moved by exact Hy. reflexivity.
    + unfold wfos; cbn [fst snd]. destruct (wfo_put t y (moved (oalts T) y) Hy (wfo_moved T y Hy)) as [? ?]. auto.
  - (* copy constructor *)
    ostep_setup t ab x y Hx Hy Hput. rewrite copy_ctor_ok by assumption. cbn [rbind].
    rewrite assign_temp_ok by assumption. cbn [rbind]. ofinish t y y c.
  - (* move constructor *)
    ostep_setup t ab x y Hx Hy Hput. rewrite move_ctor_ok by assumption. cbn [rbind fst snd].
    rewrite assign_temp_ok by assumption. cbn [rbind].
    eexists; split; [reflexivity|]. split.
    + unfold absos; cbn [fst snd]. rewrite (abso_put t y (moved (oalts T) y)), abso_moved by exact Hy. reflexivity.
    + unfold wfos; cbn [fst snd]. destruct (wfo_put t y (moved (oalts T) y) Hy (wfo_moved T y Hy)) as [? ?]. auto.
  - (* swap *)
    rewrite swap_generic_ok by assumption. cbn [rbind].
    eexists; split; [reflexivity|]. split; [reflexivity|]. unfold wfos; cbn [fst snd]; auto.
  - (* self copy *)
    ostep_setup t ab x y Hx Hy Hput. rewrite assign_copy_ok by assumption. cbn [rbind]. rewrite Hput.
    eexists; split; [reflexivity|]. split; [reflexivity|]. unfold wfos; cbn [fst snd]; auto.
  - (* self move *)
    ostep_setup t ab x y Hx Hy Hput. rewrite self_move_ok by assumption. cbn [rbind]. rewrite Hput.
    eexists; split; [reflexivity|]. split; [reflexivity|]. unfold wfos; cbn [fst snd]; auto.
  - (* x = *x *)
    ostep_setup t ab x y Hx Hy Hput. destruct (has_value x) eqn:Ev.
    + rewrite opt_deref_ok by exact Ev. cbn [rbind].
      rewrite assign_temp_ok by (try exact Hx; apply W1). cbn [rbind].
      assert (Hxx : replace 1 (val x) = x).
      { unfold has_value in Ev. apply Nat.eqb_eq in Ev. unfold replace. rewrite <- Ev. apply var_eta. }
      rewrite Hxx, Hput.
      eexists; split; [reflexivity|]. split; [reflexivity|]. unfold wfos; cbn [fst snd]; auto.
    + eexists; split; [reflexivity|]. split; [reflexivity|]. unfold wfos; cbn [fst snd]; auto.
  - (* x = c *)
    ostep_setup t ab x y Hx Hy Hput. rewrite opt_assign_conv_ok by exact Hx. cbn [rbind].
    pose proof (wfo_conv_result U T c) as Wc.
    eexists; split; [reflexivity|]. split.
    + unfold absos; cbn [fst snd]. rewrite (abso_put t (conv_result U T c) y), abso_conv_result. reflexivity.
    + unfold wfos; cbn [fst snd]. destruct (wfo_put t (conv_result U T c) y Wc Hy) as [? ?]. auto.
  - (* x = move(c) *)
    ostep_setup t ab x y Hx Hy Hput. rewrite opt_assign_conv_ok by exact Hx. cbn [rbind].
    pose proof (wfo_conv_result U T c) as Wc.
    eexists; split; [reflexivity|]. split.
    + unfold absos; cbn [fst snd].
      rewrite (abso_put t (conv_result U T c) y), abso_conv_result, abso_moved_src. reflexivity.
    + unfold wfos; cbn [fst snd]. destruct (wfo_put t (conv_result U T c) y Wc Hy) as [? ?].
      pose proof (wfo_moved_src U c Hc). auto.
  - (* x = O(c) *)
    ostep_setup t ab x y Hx Hy Hput. rewrite opt_ctor_conv_ok. cbn [rbind].
    pose proof (wfo_conv_result U T c) as Wc.
    rewrite assign_temp_ok by assumption. cbn [rbind].
    eexists; split; [reflexivity|]. split.
    + unfold absos; cbn [fst snd]. rewrite (abso_put t (conv_result U T c) y), abso_conv_result. reflexivity.
    + unfold wfos; cbn [fst snd]. destruct (wfo_put t (conv_result U T c) y Wc Hy) as [? ?]. auto.
  - (* x = O(move(c)) *)
    ostep_setup t ab x y Hx Hy Hput. rewrite opt_ctor_conv_ok. cbn [rbind].
    pose proof (wfo_conv_result U T c) as Wc.
    rewrite assign_temp_ok by assumption. cbn [rbind].
    eexists; split; [reflexivity|]. split.
    + unfold absos; cbn [fst snd].
      rewrite (abso_put t (conv_result U T c) y), abso_conv_result, abso_moved_src. reflexivity.
    + unfold wfos; cbn [fst snd]. destruct (wfo_put t (conv_result U T c) y Wc Hy) as [? ?].
      pose proof (wfo_moved_src U c Hc). auto.
  - (* c.emplace(v) *)
    rewrite opt_emplace_ok by exact Hc. cbn [rbind].
    eexists; split; [reflexivity|]. split; [reflexivity|]. unfold wfos; cbn [fst snd]; auto.
  - (* c.reset() *)
    rewrite opt_reset_ok by exact Hc. cbn [rbind].
    eexists; split; [reflexivity|]. split; [reflexivity|]. unfold wfos; cbn [fst snd]; auto.
  - (* x = O(in_place, v) / O(T value) *)
    ostep_setup t ab x y Hx Hy Hput. rewrite assign_temp_ok by (try exact Hx; apply W1). cbn [rbind].
    ofinish t (replace 1 v) y c.
  - (* x = O(U value) *)
    ostep_setup t ab x y Hx Hy Hput. rewrite assign_temp_ok by (try exact Hx; apply W1). cbn [rbind].
    ofinish t (replace 1 (conv U T v)) y c.
  - (* x = O() / O(nullopt) *)
    ostep_setup t ab x y Hx Hy Hput. rewrite assign_temp_ok by (try exact Hx; apply W0). cbn [rbind].
    ofinish t opt_empty y c.
  - (* x = x->v *)
    ostep_setup t ab x y Hx Hy Hput. destruct (has_value x) eqn:Ev.
    + rewrite opt_deref_ok by exact Ev. cbn [rbind]. rewrite opt_assign_value_ok by exact Hx. cbn [rbind].
      rewrite (abso_engaged x Ev). ofinish t (replace 1 (conv TInt T (val x))) y c.
    + rewrite (abso_disengaged x Ev).
      eexists; split; [reflexivity|]. split; [rewrite <- Hput; unfold absos; cbn [fst snd]; rewrite (abso_put t x y), (abso_disengaged x Ev); reflexivity|].
      unfold wfos; cbn [fst snd]; auto.
Qed.

Theorem orun_refines : forall T U ops s, wfos s ->
  exists s', orun T U s ops = Ok s' /\ absos s' = so_run T U (absos s) ops /\ wfos s'.
Proof.
  intros T U ops. induction ops as [|o r IH]; intros s Hwf.
  - exists s. split; [reflexivity|]. split; [reflexivity|exact Hwf].
  - destruct (ostep_refines T U s o Hwf) as [s1 [H1 [Ha1 Hw1]]].
    destruct (IH s1 Hw1) as [s2 [H2 [Ha2 Hw2]]].
    exists s2. cbn [orun]. rewrite H1. cbn [rbind]. split; [exact H2|]. split; [|exact Hw2].
    rewrite Ha2, Ha1. reflexivity.
Qed.

(** ** observers *)
Theorem opt_value_or_ok : forall s d, opt_value_or s d = Ok (so_value_or (abso s) d).
Proof.
  intros s d. unfold opt_value_or, abso. destruct (has_value s) eqn:E; [|reflexivity].
  rewrite opt_deref_ok by exact E. reflexivity.
Qed.

Theorem opt_and_then_ok : forall s f, opt_and_then s f = Ok (so_and_then (abso s) f).
Proof.
  intros s f. unfold opt_and_then, abso. destruct (has_value s) eqn:E; [|reflexivity].
  rewrite opt_deref_ok by exact E. reflexivity.
Qed.

Theorem opt_or_else_ok : forall T s g, wfo s -> opt_or_else T s g = Ok (so_or_else (abso s) g).
Proof.
  intros T s g H. unfold opt_or_else, abso. destruct (has_value s) eqn:E; [|reflexivity].
  rewrite copy_ctor_ok by exact H. cbn [rbind]. rewrite E. rewrite opt_deref_ok by exact E. reflexivity.
Qed.

(** ** the ref-qualified overloads *)
Lemma abso_steal : forall T s, has_value s = true -> abso (steal T s) = Some (moved_val T (val s)).
Proof. intros T s H. unfold abso, steal, has_value in *. cbn [idx val]. rewrite H. reflexivity. Qed.

Definition abs_oq (m : option Z * option qual * var) := (fst (fst m), snd (fst m), abso (snd m)).
Definition abs_pq {A} (m : A * var) := (fst m, abso (snd m)).

Theorem opt_and_then_q_ok : forall T q s f byval, wfo s ->
  exists m, opt_and_then_q T q s f byval = Ok m /\ abs_oq m = so_and_then_q T q (abso s) f byval /\ wfo (snd m).
Proof.
  intros T q s f byval H. unfold opt_and_then_q, so_and_then_q, abs_oq.
  destruct (has_value s) eqn:E.
  - rewrite (opt_deref_ok s E). cbn [rbind]. rewrite (abso_engaged s E).
    destruct q; (eexists; split; [reflexivity|]); cbn [fst snd is_rv andb];
      try (rewrite (abso_engaged s E); split; [reflexivity|exact H]).
    destruct byval; cbn [fst snd].
    + rewrite abso_steal by exact E. split; [reflexivity|exact H].
    + rewrite (abso_engaged s E). split; [reflexivity|exact H].
  - rewrite (abso_disengaged s E).
    destruct q; (eexists; split; [reflexivity|]); cbn [fst snd]; rewrite (abso_disengaged s E);
      (split; [reflexivity|exact H]).
Qed.

Theorem opt_or_else_q_ok : forall T q s g, wfo s ->
  exists m, opt_or_else_q T q s g = Ok m /\ abs_pq m = so_or_else_q T q (abso s) g /\ wfo (snd m).
Proof.
  intros T q s g H. unfold opt_or_else_q, so_or_else_q, abs_pq.
  assert (Hc : forall q', is_rv q' = false ->
     exists m, rbind (opt_or_else T s g) (fun r => Ok (r, s)) = Ok m
       /\ (fst m, abso (snd m)) = match abso s with Some v => (Some v, if is_rv q' then Some (moved_val T v) else abso s) | None => (g, None) end
       /\ wfo (snd m)).
  { intros q' Hq. rewrite (opt_or_else_ok T s g H). cbn [rbind]. eexists; split; [reflexivity|]. cbn [fst snd].
    rewrite Hq. unfold so_or_else. destruct (abso s); (split; [reflexivity|exact H]). }
  destruct q; try (apply Hc; reflexivity).
  destruct (has_value s) eqn:E.
  - rewrite move_ctor_ok by (apply wfo_wfv; exact H). cbn [rbind]. rewrite E.
    rewrite (opt_deref_ok s E). cbn [rbind]. eexists; split; [reflexivity|]. cbn [fst snd is_rv].
    rewrite abso_moved by exact H. rewrite (abso_engaged s E). cbn [so_moved].
    split; [reflexivity|apply wfo_moved; exact H].
  - eexists; split; [reflexivity|]. cbn [fst snd]. rewrite (abso_disengaged s E). split; [reflexivity|exact H].
Qed.

Theorem opt_value_or_q_ok : forall T q s d, wfo s ->
  exists m, opt_value_or_q T q s d = Ok m /\ abs_pq m = so_value_or_q T q (abso s) d /\ wfo (snd m).
Proof.
  intros T q s d H. unfold opt_value_or_q, so_value_or_q, abs_pq.
  assert (Hc : forall q', is_rv q' = false ->
     exists m, rbind (opt_value_or s d) (fun v => Ok (v, s)) = Ok m
       /\ (fst m, abso (snd m)) = match abso s with Some v => (v, if is_rv q' then Some (moved_val T v) else abso s) | None => (d, None) end
       /\ wfo (snd m)).
  { intros q' Hq. rewrite (opt_value_or_ok s d). cbn [rbind]. eexists; split; [reflexivity|]. cbn [fst snd].
    rewrite Hq. unfold so_value_or. destruct (abso s); (split; [reflexivity|exact H]). }
  destruct q; try (apply Hc; reflexivity).
  destruct (has_value s) eqn:E.
  - rewrite (opt_deref_ok s E). cbn [rbind]. eexists; split; [reflexivity|]. cbn [fst snd is_rv].
    rewrite abso_steal by exact E. rewrite (abso_engaged s E). split; [reflexivity|exact H].
  - eexists; split; [reflexivity|]. cbn [fst snd]. rewrite (abso_disengaged s E). split; [reflexivity|exact H].
Qed.

Theorem opt_take_q_ok : forall T q s r, wfo s -> so_take_q T q (abso s) = Some r ->
  exists m, opt_take_q T q s = Ok m /\ abs_pq m = r /\ wfo (snd m).
Proof.
  intros T q s r H Hs. unfold opt_take_q, so_take_q, abs_pq in *.
  destruct (has_value s) eqn:E.
  - rewrite (abso_engaged s E) in Hs. inversion Hs; subst r. rewrite (opt_deref_ok s E). cbn [rbind].
    eexists; split; [reflexivity|]. cbn [fst snd]. destruct (is_rv q).
    + rewrite abso_steal by exact E. split; [reflexivity|exact H].
    + rewrite (abso_engaged s E). split; [reflexivity|exact H].
  - rewrite (abso_disengaged s E) in Hs. discriminate Hs.
Qed.

Ltac deref_both l r El Er :=
  rewrite (opt_deref_ok l El); cbn [rbind]; rewrite (opt_deref_ok r Er); cbn [rbind].

Theorem opt_rel_ok : forall k l r, opt_rel k l r = Ok (so_rel k (abso l) (abso r)).
Proof.
  intros k l r. unfold opt_rel, so_rel, abso.
  destruct k as [|[|[|[|[|k]]]]];
    destruct (has_value l) eqn:El; destruct (has_value r) eqn:Er; cbn [negb andb Bool.eqb rbind];
    try reflexivity; deref_both l r El Er; try rewrite rel_z_ne; reflexivity.
Qed.

Theorem opt_rel_null_ok : forall k s, opt_rel_null k s = so_rel_null k (abso s).
Proof.
  intros k s. unfold opt_rel_null, so_rel_null, abso.
  destruct k as [|[|[|[|[|k]]]]]; destruct (has_value s); reflexivity.
Qed.

Lemma rel_z_eq_sym : forall x y, rel_z 0 x y = rel_z 0 y x.
Proof.
  intros x y. unfold rel_z. rewrite (Bool.orb_comm (is_nan y)).
  destruct (is_nan x || is_nan y); [reflexivity|]. cbn [rel_tot]. apply Z.eqb_sym.
Qed.

Theorem opt_rel_val_ok : forall k rev s v, opt_rel_val k rev s v = Ok (so_rel_val k rev (abso s) v).
Proof.
  intros k rev s v. unfold opt_rel_val, so_rel_val, abso.
  destruct k as [|[|[|[|[|k]]]]]; destruct rev; destruct (has_value s) eqn:E; cbn [rbind];
    try reflexivity; rewrite (opt_deref_ok s E); cbn [rbind]; try rewrite rel_z_ne; try reflexivity.
  - rewrite rel_z_eq_sym. reflexivity.
  - rewrite rel_z_eq_sym. reflexivity.
Qed.

(* has_value / operator bool / operator* agree with the tagged value *)
Theorem opt_has_value_ok : forall s, has_value s = match abso s with Some _ => true | None => false end.
Proof. intro s. unfold abso. destruct (has_value s); reflexivity. Qed.

Theorem opt_deref_spec : forall s v, abso s = Some v -> opt_deref s = Ok v.
Proof.
  intros s v H. unfold abso in H. destruct (has_value s) eqn:E; [|discriminate].
  inversion H; subst. apply opt_deref_ok. exact E.
Qed.
