(* C07 — special members of variant (and of optional / expected, whose special members are the
   defaulted ones over a variant member) as a function of the TRIVIALITY of each special member of each
   alternative.

   Model.v decides "defaulted, bytewise special member or the visit based one" by ONE flag per
   alternative type (a scalar is trivial in everything, a class in nothing).  The code decides per
   special member: variant.hpp keeps `variant(variant const&) = default` unless some alternative is not
   trivially copy constructible, keeps `operator=(variant&&) = default` unless some alternative fails
   detail::variant_trivially_move_assignable, and so on.  Here an alternative is a record of flags (one
   per special member: user-provided or trivial); every user-provided member leaves an event, a
   user-provided move leaves the moved-from sentinel in its source; a bytewise copy leaves nothing.
   With that, taking the bytewise path for an alternative whose own operation is user-provided is
   visible in the event sequence and in the source object.

   This file: the element universe (flags, events, what each element operation does, what g++ answers
   for the element's traits) and the executable mirror of the code.  No proofs. *)
From Tetl Require Import Lib.Base.
Local Open Scope Z_scope.

(** * Alternatives: one flag per special member, true = user-provided (non-trivial) *)
Record smf := { is_cls : bool;      (* constructed from an int by a (logged) constructor; false: int, nullopt_t *)
                u_cc : bool; u_mc : bool; u_ca : bool; u_ma : bool; u_dt : bool }.

Definition f_plain : smf :=
  {| is_cls := false; u_cc := false; u_mc := false; u_ca := false; u_ma := false; u_dt := false |}.

(* Sm<F> of the harness: bit 0 copy ctor, 1 move ctor, 2 copy assignment, 3 move assignment, 4 destructor *)
Definition f_of_bits (F : nat) : smf :=
  {| is_cls := true; u_cc := Nat.testbit F 0; u_mc := Nat.testbit F 1; u_ca := Nat.testbit F 2;
     u_ma := Nat.testbit F 3; u_dt := Nat.testbit F 4 |}.

Inductive ev :=
| EvI (v : Z)            (* T(int) *)
| EvCC (v : Z)           (* T(T const&), user-provided *)
| EvMC (v : Z)           (* T(T&&), user-provided: the source is left with MOVED *)
| EvCA (o n : Z)         (* operator=(T const&), user-provided: old value, new value *)
| EvMA (o n : Z)         (* operator=(T&&), user-provided *)
| EvD (v : Z)            (* ~T(), user-provided *)
| EvXC (v : Z)           (* T(U const&)   conversions from the source type U of optional<U>: always user-provided *)
| EvXM (v : Z)           (* T(U&&) *)
| EvXA (o n : Z)         (* operator=(U const&) *)
| EvXMA (o n : Z).       (* operator=(U&&) *)

Definition SM_MOVED : Z := 99.

(* what each operation of the alternative itself does: the events it logs, what a move leaves in its source *)
Definition e_init (f : smf) (v : Z) : list ev := if is_cls f then [EvI v] else [].
Definition e_cc (f : smf) (v : Z) : list ev := if u_cc f then [EvCC v] else [].
Definition e_mc (f : smf) (v : Z) : list ev := if u_mc f then [EvMC v] else [].
Definition mc_src (f : smf) (v : Z) : Z := if u_mc f then SM_MOVED else v.
Definition e_ca (f : smf) (o n : Z) : list ev := if u_ca f then [EvCA o n] else [].
Definition e_ma (f : smf) (o n : Z) : list ev := if u_ma f then [EvMA o n] else [].
Definition ma_src (f : smf) (v : Z) : Z := if u_ma f then SM_MOVED else v.
Definition e_dt (f : smf) (v : Z) : list ev := if u_dt f then [EvD v] else [].

(* the type traits g++ answers for the alternative: is_trivially_constructible<T, Args...> also asks for a
   trivial destructor (the variable definition T t(args) includes the destruction) *)
Definition t_cc (f : smf) : bool := negb (u_cc f) && negb (u_dt f).
Definition t_mc (f : smf) : bool := negb (u_mc f) && negb (u_dt f).
Definition t_ca (f : smf) : bool := negb (u_ca f).
Definition t_ma (f : smf) : bool := negb (u_ma f).
Definition t_dt (f : smf) : bool := negb (u_dt f).

Definition b2n (b : bool) : nat := if b then 1%nat else 0%nat.
(* bits 0-4: trivially copy / move constructible, copy / move assignable, destructible; 5-8 (= 480): copy / move
   constructible and assignable at all (every type here is) *)
Definition traits_of (cc mc ca ma dt : bool) : nat :=
  (b2n cc + 2 * b2n mc + 4 * b2n ca + 8 * b2n ma + 16 * b2n dt + 480)%nat.
Definition elt_traits (f : smf) : nat := traits_of (t_cc f) (t_mc f) (t_ca f) (t_ma f) (t_dt f).
(* a wrapper whose copy / move constructor, copy / move assignment, destructor are trivial as given *)
Definition wrapper_traits (cc mc ca ma dt : bool) : nat := traits_of (cc && dt) (mc && dt) ca ma dt.

(** * Objects *)
Record obj := { oi : nat; ov : Z }.
Definition sm_alt (alts : list smf) (i : nat) : smf := nth i alts f_plain.
Definition sm_mk (i : nat) (v : Z) : obj := {| oi := i; ov := v |}.

(** * variant.hpp *)
(* the concepts that keep the defaulted special member *)
Definition c_triv_cc (f : smf) : bool := t_cc f.             (* variant_trivially_copy_constructible *)
Definition c_triv_ca (f : smf) : bool := c_triv_cc f && t_ca f. (* variant_trivially_copy_assignable *)
Definition c_triv_mc (f : smf) : bool := t_mc f.             (* is_trivially_move_constructible_v *)
Definition c_triv_ma (f : smf) : bool := t_mc f && t_ma f.   (* variant_trivially_move_assignable *)

(* destroy(): visit(destroy_at) on the active alternative *)
Definition m_destroy (alts : list smf) (s : obj) : list ev := e_dt (sm_alt alts (oi s)) (ov s).

(* emplace<I>(int): destroy(); replace(I, v) *)
Definition m_emplace (alts : list smf) (s : obj) (i : nat) (v : Z) : obj * list ev :=
  (sm_mk i v, m_destroy alts s ++ e_init (sm_alt alts i) v).

(* variant(variant const&): defaulted (the bytes) when every alternative is trivially copy constructible,
   else visit_with_index + replace(index, value) *)
Definition m_copy_ctor (alts : list smf) (src : obj) : obj * list ev :=
  if forallb c_triv_cc alts then (src, [])
  else (sm_mk (oi src) (ov src), e_cc (sm_alt alts (oi src)) (ov src)).

(* variant(variant&&): (new object, source afterwards, events) *)
Definition m_move_ctor (alts : list smf) (src : obj) : obj * obj * list ev :=
  if forallb c_triv_mc alts then (src, src, [])
  else let f := sm_alt alts (oi src) in (sm_mk (oi src) (ov src), sm_mk (oi src) (mc_src f (ov src)), e_mc f (ov src)).

(* operator=(variant const&): defaulted, or assign(other): same index -> lhs.value() = move(rhs.value()) with a
   const rhs (the copy assignment), else destroy(); replace(rhs.index, ...) (the copy constructor) *)
Definition m_assign_copy (alts : list smf) (lhs rhs : obj) : obj * list ev :=
  if forallb c_triv_ca alts then (rhs, [])
  else let f := sm_alt alts (oi rhs) in
       if Nat.eqb (oi lhs) (oi rhs) then (sm_mk (oi lhs) (ov rhs), e_ca f (ov lhs) (ov rhs))
       else (sm_mk (oi rhs) (ov rhs), m_destroy alts lhs ++ e_cc f (ov rhs)).

(* operator=(variant&&): (lhs afterwards, rhs afterwards, events) *)
Definition m_assign_move (alts : list smf) (lhs rhs : obj) : obj * obj * list ev :=
  if forallb c_triv_ma alts then (rhs, rhs, [])
  else let f := sm_alt alts (oi rhs) in
       if Nat.eqb (oi lhs) (oi rhs)
       then (sm_mk (oi lhs) (ov rhs), sm_mk (oi rhs) (ma_src f (ov rhs)), e_ma f (ov lhs) (ov rhs))
       else (sm_mk (oi rhs) (ov rhs), sm_mk (oi rhs) (mc_src f (ov rhs)), m_destroy alts lhs ++ e_mc f (ov rhs)).

(* x = move(x): the alternative's move assignment sees this == &other (the element type guards it) *)
Definition m_self_move (alts : list smf) (s : obj) : obj * list ev :=
  if forallb c_triv_ma alts then (s, []) else (s, e_ma (sm_alt alts (oi s)) (ov s) (ov s)).

(* ~variant(): defaulted when every alternative is trivially destructible, else destroy() *)
Definition m_dtor (alts : list smf) (s : obj) : list ev :=
  if forallb t_dt alts then [] else m_destroy alts s.

(* x = W(in_place_index<i>, v): the temporary is constructed, move-assigned from, destroyed *)
Definition m_assign_temp (alts : list smf) (x : obj) (i : nat) (v : Z) : obj * list ev :=
  let '(x', tmp', e) := m_assign_move alts x (sm_mk i v) in
  (x', e_init (sm_alt alts i) v ++ e ++ m_dtor alts tmp').

(* which special members of the variant are trivial *)
Definition m_traits (alts : list smf) : nat :=
  wrapper_traits (forallb c_triv_cc alts) (forallb c_triv_mc alts) (forallb c_triv_ca alts)
                 (forallb c_triv_ma alts) (forallb t_dt alts).

(** * optional.hpp: optional<T> = variant<nullopt_t, T> with defaulted special members;
      optional<T>::operator=(optional<U> const& / &&) (after ba039d7):
      if (!other) reset(); else if (has_value()) **this = *other; else emplace( *other); *)
Definition sm_oalts (f : smf) : list smf := [f_plain; f].
Definition sm_has (s : obj) : bool := Nat.eqb (oi s) 1.
(* (x afterwards, c afterwards, events); mv: the source is an rvalue *)
Definition m_conv_assign (f : smf) (x c : obj) (mv : bool) : obj * obj * list ev :=
  let c' := if mv then sm_mk (oi c) SM_MOVED else c in
  if negb (sm_has c) then (sm_mk 0 0, c, m_destroy (sm_oalts f) x)
  else if sm_has x then (sm_mk 1 (ov c), c', [if mv then EvXMA (ov x) (ov c) else EvXA (ov x) (ov c)])
  else (sm_mk 1 (ov c), c', m_destroy (sm_oalts f) x ++ [if mv then EvXM (ov c) else EvXC (ov c)]).

(** * Histories: objects a, b (and c of optional<U> for the optional families) *)
Inductive sop :=
| SEmplace (t : bool) (i : nat) (v : Z)     (* E : x.emplace<i>(v) *)
| SInPlace (t : bool) (i : nat) (v : Z)     (* I : x = W(in_place_index<i>, v) *)
| SCopyAssign (t : bool)                    (* C : x = y *)
| SMoveAssign (t : bool)                    (* M : x = move(y) *)
| SCopyCtor (t : bool)                      (* K : { W tmp(y); } *)
| SMoveCtor (t : bool)                      (* J : { W tmp(move(y)); } *)
| SSelfCopy (t : bool)                      (* F : x = x *)
| SSelfMove (t : bool)                      (* G : x = move(x) *)
| SSetC (v : Z)                             (* Q : c.emplace(U{v}) *)
| SResetC                                   (* R : c.reset() *)
| SConvCopy (t : bool)                      (* x : x = as_const(c) *)
| SConvMove (t : bool).                     (* y : x = move(c) *)

Definition sstate := (obj * obj * obj)%type.
Definition sm_pick (t : bool) (s : sstate) : obj * obj := let '(a, b, _) := s in if t then (b, a) else (a, b).
Definition sm_put (t : bool) (s : sstate) (x y : obj) : sstate := let '(_, _, c) := s in if t then (y, x, c) else (x, y, c).

(* (state afterwards, the temporary of K / J, events) *)
Definition m_step (alts : list smf) (s : sstate) (o : sop) : sstate * option obj * list ev :=
  match o with
  | SEmplace t i v => let '(x, y) := sm_pick t s in let '(x', e) := m_emplace alts x i v in (sm_put t s x' y, None, e)
  | SInPlace t i v => let '(x, y) := sm_pick t s in let '(x', e) := m_assign_temp alts x i v in (sm_put t s x' y, None, e)
  | SCopyAssign t => let '(x, y) := sm_pick t s in let '(x', e) := m_assign_copy alts x y in (sm_put t s x' y, None, e)
  | SMoveAssign t => let '(x, y) := sm_pick t s in let '(x', y', e) := m_assign_move alts x y in (sm_put t s x' y', None, e)
  | SCopyCtor t => let '(x, y) := sm_pick t s in let '(tmp, e) := m_copy_ctor alts y in (s, Some tmp, e ++ m_dtor alts tmp)
  | SMoveCtor t => let '(x, y) := sm_pick t s in
                   let '(tmp, y', e) := m_move_ctor alts y in (sm_put t s x y', Some tmp, e ++ m_dtor alts tmp)
  | SSelfCopy t => let '(x, y) := sm_pick t s in let '(x', e) := m_assign_copy alts x x in (sm_put t s x' y, None, e)
  | SSelfMove t => let '(x, y) := sm_pick t s in let '(x', e) := m_self_move alts x in (sm_put t s x' y, None, e)
  | SSetC v => let '(a, b, _) := s in ((a, b, sm_mk 1 v), None, [])
  | SResetC => let '(a, b, _) := s in ((a, b, sm_mk 0 0), None, [])
  | SConvCopy t => let '(x, y) := sm_pick t s in let '(_, _, c) := s in
                   let '(x', c', e) := m_conv_assign (sm_alt alts 1) x c false in
                   let '(a', b', _) := sm_put t s x' y in ((a', b', c'), None, e)
  | SConvMove t => let '(x, y) := sm_pick t s in let '(_, _, c) := s in
                   let '(x', c', e) := m_conv_assign (sm_alt alts 1) x c true in
                   let '(a', b', _) := sm_put t s x' y in ((a', b', c'), None, e)
  end.

(* the whole case: per step (state, temporary, events), then the events of destroying b and a *)
Fixpoint m_run (alts : list smf) (s : sstate) (ops : list sop)
  : list (sstate * option obj * list ev) * list ev :=
  match ops with
  | [] => let '(a, b, _) := s in ([], m_dtor alts b ++ m_dtor alts a)
  | o :: r => let '(s', tmp, e) := m_step alts s o in
              let '(l, fin) := m_run alts s' r in ((s', tmp, e) :: l, fin)
  end.
