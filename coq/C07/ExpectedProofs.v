(* C07 — expected<T, E> (= variant<T, E> in the code) refines std::expected (= sum);
   optional<T&> is the rebinding pointer cell of P2988. *)
From Tetl Require Import Lib.Base C07.Types C07.Model C07.Spec C07.Dispatch C07.VariantProofs.
Local Open Scope nat_scope.
Ltac Zify.zify_post_hook ::= Z.to_euclidean_division_equations.

Definition wfe (s : var) : Prop := idx s < 2.
Definition abse (s : var) : sexp := if exp_has_value s then inl (val s) else inr (val s).

Lemma exp_deref_ok : forall s, exp_has_value s = true -> exp_deref s = Ok (val s).
Proof.
  intros s H. unfold exp_deref. rewrite H. unfold exp_has_value in H. apply Nat.eqb_eq in H.
  unfold uget. rewrite H. reflexivity.
Qed.

Lemma exp_error_ok : forall s, wfe s -> exp_has_value s = false -> exp_error s = Ok (val s).
Proof.
  intros s Hw H. unfold exp_error. rewrite H. cbn [negb]. unfold exp_has_value in H. apply Nat.eqb_neq in H.
  unfold wfe in Hw. assert (E : idx s = 1) by lia. unfold uget. rewrite E. reflexivity.
Qed.

Lemma abse_moved : forall T E y, wfe y -> abse (moved (ealts T E) y) = se_moved T E (abse y).
Proof.
  intros T E [i v] H. unfold wfe in H. cbn [idx] in H.
  destruct i as [|[|i]]; [reflexivity|reflexivity|lia].
Qed.

Definition wfes (s : vstate) : Prop := wfe (fst s) /\ wfe (snd s).
Definition abses (s : vstate) : sexp * sexp := (abse (fst s), abse (snd s)).

Lemma epick_spick : forall t (s : vstate),
  (let '(x, y) := pick t s in (abse x, abse y)) = spick t (abses s).
Proof. intros [|] [a b]; reflexivity. Qed.

Lemma abses_put : forall t x y, abses (put t x y) = sput t (abse x) (abse y).
Proof. intros [|] x y; reflexivity. Qed.

Lemma wfes_pick : forall t s, wfes s -> wfe (fst (pick t s)) /\ wfe (snd (pick t s)).
Proof. intros [|] [a b] [Ha Hb]; split; assumption. Qed.

Lemma wfes_put : forall t x y, wfe x -> wfe y -> wfes (put t x y).
Proof. intros [|] x y Hx Hy; split; assumption. Qed.

Ltac estep_setup t s x y Hx Hy Hput :=
  let P := fresh "P" in
  destruct (wfes_pick t s ltac:(assumption)) as [Hx Hy];
  pose proof (epick_spick t s) as P;
  pose proof (put_pick t s) as Hput;
  destruct (pick t s) as [x y]; cbn [fst snd] in Hx, Hy, Hput;
  destruct (spick t (abses s)) as [sx sy]; inversion P; subst sx sy; clear P.

Theorem estep_refines : forall T E s o, wfes s ->
  exists s', estep T E s o = Ok s' /\ abses s' = se_step T E (abses s) o /\ wfes s'.
Proof.
  intros T E s o Hwf.
  assert (W0 : forall v, wfe (replace 0 v)) by (intro v; unfold wfe, replace; cbn [idx]; lia).
  assert (W1 : forall v, wfe (replace 1 v)) by (intro v; unfold wfe, replace; cbn [idx]; lia).
  pose proof (W0 0%Z : wfe var_default) as Wd.
  destruct o as [t v|t v|t v|t|t|t|t|t|t|t]; cbn [estep se_step].
  - estep_setup t s x y Hx Hy Hput. rewrite (assign_temp_ok (ealts T E)) by (try exact Hx; apply W0). cbn [rbind].
    eexists; split; [reflexivity|]. split; [apply abses_put|apply wfes_put; auto].
  - estep_setup t s x y Hx Hy Hput. rewrite (assign_temp_ok (ealts T E)) by (try exact Hx; apply W1). cbn [rbind].
    eexists; split; [reflexivity|]. split; [apply abses_put|apply wfes_put; auto].
  - estep_setup t s x y Hx Hy Hput. rewrite (emplace_ok (ealts T E)) by exact Hx. cbn [rbind].
    rewrite exp_deref_ok by reflexivity. cbn [rbind].
    eexists; split; [reflexivity|]. split; [apply abses_put|apply wfes_put; auto].
  - estep_setup t s x y Hx Hy Hput. rewrite (assign_copy_ok (ealts T E)) by assumption. cbn [rbind].
    eexists; split; [reflexivity|]. split; [apply abses_put|apply wfes_put; auto].
  - estep_setup t s x y Hx Hy Hput. rewrite (assign_move_ok (ealts T E)) by assumption. cbn [rbind fst snd].
    eexists; split; [reflexivity|]. split; [rewrite abses_put, abse_moved by exact Hy; reflexivity|].
    apply wfes_put; [exact Hy|exact Hy].
  - estep_setup t s x y Hx Hy Hput. rewrite (copy_ctor_ok (ealts T E)) by assumption. cbn [rbind].
    rewrite (assign_temp_ok (ealts T E)) by assumption. cbn [rbind].
    eexists; split; [reflexivity|]. split; [apply abses_put|apply wfes_put; auto].
  - estep_setup t s x y Hx Hy Hput. rewrite (move_ctor_ok (ealts T E)) by assumption. cbn [rbind fst snd].
    rewrite (assign_temp_ok (ealts T E)) by assumption. cbn [rbind].
    eexists; split; [reflexivity|]. split; [rewrite abses_put, abse_moved by exact Hy; reflexivity|].
    apply wfes_put; [exact Hy|exact Hy].
  - estep_setup t s x y Hx Hy Hput. rewrite (assign_copy_ok (ealts T E)) by assumption. cbn [rbind]. rewrite Hput.
    eexists; split; [reflexivity|]. split; [reflexivity|exact Hwf].
  - estep_setup t s x y Hx Hy Hput. rewrite (self_move_ok (ealts T E)) by assumption. cbn [rbind]. rewrite Hput.
    eexists; split; [reflexivity|]. split; [reflexivity|exact Hwf].
  - estep_setup t s x y Hx Hy Hput. rewrite (assign_temp_ok (ealts T E)) by (try exact Hx; apply W0). cbn [rbind].
    eexists; split; [reflexivity|]. split; [apply abses_put|apply wfes_put; auto].
Qed.

Theorem erun_refines : forall T E ops s, wfes s ->
  exists s', erun T E s ops = Ok s' /\ abses s' = se_run T E (abses s) ops /\ wfes s'.
Proof.
  intros T E ops. induction ops as [|o r IH]; intros s Hwf.
  - exists s. split; [reflexivity|]. split; [reflexivity|exact Hwf].
  - destruct (estep_refines T E s o Hwf) as [s1 [H1 [Ha1 Hw1]]].
    destruct (IH s1 Hw1) as [s2 [H2 [Ha2 Hw2]]].
    exists s2. cbn [erun]. rewrite H1. cbn [rbind]. split; [exact H2|]. split; [|exact Hw2].
    rewrite Ha2, Ha1. reflexivity.
Qed.

Theorem exp_value_or_ok : forall s d, exp_value_or s d = Ok (se_value_or (abse s) d).
Proof.
  intros s d. unfold exp_value_or, abse. destruct (exp_has_value s) eqn:E; [|reflexivity].
  rewrite exp_deref_ok by exact E. reflexivity.
Qed.

Theorem exp_and_then_ok : forall s f, wfe s -> exp_and_then s f = Ok (se_and_then (abse s) f).
Proof.
  intros s f H. unfold exp_and_then, abse. destruct (exp_has_value s) eqn:E.
  - rewrite exp_deref_ok by exact E. reflexivity.
  - rewrite exp_error_ok by assumption. reflexivity.
Qed.

Theorem exp_or_else_ok : forall s g, wfe s -> exp_or_else s g = Ok (se_or_else (abse s) g).
Proof.
  intros s g H. unfold exp_or_else, abse. destruct (exp_has_value s) eqn:E.
  - rewrite exp_deref_ok by exact E. reflexivity.
  - rewrite exp_error_ok by assumption. reflexivity.
Qed.

Definition abs_qres (m : (bool * Z) * option qual * var) : (bool * Z) * option qual * sexp :=
  (fst (fst m), snd (fst m), abse (snd m)).

Lemma abse_steal_val : forall T s, exp_has_value s = true -> abse (steal T s) = inl (moved_val T (val s)).
Proof. intros T s H. unfold abse, steal, exp_has_value in *. cbn [idx val]. rewrite H. reflexivity. Qed.
Lemma abse_steal_err : forall E s, exp_has_value s = false -> abse (steal E s) = inr (moved_val E (val s)).
Proof. intros E s H. unfold abse, steal, exp_has_value in *. cbn [idx val]. rewrite H. reflexivity. Qed.
Lemma wfe_steal : forall t s, wfe s -> wfe (steal t s).
Proof. intros t s H. exact H. Qed.

Theorem exp_and_then_q_ok : forall T E q s f byval, wfe s ->
  exists m, exp_and_then_q T E q s f byval = Ok m
    /\ abs_qres m = se_and_then_q T E q (abse s) f byval /\ wfe (snd m).
Proof.
  intros T E q s f byval H. unfold exp_and_then_q, se_and_then_q, abs_qres.
  destruct (exp_has_value s) eqn:Hv.
  - rewrite (exp_deref_ok s Hv). cbn [rbind].
    destruct q; (eexists; split; [reflexivity|]); cbn [fst snd is_rv andb];
      try (unfold abse; rewrite Hv; split; [reflexivity|exact H]).
    destruct byval; cbn [fst snd].
    + rewrite abse_steal_val by exact Hv. unfold abse. rewrite Hv. split; [reflexivity|exact H].
    + unfold abse. rewrite Hv. split; [reflexivity|exact H].
  - rewrite (exp_error_ok s H Hv). cbn [rbind].
    destruct q; (eexists; split; [reflexivity|]); cbn [fst snd is_rv andb];
      try (unfold abse; rewrite Hv; split; [reflexivity|exact H]).
    rewrite abse_steal_err by exact Hv. unfold abse. rewrite Hv. split; [reflexivity|exact H].
Qed.

Theorem exp_or_else_q_ok : forall T E q s g byval, wfe s ->
  exists m, exp_or_else_q T E q s g byval = Ok m
    /\ abs_qres m = se_or_else_q T E q (abse s) g byval /\ wfe (snd m).
Proof.
  intros T E q s g byval H. unfold exp_or_else_q, se_or_else_q, abs_qres.
  destruct (exp_has_value s) eqn:Hv.
  - rewrite (exp_deref_ok s Hv). cbn [rbind].
    destruct q; (eexists; split; [reflexivity|]); cbn [fst snd is_rv andb];
      try (unfold abse; rewrite Hv; split; [reflexivity|exact H]).
    rewrite abse_steal_val by exact Hv. unfold abse. rewrite Hv. split; [reflexivity|exact H].
  - rewrite (exp_error_ok s H Hv). cbn [rbind].
    destruct q; (eexists; split; [reflexivity|]); cbn [fst snd is_rv andb];
      try (unfold abse; rewrite Hv; split; [reflexivity|exact H]).
    destruct byval; cbn [fst snd].
    + rewrite abse_steal_err by exact Hv. unfold abse. rewrite Hv. split; [reflexivity|exact H].
    + unfold abse. rewrite Hv. split; [reflexivity|exact H].
Qed.

Definition abs_eq {A} (m : A * var) := (fst m, abse (snd m)).

Theorem exp_value_or_q_ok : forall T q s d, wfe s ->
  exists m, exp_value_or_q T q s d = Ok m /\ abs_eq m = se_value_or_q T q (abse s) d /\ wfe (snd m).
Proof.
  intros T q s d H. unfold exp_value_or_q, se_value_or_q, abs_eq.
  assert (Hc : forall q', is_rv q' = false ->
     exists m, rbind (exp_value_or s d) (fun v => Ok (v, s)) = Ok m
       /\ (fst m, abse (snd m)) = match abse s with inl v => (v, if is_rv q' then inl (moved_val T v) else abse s) | inr _ => (d, abse s) end
       /\ wfe (snd m)).
  { intros q' Hq. rewrite (exp_value_or_ok s d). cbn [rbind]. eexists; split; [reflexivity|]. cbn [fst snd].
    rewrite Hq. unfold se_value_or. destruct (abse s); (split; [reflexivity|exact H]). }
  destruct q; try (apply Hc; reflexivity).
  destruct (exp_has_value s) eqn:E.
  - rewrite (exp_deref_ok s E). cbn [rbind]. eexists; split; [reflexivity|]. cbn [fst snd is_rv].
    rewrite abse_steal_val by exact E. unfold abse. rewrite E. split; [reflexivity|exact H].
  - eexists; split; [reflexivity|]. cbn [fst snd]. unfold abse. rewrite E. split; [reflexivity|exact H].
Qed.

Theorem exp_take_q_ok : forall T q s r, wfe s -> se_take_q T q (abse s) = Some r ->
  exists m, exp_take_q T q s = Ok m /\ abs_eq m = r /\ wfe (snd m).
Proof.
  intros T q s r H Hs. unfold exp_take_q, se_take_q, abs_eq in *.
  destruct (exp_has_value s) eqn:E.
  - unfold abse in Hs. rewrite E in Hs. inversion Hs; subst r. rewrite (exp_deref_ok s E). cbn [rbind].
    eexists; split; [reflexivity|]. cbn [fst snd]. destruct (is_rv q).
    + rewrite abse_steal_val by exact E. split; [reflexivity|exact H].
    + unfold abse. rewrite E. split; [reflexivity|exact H].
  - unfold abse in Hs. rewrite E in Hs. discriminate Hs.
Qed.

Theorem exp_take_error_q_ok : forall E q s r, wfe s -> se_take_error_q E q (abse s) = Some r ->
  exists m, exp_take_error_q E q s = Ok m /\ abs_eq m = r /\ wfe (snd m).
Proof.
  intros E q s r H Hs. unfold exp_take_error_q, se_take_error_q, abs_eq in *.
  destruct (exp_has_value s) eqn:Ev.
  - unfold abse in Hs. rewrite Ev in Hs. discriminate Hs.
  - unfold abse in Hs. rewrite Ev in Hs. inversion Hs; subst r. rewrite (exp_error_ok s H Ev). cbn [rbind].
    eexists; split; [reflexivity|]. cbn [fst snd]. destruct (is_rv q).
    + rewrite abse_steal_err by exact Ev. split; [reflexivity|exact H].
    + unfold abse. rewrite Ev. split; [reflexivity|exact H].
Qed.

Theorem exp_observe_ok : forall s, wfe s ->
  match abse s with
  | inl v => exp_has_value s = true /\ exp_deref s = Ok v
  | inr e => exp_has_value s = false /\ exp_error s = Ok e
  end.
Proof.
  intros s H. unfold abse. destruct (exp_has_value s) eqn:E.
  - split; [reflexivity|apply exp_deref_ok; exact E].
  - split; [reflexivity|apply exp_error_ok; assumption].
Qed.

(** * unexpected<E> *)
Theorem ustep_refines : forall E s o, ustep E s o = su_step E s o.
Proof.
  intros E [[a b] c] o. destruct o as [[|] v|[|]|[|]| |v]; reflexivity.
Qed.

Theorem urun_refines : forall E ops s, urun E s ops = su_run E s ops.
Proof.
  intros E ops. unfold urun, su_run. induction ops as [|o r IH]; intro s; cbn [fold_left]; [reflexivity|].
  rewrite ustep_refines. apply IH.
Qed.
