(* C07 — special members by triviality.  Property theorems only.
   The alternatives are records of flags (per special member: trivial or user-provided, ModelSm.smf); a
   user-provided member logs an event and a user-provided move marks its source.  The code's choice between the
   defaulted (bytewise) special member of variant and the visit based one is a function of those flags
   (ModelSm.c_triv_*, the concepts of variant.hpp); the standard's wording never mentions bytes (SpecSm).
   For EVERY list of alternatives, every flag combination, every pair of states and every history the two agree:
   same states, same temporaries, same event sequence, the same events at destruction, and the wrapper's own
   static traits are the ones [variant.ctor] / [variant.assign] / [variant.dtor] prescribe.
   optional<T> and expected<T, E> have only defaulted special members over a variant<nullopt_t, T> / variant<T, E>
   member: their statements are the variant's at those lists, restated in the words of [optional.assign] /
   [expected.object.assign]. *)
From Tetl Require Import Lib.Base C07.ModelSm C07.SpecSm C07.ProofsSm C07.MutantsSm.
Local Open Scope Z_scope.

Theorem C07_sm_step_refines_std : forall alts s o, m_step alts s o = s_step alts s o.
Proof. exact step_sm_ok. Qed.
Print Assumptions C07_sm_step_refines_std.

Theorem C07_sm_history_refines_std : forall alts ops s, m_run alts s ops = s_run alts s ops.
Proof. exact run_sm_ok. Qed.
Print Assumptions C07_sm_history_refines_std.

(* each special member on its own, for every (from-state, to-state) pair *)
Theorem C07_sm_special_members : forall alts lhs rhs,
  m_copy_ctor alts rhs = s_copy_ctor alts rhs /\ m_move_ctor alts rhs = s_move_ctor alts rhs
  /\ m_assign_copy alts lhs rhs = s_assign_copy alts lhs rhs /\ m_assign_move alts lhs rhs = s_assign_move alts lhs rhs
  /\ m_self_move alts lhs = s_self_move alts lhs /\ m_dtor alts lhs = s_dtor alts lhs.
Proof.
  intros alts lhs rhs.
  exact (conj (copy_ctor_sm_ok alts rhs) (conj (move_ctor_sm_ok alts rhs) (conj (assign_copy_sm_ok alts lhs rhs)
        (conj (assign_move_sm_ok alts lhs rhs) (conj (self_move_sm_ok alts lhs) (dtor_sm_ok alts lhs)))))).
Qed.
Print Assumptions C07_sm_special_members.

Theorem C07_sm_traits_as_prescribed : forall alts, m_traits alts = s_traits alts.
Proof. exact traits_sm_ok. Qed.
Print Assumptions C07_sm_traits_as_prescribed.

Theorem C07_sm_optional_converting_assignment : forall f x c mv, m_conv_assign f x c mv = s_conv_assign f x c mv.
Proof. exact conv_assign_sm_ok. Qed.
Print Assumptions C07_sm_optional_converting_assignment.

(* optional<T>: [optional.assign] / [optional.ctor] / [optional.dtor] in their own words *)
Theorem C07_sm_optional_spec : forall f l r, wf2 l -> wf2 r ->
  (let '(x, e) := m_assign_copy (sm_oalts f) l r in (abs_o x, e)) = so_assign_copy f (abs_o l) (abs_o r)
  /\ (let '(x, y, e) := m_assign_move (sm_oalts f) l r in (abs_o x, abs_o y, e)) = so_assign_move f (abs_o l) (abs_o r)
  /\ (let '(x, e) := m_copy_ctor (sm_oalts f) r in (abs_o x, e)) = so_copy_ctor f (abs_o r)
  /\ (let '(x, y, e) := m_move_ctor (sm_oalts f) r in (abs_o x, abs_o y, e)) = so_move_ctor f (abs_o r)
  /\ m_dtor (sm_oalts f) l = so_dtor f (abs_o l)
  /\ m_traits (sm_oalts f) = so_traits f.
Proof.
  intros f l r Hl Hr.
  rewrite assign_copy_sm_ok, assign_move_sm_ok, copy_ctor_sm_ok, move_ctor_sm_ok, dtor_sm_ok, traits_sm_ok.
  exact (conj (opt_assign_copy_sm f l r Hl Hr) (conj (opt_assign_move_sm f l r Hl Hr) (conj (opt_copy_ctor_sm f r Hr)
        (conj (opt_move_ctor_sm f r Hr) (conj (opt_dtor_sm f l Hl) (opt_traits_sm f)))))).
Qed.
Print Assumptions C07_sm_optional_spec.

(* expected<T, E>: [expected.object.assign] (reinit-expected, nothrow branch), [expected.object.cons], [expected.object.dtor] *)
Theorem C07_sm_expected_spec : forall fT fE l r, wf2 l -> wf2 r ->
  (let '(x, e) := m_assign_copy [fT; fE] l r in (abs_e x, e)) = se_assign_copy fT fE (abs_e l) (abs_e r)
  /\ (let '(x, y, e) := m_assign_move [fT; fE] l r in (abs_e x, abs_e y, e)) = se_assign_move fT fE (abs_e l) (abs_e r)
  /\ (let '(x, e) := m_copy_ctor [fT; fE] r in (abs_e x, e)) = se_copy_ctor fT fE (abs_e r)
  /\ (let '(x, y, e) := m_move_ctor [fT; fE] r in (abs_e x, abs_e y, e)) = se_move_ctor fT fE (abs_e r)
  /\ m_dtor [fT; fE] l = se_dtor fT fE (abs_e l).
Proof.
  intros fT fE l r Hl Hr.
  rewrite assign_copy_sm_ok, assign_move_sm_ok, copy_ctor_sm_ok, move_ctor_sm_ok, dtor_sm_ok.
  exact (conj (exp_assign_copy_sm fT fE l r Hl Hr) (conj (exp_assign_move_sm fT fE l r Hl Hr)
        (conj (exp_copy_ctor_sm fT fE r Hr) (conj (exp_move_ctor_sm fT fE r Hr) (exp_dtor_sm fT fE l Hl))))).
Qed.
Print Assumptions C07_sm_expected_spec.

(* rewrites of the selecting concepts: refuted; invisible on the all-or-nothing element types of Model.v *)
Theorem C07_sm_move_assignable_by_destructor_refuted :
  let alts := [f_plain; f_of_bits 2] in let a := sm_mk 0 7 in let b := sm_mk 1 5 in
  assign_move_dt alts a b = (b, b, [])
  /\ m_assign_move alts a b = (b, sm_mk 1 SM_MOVED, [EvMC 5])
  /\ s_assign_move alts a b = (b, sm_mk 1 SM_MOVED, [EvMC 5]).
Proof. exact assign_move_dt_refuted. Qed.
Print Assumptions C07_sm_move_assignable_by_destructor_refuted.

Theorem C07_sm_move_assignable_by_destructor_invisible_on_uniform_types : forall alts lhs rhs,
  forallb uniform alts = true -> assign_move_dt alts lhs rhs = m_assign_move alts lhs rhs.
Proof. exact assign_move_dt_uniform. Qed.
Print Assumptions C07_sm_move_assignable_by_destructor_invisible_on_uniform_types.

Theorem C07_sm_copy_assignable_without_copy_ctor_refuted :
  let alts := sm_oalts (f_of_bits 16) in let a := sm_mk 1 5 in let b := sm_mk 0 0 in
  assign_copy_only alts a b = (b, [])
  /\ m_assign_copy alts a b = (b, [EvD 5])
  /\ so_assign_copy (f_of_bits 16) (abs_o a) (abs_o b) = (None, [EvD 5]).
Proof. exact assign_copy_only_refuted. Qed.
Print Assumptions C07_sm_copy_assignable_without_copy_ctor_refuted.

Theorem C07_sm_destructor_of_some_refuted :
  let alts := [f_plain; f_of_bits 16] in
  dtor_some alts (sm_mk 1 5) = [] /\ m_dtor alts (sm_mk 1 5) = [EvD 5] /\ s_dtor alts (sm_mk 1 5) = [EvD 5].
Proof. exact dtor_some_refuted. Qed.
Print Assumptions C07_sm_destructor_of_some_refuted.

(** non-vacuity: a history on variant<Sm<2>, int, Sm<16>> that crosses alternatives; the model and the spec produce
    the move-constructor event, the moved-from source and the destructor events *)
Example C07_sm_nonvacuous :
  let alts := [f_of_bits 2; f_plain; f_of_bits 16] in
  let ops := [SEmplace false 2 3; SEmplace true 0 4; SMoveAssign false; SCopyCtor true] in
  let s0 := (sm_mk 1 0, sm_mk 1 0, sm_mk 0 0) in
  m_run alts s0 ops = s_run alts s0 ops
  /\ snd (m_run alts s0 ops) = []
  /\ map snd (fst (m_run alts s0 ops)) = [[EvI 3]; [EvI 4]; [EvD 3; EvMC 4]; []]
  /\ m_traits alts = 480%nat /\ m_traits [f_plain; f_of_bits 2] = 501%nat /\ m_traits [f_plain] = 511%nat.
Proof. vm_compute. repeat split. Qed.
