(* C07 — [optional.observe]/ [expected.object.obs] value_or: "Returns: has_value() ? **this : static_cast<T>(std::forward<U>(v))"
   read as the standard means it: an engaged object yields its value, whatever the type of the fallback argument; a
   disengaged one yields the fallback converted to T (undefined where [conv.fpint] says so). *)
From Tetl Require Import Lib.Base C07.TypesVo.
Local Open Scope Z_scope.

Definition svo_value_or (T U : sty) (x : option Z) (fb : Z) : res Z :=
  match x with
  | Some v => Ok v
  | None => vo_conv U T fb
  end.
