(* C07 — variant: every special member / emplace / converting assignment / swap of the model
   computes the tagged value the standard prescribes; histories by induction. *)
From Tetl Require Import Lib.Base C07.Types C07.Model C07.Spec C07.Dispatch.
Local Open Scope nat_scope.
Ltac Zify.zify_post_hook ::= Z.to_euclidean_division_equations.

Definition wfv (alts : list ty) (s : var) : Prop := idx s < length alts.
Definition absv (s : var) : tagged := (idx s, val s).
Definition moved (alts : list ty) (s : var) : var :=
  {| idx := idx s; val := moved_val (alt_ty alts (idx s)) (val s) |}.

Lemma var_eta : forall s, {| idx := idx s; val := val s |} = s.
Proof. intros [i v]; reflexivity. Qed.

Lemma absv_inj : forall a b, absv a = absv b -> a = b.
Proof. intros [i v] [j w] H; unfold absv in H; cbn in H; congruence. Qed.

Lemma absv_moved : forall alts s, absv (moved alts s) = sv_moved alts (absv s).
Proof. reflexivity. Qed.

Lemma wfv_moved : forall alts s, wfv alts s -> wfv alts (moved alts s).
Proof. intros alts s H; exact H. Qed.

(** ** the primitives *)
Lemma visit1_ok : forall alts s, wfv alts s ->
  visit_vals [n_of alts] [s] = Ok [(idx s, val s)].
Proof.
  intros alts s H. rewrite visit_vals_ok; [reflexivity|]. constructor; [exact H|constructor].
Qed.

Lemma visit2_ok : forall alts a b, wfv alts a -> wfv alts b ->
  visit_vals [n_of alts; n_of alts] [a; b] = Ok [(idx a, val a); (idx b, val b)].
Proof.
  intros alts a b Ha Hb. rewrite visit_vals_ok; [reflexivity|].
  constructor; [exact Ha|]. constructor; [exact Hb|constructor].
Qed.

Lemma destroy_ok : forall alts s, wfv alts s -> destroy alts s = Ok tt.
Proof. intros alts s H. unfold destroy. rewrite visit1_ok by exact H. reflexivity. Qed.

Lemma emplace_ok : forall alts s i v, wfv alts s -> emplace alts s i v = Ok (replace i v).
Proof.
  intros alts s i v H. unfold emplace. rewrite destroy_ok by exact H. cbn [rbind].
  unfold uget, replace. cbn [idx val]. rewrite Nat.eqb_refl. reflexivity.
Qed.

Lemma copy_ctor_ok : forall alts s, wfv alts s -> copy_ctor alts s = Ok s.
Proof.
  intros alts s H. unfold copy_ctor. destruct (all_trivial alts); [reflexivity|].
  rewrite visit1_ok by exact H. cbn [rbind]. unfold replace. rewrite var_eta. reflexivity.
Qed.

Lemma trivial_moved : forall alts s, all_trivial alts = true -> moved alts s = s.
Proof.
  intros alts s Ht. unfold moved, moved_val.
  assert (Hc : is_class (alt_ty alts (idx s)) = false).
  { unfold alt_ty. destruct (Nat.lt_ge_cases (idx s) (length alts)) as [Hlt|Hge].
    - unfold all_trivial in Ht. rewrite forallb_forall in Ht.
      specialize (Ht (nth (idx s) alts TNullopt) (nth_In alts TNullopt Hlt)).
      unfold trivial in Ht. apply negb_true_iff in Ht. exact Ht.
    - rewrite nth_overflow by exact Hge. reflexivity. }
  rewrite Hc. apply var_eta.
Qed.

Lemma move_ctor_ok : forall alts s, wfv alts s -> move_ctor alts s = Ok (s, moved alts s).
Proof.
  intros alts s H. unfold move_ctor. destruct (all_trivial alts) eqn:Et.
  - rewrite trivial_moved by exact Et. reflexivity.
  - rewrite visit1_ok by exact H. cbn [rbind]. unfold replace. rewrite var_eta. reflexivity.
Qed.

Lemma assign_copy_ok : forall alts lhs rhs, wfv alts lhs -> wfv alts rhs ->
  assign_copy alts lhs rhs = Ok rhs.
Proof.
  intros alts lhs rhs Hl Hr. unfold assign_copy. destruct (all_trivial alts); [reflexivity|].
  rewrite visit2_ok by assumption. cbn [rbind].
  destruct (Nat.eqb (idx lhs) (idx rhs)) eqn:E.
  - apply Nat.eqb_eq in E. rewrite E. rewrite var_eta. reflexivity.
  - rewrite destroy_ok by exact Hl. cbn [rbind]. unfold replace. rewrite var_eta. reflexivity.
Qed.

Lemma assign_move_ok : forall alts lhs rhs, wfv alts lhs -> wfv alts rhs ->
  assign_move alts lhs rhs = Ok (rhs, moved alts rhs).
Proof.
  intros alts lhs rhs Hl Hr. unfold assign_move. destruct (all_trivial alts) eqn:Et.
  - rewrite trivial_moved by exact Et. reflexivity.
  - rewrite visit2_ok by assumption. cbn [rbind].
    destruct (Nat.eqb (idx lhs) (idx rhs)) eqn:E.
    + apply Nat.eqb_eq in E. rewrite E. rewrite var_eta. reflexivity.
    + rewrite destroy_ok by exact Hl. cbn [rbind]. unfold replace. rewrite var_eta. reflexivity.
Qed.

Lemma assign_temp_ok : forall alts x tmp, wfv alts x -> wfv alts tmp ->
  assign_temp alts x tmp = Ok tmp.
Proof. intros alts x tmp Hx Ht. unfold assign_temp. rewrite assign_move_ok by assumption. reflexivity. Qed.

Lemma self_move_ok : forall alts s, wfv alts s -> self_move alts s = Ok s.
Proof.
  intros alts s H. unfold self_move. destruct (all_trivial alts); [reflexivity|].
  rewrite visit2_ok by assumption. cbn [rbind]. rewrite Nat.eqb_refl. reflexivity.
Qed.

Lemma swap_generic_ok : forall alts a b, wfv alts a -> wfv alts b ->
  swap_generic alts a b = Ok (b, a).
Proof.
  intros alts a b Ha Hb. unfold swap_generic.
  rewrite move_ctor_ok by exact Ha. cbn [rbind].
  rewrite assign_move_ok by (try apply wfv_moved; assumption). cbn [rbind].
  rewrite assign_move_ok by (try apply wfv_moved; assumption). reflexivity.
Qed.

(** ** the overload selection returns a valid alternative; a value of the active
       alternative's own type selects that alternative *)
Lemma cands_bound : forall src alts j0 j rk, In (j, rk) (cands src alts j0) -> j0 <= j < j0 + length alts.
Proof.
  intros src alts. induction alts as [|t r IH]; intros j0 j rk Hin; cbn [cands] in Hin.
  - contradiction.
  - cbn [length]. destruct (ics src t) as [rk'|].
    + destruct (narrowing src t).
      * apply IH in Hin. lia.
      * destruct Hin as [Heq|Hin]; [inversion Heq; subst; lia | apply IH in Hin; lia].
    + apply IH in Hin. lia.
Qed.

Lemma select_lt : forall alts src j, select alts src = Some j -> j < length alts.
Proof.
  intros alts src j H. unfold select in H.
  destruct (filter (fun p => Nat.eqb (snd p) (min_rank (cands src alts 0))) (cands src alts 0)) as [|[j' rk] [|q l]] eqn:E;
    try discriminate.
  inversion H; subst j'.
  assert (Hin : In (j, rk) (filter (fun p => Nat.eqb (snd p) (min_rank (cands src alts 0))) (cands src alts 0)))
    by (rewrite E; left; reflexivity).
  apply filter_In in Hin. destruct Hin as [Hin _]. apply cands_bound in Hin. lia.
Qed.

Lemma cands_In : forall src alts j0 i t rk, nth_error alts i = Some t -> ics src t = Some rk ->
  narrowing src t = false -> In (j0 + i, rk) (cands src alts j0).
Proof.
  intros src alts. induction alts as [|a r IH]; intros j0 i t rk Hn Hi Hnar.
  - destruct i; discriminate.
  - destruct i as [|i]; cbn [nth_error] in Hn.
    + inversion Hn; subst a. cbn [cands]. rewrite Hi, Hnar. left. f_equal. lia.
    + cbn [cands]. specialize (IH (S j0) i t rk Hn Hi Hnar).
      replace (j0 + S i) with (S j0 + i) by lia.
      destruct (ics src a); [destruct (narrowing src a)|]; try assumption. right. assumption.
Qed.

Lemma min_rank_le : forall c j rk, In (j, rk) c -> min_rank c <= rk.
Proof.
  induction c as [|p c IH]; intros j rk Hin; [contradiction|].
  unfold min_rank in *. cbn [fold_right]. destruct Hin as [Heq|Hin].
  - subst p. cbn [snd]. apply Nat.le_min_l.
  - specialize (IH j rk Hin). etransitivity; [apply Nat.le_min_r|exact IH].
Qed.

Lemma ics_self : forall t, ics t t = Some 0.
Proof. intro t. unfold ics. rewrite ty_eqb_refl. reflexivity. Qed.

Lemma narrowing_self : forall t, narrowing t t = false.
Proof. intro t; destruct t; reflexivity. Qed.

Lemma conv_self : forall t v, conv t t v = v.
Proof. intros t v; destruct t; reflexivity. Qed.

Lemma select_self : forall alts i j, i < length alts -> select alts (alt_ty alts i) = Some j -> j = i.
Proof.
  intros alts i j Hi H. unfold select in H.
  set (c := cands (alt_ty alts i) alts 0) in *.
  assert (Hin : In (i, 0) c).
  { unfold c. change i with (0 + i) at 2. apply (cands_In _ _ 0 i (alt_ty alts i)).
    - unfold alt_ty. apply nth_error_nth'. exact Hi.
    - apply ics_self.
    - apply narrowing_self. }
  assert (Hmin : min_rank c = 0) by (pose proof (min_rank_le c i 0 Hin); lia).
  rewrite Hmin in H.
  assert (Hf : In (i, 0) (filter (fun p => Nat.eqb (snd p) 0) c)) by (apply filter_In; split; [exact Hin|reflexivity]).
  destruct (filter (fun p => Nat.eqb (snd p) 0) c) as [|[j' rk] [|q l]]; try discriminate.
  inversion H; subst j'. destruct Hf as [Heq|[]]. inversion Heq. reflexivity.
Qed.

Lemma conv_assign_ok : forall alts s src v, wfv alts s ->
  conv_assign alts s src v =
  Ok (match select alts src with Some j => Some (replace j (conv src (alt_ty alts j) v)) | None => None end).
Proof.
  intros alts s src v H. unfold conv_assign. destruct (select alts src) as [j|] eqn:Es; [|reflexivity].
  destruct (is_class (alt_ty alts j)).
  - destruct (Nat.eqb (idx s) j) eqn:E.
    + apply Nat.eqb_eq in E. unfold uget. rewrite <- E, Nat.eqb_refl. reflexivity.
    + rewrite emplace_ok by exact H. reflexivity.
  - rewrite assign_temp_ok; [reflexivity|exact H|]. apply (select_lt _ _ _ Es).
Qed.

(** ** one step refines the standard *)
Definition wf_vop (alts : list ty) (o : vop) : Prop :=
  match o with
  | VEmplace _ i _ | VInPlace _ i _ => i < length alts
  | VEmplaceT _ a _ | VInPlaceT _ a _ => index_of a alts < length alts
  | _ => True
  end.

Definition wfs (alts : list ty) (s : vstate) : Prop := wfv alts (fst s) /\ wfv alts (snd s).
Definition abss (s : vstate) : tagged * tagged := (absv (fst s), absv (snd s)).

Lemma pick_spick : forall t s, (let '(x, y) := pick t s in (absv x, absv y)) = spick t (abss s).
Proof. intros [|] [a b]; reflexivity. Qed.

Lemma abss_put : forall t x y, abss (put t x y) = sput t (absv x) (absv y).
Proof. intros [|] x y; reflexivity. Qed.

Lemma wfs_put : forall alts t x y, wfv alts x -> wfv alts y -> wfs alts (put t x y).
Proof. intros alts [|] x y Hx Hy; split; assumption. Qed.

Lemma wfs_pick : forall alts t s, wfs alts s -> wfv alts (fst (pick t s)) /\ wfv alts (snd (pick t s)).
Proof. intros alts [|] [a b] [Ha Hb]; split; assumption. Qed.

Lemma wfv_replace : forall alts i v, i < length alts -> wfv alts (replace i v).
Proof. intros; assumption. Qed.

Lemma put_pick : forall t s, put t (fst (pick t s)) (snd (pick t s)) = s.
Proof. intros [|] [a b]; reflexivity. Qed.

Ltac step_setup alts s t x y Hx Hy :=
  let P := fresh "P" in
  destruct (wfs_pick alts t s ltac:(assumption)) as [Hx Hy];
  pose proof (pick_spick t s) as P;
  pose proof (put_pick t s) as Hput;
  destruct (pick t s) as [x y]; cbn [fst snd] in Hx, Hy, Hput;
  destruct (spick t (abss s)) as [sx sy]; inversion P; subst sx sy; clear P.

Theorem vstep_refines : forall alts s o, wfs alts s -> wf_vop alts o ->
  exists s', vstep alts s o = Ok s' /\ abss s' = sv_step alts (abss s) o /\ wfs alts s'.
Proof.
  intros alts s o Hwf Hop.
  destruct o as [t i v|t a v|t i v|t a v|t src v|t src v|t|t|t|t| |t|t|t|t]; cbn [vstep sv_step wf_vop] in *.
  - (* emplace<I> *)
    step_setup alts s t x y Hx Hy. rewrite emplace_ok by exact Hx. cbn [rbind].
    eexists; split; [reflexivity|]. split; [apply abss_put | apply wfs_put; [apply wfv_replace; exact Hop|exact Hy]].
  - (* emplace<T> *)
    step_setup alts s t x y Hx Hy. rewrite emplace_ok by exact Hx. cbn [rbind].
    eexists; split; [reflexivity|]. split; [apply abss_put | apply wfs_put; [apply wfv_replace; exact Hop|exact Hy]].
  - (* in_place_index ctor + move assignment *)
    step_setup alts s t x y Hx Hy. rewrite assign_temp_ok by (try apply wfv_replace; assumption). cbn [rbind].
    eexists; split; [reflexivity|]. split; [apply abss_put | apply wfs_put; [apply wfv_replace; exact Hop|exact Hy]].
  - step_setup alts s t x y Hx Hy. rewrite assign_temp_ok by (try apply wfv_replace; assumption). cbn [rbind].
    eexists; split; [reflexivity|]. split; [apply abss_put | apply wfs_put; [apply wfv_replace; exact Hop|exact Hy]].
  - (* converting assignment *)
    step_setup alts s t x y Hx Hy. rewrite conv_assign_ok by exact Hx. cbn [rbind].
    unfold sv_convert. destruct (select alts src) as [j|] eqn:Es.
    + eexists; split; [reflexivity|]. split; [apply abss_put|].
      apply wfs_put; [apply wfv_replace; apply (select_lt _ _ _ Es)|exact Hy].
    + eexists; split; [reflexivity|]. split; [reflexivity|exact Hwf].
  - (* converting constructor + move assignment *)
    step_setup alts s t x y Hx Hy. unfold conv_ctor, sv_convert. destruct (select alts src) as [j|] eqn:Es.
    + pose proof (select_lt _ _ _ Es) as Hj.
      rewrite assign_temp_ok by (try apply wfv_replace; assumption). cbn [rbind].
      eexists; split; [reflexivity|]. split; [apply abss_put|apply wfs_put; [apply wfv_replace; exact Hj|exact Hy]].
    + eexists; split; [reflexivity|]. split; [reflexivity|exact Hwf].
  - (* copy assignment *)
    step_setup alts s t x y Hx Hy. rewrite assign_copy_ok by assumption. cbn [rbind].
    eexists; split; [reflexivity|]. split; [apply abss_put|apply wfs_put; assumption].
  - (* move assignment *)
    step_setup alts s t x y Hx Hy. rewrite assign_move_ok by assumption. cbn [rbind fst snd].
    eexists; split; [reflexivity|]. split; [rewrite abss_put, absv_moved; reflexivity|].
    apply wfs_put; [assumption|apply wfv_moved; assumption].
  - (* copy constructor + move assignment *)
    step_setup alts s t x y Hx Hy. rewrite copy_ctor_ok by assumption. cbn [rbind].
    rewrite assign_temp_ok by assumption. cbn [rbind].
    eexists; split; [reflexivity|]. split; [apply abss_put|apply wfs_put; assumption].
  - (* move constructor + move assignment *)
    step_setup alts s t x y Hx Hy. rewrite move_ctor_ok by assumption. cbn [rbind fst snd].
    rewrite assign_temp_ok by assumption. cbn [rbind].
    eexists; split; [reflexivity|]. split; [rewrite abss_put, absv_moved; reflexivity|].
    apply wfs_put; [assumption|apply wfv_moved; assumption].
  - (* swap *)
    destruct Hwf as [Ha Hb]. rewrite swap_generic_ok by assumption.
    eexists; split; [reflexivity|]. split; [reflexivity|split; assumption].
  - (* self copy assignment *)
    step_setup alts s t x y Hx Hy. rewrite assign_copy_ok by assumption. cbn [rbind].
    eexists; split; [reflexivity|]. split; [|apply wfs_put; assumption].
    rewrite Hput. reflexivity.
  - (* self move assignment *)
    step_setup alts s t x y Hx Hy. rewrite self_move_ok by assumption. cbn [rbind].
    eexists; split; [reflexivity|]. split; [|apply wfs_put; assumption].
    rewrite Hput. reflexivity.
  - (* assignment of the variant's own contained value *)
    step_setup alts s t x y Hx Hy. rewrite conv_assign_ok by exact Hx. cbn [rbind].
    destruct (select alts (alt_ty alts (idx x))) as [j|] eqn:Es.
    + apply select_self in Es; [|exact Hx]. subst j. rewrite conv_self. unfold replace. rewrite var_eta.
      eexists; split; [reflexivity|]. split; [|apply wfs_put; assumption].
      rewrite Hput. reflexivity.
    + eexists; split; [reflexivity|]. split; [reflexivity|exact Hwf].
  - (* default constructor + move assignment *)
    step_setup alts s t x y Hx Hy.
    assert (H0 : wfv alts var_default) by (unfold wfv, var_default, replace; cbn [idx]; unfold wfv in Hx; lia).
    rewrite assign_temp_ok by assumption. cbn [rbind].
    eexists; split; [reflexivity|]. split; [apply abss_put|apply wfs_put; assumption].
Qed.

(* all histories *)
Theorem vrun_refines : forall alts ops s, wfs alts s -> Forall (wf_vop alts) ops ->
  exists s', vrun alts s ops = Ok s' /\ abss s' = sv_run alts (abss s) ops /\ wfs alts s'.
Proof.
  intros alts ops. induction ops as [|o r IH]; intros s Hwf Hops.
  - exists s. split; [reflexivity|]. split; [reflexivity|exact Hwf].
  - inversion Hops as [|o' r' Ho Hr]; subst.
    destruct (vstep_refines alts s o Hwf Ho) as [s1 [H1 [Ha1 Hw1]]].
    destruct (IH s1 Hw1 Hr) as [s2 [H2 [Ha2 Hw2]]].
    exists s2. cbn [vrun]. rewrite H1. cbn [rbind]. split; [exact H2|]. split; [|exact Hw2].
    rewrite Ha2, Ha1. reflexivity.
Qed.

(** ** observers *)
Theorem get_if_ok : forall s i, get_if s i = Ok (sv_get_if (absv s) i).
Proof.
  intros s i. unfold get_if, sv_get_if, absv. cbn [fst snd].
  destruct (Nat.eqb (idx s) i) eqn:E; [|reflexivity].
  apply Nat.eqb_eq in E. unfold uget. rewrite <- E, Nat.eqb_refl. reflexivity.
Qed.

Theorem holds_alternative_ok : forall alts s t, holds_alternative alts s t = sv_holds alts (absv s) t.
Proof. reflexivity. Qed.

(* visit with any number of variants (each with its own alternative list): the visitor is
   invoked with the active alternative of every variant *)
Theorem visit_types_ok : forall altss vs, Forall2 (fun s al => wfv al s) vs altss ->
  visit_types altss vs = Ok (sv_visit altss (map absv vs)).
Proof.
  intros altss vs H. unfold visit_types.
  rewrite visit_vals_ok.
  - cbn [rbind]. reflexivity.
  - clear -H. induction H as [|s al vs' altss' Hs Hr IH]; cbn [map]; constructor; assumption.
Qed.

(* x != y is the negation of x == y also when a NaN is involved (the only such pair among the six) *)
Lemma rel_z_ne : forall x y, rel_z 1 x y = negb (rel_z 0 x y).
Proof. intros x y. unfold rel_z. destruct (is_nan x || is_nan y); reflexivity. Qed.

Lemma var_cmp_visit_ok : forall alts k a b, wfv alts a -> wfv alts b -> idx a = idx b ->
  var_cmp_visit alts k a b = Ok (rel_z k (val a) (val b)).
Proof.
  intros alts k a b Ha Hb E. unfold var_cmp_visit. rewrite visit2_ok by assumption. cbn [rbind].
  rewrite E, ty_eqb_refl. reflexivity.
Qed.

Theorem var_rel_ok : forall alts k a b, wfv alts a -> wfv alts b ->
  var_rel alts k a b = Ok (sv_rel k (absv a) (absv b)).
Proof.
  intros alts k a b Ha Hb. unfold var_rel, sv_rel, absv. cbn [fst snd].
  destruct k as [|[|[|[|k]]]].
  - destruct (Nat.eqb (idx a) (idx b)) eqn:E; cbn [negb andb]; [|reflexivity].
    apply Nat.eqb_eq in E. apply var_cmp_visit_ok; assumption.
  - destruct (Nat.eqb (idx a) (idx b)) eqn:E; cbn [negb andb orb rbind]; [|reflexivity].
    apply Nat.eqb_eq in E. rewrite var_cmp_visit_ok by assumption. cbn [rbind]. rewrite rel_z_ne. reflexivity.
  - destruct (Nat.ltb (idx a) (idx b)) eqn:E1; [reflexivity|].
    destruct (Nat.ltb (idx b) (idx a)) eqn:E2; [reflexivity|].
    apply Nat.ltb_ge in E1, E2. apply var_cmp_visit_ok; [assumption|assumption|lia].
  - destruct (Nat.ltb (idx a) (idx b)) eqn:E1; [reflexivity|].
    destruct (Nat.ltb (idx b) (idx a)) eqn:E2; [reflexivity|].
    apply Nat.ltb_ge in E1, E2. apply var_cmp_visit_ok; [assumption|assumption|lia].
  - destruct (Nat.ltb (idx b) (idx a)) eqn:E1; [reflexivity|].
    destruct (Nat.ltb (idx a) (idx b)) eqn:E2; [reflexivity|].
    apply Nat.ltb_ge in E1, E2. apply var_cmp_visit_ok; [assumption|assumption|lia].
Qed.
