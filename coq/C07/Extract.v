From Tetl Require Import Lib.Base C07.Types C07.Model C07.Spec C07.ModelSm C07.SpecSm C07.TypesVo C07.ModelVo C07.SpecVo.
Require Extraction.
Require Import ExtrOcamlBasic.
Extraction Language OCaml.
Extraction "C07_model.ml" wire_anchor
  ty_id ty_of_id alt_ty index_of select conv moved_val rel_z
  dispatch visit_vals vstep vrun var_default get_if holds_alternative visit_types var_rel
  opt_empty has_value opt_deref ostep orun opt_value_or opt_and_then opt_or_else opt_and_then_q opt_or_else_q opt_value_or_q opt_take_q opt_rel opt_rel_null opt_rel_val
  exp_has_value exp_deref exp_error estep erun exp_value_or exp_and_then exp_or_else exp_and_then_q exp_or_else_q exp_value_or_q exp_take_q exp_take_error_q
  rstep rrun ref_deref
  sv_step sv_run sv_get_if sv_holds sv_visit sv_rel sv_convert
  so_step so_run so_value_or so_and_then so_or_else so_and_then_q so_or_else_q so_value_or_q so_take_q so_rel so_rel_null so_rel_val
  se_step se_run se_value_or se_and_then se_or_else se_and_then_q se_or_else_q se_value_or_q se_take_q se_take_error_q
  sr_step sr_run sr_deref ustep urun unex_eq su_step su_run
  f_plain f_of_bits elt_traits m_traits s_traits m_run s_run
  sty_of_id vo_value_or svo_value_or.
