(* C07 — the specifications are sharp enough to reject the behaviours that were repaired in /repo:
   executable models of the PRE-FIX code next to the models of the current code, with kernel-checked
   witnesses on which they leave the specification.  (The harness found the same witnesses on the
   real code before the fixes; reverting a fix makes ./check exit 1.) *)
From Tetl Require Import Lib.Base C07.Types C07.Model C07.Spec C07.Dispatch C07.VariantProofs
  C07.OptionalProofs C07.ExpectedProofs C07.RefProofs.
Local Open Scope nat_scope.

(** before af01b1f: optional<T&>(optional<U> const& rhs) : _ptr(addressof( *rhs)) -- operator* of the
    source evaluated unconditionally *)
Definition ref_from_opt_prefix (sr : var) : res (option rtgt) :=
  rbind (opt_deref sr) (fun _ => Ok (Some RSrc)).

Theorem ref_from_opt_prefix_refuted :
  ref_from_opt_prefix opt_empty = Contract
  /\ ref_from_opt opt_empty = Ok None
  /\ (forall sr, ref_from_opt_prefix sr <> Ok None).
Proof.
  split; [reflexivity|]. split; [reflexivity|].
  intros sr H. unfold ref_from_opt_prefix, opt_deref in H. destruct (has_value sr).
  - unfold uget in H. destruct (Nat.eqb 1 (idx sr)); discriminate H.
  - discriminate H.
Qed.

(** before 5f9f27c: the bodies of the && and const& overloads of expected::and_then were swapped *)
Definition exp_and_then_q_prefix (T E : ty) (q : qual) (s : var) (f : Z -> bool * Z) (byval : bool) :=
  match q with
  | QR => rbind (exp_and_then_q T E QL s f byval) (fun m => Ok m)     (* && used **this / error() *)
  | QC => rbind (exp_and_then_q T E QCR s f byval) (fun m => Ok m)    (* const& used move( **this) / move(error()) *)
  | _ => exp_and_then_q T E q s f byval
  end.

Theorem exp_and_then_q_prefix_refuted :
  let s := {| idx := 0; val := 1%Z |} in             (* expected<Tracked, Tracked2> holding the value 1 *)
  let f := fun v : Z => (true, v) in
  wfe s
  /\ (exists m, exp_and_then_q_prefix TTr TTr2 QR s f true = Ok m
        /\ abs_qres m <> se_and_then_q TTr TTr2 QR (abse s) f true)      (* category l, source keeps 1: std r, 99 *)
  /\ (exists m, exp_and_then_q_prefix TTr TTr2 QC s f false = Ok m
        /\ abs_qres m <> se_and_then_q TTr TTr2 QC (abse s) f false).    (* category k: std c *)
Proof.
  cbv zeta. split; [unfold wfe; cbn; lia|]. split; eexists; (split; [reflexivity|]); vm_compute; discriminate.
Qed.

(** before 31d0e07 / afb87fb the variant defects are covered by the selection theorem: with the
    narrowing exclusion dropped, bool would be selected for an int argument next to Tracked *)
Fixpoint cands_prefix (src : ty) (alts : list ty) (j : nat) : list (nat * nat) :=
  match alts with
  | [] => []
  | t :: r => match ics src t with Some rk => (j, rk) :: cands_prefix src r (S j) | None => cands_prefix src r (S j) end
  end.
Definition select_prefix (alts : list ty) (src : ty) : option nat :=
  let c := cands_prefix src alts 0 in
  match filter (fun p => Nat.eqb (snd p) (min_rank c)) c with [(j, _)] => Some j | _ => None end.

Theorem select_prefix_refuted :
  select_prefix [TBool; TTr] TInt = Some 0 /\ select [TBool; TTr] TInt = Some 1
  /\ select_prefix [TBool; TStr] TPtr = Some 0 /\ select [TBool; TStr] TPtr = Some 1
  /\ select_prefix [TFloat; TLong] TInt = None /\ select [TFloat; TLong] TInt = Some 1.
Proof. vm_compute. repeat split. Qed.
