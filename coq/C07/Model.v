(* C07 — executable model of etl::variant / visit / optional / expected / optional<T&>.
   Mirrors what the code in include/etl/_variant/{variant,visit,variant_alternative_selector}.hpp,
   _optional/optional.hpp, _expected/expected.hpp, _utility/swap.hpp DOES:
     - visit_with_index is the mixed-radix counter next_seq over index tuples, with the
       equality test against the active indices at every tuple but the last and an UNCHECKED
       call at the last tuple;
     - every access to an alternative goes through unchecked_get, whose TETL_PRECONDITION
       (I == index()) is the [Contract] outcome;
     - the special members of variant are the defaulted (bitwise) ones when every alternative
       is trivially copyable and the visit_with_index based ones otherwise;
     - emplace = destroy (a visit) + replace; converting assignment = overload selection, then
       assign-through (same alternative) or emplace;
     - optional<T> is variant<nullopt_t, T>, expected<T, E> is variant<T, E>, swap is the
       generic three-move etl::swap.
   No proofs here. *)
From Tetl Require Import Lib.Base C07.Types.
Local Open Scope nat_scope.

(** * visit.hpp: the dispatcher *)

(* detail::next_seq: increment the first index, carry to the right, all zeros after the last *)
Fixpoint next_seq (cur sizes : list nat) : list nat :=
  match cur, sizes with
  | i :: cur', m :: sizes' => if Nat.eqb (S i) m then 0 :: next_seq cur' sizes' else S i :: cur'
  | _, _ => []
  end.

Definition sum_seq (l : list nat) : nat := fold_right Nat.add 0 l.

Fixpoint list_eqb (a b : list nat) : bool :=
  match a, b with
  | [], [] => true
  | x :: a', y :: b' => Nat.eqb x y && list_eqb a' b'
  | _, _ => false
  end.

(* detail::visit_with_index(i, m, f, vs...): returns the index tuple handed to f.
   fuel = number of recursive instantiations allowed; None = out of fuel *)
Fixpoint dispatch_from (fuel : nat) (cur sizes active : list nat) : option (list nat) :=
  match fuel with
  | O => None
  | S k =>
    let n := next_seq cur sizes in
    if Nat.eqb (sum_seq n) 0 then Some cur            (* last tuple: called without a test *)
    else if list_eqb active cur then Some cur         (* tuple(index(vs)...) == tuple(Is...) *)
    else dispatch_from k n sizes active
  end.

Definition zeros (sizes : list nat) : list nat := map (fun _ => 0) sizes.
Definition prod_seq (l : list nat) : nat := fold_right Nat.mul 1 l.

(* etl::visit_with_index(f, vs...) *)
Definition dispatch (sizes active : list nat) : option (list nat) :=
  if forallb (Nat.eqb 1) sizes then Some (zeros sizes)
  else dispatch_from (prod_seq sizes) (zeros sizes) sizes active.

(** * variant.hpp *)
Record var := { idx : nat; val : Z }.

(* unchecked_get<I>(v) / v[index_v<I>]: TETL_PRECONDITION(I == v.index()) *)
Definition uget (s : var) (i : nat) : res Z := if Nat.eqb i (idx s) then Ok (val s) else Contract.

Fixpoint uget_all (vs : list var) (is : list nat) : res (list (nat * Z)) :=
  match vs, is with
  | [], [] => Ok []
  | s :: vs', i :: is' =>
    rbind (uget s i) (fun v => rbind (uget_all vs' is') (fun r => Ok ((i, v) :: r)))
  | _, _ => UB OutOfBounds
  end.

(* visit_with_index over the variants vs (vs_k has sizes_k alternatives): the (index, value)
   pairs the visitor receives *)
Definition visit_vals (sizes : list nat) (vs : list var) : res (list (nat * Z)) :=
  match dispatch sizes (map idx vs) with
  | Some is => uget_all vs is
  | None => OutOfFuel
  end.

Definition all_trivial (alts : list ty) : bool := forallb trivial alts.
Definition n_of (alts : list ty) : nat := length alts.

Definition replace (i : nat) (v : Z) : var := {| idx := i; val := v |}.

(* destroy(): visit([](auto& v) { destroy_at(&v); }, *this) *)
Definition destroy (alts : list ty) (s : var) : res unit :=
  rbind (visit_vals [n_of alts] [s]) (fun _ => Ok tt).

(* emplace<I>(args): destroy(); return replace(I, args) — replace ends in this->operator[](index) *)
Definition emplace (alts : list ty) (s : var) (i : nat) (v : Z) : res var :=
  rbind (destroy alts s) (fun _ => let s' := replace i v in rbind (uget s' i) (fun _ => Ok s')).

(* variant(variant const&) *)
Definition copy_ctor (alts : list ty) (src : var) : res var :=
  if all_trivial alts then Ok src
  else rbind (visit_vals [n_of alts] [src])
         (fun l => match l with [(i, v)] => Ok (replace i v) | _ => UB OutOfBounds end).

(* variant(variant&&): (new object, source afterwards) *)
Definition move_ctor (alts : list ty) (src : var) : res (var * var) :=
  if all_trivial alts then Ok (src, src)
  else rbind (visit_vals [n_of alts] [src])
         (fun l => match l with
                   | [(i, v)] => Ok (replace i v, {| idx := idx src; val := moved_val (alt_ty alts i) v |})
                   | _ => UB OutOfBounds
                   end).

(* operator=(variant const&) -> assign(other) *)
Definition assign_copy (alts : list ty) (lhs rhs : var) : res var :=
  if all_trivial alts then Ok rhs
  else rbind (visit_vals [n_of alts; n_of alts] [lhs; rhs])
         (fun l => match l with
                   | [(i, _); (j, rv)] =>
                     if Nat.eqb i j then Ok {| idx := idx lhs; val := rv |}
                     else rbind (destroy alts lhs) (fun _ => Ok (replace j rv))
                   | _ => UB OutOfBounds
                   end).

(* operator=(variant&&) -> assign(move(other)): (lhs afterwards, rhs afterwards) *)
Definition assign_move (alts : list ty) (lhs rhs : var) : res (var * var) :=
  if all_trivial alts then Ok (rhs, rhs)
  else rbind (visit_vals [n_of alts; n_of alts] [lhs; rhs])
         (fun l => match l with
                   | [(i, _); (j, rv)] =>
                     let rhs' := {| idx := idx rhs; val := moved_val (alt_ty alts j) rv |} in
                     if Nat.eqb i j then Ok ({| idx := idx lhs; val := rv |}, rhs')
                     else rbind (destroy alts lhs) (fun _ => Ok (replace j rv, rhs'))
                   | _ => UB OutOfBounds
                   end).

(* x = move(x): both visit arguments are the same object; the alternative's own move
   assignment sees this == &other (Tracked guards it, scalars copy onto themselves) *)
Definition self_move (alts : list ty) (s : var) : res var :=
  if all_trivial alts then Ok s
  else rbind (visit_vals [n_of alts; n_of alts] [s; s])
         (fun l => match l with
                   | [(i, _); (j, _)] => if Nat.eqb i j then Ok s else UB OutOfBounds
                   | _ => UB OutOfBounds
                   end).

(* x = V(...) for a temporary that dies afterwards *)
Definition assign_temp (alts : list ty) (x tmp : var) : res var :=
  rbind (assign_move alts x tmp) (fun p => Ok (fst p)).

(* x = value.  operator=(T&&): selection; same alternative -> assign through, else emplace.
   None = the assignment does not compile (no / ambiguous alternative).
   The operator template is constrained by is_assignable_v<T_j&, T> and is_assignable_v<T_j, T> (sic: the second
   asks about assignment to an rvalue T_j, which is ill-formed for every non-class T_j), so for a scalar selected
   alternative it does not participate: the argument is then converted to a temporary variant by the converting
   constructor variant(T&&) and that is move-assigned.  Same final state, different path. *)
Definition conv_assign (alts : list ty) (s : var) (src : ty) (v : Z) : res (option var) :=
  match select alts src with
  | None => Ok None
  | Some j =>
    let v' := conv src (alt_ty alts j) v in
    if is_class (alt_ty alts j) then
      (if Nat.eqb (idx s) j then rbind (uget s j) (fun _ => Ok (Some {| idx := idx s; val := v' |}))
       else rbind (emplace alts s j v') (fun s' => Ok (Some s')))
    else rbind (assign_temp alts s (replace j v')) (fun s' => Ok (Some s'))
  end.

(* variant(T&&) *)
Definition conv_ctor (alts : list ty) (src : ty) (v : Z) : option var :=
  match select alts src with
  | None => None
  | Some j => Some (replace j (conv src (alt_ty alts j) v))
  end.

(* etl::swap(a, b): T temp(move(a)); a = move(b); b = move(temp); *)
Definition swap_generic (alts : list ty) (a b : var) : res (var * var) :=
  rbind (move_ctor alts a) (fun p1 =>
  let '(temp, a1) := p1 in
  rbind (assign_move alts a1 b) (fun p2 =>
  let '(a2, b1) := p2 in
  rbind (assign_move alts b1 temp) (fun p3 =>
  Ok (a2, fst p3)))).

(** ** variant histories on two objects *)

Definition vstate := (var * var)%type.
Definition pick (t : bool) (s : vstate) : var * var := if t then (snd s, fst s) else s.
Definition put (t : bool) (x y : var) : vstate := if t then (y, x) else (x, y).

Definition var_default : var := replace 0 0%Z.

Definition vstep (alts : list ty) (s : vstate) (o : vop) : res vstate :=
  match o with
  | VEmplace t i v =>
    let '(x, y) := pick t s in rbind (emplace alts x i v) (fun x' => Ok (put t x' y))
  | VEmplaceT t a v =>
    let '(x, y) := pick t s in rbind (emplace alts x (index_of a alts) v) (fun x' => Ok (put t x' y))
  | VInPlace t i v =>
    let '(x, y) := pick t s in rbind (assign_temp alts x (replace i v)) (fun x' => Ok (put t x' y))
  | VInPlaceT t a v =>
    let '(x, y) := pick t s in
    rbind (assign_temp alts x (replace (index_of a alts) v)) (fun x' => Ok (put t x' y))
  | VConvAssign t src v =>
    let '(x, y) := pick t s in
    rbind (conv_assign alts x src v)
      (fun r => match r with Some x' => Ok (put t x' y) | None => Ok s end)
  | VConvCtor t src v =>
    let '(x, y) := pick t s in
    match conv_ctor alts src v with
    | Some tmp => rbind (assign_temp alts x tmp) (fun x' => Ok (put t x' y))
    | None => Ok s
    end
  | VCopyAssign t =>
    let '(x, y) := pick t s in rbind (assign_copy alts x y) (fun x' => Ok (put t x' y))
  | VMoveAssign t =>
    let '(x, y) := pick t s in rbind (assign_move alts x y) (fun p => Ok (put t (fst p) (snd p)))
  | VCopyCtor t =>
    let '(x, y) := pick t s in
    rbind (copy_ctor alts y) (fun tmp => rbind (assign_temp alts x tmp) (fun x' => Ok (put t x' y)))
  | VMoveCtor t =>
    let '(x, y) := pick t s in
    rbind (move_ctor alts y) (fun p =>
      rbind (assign_temp alts x (fst p)) (fun x' => Ok (put t x' (snd p))))
  | VSwap => swap_generic alts (fst s) (snd s)
  | VSelfCopy t =>
    let '(x, y) := pick t s in rbind (assign_copy alts x x) (fun x' => Ok (put t x' y))
  | VSelfMove t =>
    let '(x, y) := pick t s in rbind (self_move alts x) (fun x' => Ok (put t x' y))
  | VAlias t =>
    let '(x, y) := pick t s in
    rbind (conv_assign alts x (alt_ty alts (idx x)) (val x))
      (fun r => match r with Some x' => Ok (put t x' y) | None => Ok s end)
  | VDefault t =>
    let '(x, y) := pick t s in rbind (assign_temp alts x var_default) (fun x' => Ok (put t x' y))
  end.

Fixpoint vrun (alts : list ty) (s : vstate) (ops : list vop) : res vstate :=
  match ops with
  | [] => Ok s
  | o :: r => rbind (vstep alts s o) (fun s' => vrun alts s' r)
  end.

(** ** observers of variant *)
(* get_if<I>(&v): Some value iff the alternative is active *)
Definition get_if (s : var) (i : nat) : res (option Z) :=
  if Nat.eqb (idx s) i then rbind (uget s i) (fun v => Ok (Some v)) else Ok None.

Definition holds_alternative (alts : list ty) (s : var) (t : ty) : bool :=
  Nat.eqb (idx s) (index_of t alts).

(* visit(f, vs...) with a visitor that reports (type of the argument, its value) *)
Definition visit_types (altss : list (list ty)) (vs : list var) : res (list (ty * Z)) :=
  rbind (visit_vals (map (@length ty) altss) vs)
    (fun l => Ok (map (fun p => (alt_ty (fst p) (fst (snd p)), snd (snd p))) (combine altss l))).

(* operator==, <, <=, >, >= of variant: index comparison, then visit with the compare lambda
   (etl::unreachable() when the two argument types differ); != is the rewritten !(a == b) *)
Definition var_cmp_visit (alts : list ty) (k : nat) (a b : var) : res bool :=
  rbind (visit_vals [n_of alts; n_of alts] [a; b])
    (fun l => match l with
              | [(i, x); (j, y)] =>
                if ty_eqb (alt_ty alts i) (alt_ty alts j) then Ok (rel_z k x y) else UB OutOfBounds
              | _ => UB OutOfBounds
              end).

Definition var_rel (alts : list ty) (k : nat) (a b : var) : res bool :=
  match k with
  | 0 => if negb (Nat.eqb (idx a) (idx b)) then Ok false else var_cmp_visit alts 0 a b
  | 1 => rbind (if negb (Nat.eqb (idx a) (idx b)) then Ok false else var_cmp_visit alts 0 a b)
           (fun r => Ok (negb r))
  | 2 | 3 => if Nat.ltb (idx a) (idx b) then Ok true
             else if Nat.ltb (idx b) (idx a) then Ok false else var_cmp_visit alts k a b
  | _ => if Nat.ltb (idx b) (idx a) then Ok true
         else if Nat.ltb (idx a) (idx b) then Ok false else var_cmp_visit alts k a b
  end.

(** * optional.hpp : optional<T> = variant<nullopt_t, T> *)
Definition oalts (T : ty) : list ty := [TNullopt; T].
Definition opt_empty : var := replace 0 0%Z.       (* _var{nullopt} *)
Definition has_value (s : var) : bool := Nat.eqb (idx s) 1.

(* operator*: TETL_PRECONDITION(has_value()); unchecked_get<1> *)
Definition opt_deref (s : var) : res Z := if has_value s then uget s 1 else Contract.

Definition opt_reset (T : ty) (s : var) : res var := emplace (oalts T) s 0 0%Z.
Definition opt_emplace (T : ty) (s : var) (v : Z) : res var := emplace (oalts T) s 1 v.

(* x = value of type src.  The perfect-forwarding operator=(U&&) participates only when T is
   not scalar and decay_t<U> is not T (then: emplace); otherwise the value is converted to a
   temporary optional (optional(U&&)) which is move-assigned *)
Definition opt_assign_value (T : ty) (s : var) (src : ty) (v : Z) : res var :=
  let v' := conv src T v in
  if negb (is_scalar T) && negb (ty_eqb T src) then
    (* has_value() ? **this = forward<U>(value) : emplace(forward<U>(value))   (fix d847992: the argument
       is read while the contained value is still alive) *)
    (if has_value s then rbind (opt_deref s) (fun _ => Ok {| idx := idx s; val := v' |})
     else opt_emplace T s v')
  else assign_temp (oalts T) s (replace 1 v').

(* optional<T>::operator=(optional<U> const&) / (optional<U>&&), after ba039d7:
   if (!other) reset(); else if (has_value()) **this = *other; else emplace( *other);
   (the event-level statement - assignment vs destroy + construct - is ModelSm.m_conv_assign) *)
Definition opt_assign_conv (T U : ty) (s c : var) : res var :=
  if negb (has_value c) then opt_reset T s
  else if has_value s
       then rbind (opt_deref c) (fun v => rbind (opt_deref s) (fun _ => Ok {| idx := idx s; val := conv U T v |}))
       else rbind (opt_deref c) (fun v => opt_emplace T s (conv U T v)).

(* optional<T>(optional<U> const&): starts disengaged, emplace(value of other) when engaged *)
Definition opt_ctor_conv (T U : ty) (c : var) : res var :=
  if has_value c then rbind (opt_deref c) (fun v => opt_emplace T opt_empty (conv U T v)) else Ok opt_empty.

(* the source optional<U> after being moved from: still engaged, value moved-from *)
Definition opt_moved_src (U : ty) (c : var) : var :=
  if has_value c then {| idx := idx c; val := moved_val U (val c) |} else c.


Definition ostate := (var * var * var)%type.

Definition ostep (T U : ty) (s : ostate) (o : oop) : res ostate :=
  let '(ab, c) := s in
  let al := oalts T in
  match o with
  | OEmplace t v =>
    let '(x, y) := pick t ab in rbind (opt_emplace T x v) (fun x' => Ok (put t x' y, c))
  | OAssignT t v =>
    let '(x, y) := pick t ab in rbind (opt_assign_value T x T v) (fun x' => Ok (put t x' y, c))
  | OAssignU t v =>
    let '(x, y) := pick t ab in rbind (opt_assign_value T x U v) (fun x' => Ok (put t x' y, c))
  | ONullopt t | OReset t =>
    let '(x, y) := pick t ab in rbind (opt_reset T x) (fun x' => Ok (put t x' y, c))
  | OBraces t | OCtorEmpty t =>
    let '(x, y) := pick t ab in rbind (assign_temp al x opt_empty) (fun x' => Ok (put t x' y, c))
  | OCopyAssign t =>
    let '(x, y) := pick t ab in rbind (assign_copy al x y) (fun x' => Ok (put t x' y, c))
  | OMoveAssign t =>
    let '(x, y) := pick t ab in rbind (assign_move al x y) (fun p => Ok (put t (fst p) (snd p), c))
  | OCopyCtor t =>
    let '(x, y) := pick t ab in
    rbind (copy_ctor al y) (fun tmp => rbind (assign_temp al x tmp) (fun x' => Ok (put t x' y, c)))
  | OMoveCtor t =>
    let '(x, y) := pick t ab in
    rbind (move_ctor al y) (fun p =>
      rbind (assign_temp al x (fst p)) (fun x' => Ok (put t x' (snd p), c)))
  | OSwap => rbind (swap_generic al (fst ab) (snd ab)) (fun ab' => Ok (ab', c))
  | OSelfCopy t =>
    let '(x, y) := pick t ab in rbind (assign_copy al x x) (fun x' => Ok (put t x' y, c))
  | OSelfMove t =>
    let '(x, y) := pick t ab in rbind (self_move al x) (fun x' => Ok (put t x' y, c))
  | OOwnValue t =>
    let '(x, y) := pick t ab in
    if has_value x then
      rbind (opt_deref x) (fun v =>
        rbind (assign_temp al x (replace 1 v)) (fun x' => Ok (put t x' y, c)))
    else Ok s
  | OAssignOptU t =>
    let '(x, y) := pick t ab in rbind (opt_assign_conv T U x c) (fun x' => Ok (put t x' y, c))
  | OMoveOptU t =>
    let '(x, y) := pick t ab in
    rbind (opt_assign_conv T U x c) (fun x' => Ok (put t x' y, opt_moved_src U c))
  | OCtorOptU t =>
    let '(x, y) := pick t ab in
    rbind (opt_ctor_conv T U c) (fun tmp =>
      rbind (assign_temp al x tmp) (fun x' => Ok (put t x' y, c)))
  | OCtorMoveOptU t =>
    let '(x, y) := pick t ab in
    rbind (opt_ctor_conv T U c) (fun tmp =>
      rbind (assign_temp al x tmp) (fun x' => Ok (put t x' y, opt_moved_src U c)))
  | OEmplaceC v => rbind (opt_emplace U c v) (fun c' => Ok (ab, c'))
  | OResetC => rbind (opt_reset U c) (fun c' => Ok (ab, c'))
  | OCtorValue t v =>
    let '(x, y) := pick t ab in rbind (assign_temp al x (replace 1 v)) (fun x' => Ok (put t x' y, c))
  | OCtorValueU t v =>
    let '(x, y) := pick t ab in
    rbind (assign_temp al x (replace 1 (conv U T v))) (fun x' => Ok (put t x' y, c))
  | OOwnMember t =>
    (* if (x) x = x->v : operator-> (get_if<1>), the member is an int lvalue inside the contained object *)
    let '(x, y) := pick t ab in
    if has_value x then
      rbind (opt_deref x) (fun v => rbind (opt_assign_value T x TInt v) (fun x' => Ok (put t x' y, c)))
    else Ok s
  end.

Fixpoint orun (T U : ty) (s : ostate) (ops : list oop) : res ostate :=
  match ops with
  | [] => Ok s
  | o :: r => rbind (ostep T U s o) (fun s' => orun T U s' r)
  end.

(** ** observers of optional *)
(* value_or(d): has_value() ? **this : d *)
Definition opt_value_or (s : var) (d : Z) : res Z := if has_value s then opt_deref s else Ok d.

(* and_then(f): engaged: invoke(f, value); otherwise an empty result. f is a Coq function *)
Definition opt_and_then (s : var) (f : Z -> option Z) : res (option Z) :=
  if has_value s then rbind (opt_deref s) (fun v => Ok (f v)) else Ok None.

(* or_else(g): engaged: a copy of this; otherwise g() *)
Definition opt_or_else (T : ty) (s : var) (g : option Z) : res (option Z) :=
  if has_value s then
    rbind (copy_ctor (oalts T) s) (fun r => if has_value r then rbind (opt_deref r) (fun v => Ok (Some v)) else Ok None)
  else Ok g.

(** ** the ref-qualified overloads, one branch per C++ overload.  q is the value category of the
   object expression; reported: the result, the category handed to the callee, the object after.
   [steal]: an element was move-constructed from the contained one. *)
Definition steal (t : ty) (s : var) : var := {| idx := idx s; val := moved_val t (val s) |}.

(* and_then has all four overloads: & and const& invoke f with **this, && and const&& with move( **this);
   byval: the callee takes its parameter by value (constructs a T from the argument) *)
Definition opt_and_then_q (T : ty) (q : qual) (s : var) (f : Z -> option Z) (byval : bool)
  : res (option Z * option qual * var) :=
  match q with
  | QL => if has_value s then rbind (opt_deref s) (fun v => Ok (f v, Some QL, s)) else Ok (None, None, s)
  | QC => if has_value s then rbind (opt_deref s) (fun v => Ok (f v, Some QC, s)) else Ok (None, None, s)
  | QR => if has_value s then rbind (opt_deref s) (fun v => Ok (f v, Some QR, if byval then steal T s else s))
          else Ok (None, None, s)
  | QCR => if has_value s then rbind (opt_deref s) (fun v => Ok (f v, Some QCR, s)) else Ok (None, None, s)
  end.

(* or_else has two overloads: const& ( *this ? *this : f() ) serves lvalues and const rvalues,
   && ( *this ? move( *this) : f() ) non-const rvalues: the result is move-constructed from the object *)
Definition opt_or_else_q (T : ty) (q : qual) (s : var) (g : option Z) : res (option Z * var) :=
  match q with
  | QR =>
    if has_value s then
      rbind (move_ctor (oalts T) s) (fun p =>
        let '(r, s') := p in
        if has_value r then rbind (opt_deref r) (fun v => Ok (Some v, s')) else Ok (None, s'))
    else Ok (g, s)
  | _ => rbind (opt_or_else T s g) (fun r => Ok (r, s))
  end.

(* value_or has two overloads: const& returns a copy of **this, && a T move-constructed from it *)
Definition opt_value_or_q (T : ty) (q : qual) (s : var) (d : Z) : res (Z * var) :=
  match q with
  | QR => if has_value s then rbind (opt_deref s) (fun v => Ok (v, steal T s)) else Ok (d, s)
  | _ => rbind (opt_value_or s d) (fun v => Ok (v, s))
  end.

(* T x = *obj with obj of category q (operator* has all four overloads; && returns T&&) *)
Definition opt_take_q (T : ty) (q : qual) (s : var) : res (Z * var) :=
  rbind (opt_deref s) (fun v => Ok (v, if is_rv q then steal T s else s)).

(* free relational operators, optional/optional (also mixed optional<T>/optional<U>) *)
Definition opt_rel (k : nat) (l r : var) : res bool :=
  match k with
  | 0 => if negb (Bool.eqb (has_value l) (has_value r)) then Ok false
         else if negb (has_value l) && negb (has_value r) then Ok true
         else rbind (opt_deref l) (fun x => rbind (opt_deref r) (fun y => Ok (rel_z 0 x y)))
  | 1 => rbind (if negb (Bool.eqb (has_value l) (has_value r)) then Ok false
                else if negb (has_value l) && negb (has_value r) then Ok true
                else rbind (opt_deref l) (fun x => rbind (opt_deref r) (fun y => Ok (rel_z 0 x y))))
           (fun b => Ok (negb b))
  | 2 => if negb (has_value r) then Ok false else if negb (has_value l) then Ok true
         else rbind (opt_deref l) (fun x => rbind (opt_deref r) (fun y => Ok (rel_z 2 x y)))
  | 3 => if negb (has_value l) then Ok true else if negb (has_value r) then Ok false
         else rbind (opt_deref l) (fun x => rbind (opt_deref r) (fun y => Ok (rel_z 3 x y)))
  | 4 => if negb (has_value l) then Ok false else if negb (has_value r) then Ok true
         else rbind (opt_deref l) (fun x => rbind (opt_deref r) (fun y => Ok (rel_z 4 x y)))
  | _ => if negb (has_value r) then Ok true else if negb (has_value l) then Ok false
         else rbind (opt_deref l) (fun x => rbind (opt_deref r) (fun y => Ok (rel_z 5 x y)))
  end.

(* optional vs nullopt, the forms the header provides, numbered:
   0: o == nullopt   1: nullopt == o   2: o != nullopt   3: nullopt != o   4: o < nullopt   5: nullopt < o *)
Definition opt_rel_null (k : nat) (s : var) : bool :=
  match k with
  | 0 | 1 => negb (has_value s)
  | 2 | 3 => negb (negb (has_value s))
  | 4 => false
  | _ => has_value s
  end.

(* optional vs value: rev = false: opt OP value; rev = true: value OP opt.
   == and != with the value on the left are the rewritten candidates of operator==(opt, value) *)
Definition opt_rel_val (k : nat) (rev : bool) (s : var) (v : Z) : res bool :=
  let engaged (f : Z -> bool) (otherwise : bool) : res bool :=
      if has_value s then rbind (opt_deref s) (fun x => Ok (f x)) else Ok otherwise in
  match k, rev with
  | 0, false => engaged (fun x => rel_z 0 x v) false
  | 0, true => engaged (fun x => rel_z 0 x v) false
  | 1, _ => rbind (engaged (fun x => rel_z 0 x v) false) (fun b => Ok (negb b))
  | 2, false => engaged (fun x => rel_z 2 x v) true
  | 2, true => engaged (fun x => rel_z 2 v x) false
  | 3, false => engaged (fun x => rel_z 3 x v) true
  | 3, true => engaged (fun x => rel_z 3 v x) false
  | 4, false => engaged (fun x => rel_z 4 x v) false
  | 4, true => engaged (fun x => rel_z 4 v x) true
  | _, false => engaged (fun x => rel_z 5 x v) false
  | _, true => engaged (fun x => rel_z 5 v x) true
  end.

(** * expected.hpp : expected<T, E> = variant<T, E> *)
Definition ealts (T E : ty) : list ty := [T; E].
Definition exp_has_value (s : var) : bool := Nat.eqb (idx s) 0.
(* operator*: TETL_PRECONDITION(has_value()); _u[index_v<0>] (its own precondition) *)
Definition exp_deref (s : var) : res Z := if exp_has_value s then uget s 0 else Contract.
(* error(): TETL_PRECONDITION(not has_value()); _u[index_v<1>] *)
Definition exp_error (s : var) : res Z := if negb (exp_has_value s) then uget s 1 else Contract.


Definition estep (T E : ty) (s : vstate) (o : eop) : res vstate :=
  let al := ealts T E in
  match o with
  | EValue t v =>
    let '(x, y) := pick t s in rbind (assign_temp al x (replace 0 v)) (fun x' => Ok (put t x' y))
  | EUnexpect t v =>
    let '(x, y) := pick t s in rbind (assign_temp al x (replace 1 v)) (fun x' => Ok (put t x' y))
  | EEmplace t v =>
    let '(x, y) := pick t s in
    rbind (emplace al x 0 v) (fun x' => rbind (exp_deref x') (fun _ => Ok (put t x' y)))
  | ECopyAssign t =>
    let '(x, y) := pick t s in rbind (assign_copy al x y) (fun x' => Ok (put t x' y))
  | EMoveAssign t =>
    let '(x, y) := pick t s in rbind (assign_move al x y) (fun p => Ok (put t (fst p) (snd p)))
  | ECopyCtor t =>
    let '(x, y) := pick t s in
    rbind (copy_ctor al y) (fun tmp => rbind (assign_temp al x tmp) (fun x' => Ok (put t x' y)))
  | EMoveCtor t =>
    let '(x, y) := pick t s in
    rbind (move_ctor al y) (fun p =>
      rbind (assign_temp al x (fst p)) (fun x' => Ok (put t x' (snd p))))
  | ESelfCopy t =>
    let '(x, y) := pick t s in rbind (assign_copy al x x) (fun x' => Ok (put t x' y))
  | ESelfMove t =>
    let '(x, y) := pick t s in rbind (self_move al x) (fun x' => Ok (put t x' y))
  | EDefault t =>
    let '(x, y) := pick t s in rbind (assign_temp al x var_default) (fun x' => Ok (put t x' y))
  end.

Fixpoint erun (T E : ty) (s : vstate) (ops : list eop) : res vstate :=
  match ops with
  | [] => Ok s
  | o :: r => rbind (estep T E s o) (fun s' => erun T E s' r)
  end.

Definition exp_value_or (s : var) (d : Z) : res Z := if exp_has_value s then exp_deref s else Ok d.

(* and_then(f): has_value() ? invoke(f, **this) : U(unexpect, error()); results are
   (has_value, value-or-error) pairs, f maps a value to such a pair *)
Definition exp_and_then (s : var) (f : Z -> bool * Z) : res (bool * Z) :=
  if exp_has_value s then rbind (exp_deref s) (fun v => Ok (f v))
  else rbind (exp_error s) (fun e => Ok (false, e)).

(* or_else(g): has_value() ? G(in_place, **this) : invoke(g, error()) *)
Definition exp_or_else (s : var) (g : Z -> bool * Z) : res (bool * Z) :=
  if exp_has_value s then rbind (exp_deref s) (fun v => Ok (true, v))
  else rbind (exp_error s) (fun e => Ok (g e)).

(** ** the four ref-qualified overloads of and_then / or_else, one branch per C++ overload.
   Reported: the result, the value category with which the callee was invoked (None: not invoked),
   and the object afterwards.  [byval]: the callee takes its parameter by value, i.e. constructs a
   T (E) from the argument - from a non-const rvalue that is the move constructor, which leaves
   the source moved-from.  The result's error (and_then) / value (or_else) is always constructed
   from the forwarded error() / **this. *)
Definition exp_and_then_q (T E : ty) (q : qual) (s : var) (f : Z -> bool * Z) (byval : bool)
  : res ((bool * Z) * option qual * var) :=
  match q with
  | QL =>   (* & : invoke(f, **this) / U(unexpect, error()) *)
    if exp_has_value s then rbind (exp_deref s) (fun v => Ok (f v, Some QL, s))
    else rbind (exp_error s) (fun e => Ok ((false, e), None, s))
  | QC =>   (* const& : the same expressions on a const object *)
    if exp_has_value s then rbind (exp_deref s) (fun v => Ok (f v, Some QC, s))
    else rbind (exp_error s) (fun e => Ok ((false, e), None, s))
  | QR =>   (* && : invoke(f, move( **this)) / U(unexpect, move(error())) *)
    if exp_has_value s then rbind (exp_deref s) (fun v => Ok (f v, Some QR, if byval then steal T s else s))
    else rbind (exp_error s) (fun e => Ok ((false, e), None, steal E s))
  | QCR =>  (* const&& : move of a const object is a const rvalue: copied *)
    if exp_has_value s then rbind (exp_deref s) (fun v => Ok (f v, Some QCR, s))
    else rbind (exp_error s) (fun e => Ok ((false, e), None, s))
  end.

Definition exp_or_else_q (T E : ty) (q : qual) (s : var) (g : Z -> bool * Z) (byval : bool)
  : res ((bool * Z) * option qual * var) :=
  match q with
  | QL =>   (* & : G(in_place, **this) / invoke(g, error()) *)
    if exp_has_value s then rbind (exp_deref s) (fun v => Ok ((true, v), None, s))
    else rbind (exp_error s) (fun e => Ok (g e, Some QL, s))
  | QC =>
    if exp_has_value s then rbind (exp_deref s) (fun v => Ok ((true, v), None, s))
    else rbind (exp_error s) (fun e => Ok (g e, Some QC, s))
  | QR =>   (* && : G(in_place, move( **this)) / invoke(g, move(error())) *)
    if exp_has_value s then rbind (exp_deref s) (fun v => Ok ((true, v), None, steal T s))
    else rbind (exp_error s) (fun e => Ok (g e, Some QR, if byval then steal E s else s))
  | QCR =>
    if exp_has_value s then rbind (exp_deref s) (fun v => Ok ((true, v), None, s))
    else rbind (exp_error s) (fun e => Ok (g e, Some QCR, s))
  end.

(* value_or has two overloads: const& copies **this, && move-constructs the result from it;
   T x = *obj and E x = obj.error() with obj of category q (four overloads each) *)
Definition exp_value_or_q (T : ty) (q : qual) (s : var) (d : Z) : res (Z * var) :=
  match q with
  | QR => if exp_has_value s then rbind (exp_deref s) (fun v => Ok (v, steal T s)) else Ok (d, s)
  | _ => rbind (exp_value_or s d) (fun v => Ok (v, s))
  end.
Definition exp_take_q (T : ty) (q : qual) (s : var) : res (Z * var) :=
  rbind (exp_deref s) (fun v => Ok (v, if is_rv q then steal T s else s)).
Definition exp_take_error_q (E : ty) (q : qual) (s : var) : res (Z * var) :=
  rbind (exp_error s) (fun e => Ok (e, if is_rv q then steal E s else s)).

(** * optional<T&> : a pointer cell (T* _ptr).  None = nullptr; a non-null pointer refers to one
   of the numbered referent cells or to the object contained in the source optional<T0> [src]
   (the storage of alternative 1 of its variant: the object is there iff src is engaged) *)
Record rstate := { cells : list Z; src : var; pa : option rtgt; pb : option rtgt; pz : option rtgt }.

Fixpoint set_nth (l : list Z) (i : nat) (v : Z) : list Z :=
  match l, i with
  | [], _ => []
  | _ :: r, O => v :: r
  | a :: r, S k => a :: set_nth r k v
  end.

Definition rpick (t : bool) (s : rstate) : option rtgt * option rtgt := if t then (pb s, pa s) else (pa s, pb s).
Definition rput (t : bool) (cs : list Z) (sr : var) (x y z : option rtgt) : rstate :=
  if t then {| cells := cs; src := sr; pa := y; pb := x; pz := z |}
  else {| cells := cs; src := sr; pa := x; pb := y; pz := z |}.

(* optional<T&>::operator*: TETL_PRECONDITION(has_value()); *_ptr -- as an lvalue (what it designates) *)
Definition ref_star (p : option rtgt) : res rtgt := match p with Some g => Ok g | None => Contract end.

(* optional<T&>(optional<U> const& rhs) : _ptr(rhs.has_value() ? addressof( *rhs) : nullptr), rhs = src
   (U = T0: *rhs is optional<T0>::operator* with its own precondition, the contained object) *)
Definition ref_from_opt (sr : var) : res (option rtgt) :=
  if has_value sr then rbind (opt_deref sr) (fun _ => Ok (Some RSrc)) else Ok None.

(* the same constructor with rhs = z of type optional<T0&> (U = T0&): *rhs is the referent of z *)
Definition ref_from_ref (z : option rtgt) : res (option rtgt) :=
  match z with Some _ => rbind (ref_star z) (fun g => Ok (Some g)) | None => Ok None end.

(* an lvalue obtained from an optional<T&> is read / written *)
Definition tgt_read (cs : list Z) (sr : var) (g : rtgt) : res Z :=
  match g with
  | RCell c => match nth_error cs c with Some v => Ok v | None => UB OutOfBounds end
  | RSrc => if has_value sr then Ok (val sr) else UB UninitRead      (* the contained object is gone: dangling *)
  end.

Definition rstep (T : ty) (s : rstate) (o : rop) : res rstate :=
  match o with
  | RBind t c => let '(_, y) := rpick t s in Ok (rput t (cells s) (src s) (Some (RCell c)) y (pz s))  (* _ptr = addressof(v) *)
  | RNull t => let '(_, y) := rpick t s in Ok (rput t (cells s) (src s) None y (pz s))          (* _ptr = nullptr *)
  | RCopy t => let '(_, y) := rpick t s in Ok (rput t (cells s) (src s) y y (pz s))
  | RSwap => Ok {| cells := cells s; src := src s; pa := pb s; pb := pa s; pz := pz s |}
  | RWrite t v =>
    let '(x, y) := rpick t s in
    match x with
    | Some _ =>
      rbind (ref_star x) (fun g =>                          (* operator*: TETL_PRECONDITION(has_value()) *)
        match g with
        | RCell c => Ok (rput t (set_nth (cells s) c v) (src s) x y (pz s))
        | RSrc => if has_value (src s) then Ok (rput t (cells s) {| idx := idx (src s); val := v |} x y (pz s))
                  else UB UninitRead
        end)
    | None => Ok s
    end
  | RSelf t => let '(x, y) := rpick t s in Ok (rput t (cells s) (src s) x y (pz s))
  | RCellSet c v => Ok {| cells := set_nth (cells s) c v; src := src s; pa := pa s; pb := pb s; pz := pz s |}
  | RFromOpt t =>
    let '(_, y) := rpick t s in
    rbind (ref_from_opt (src s)) (fun tmp => Ok (rput t (cells s) (src s) tmp y (pz s)))
  | RFromRef t =>
    let '(_, y) := rpick t s in
    rbind (ref_from_ref (pz s)) (fun tmp => Ok (rput t (cells s) (src s) tmp y (pz s)))
  (* operator=(optional<U> const& rhs): _ptr = rhs.has_value() ? addressof( *rhs) : nullptr -- the same
     expression as the constructor's initialiser, assigned directly (no temporary) *)
  | RAssignOpt t =>
    let '(_, y) := rpick t s in
    rbind (ref_from_opt (src s)) (fun p => Ok (rput t (cells s) (src s) p y (pz s)))
  | RAssignRef t =>
    let '(_, y) := rpick t s in
    rbind (ref_from_ref (pz s)) (fun p => Ok (rput t (cells s) (src s) p y (pz s)))
  | RZBind c => Ok {| cells := cells s; src := src s; pa := pa s; pb := pb s; pz := Some (RCell c) |}
  | RZNull => Ok {| cells := cells s; src := src s; pa := pa s; pb := pb s; pz := None |}
  | RSrcAssign v =>
    rbind (opt_assign_value T (src s) T v) (fun sr => Ok {| cells := cells s; src := sr; pa := pa s; pb := pb s; pz := pz s |})
  | RSrcEmplace v =>
    rbind (opt_emplace T (src s) v) (fun sr => Ok {| cells := cells s; src := sr; pa := pa s; pb := pb s; pz := pz s |})
  | RSrcReset =>
    rbind (opt_reset T (src s)) (fun sr => Ok {| cells := cells s; src := sr; pa := pa s; pb := pb s; pz := pz s |})
  end.

Fixpoint rrun (T : ty) (s : rstate) (ops : list rop) : res rstate :=
  match ops with
  | [] => Ok s
  | o :: r => rbind (rstep T s o) (fun s' => rrun T s' r)
  end.

(* the value read through an optional<T&>: operator* (precondition) then the read of the referent *)
Definition ref_deref (cs : list Z) (sr : var) (p : option rtgt) : res Z :=
  rbind (ref_star p) (tgt_read cs sr).

(** * unexpected.hpp : a wrapper around one E; swap is etl::swap on the two errors *)
Definition ustate := (Z * Z * Z)%type.

(* using etl::swap; swap(error(), other.error()): T temp(move(a)); a = move(b); b = move(temp) *)
Definition swap_vals (E : ty) (a b : Z) : Z * Z :=
  let temp := a in
  let a1 := moved_val E a in
  let a2 := b in
  let b1 := moved_val E b in
  let b2 := temp in
  let temp' := moved_val E temp in
  (a2, b2).

Definition ustep (E : ty) (s : ustate) (o : uop) : ustate :=
  let '(ab, c) := s in
  match o with
  | UValue t v => let '(_, y) := (if t then (snd ab, fst ab) else ab) in ((if t then (y, v) else (v, y)), c)
  | UCopy t => let '(_, y) := (if t then (snd ab, fst ab) else ab) in ((if t then (y, y) else (y, y)), c)
  | UMove t =>
    let '(_, y) := (if t then (snd ab, fst ab) else ab) in
    ((if t then (moved_val E y, y) else (y, moved_val E y)), c)
  | USwap => (swap_vals E (fst ab) (snd ab), c)
  | USetC v => (ab, v)
  end.

Definition urun (E : ty) (s : ustate) (ops : list uop) : ustate := fold_left (ustep E) ops s.

(* operator==(unexpected const&, unexpected<E2> const&): lhs.error() == rhs.error() *)
Definition unex_eq (a b : Z) : bool := rel_z 0 a b.
