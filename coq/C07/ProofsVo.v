(* C07 — value_or with a fallback of another type: the code's conditional expression is the standard's sentence. *)
From Tetl Require Import Lib.Base C07.TypesVo C07.ModelVo C07.SpecVo C07.MutantsVo.
Local Open Scope Z_scope.
Ltac Zify.zify_post_hook ::= Z.to_euclidean_division_equations.

Lemma sty_eqb_refl : forall t, sty_eqb t t = true.
Proof. intros t. unfold sty_eqb. apply Nat.eqb_refl. Qed.

Lemma cond_type_same : forall t, cond_type t t = t.
Proof. intros t. unfold cond_type. rewrite sty_eqb_refl. reflexivity. Qed.

Lemma vo_conv_same : forall t v, vo_conv t t v = Ok v.
Proof. intros t v. unfold vo_conv. rewrite sty_eqb_refl. reflexivity. Qed.

(* the engaged branch never looks at the fallback: not at its type, not at its value *)
Theorem vo_engaged_returns_held : forall T U held fb, vo_value_or T U true held fb = Ok held.
Proof.
  intros T U held fb. unfold vo_value_or, vo_cond_return. rewrite cond_type_same.
  rewrite vo_conv_same. cbn [rbind]. apply vo_conv_same.
Qed.

Theorem vo_disengaged_converts : forall T U held fb, vo_value_or T U false held fb = vo_conv U T fb.
Proof.
  intros T U held fb. unfold vo_value_or, vo_cond_return. rewrite cond_type_same.
  destruct (vo_conv U T fb) as [v| | |] eqn:E; cbn [rbind]; try reflexivity.
  rewrite vo_conv_same. cbn [rbind]. apply vo_conv_same.
Qed.

Theorem vo_value_or_ok : forall T U engaged held fb,
  vo_value_or T U engaged held fb = svo_value_or T U (if engaged then Some held else None) fb.
Proof.
  intros T U [|] held fb; cbn [svo_value_or].
  - apply vo_engaged_returns_held.
  - apply vo_disengaged_converts.
Qed.

(* why the existing same-type families could not see the seed: with U = T the rewrite IS the code *)
Theorem vo_common_same_type : forall T engaged held fb, vo_value_or_common T T engaged held fb = vo_value_or T T engaged held fb.
Proof.
  intros T [|] held fb; unfold vo_value_or_common, vo_value_or, vo_cond_return; rewrite cond_type_same;
    rewrite ?vo_conv_same; cbn [rbind]; rewrite ?vo_conv_same; cbn [rbind]; reflexivity.
Qed.

(* ---- where the common-type rewrite (seed C07-i1) is invisible: everywhere but on a floating fallback type whose
   significand is too short for the held integer *)

Lemma round_small : forall p z, Z.abs z < 2 ^ p -> round_to p z = z.
Proof. intros p z H. unfold round_to. destruct (Z.abs z <? 2 ^ p) eqn:E; [reflexivity|]. apply Z.ltb_ge in E. lia. Qed.

(* integer fallback types: the round trip through the common type is lossless for every held value of T *)
Theorem vo_common_integer_invisible : forall T U held fb,
  vo_is_fp T = false -> vo_is_fp U = false -> ilo T <= held <= ihi T ->
  vo_value_or_common T U true held fb = Ok held.
Proof.
  intros T U held fb HT HU Hr.
  destruct T; try discriminate HT; destruct U; try discriminate HU;
    cbv [vo_value_or_common vo_cond_return cond_type common has sty_eqb sty_id Nat.eqb promote orb
         vo_conv vo_conv_raw vo_is_fp ilo ihi iwrap rbind] in *;
    try reflexivity; f_equal; try lia;
    match goal with |- (if ?e =? 0 then 0 else 1) = held =>
      destruct (e =? 0) eqn:E; [apply Z.eqb_eq in E|apply Z.eqb_neq in E]; lia end.
Qed.

Theorem vo_common_small_invisible : forall T U held fb,
  vo_is_fp T = false -> vo_is_fp U = true -> ilo T <= held <= ihi T -> Z.abs (2 * held) < 2 ^ mant U ->
  vo_value_or_common T U true held fb = Ok held.
Proof.
  intros T U held fb HT HU Hr Hs.
  assert (Hq : Z.quot (2 * held) 2 = held) by (rewrite Z.mul_comm; apply Z.quot_mul; lia).
  destruct T; try discriminate HT; destruct U; try discriminate HU;
    cbv [vo_value_or_common vo_cond_return cond_type common has sty_eqb sty_id Nat.eqb promote orb
         vo_conv vo_conv_raw vo_is_fp rbind] in *;
    rewrite (round_small _ _ Hs); cbv [rbind]; rewrite ?Hq;
    cbv [ilo ihi] in *;
    try (destruct (2 * held =? 0) eqn:E; [apply Z.eqb_eq in E|apply Z.eqb_neq in E]; f_equal; lia);
    match goal with |- context [(?a <=? held) && (held <=? ?b)] =>
      replace ((a <=? held) && (held <=? b)) with true by (symmetry; apply andb_true_iff; split; apply Z.leb_le; lia) end;
    reflexivity.
Qed.
