(* C07 — value_or with a fallback of another type: the code's conditional expression is the standard's sentence. *)
From Tetl Require Import Lib.Base C07.TypesVo C07.ModelVo C07.SpecVo C07.MutantsVo.
Local Open Scope Z_scope.
Ltac Zify.zify_post_hook ::= Z.to_euclidean_division_equations.

Lemma sty_eqb_refl : forall t, sty_eqb t t = true.
Proof. intros t. unfold sty_eqb. apply Nat.eqb_refl. Qed.

Lemma cond_type_same : forall t, cond_type t t = t.
Proof. intros t. unfold cond_type. rewrite sty_eqb_refl. reflexivity. Qed.

Lemma vo_conv_same : forall t v, vo_conv t t v = Ok v.
Proof. intros t v. unfold vo_conv. rewrite sty_eqb_refl. reflexivity. Qed.

(* the engaged branch never looks at the fallback: not at its type, not at its value *)
Theorem vo_engaged_returns_held : forall T U held fb, vo_value_or T U true held fb = Ok held.
Proof.
  intros T U held fb. unfold vo_value_or, vo_cond_return. rewrite cond_type_same.
  rewrite vo_conv_same. cbn [rbind]. apply vo_conv_same.
Qed.

Theorem vo_disengaged_converts : forall T U held fb, vo_value_or T U false held fb = vo_conv U T fb.
Proof.
  intros T U held fb. unfold vo_value_or, vo_cond_return. rewrite cond_type_same.
  destruct (vo_conv U T fb) as [v| | |] eqn:E; cbn [rbind]; try reflexivity.
  rewrite vo_conv_same. cbn [rbind]. apply vo_conv_same.
Qed.

Theorem vo_value_or_ok : forall T U engaged held fb,
  vo_value_or T U engaged held fb = svo_value_or T U (if engaged then Some held else None) fb.
Proof.
  intros T U [|] held fb; cbn [svo_value_or].
  - apply vo_engaged_returns_held.
  - apply vo_disengaged_converts.
Qed.

(* why the existing same-type families could not see the seed: with U = T the rewrite IS the code *)
Theorem vo_common_same_type : forall T engaged held fb, vo_value_or_common T T engaged held fb = vo_value_or T T engaged held fb.
Proof.
  intros T [|] held fb; unfold vo_value_or_common, vo_value_or, vo_cond_return; rewrite cond_type_same;
    rewrite ?vo_conv_same; cbn [rbind]; rewrite ?vo_conv_same; cbn [rbind]; reflexivity.
Qed.
