(* C07 — value_or with a fallback of ANOTHER type (fix-miss round 5).  The scalar universe of the `vor.*` families
   and the C++ language rules both the model and the spec delegate to: the types, which values they hold, what
   a conversion between two of them does to a value ([conv.integral], [conv.fpint], [conv.double], [conv.bool]),
   the usual arithmetic conversions ([expr.arith.conv]) and the type of a conditional expression ([expr.cond]).
   LP64, IEEE-754 binary32 / binary64, round to nearest even; validated against g++ by both C++ legs on every case.

   Values are integers.  A value of a FLOATING type is represented by twice its value (`halves`): every floating value
   the harness uses is a multiple of 1/2 of magnitude < 2^63, so neither subnormals nor overflow are in reach and
   rounding to p significant bits is the same function on the doubled integer.  No proofs here. *)
From Tetl Require Import Lib.Base.
Local Open Scope Z_scope.

Inductive sty := SBool | SChar | SShort | SInt | SUInt | SLong | SFloat | SDouble.

(* ids shared with the harness / driver: b c s i u l f d *)
Definition sty_id (t : sty) : nat :=
  match t with SBool => 0 | SChar => 1 | SShort => 2 | SInt => 3 | SUInt => 4 | SLong => 5 | SFloat => 6 | SDouble => 7 end%nat.
Definition sty_of_id (n : nat) : sty :=
  match n with 0 => SBool | 1 => SChar | 2 => SShort | 3 => SInt | 4 => SUInt | 5 => SLong | 6 => SFloat | _ => SDouble end%nat.
Definition sty_eqb (a b : sty) : bool := Nat.eqb (sty_id a) (sty_id b).

Definition vo_is_fp (t : sty) : bool := match t with SFloat | SDouble => true | _ => false end.
(* significand precision of a floating type *)
Definition mant (t : sty) : Z := match t with SFloat => 24 | _ => 53 end.
(* range of an integer type (bool: 0, 1; char is signed char) *)
Definition ilo (t : sty) : Z :=
  match t with SChar => -128 | SShort => -32768 | SInt => -2147483648 | SLong => -9223372036854775808 | _ => 0 end.
Definition ihi (t : sty) : Z :=
  match t with SBool => 1 | SChar => 127 | SShort => 32767 | SInt => 2147483647 | SUInt => 4294967295
             | SLong => 9223372036854775807 | _ => 0 end.

(* [conv.integral]: the unique value of the destination type congruent to the source modulo 2^N *)
Definition iwrap (t : sty) (v : Z) : Z := ilo t + (v - ilo t) mod (ihi t - ilo t + 1).

(* round to nearest, ties to even, to p significant bits *)
Definition round_to (p : Z) (z : Z) : Z :=
  let a := Z.abs z in
  if a <? 2 ^ p then z
  else
    let m := 2 ^ (Z.log2 a + 1 - p) in
    let q := a / m in
    let r := a mod m in
    let q' := if 2 * r <? m then q else if m <? 2 * r then q + 1 else if Z.even q then q else q + 1 in
    Z.sgn z * (q' * m).

(* the value is one the type holds *)
Definition is_val (t : sty) (v : Z) : Prop :=
  if vo_is_fp t then round_to (mant t) v = v else ilo t <= v <= ihi t.

(* a conversion that changes the type *)
Definition vo_conv_raw (a b : sty) (v : Z) : res Z :=
  match b with
  | SBool => Ok (if v =? 0 then 0 else 1)                                   (* [conv.bool] *)
  | _ =>
      if vo_is_fp b then Ok (round_to (mant b) (if vo_is_fp a then v else 2 * v))   (* [conv.double], [conv.fpint]/2 *)
      else if vo_is_fp a then                                                    (* [conv.fpint]/1: truncation; undefined if *)
        let q := Z.quot v 2 in                                                (* the truncated value cannot be represented *)
        if (ilo b <=? q) && (q <=? ihi b) then Ok q else UB SignedOverflow
      else Ok (iwrap b v)                                                     (* [conv.integral] *)
  end.

(* static_cast<b>(x) / implicit conversion of an x of type a: nothing happens when the types are the same *)
Definition vo_conv (a b : sty) (v : Z) : res Z := if sty_eqb a b then Ok v else vo_conv_raw a b v.

(* [conv.prom] and [expr.arith.conv] *)
Definition promote (t : sty) : sty := match t with SBool | SChar | SShort => SInt | _ => t end.
Definition has (x a b : sty) : bool := sty_eqb a x || sty_eqb b x.
Definition common (a b : sty) : sty :=
  if has SDouble a b then SDouble
  else if has SFloat a b then SFloat
  else
    let a' := promote a in
    let b' := promote b in
    if has SLong a' b' then SLong          (* long holds every unsigned int: the signed type wins *)
    else if has SUInt a' b' then SUInt     (* same rank: the unsigned type wins *)
    else SInt.

(* [expr.cond]/7: operands of the same type give that type (no promotion), two different arithmetic types their common type *)
Definition cond_type (a b : sty) : sty := if sty_eqb a b then a else common a b.
