(* C07 — the alternative selection (a one-pass minimum search) implements the declarative
   rule of overload resolution: the selected alternative is the unique viable candidate that
   is strictly better than every other viable candidate; if there is none, nothing is selected. *)
From Tetl Require Import Lib.Base C07.Types C07.Model C07.VariantProofs.
Local Open Scope nat_scope.
Ltac Zify.zify_post_hook ::= Z.to_euclidean_division_equations.

(* alternative j is a candidate F(T_j) for a source of type src, with conversion rank rk:
   an implicit conversion exists and T_j x[] = {src} is not narrowing *)
Definition viable (alts : list ty) (src : ty) (j rk : nat) : Prop :=
  exists t, nth_error alts j = Some t /\ ics src t = Some rk /\ narrowing src t = false.

Lemma cands_inv : forall src alts j0 j rk, In (j, rk) (cands src alts j0) ->
  exists i, j = j0 + i /\ viable alts src i rk.
Proof.
  intros src alts. induction alts as [|a r IH]; intros j0 j rk Hin; cbn [cands] in Hin.
  - contradiction.
  - assert (Hrest : In (j, rk) (cands src r (S j0)) -> exists i, j = j0 + i /\ viable (a :: r) src i rk).
    { intro H. destruct (IH _ _ _ H) as [i [Hj [t [Hn [Hi Hnar]]]]].
      exists (S i). split; [lia|]. exists t. cbn [nth_error]. auto. }
    destruct (ics src a) as [rk'|] eqn:Ei; [|auto].
    destruct (narrowing src a) eqn:En; [auto|].
    destruct Hin as [Heq|Hin]; [|auto].
    inversion Heq; subst. exists 0. split; [lia|]. exists a. cbn [nth_error]. auto.
Qed.

Lemma cands_iff : forall src alts j rk, In (j, rk) (cands src alts 0) <-> viable alts src j rk.
Proof.
  intros src alts j rk. split.
  - intro H. destruct (cands_inv _ _ _ _ _ H) as [i [Hj Hv]]. cbn in Hj. subst i. exact Hv.
  - intros [t [Hn [Hi Hnar]]]. change j with (0 + j). eapply cands_In; eassumption.
Qed.

Lemma viable_fun : forall alts src j rk rk', viable alts src j rk -> viable alts src j rk' -> rk = rk'.
Proof.
  intros alts src j rk rk' [t [Hn [Hi _]]] [t' [Hn' [Hi' _]]]. congruence.
Qed.

Lemma cands_NoDup : forall src alts j0, NoDup (cands src alts j0).
Proof.
  intros src alts. induction alts as [|a r IH]; intro j0; cbn [cands]; [constructor|].
  destruct (ics src a) as [rk|]; [|apply IH].
  destruct (narrowing src a); [apply IH|].
  constructor; [|apply IH].
  intro Hin. apply cands_bound in Hin. lia.
Qed.

Lemma ics_le : forall src t rk, ics src t = Some rk -> rk <= 9.
Proof.
  intros src t rk H. unfold ics in H.
  destruct (ty_eqb src t); [inversion H; lia|].
  destruct (is_arith src && is_arith t); [destruct (promotion src t); inversion H; lia|].
  destruct t; try discriminate; try (destruct (is_arith src)); try (destruct src); try discriminate; inversion H; lia.
Qed.

Lemma min_attained : forall c, c <> [] -> (forall j rk, In (j, rk) c -> rk <= 9) ->
  exists j, In (j, min_rank c) c.
Proof.
  induction c as [|[j rk] c IH]; intros Hne Hle; [contradiction|].
  unfold min_rank in *. cbn [fold_right snd].
  destruct c as [|q c'].
  - cbn [fold_right]. exists j. left. f_equal. specialize (Hle j rk (or_introl eq_refl)). lia.
  - destruct IH as [j' Hj']; [discriminate|intros; eapply Hle; right; eassumption|].
    destruct (Nat.le_gt_cases rk (fold_right (fun p m => Nat.min (snd p) m) 9 (q :: c'))) as [Hl|Hg].
    + exists j. left. f_equal. lia.
    + exists j'. right. replace (Nat.min rk _) with (fold_right (fun p m => Nat.min (snd p) m) 9 (q :: c')) by lia.
      exact Hj'.
Qed.

Lemma singleton_list : forall (A : Type) (l : list A) (a : A),
  NoDup l -> In a l -> (forall x, In x l -> x = a) -> l = [a].
Proof.
  intros A l a Hnd Hin Hall. destruct l as [|x l]; [contradiction|].
  assert (x = a) by (apply Hall; left; reflexivity). subst x.
  destruct l as [|y l]; [reflexivity|].
  assert (y = a) by (apply Hall; right; left; reflexivity). subst y.
  inversion Hnd as [|? ? Hnot _]; subst. exfalso. apply Hnot. left. reflexivity.
Qed.

Theorem select_spec : forall alts src j,
  select alts src = Some j <->
  exists rk, viable alts src j rk /\ forall k rk', k <> j -> viable alts src k rk' -> rk < rk'.
Proof.
  intros alts src j. unfold select.
  set (c := cands src alts 0). set (m := min_rank c).
  assert (Hle9 : forall j rk, In (j, rk) c -> rk <= 9).
  { intros j' rk' H. apply cands_iff in H. destruct H as [t [_ [Hi _]]]. eapply ics_le; eassumption. }
  split.
  - intro H.
    destruct (filter (fun p => Nat.eqb (snd p) m) c) as [|[j' rk] [|q l]] eqn:E; try discriminate.
    inversion H; subst j'. clear H.
    assert (Hin : In (j, rk) (filter (fun p => Nat.eqb (snd p) m) c)) by (rewrite E; left; reflexivity).
    apply filter_In in Hin. destruct Hin as [Hin Hm]. cbn [snd] in Hm. apply Nat.eqb_eq in Hm. subst rk.
    exists m. split; [apply cands_iff; exact Hin|].
    intros k rk' Hk Hv. apply cands_iff in Hv. fold c in Hv.
    pose proof (min_rank_le c k rk' Hv) as Hmin. fold m in Hmin.
    destruct (Nat.eq_dec rk' m) as [Heq|Hneq]; [|lia].
    exfalso. subst rk'.
    assert (Hf : In (k, m) (filter (fun p => Nat.eqb (snd p) m) c))
      by (apply filter_In; split; [exact Hv|cbn [snd]; apply Nat.eqb_refl]).
    rewrite E in Hf. destruct Hf as [Heq|[]]. inversion Heq. congruence.
  - intros [rk [Hv Hbest]].
    assert (Hin : In (j, rk) c) by (apply cands_iff; exact Hv).
    assert (Hm : m = rk).
    { destruct (min_attained c) as [k Hk]; [intro Hc; rewrite Hc in Hin; contradiction|exact Hle9|].
      fold m in Hk. destruct (Nat.eq_dec k j) as [Hkj|Hkj].
      - subst k. apply cands_iff in Hk. eapply viable_fun; eassumption.
      - apply cands_iff in Hk. specialize (Hbest k m Hkj Hk).
        pose proof (min_rank_le c j rk Hin) as Hmin. fold m in Hmin. lia. }
    assert (Hs : filter (fun p => Nat.eqb (snd p) m) c = [(j, rk)]).
    { apply singleton_list.
      - apply NoDup_filter. apply cands_NoDup.
      - apply filter_In. split; [exact Hin|]. cbn [snd]. rewrite Hm. apply Nat.eqb_refl.
      - intros [k rk'] Hk. apply filter_In in Hk. destruct Hk as [Hk Hkm]. cbn [snd] in Hkm.
        apply Nat.eqb_eq in Hkm. subst rk'. rewrite Hm in *.
        destruct (Nat.eq_dec k j) as [Hkj|Hkj]; [subst k; reflexivity|].
        apply cands_iff in Hk. specialize (Hbest k rk Hkj Hk). lia. }
    rewrite Hs. reflexivity.
Qed.
