(* C07 — value_or of optional / expected with a fallback argument of ANOTHER arithmetic type.  Property theorems only.
   T, U range over bool, signed char, short, int, unsigned, long (long long), float, double (TypesVo.sty); a floating
   value is represented by twice its value.  For every T, U, every held value and every fallback the code's
   `return has_value() ? **this : static_cast<T>(forward<U>(fallback));` - a conditional expression whose type the
   language derives from its operand types, evaluated in a function returning T (ModelVo) - is the standard's
   sentence (SpecVo): an engaged object returns the held value unchanged for EVERY fallback type, a disengaged one the
   fallback converted to T. *)
From Tetl Require Import Lib.Base C07.TypesVo C07.ModelVo C07.SpecVo C07.MutantsVo C07.ProofsVo.
Local Open Scope Z_scope.

Theorem C07_vo_value_or_spec : forall T U engaged held fb,
  vo_value_or T U engaged held fb = svo_value_or T U (if engaged then Some held else None) fb.
Proof. exact vo_value_or_ok. Qed.
Print Assumptions C07_vo_value_or_spec.

Theorem C07_vo_engaged_returns_held_for_every_fallback_type : forall T U held fb, vo_value_or T U true held fb = Ok held.
Proof. exact vo_engaged_returns_held. Qed.
Print Assumptions C07_vo_engaged_returns_held_for_every_fallback_type.

Theorem C07_vo_disengaged_converts_fallback : forall T U held fb, vo_value_or T U false held fb = vo_conv U T fb.
Proof. exact vo_disengaged_converts. Qed.
Print Assumptions C07_vo_disengaged_converts_fallback.

(* seed C07-i1 (static_cast dropped: conditional expression in the common type of T and U), refuted: 2^24+1 through
   float, 2^53+1 through double, INT_MAX through float (undefined) - while the disengaged path is untouched *)
Theorem C07_vo_common_type_rewrite_refuted :
  vo_value_or_common SInt SFloat true 16777217 0 = Ok 16777216 /\ vo_value_or SInt SFloat true 16777217 0 = Ok 16777217.
Proof. exact common_refuted_int_float. Qed.
Print Assumptions C07_vo_common_type_rewrite_refuted.

Theorem C07_vo_common_type_rewrite_refuted_long_double :
  vo_value_or_common SLong SDouble true 9007199254740993 2 = Ok 9007199254740992
  /\ vo_value_or SLong SDouble true 9007199254740993 2 = Ok 9007199254740993.
Proof. exact common_refuted_long_double. Qed.
Print Assumptions C07_vo_common_type_rewrite_refuted_long_double.

Theorem C07_vo_common_type_rewrite_undefined :
  vo_value_or_common SInt SFloat true 2147483647 0 = UB SignedOverflow /\ vo_value_or SInt SFloat true 2147483647 0 = Ok 2147483647.
Proof. exact common_refuted_ub. Qed.
Print Assumptions C07_vo_common_type_rewrite_undefined.

(* ... and invisible to every family whose fallback has the type T (all families before this round) *)
Theorem C07_vo_common_type_rewrite_invisible_on_same_type : forall T engaged held fb,
  vo_value_or_common T T engaged held fb = vo_value_or T T engaged held fb.
Proof. exact vo_common_same_type. Qed.
Print Assumptions C07_vo_common_type_rewrite_invisible_on_same_type.

(* ... to every integer fallback type (the round trip through the common integer type is lossless), and to a floating
   fallback type as long as the held value fits its significand (|held| < 2^23 for float, 2^52 for double): the
   seed shows ONLY on a floating fallback with a held integer beyond that *)
Theorem C07_vo_common_type_rewrite_invisible_on_integer_fallback : forall T U held fb,
  vo_is_fp T = false -> vo_is_fp U = false -> ilo T <= held <= ihi T ->
  vo_value_or_common T U true held fb = Ok held.
Proof. exact vo_common_integer_invisible. Qed.
Print Assumptions C07_vo_common_type_rewrite_invisible_on_integer_fallback.

Theorem C07_vo_common_type_rewrite_invisible_on_short_values : forall T U held fb,
  vo_is_fp T = false -> vo_is_fp U = true -> ilo T <= held <= ihi T -> Z.abs (2 * held) < 2 ^ mant U ->
  vo_value_or_common T U true held fb = Ok held.
Proof. exact vo_common_small_invisible. Qed.
Print Assumptions C07_vo_common_type_rewrite_invisible_on_short_values.

Theorem C07_vo_round_trip_through_fallback_type_refuted :
  vo_value_or_in_U SInt SShort true 70000 0 = Ok 4464 /\ vo_value_or SInt SShort true 70000 0 = Ok 70000
  /\ vo_value_or_in_U SDouble SInt true 5 0 = Ok 4 /\ vo_value_or SDouble SInt true 5 0 = Ok 5.
Proof. exact in_U_refuted. Qed.
Print Assumptions C07_vo_round_trip_through_fallback_type_refuted.

Theorem C07_vo_fallback_through_int_refuted :
  vo_value_or_via_int SLong SLong false 0 1099511627777 = Ok 1 /\ vo_value_or SLong SLong false 0 1099511627777 = Ok 1099511627777.
Proof. exact via_int_refuted. Qed.
Print Assumptions C07_vo_fallback_through_int_refuted.

(** non-vacuity: engaged and disengaged, integer and floating, narrowing and widening, a tie rounded to even *)
Example C07_vo_nonvacuous :
  vo_value_or SInt SFloat true 16777217 85 = Ok 16777217 /\ vo_value_or SInt SFloat false 0 85 = Ok 42
  /\ vo_value_or SInt SFloat false 0 (-85) = Ok (-42) /\ vo_value_or SShort SInt false 0 70000 = Ok 4464
  /\ vo_value_or SFloat SInt false 0 16777217 = Ok 33554432 /\ vo_value_or SFloat SInt false 0 16777219 = Ok 33554440
  /\ vo_value_or SDouble SLong false 0 9007199254740993 = Ok 18014398509481984
  /\ vo_value_or SBool SDouble false 0 1 = Ok 1 /\ vo_value_or SUInt SChar false 0 (-1) = Ok 4294967295
  /\ vo_value_or SInt SDouble false 0 8589934592 = UB SignedOverflow.
Proof. vm_compute. repeat split; reflexivity. Qed.
