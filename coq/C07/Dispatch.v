(* C07 — the visit_with_index dispatcher reaches exactly the tuple of active indices,
   for any number of variants and any numbers of alternatives. *)
From Tetl Require Import Lib.Base C07.Types C07.Model.
Local Open Scope nat_scope.
Ltac Zify.zify_post_hook ::= Z.to_euclidean_division_equations.

(* position of an index tuple in the enumeration order of next_seq (first index fastest) *)
Fixpoint rank (cur sizes : list nat) : nat :=
  match cur, sizes with
  | i :: c, m :: s => i + m * rank c s
  | _, _ => 0
  end.

Definition is_last (cur sizes : list nat) : Prop := Forall2 (fun i m => S i = m) cur sizes.

Lemma list_eqb_eq : forall a b, list_eqb a b = true <-> a = b.
Proof.
  induction a as [|x a IH]; intros [|y b]; cbn [list_eqb]; split; intro H; try reflexivity; try discriminate.
  - apply andb_true_iff in H. destruct H as [Hx Hr]. apply Nat.eqb_eq in Hx. apply IH in Hr. congruence.
  - inversion H; subst. rewrite Nat.eqb_refl. cbn. apply IH. reflexivity.
Qed.

Lemma next_sum0 : forall cur sizes, Forall2 lt cur sizes ->
  (sum_seq (next_seq cur sizes) = 0 <-> is_last cur sizes).
Proof.
  intros cur sizes H. induction H as [|i m c s Him Hcs IH]; cbn [next_seq].
  - cbn. split; intro; [constructor | reflexivity].
  - destruct (Nat.eqb (S i) m) eqn:E.
    + apply Nat.eqb_eq in E. cbn [sum_seq fold_right]. change (fold_right Nat.add 0 (next_seq c s)) with (sum_seq (next_seq c s)).
      rewrite Nat.add_0_l, IH. split; intro H.
      * constructor; assumption.
      * inversion H; assumption.
    + apply Nat.eqb_neq in E. cbn [sum_seq fold_right]. split; intro H.
      * lia.
      * inversion H; subst. contradiction.
Qed.

Lemma next_rank : forall cur sizes, Forall2 lt cur sizes -> ~ is_last cur sizes ->
  Forall2 lt (next_seq cur sizes) sizes /\ rank (next_seq cur sizes) sizes = S (rank cur sizes).
Proof.
  intros cur sizes H. induction H as [|i m c s Him Hcs IH]; intro Hnl; cbn [next_seq].
  - exfalso. apply Hnl. constructor.
  - destruct (Nat.eqb (S i) m) eqn:E.
    + apply Nat.eqb_eq in E.
      assert (Hnl' : ~ is_last c s) by (intro Hl; apply Hnl; constructor; assumption).
      destruct (IH Hnl') as [Hwf Hr]. split.
      * constructor; [lia | assumption].
      * cbn [rank]. rewrite Hr. lia.
    + apply Nat.eqb_neq in E. split.
      * constructor; [lia | assumption].
      * cbn [rank]. lia.
Qed.

Lemma rank_inj : forall sizes a b, Forall2 lt a sizes -> Forall2 lt b sizes ->
  rank a sizes = rank b sizes -> a = b.
Proof.
  induction sizes as [|m s IH]; intros a b Ha Hb Hr.
  - inversion Ha; inversion Hb; reflexivity.
  - inversion Ha as [|i m' a' s' Hi Ha']; subst. inversion Hb as [|j m' b' s' Hj Hb']; subst.
    cbn [rank] in Hr.
    assert (Hrr : rank a' s = rank b' s).
    { destruct (Nat.lt_trichotomy (rank a' s) (rank b' s)) as [Hlt|[Heq|Hgt]]; [exfalso|assumption|exfalso].
      - assert (m * S (rank a' s) <= m * rank b' s) by (apply Nat.mul_le_mono_l; lia). lia.
      - assert (m * S (rank b' s) <= m * rank a' s) by (apply Nat.mul_le_mono_l; lia). lia. }
    rewrite Hrr in Hr. assert (i = j) by lia. subst j. f_equal. apply IH; assumption.
Qed.

Lemma rank_last_max : forall sizes a b, is_last a sizes -> Forall2 lt b sizes ->
  rank b sizes <= rank a sizes.
Proof.
  induction sizes as [|m s IH]; intros a b Ha Hb.
  - inversion Hb; subst. cbn. lia.
  - inversion Ha as [|i m' a' s' Hi Ha']; subst. inversion Hb as [|j m' b' s' Hj Hb']; subst.
    cbn [rank]. specialize (IH a' b' Ha' Hb').
    assert (S i * rank b' s <= S i * rank a' s) by (apply Nat.mul_le_mono_l; assumption). lia.
Qed.

Lemma rank_lt_prod : forall sizes a, Forall2 lt a sizes -> rank a sizes < prod_seq sizes.
Proof.
  induction sizes as [|m s IH]; intros a Ha.
  - inversion Ha; subst. cbn. lia.
  - inversion Ha as [|i m' a' s' Hi Ha']; subst. cbn [rank prod_seq fold_right].
    change (fold_right Nat.mul 1 s) with (prod_seq s). specialize (IH a' Ha').
    assert (m * S (rank a' s) <= m * prod_seq s) by (apply Nat.mul_le_mono_l; lia). lia.
Qed.

Lemma zeros_wf : forall sizes a, Forall2 lt a sizes -> Forall2 lt (zeros sizes) sizes.
Proof.
  intros sizes a H. induction H as [|i m c s Him Hcs IH]; cbn [zeros map].
  - constructor.
  - constructor; [lia | exact IH].
Qed.

Lemma rank_zeros : forall sizes, rank (zeros sizes) sizes = 0.
Proof.
  induction sizes as [|m s IH]; cbn [zeros map rank]; [reflexivity|].
  change (map (fun _ : nat => 0) s) with (zeros s). rewrite IH. lia.
Qed.

Lemma dispatch_from_exact : forall sizes active, Forall2 lt active sizes ->
  forall fuel cur, Forall2 lt cur sizes -> rank cur sizes <= rank active sizes ->
  rank active sizes - rank cur sizes < fuel ->
  dispatch_from fuel cur sizes active = Some active.
Proof.
  intros sizes active Hact. induction fuel as [|k IH]; intros cur Hcur Hle Hfuel.
  - lia.
  - cbn [dispatch_from].
    destruct (Nat.eqb (sum_seq (next_seq cur sizes)) 0) eqn:Es.
    + apply Nat.eqb_eq in Es. apply next_sum0 in Es; [|assumption].
      pose proof (rank_last_max sizes cur active Es Hact) as Hmax.
      assert (Heq : cur = active) by (apply (rank_inj sizes); [assumption|assumption|lia]).
      rewrite Heq. reflexivity.
    + destruct (list_eqb active cur) eqn:El.
      * apply list_eqb_eq in El. rewrite El. reflexivity.
      * assert (Hnl : ~ is_last cur sizes).
        { intro Hl. apply next_sum0 in Hl; [|assumption]. rewrite Hl in Es. discriminate. }
        destruct (next_rank cur sizes Hcur Hnl) as [Hwf Hr].
        assert (Hne : rank cur sizes <> rank active sizes).
        { intro Heq. apply (rank_inj sizes) in Heq; [|assumption|assumption].
          subst cur. assert (Ht : list_eqb active active = true) by (apply list_eqb_eq; reflexivity).
          rewrite Ht in El. discriminate. }
        apply IH; [assumption|lia|lia].
Qed.

Lemma all_one_zeros : forall sizes active, Forall2 lt active sizes ->
  forallb (Nat.eqb 1) sizes = true -> zeros sizes = active.
Proof.
  intros sizes active H. induction H as [|i m c s Him Hcs IH]; cbn [forallb zeros map]; intro Hall.
  - reflexivity.
  - apply andb_true_iff in Hall. destruct Hall as [H1 Hr]. apply Nat.eqb_eq in H1. subst m.
    assert (i = 0) by lia. subst i. f_equal. apply IH. exact Hr.
Qed.

(* The dispatcher hands the visitor exactly the active index of every variant — whatever
   the number of variants and whatever their numbers of alternatives. *)
Theorem dispatch_exact : forall sizes active, Forall2 lt active sizes ->
  dispatch sizes active = Some active.
Proof.
  intros sizes active H. unfold dispatch.
  destruct (forallb (Nat.eqb 1) sizes) eqn:E.
  - f_equal. apply all_one_zeros; assumption.
  - apply dispatch_from_exact.
    + assumption.
    + apply (zeros_wf sizes active). assumption.
    + rewrite rank_zeros. lia.
    + rewrite rank_zeros. pose proof (rank_lt_prod sizes active H). lia.
Qed.

(* the counter visits every tuple once: it needs exactly rank(active)+1 instantiations *)
Lemma dispatch_from_fuel_tight : forall sizes active, Forall2 lt active sizes ->
  dispatch_from (S (rank active sizes)) (zeros sizes) sizes active = Some active.
Proof.
  intros sizes active H. apply dispatch_from_exact.
  - assumption.
  - apply (zeros_wf sizes active). assumption.
  - rewrite rank_zeros. lia.
  - rewrite rank_zeros. lia.
Qed.

(** visit_vals: the visitor receives (active index, contained value) of every variant, and
    no unchecked_get precondition fires *)
Lemma uget_all_ok : forall vs, uget_all vs (map idx vs) = Ok (map (fun s => (idx s, val s)) vs).
Proof.
  induction vs as [|s vs IH]; cbn [uget_all map]; [reflexivity|].
  unfold uget. rewrite Nat.eqb_refl. cbn [rbind]. rewrite IH. reflexivity.
Qed.

Theorem visit_vals_ok : forall sizes vs, Forall2 (fun s n => idx s < n) vs sizes ->
  visit_vals sizes vs = Ok (map (fun s => (idx s, val s)) vs).
Proof.
  intros sizes vs H. unfold visit_vals.
  assert (Hl : Forall2 lt (map idx vs) sizes).
  { induction H as [|s n vs' sz Hs Hr IH]; cbn [map]; constructor; assumption. }
  rewrite (dispatch_exact _ _ Hl). apply uget_all_ok.
Qed.
