(* C07 — executable models of plausible rewrites of the concepts that select variant's defaulted special members,
   each refuted against SpecSm by a kernel-checked witness (and, for contrast, agreeing with the real code on the
   alternatives Model.v knows: trivial in everything, or user-provided in everything). *)
From Tetl Require Import Lib.Base C07.ModelSm C07.SpecSm C07.ProofsSm.
Local Open Scope Z_scope.

(* variant_trivially_move_assignable = is_trivially_DESTRUCTIBLE and is_trivially_move_assignable *)
Definition c_triv_ma_dt (f : smf) : bool := t_dt f && t_ma f.
Definition assign_move_dt (alts : list smf) (lhs rhs : obj) : obj * obj * list ev :=
  if forallb c_triv_ma_dt alts then (rhs, rhs, [])
  else let f := sm_alt alts (oi rhs) in
       if Nat.eqb (oi lhs) (oi rhs)
       then (sm_mk (oi lhs) (ov rhs), sm_mk (oi rhs) (ma_src f (ov rhs)), e_ma f (ov lhs) (ov rhs))
       else (sm_mk (oi rhs) (ov rhs), sm_mk (oi rhs) (mc_src f (ov rhs)), m_destroy alts lhs ++ e_mc f (ov rhs)).

(* variant<int, Sm<2>> (user-provided move constructor only), a holds the int 7, b holds Sm(5): a = move(b) *)
Lemma assign_move_dt_refuted :
  let alts := [f_plain; f_of_bits 2] in let a := sm_mk 0 7 in let b := sm_mk 1 5 in
  assign_move_dt alts a b = (b, b, [])
  /\ m_assign_move alts a b = (b, sm_mk 1 SM_MOVED, [EvMC 5])
  /\ s_assign_move alts a b = (b, sm_mk 1 SM_MOVED, [EvMC 5]).
Proof. vm_compute. repeat split. Qed.

(* on alternatives that are trivial in everything or user-provided in everything the rewrite is invisible *)
Definition uniform (f : smf) : bool :=
  (negb (u_cc f) && negb (u_mc f) && negb (u_ca f) && negb (u_ma f) && negb (u_dt f))
  || (u_cc f && u_mc f && u_ca f && u_ma f && u_dt f).

Lemma assign_move_dt_uniform : forall alts lhs rhs, forallb uniform alts = true ->
  assign_move_dt alts lhs rhs = m_assign_move alts lhs rhs.
Proof.
  intros alts lhs rhs H. unfold assign_move_dt, m_assign_move.
  assert (E : forallb c_triv_ma_dt alts = forallb c_triv_ma alts).
  { induction alts as [|f r IH]; [reflexivity|]. cbn [forallb] in *. apply andb_true_iff in H. destruct H as [Hf Hr].
    rewrite IH by exact Hr. f_equal. unfold c_triv_ma_dt, c_triv_ma, t_dt, t_ma, t_mc, uniform in *.
    destruct (u_cc f), (u_mc f), (u_ca f), (u_ma f), (u_dt f); try reflexivity; discriminate Hf. }
  rewrite E. reflexivity.
Qed.

(* the copy twin: variant_trivially_copy_assignable without the copy-constructor conjunct *)
Definition c_triv_ca_only (f : smf) : bool := t_ca f.
Definition assign_copy_only (alts : list smf) (lhs rhs : obj) : obj * list ev :=
  if forallb c_triv_ca_only alts then (rhs, [])
  else let f := sm_alt alts (oi rhs) in
       if Nat.eqb (oi lhs) (oi rhs) then (sm_mk (oi lhs) (ov rhs), e_ca f (ov lhs) (ov rhs))
       else (sm_mk (oi rhs) (ov rhs), m_destroy alts lhs ++ e_cc f (ov rhs)).

(* optional<Sm<16>> (user-provided destructor only), engaged <- empty: the contained value must be destroyed *)
Lemma assign_copy_only_refuted :
  let alts := sm_oalts (f_of_bits 16) in let a := sm_mk 1 5 in let b := sm_mk 0 0 in
  assign_copy_only alts a b = (b, [])
  /\ m_assign_copy alts a b = (b, [EvD 5])
  /\ so_assign_copy (f_of_bits 16) (abs_o a) (abs_o b) = (None, [EvD 5]).
Proof. vm_compute. repeat split. Qed.

(* ~variant() defaulted when SOME alternative is trivially destructible *)
Definition dtor_some (alts : list smf) (s : obj) : list ev :=
  if existsb t_dt alts then [] else m_destroy alts s.
Lemma dtor_some_refuted :
  let alts := [f_plain; f_of_bits 16] in dtor_some alts (sm_mk 1 5) = [] /\ m_dtor alts (sm_mk 1 5) = [EvD 5] /\ s_dtor alts (sm_mk 1 5) = [EvD 5].
Proof. vm_compute. repeat split. Qed.
