(* C07 — rewrites of value_or that look equivalent and are not (each was exit 0 for `./check C07` before the
   `vor.*` families existed): executable models + kernel-checked witnesses. *)
From Tetl Require Import Lib.Base C07.TypesVo C07.ModelVo C07.SpecVo.
Local Open Scope Z_scope.

(* seed C07-i1: `return has_value() ? **this : forward<U>(fallback);` - the conditional expression has the COMMON type
   of T and U and the held value takes the round trip T -> common -> T *)
Definition vo_value_or_common (T U : sty) (engaged : bool) (held fb : Z) : res Z :=
  vo_cond_return T T U engaged held (Ok fb).

(* `return static_cast<T>(has_value() ? U(held value) : fallback);` - the round trip goes through U itself *)
Definition vo_value_or_in_U (T U : sty) (engaged : bool) (held fb : Z) : res Z :=
  rbind (if engaged then vo_conv T U held else Ok fb) (vo_conv U T).

(* `static_cast<T>(static_cast<int>(fallback))`: the fallback squeezed through int on the disengaged path *)
Definition vo_value_or_via_int (T U : sty) (engaged : bool) (held fb : Z) : res Z :=
  if engaged then Ok held else rbind (vo_conv U SInt fb) (vo_conv SInt T).

Lemma common_refuted_int_float :
  vo_value_or_common SInt SFloat true 16777217 0 = Ok 16777216 /\ vo_value_or SInt SFloat true 16777217 0 = Ok 16777217.
Proof. vm_compute. split; reflexivity. Qed.

Lemma common_refuted_long_double :
  vo_value_or_common SLong SDouble true 9007199254740993 2 = Ok 9007199254740992
  /\ vo_value_or SLong SDouble true 9007199254740993 2 = Ok 9007199254740993.
Proof. vm_compute. split; reflexivity. Qed.

(* ... and it leaves the domain of defined behaviour: INT_MAX as a float is 2^31 *)
Lemma common_refuted_ub :
  vo_value_or_common SInt SFloat true 2147483647 0 = UB SignedOverflow /\ vo_value_or SInt SFloat true 2147483647 0 = Ok 2147483647.
Proof. vm_compute. split; reflexivity. Qed.

(* the disengaged path of that rewrite is the real one: float 42.5 -> int 42 *)
Lemma common_disengaged_same : vo_value_or_common SInt SFloat false 0 85 = Ok 42 /\ vo_value_or SInt SFloat false 0 85 = Ok 42.
Proof. vm_compute. split; reflexivity. Qed.

Lemma in_U_refuted :
  vo_value_or_in_U SInt SShort true 70000 0 = Ok 4464 /\ vo_value_or SInt SShort true 70000 0 = Ok 70000
  /\ vo_value_or_in_U SDouble SInt true 5 0 = Ok 4 /\ vo_value_or SDouble SInt true 5 0 = Ok 5.
Proof. vm_compute. repeat split; reflexivity. Qed.

Lemma via_int_refuted :
  vo_value_or_via_int SLong SLong false 0 1099511627777 = Ok 1 /\ vo_value_or SLong SLong false 0 1099511627777 = Ok 1099511627777.
Proof. vm_compute. split; reflexivity. Qed.
