(* C07 — the special members the code takes (ModelSm) do what the standard prescribes (SpecSm), for every list of
   alternatives, every combination of trivial / user-provided special members of every alternative, every state *)
From Tetl Require Import Lib.Base C07.ModelSm C07.SpecSm.
Local Open Scope Z_scope.

Lemma forallb_alt : forall (p : smf -> bool) alts i,
  p f_plain = true -> forallb p alts = true -> p (sm_alt alts i) = true.
Proof.
  intros p alts i Hp H. unfold sm_alt. revert i. induction alts as [|a r IH]; intro i.
  - destruct i; exact Hp.
  - cbn [forallb] in H. apply andb_true_iff in H. destruct H as [Ha Hr].
    destruct i as [|i]; [exact Ha|]. cbn [nth]. apply IH. exact Hr.
Qed.

Lemma forallb_pointwise : forall (p q : smf -> bool) alts,
  (forall f, p f = q f) -> forallb p alts = forallb q alts.
Proof.
  intros p q alts H. induction alts as [|a r IH]; [reflexivity|]. cbn [forallb]. rewrite H, IH. reflexivity.
Qed.

Lemma mk_eta : forall s, sm_mk (oi s) (ov s) = s.
Proof. intros [i v]. reflexivity. Qed.

Lemma t_cc_inv : forall f, t_cc f = true -> u_cc f = false /\ u_dt f = false.
Proof. intros f H. unfold t_cc in H. apply andb_true_iff in H. destruct H as [A B]. apply negb_true_iff in A, B. auto. Qed.
Lemma t_mc_inv : forall f, t_mc f = true -> u_mc f = false /\ u_dt f = false.
Proof. intros f H. unfold t_mc in H. apply andb_true_iff in H. destruct H as [A B]. apply negb_true_iff in A, B. auto. Qed.

Lemma destroy_ok : forall alts s, m_destroy alts s = e_dt (sm_alt alts (oi s)) (ov s).
Proof. reflexivity. Qed.

Lemma emplace_sm_ok : forall alts s i v, m_emplace alts s i v = s_emplace alts s i v.
Proof. reflexivity. Qed.

Lemma copy_ctor_sm_ok : forall alts src, m_copy_ctor alts src = s_copy_ctor alts src.
Proof.
  intros alts src. unfold m_copy_ctor, s_copy_ctor. destruct (forallb c_triv_cc alts) eqn:E; [|reflexivity].
  pose proof (forallb_alt c_triv_cc alts (oi src) eq_refl E) as H. apply t_cc_inv in H. destruct H as [Hc _].
  unfold e_cc. rewrite Hc, mk_eta. reflexivity.
Qed.

Lemma move_ctor_sm_ok : forall alts src, m_move_ctor alts src = s_move_ctor alts src.
Proof.
  intros alts src. unfold m_move_ctor, s_move_ctor. destruct (forallb c_triv_mc alts) eqn:E; [|reflexivity].
  pose proof (forallb_alt c_triv_mc alts (oi src) eq_refl E) as H. apply t_mc_inv in H. destruct H as [Hc _].
  unfold e_mc, mc_src. rewrite Hc, mk_eta. reflexivity.
Qed.

Lemma assign_copy_sm_ok : forall alts lhs rhs, m_assign_copy alts lhs rhs = s_assign_copy alts lhs rhs.
Proof.
  intros alts lhs rhs. unfold m_assign_copy, s_assign_copy. rewrite destroy_ok.
  destruct (forallb c_triv_ca alts) eqn:E; [|reflexivity].
  pose proof (forallb_alt c_triv_ca alts (oi rhs) eq_refl E) as Hr.
  pose proof (forallb_alt c_triv_ca alts (oi lhs) eq_refl E) as Hl.
  unfold c_triv_ca, c_triv_cc in Hr, Hl. apply andb_true_iff in Hr, Hl. destruct Hr as [Hr1 Hr2], Hl as [Hl1 _].
  apply t_cc_inv in Hr1, Hl1. destruct Hr1 as [Hcc _], Hl1 as [_ Hdt]. unfold t_ca in Hr2. apply negb_true_iff in Hr2.
  unfold e_ca, e_cc, e_dt. rewrite Hr2, Hcc, Hdt. cbn [app].
  destruct (Nat.eqb (oi lhs) (oi rhs)) eqn:Ei.
  - apply Nat.eqb_eq in Ei. rewrite Ei, mk_eta. reflexivity.
  - rewrite mk_eta. reflexivity.
Qed.

Lemma assign_move_sm_ok : forall alts lhs rhs, m_assign_move alts lhs rhs = s_assign_move alts lhs rhs.
Proof.
  intros alts lhs rhs. unfold m_assign_move, s_assign_move. rewrite destroy_ok.
  destruct (forallb c_triv_ma alts) eqn:E; [|reflexivity].
  pose proof (forallb_alt c_triv_ma alts (oi rhs) eq_refl E) as Hr.
  pose proof (forallb_alt c_triv_ma alts (oi lhs) eq_refl E) as Hl.
  unfold c_triv_ma in Hr, Hl. apply andb_true_iff in Hr, Hl. destruct Hr as [Hr1 Hr2], Hl as [Hl1 _].
  apply t_mc_inv in Hr1, Hl1. destruct Hr1 as [Hmc _], Hl1 as [_ Hdt]. unfold t_ma in Hr2. apply negb_true_iff in Hr2.
  unfold e_ma, e_mc, e_dt, ma_src, mc_src. rewrite Hr2, Hmc, Hdt. cbn [app].
  destruct (Nat.eqb (oi lhs) (oi rhs)) eqn:Ei.
  - apply Nat.eqb_eq in Ei. rewrite Ei, !mk_eta. reflexivity.
  - rewrite !mk_eta. reflexivity.
Qed.

Lemma self_move_sm_ok : forall alts s, m_self_move alts s = s_self_move alts s.
Proof.
  intros alts s. unfold m_self_move, s_self_move. destruct (forallb c_triv_ma alts) eqn:E; [|reflexivity].
  pose proof (forallb_alt c_triv_ma alts (oi s) eq_refl E) as H. unfold c_triv_ma in H.
  apply andb_true_iff in H. destruct H as [_ H]. unfold t_ma in H. apply negb_true_iff in H.
  unfold e_ma. rewrite H. reflexivity.
Qed.

Lemma dtor_sm_ok : forall alts s, m_dtor alts s = s_dtor alts s.
Proof.
  intros alts s. unfold m_dtor, s_dtor, m_destroy. destruct (forallb t_dt alts) eqn:E; [|reflexivity].
  pose proof (forallb_alt t_dt alts (oi s) eq_refl E) as H. unfold t_dt in H. apply negb_true_iff in H.
  unfold e_dt. rewrite H. reflexivity.
Qed.

Lemma assign_temp_sm_ok : forall alts x i v, m_assign_temp alts x i v = s_assign_temp alts x i v.
Proof.
  intros alts x i v. unfold m_assign_temp, s_assign_temp. rewrite assign_move_sm_ok.
  destruct (s_assign_move alts x (sm_mk i v)) as [[x' t'] e]. rewrite dtor_sm_ok. reflexivity.
Qed.

Lemma destroy_not_engaged : forall f x, Nat.eqb (oi x) 1 = false -> e_dt (sm_alt (sm_oalts f) (oi x)) (ov x) = [].
Proof.
  intros f x Ex. unfold sm_alt, sm_oalts. destruct (oi x) as [|[|[|k]]]; try reflexivity. discriminate Ex.
Qed.

Lemma conv_assign_sm_ok : forall f x c mv, m_conv_assign f x c mv = s_conv_assign f x c mv.
Proof.
  intros f x c mv. unfold m_conv_assign, s_conv_assign, m_destroy, sm_has.
  destruct (Nat.eqb (oi c) 1) eqn:Ec; cbn [negb]; destruct (Nat.eqb (oi x) 1) eqn:Ex.
  - reflexivity.
  - rewrite destroy_not_engaged by exact Ex. reflexivity.
  - apply Nat.eqb_eq in Ex. rewrite Ex. reflexivity.
  - rewrite destroy_not_engaged by exact Ex. reflexivity.
Qed.

Lemma step_sm_ok : forall alts s o, m_step alts s o = s_step alts s o.
Proof.
  intros alts s o. destruct o; cbn [m_step s_step]; try destruct (sm_pick t s) as [x y]; destruct s as [[a b] c0];
    rewrite ?emplace_sm_ok, ?assign_temp_sm_ok, ?assign_copy_sm_ok, ?assign_move_sm_ok, ?copy_ctor_sm_ok,
            ?move_ctor_sm_ok, ?self_move_sm_ok, ?conv_assign_sm_ok; try reflexivity.
  - destruct (s_copy_ctor alts y) as [tmp e]. rewrite dtor_sm_ok. reflexivity.
  - destruct (s_move_ctor alts y) as [[tmp y'] e]. rewrite dtor_sm_ok. reflexivity.
Qed.

Lemma run_sm_ok : forall alts ops s, m_run alts s ops = s_run alts s ops.
Proof.
  intros alts ops. induction ops as [|o r IH]; intro s; cbn [m_run s_run].
  - destruct s as [[a b] c]. rewrite !dtor_sm_ok. reflexivity.
  - rewrite step_sm_ok. destruct (s_step alts s o) as [[s' tmp] e]. rewrite IH. reflexivity.
Qed.

Lemma traits_sm_ok : forall alts, m_traits alts = s_traits alts.
Proof.
  intro alts. unfold m_traits, s_traits.
  assert (H1 : forallb c_triv_ca alts = forallb (fun f => t_cc f && t_ca f && t_dt f) alts).
  { apply forallb_pointwise. intro f. unfold c_triv_ca, c_triv_cc, t_cc, t_ca, t_dt.
    destruct (u_cc f), (u_ca f), (u_dt f); reflexivity. }
  assert (H2 : forallb c_triv_ma alts = forallb (fun f => t_mc f && t_ma f && t_dt f) alts).
  { apply forallb_pointwise. intro f. unfold c_triv_ma, t_mc, t_ma, t_dt.
    destruct (u_mc f), (u_ma f), (u_dt f); reflexivity. }
  rewrite H1, H2. reflexivity.
Qed.

(** * optional / expected in their own words *)
Definition abs_o (s : obj) : option Z := if sm_has s then Some (ov s) else None.
Definition wf2 (s : obj) : Prop := (oi s < 2)%nat.
Definition abs_e (s : obj) : Z + Z := if Nat.eqb (oi s) 0 then inl (ov s) else inr (ov s).

Ltac two s H := let i := fresh "i" in let v := fresh "v" in
  destruct s as [i v]; unfold wf2 in H; cbn [oi] in H; destruct i as [|[|i]]; [| |lia].

Lemma opt_assign_copy_sm : forall f l r, wf2 l -> wf2 r ->
  (let '(x, e) := s_assign_copy (sm_oalts f) l r in (abs_o x, e)) = so_assign_copy f (abs_o l) (abs_o r).
Proof. intros f l r Hl Hr. two l Hl; two r Hr; cbn; rewrite ?app_nil_r; reflexivity. Qed.

Lemma opt_assign_move_sm : forall f l r, wf2 l -> wf2 r ->
  (let '(x, y, e) := s_assign_move (sm_oalts f) l r in (abs_o x, abs_o y, e)) = so_assign_move f (abs_o l) (abs_o r).
Proof. intros f l r Hl Hr. two l Hl; two r Hr; cbn; rewrite ?app_nil_r; reflexivity. Qed.

Lemma opt_copy_ctor_sm : forall f r, wf2 r ->
  (let '(x, e) := s_copy_ctor (sm_oalts f) r in (abs_o x, e)) = so_copy_ctor f (abs_o r).
Proof. intros f r Hr. two r Hr; cbn; rewrite ?app_nil_r; reflexivity. Qed.

Lemma opt_move_ctor_sm : forall f r, wf2 r ->
  (let '(x, y, e) := s_move_ctor (sm_oalts f) r in (abs_o x, abs_o y, e)) = so_move_ctor f (abs_o r).
Proof. intros f r Hr. two r Hr; cbn; rewrite ?app_nil_r; reflexivity. Qed.

Lemma opt_dtor_sm : forall f s, wf2 s -> s_dtor (sm_oalts f) s = so_dtor f (abs_o s).
Proof. intros f s H. two s H; cbn; rewrite ?app_nil_r; reflexivity. Qed.

Lemma opt_traits_sm : forall f, s_traits (sm_oalts f) = so_traits f.
Proof. intro f. unfold s_traits, so_traits, sm_oalts. cbn [forallb]. rewrite !andb_true_r. reflexivity. Qed.

Lemma exp_assign_copy_sm : forall fT fE l r, wf2 l -> wf2 r ->
  (let '(x, e) := s_assign_copy [fT; fE] l r in (abs_e x, e)) = se_assign_copy fT fE (abs_e l) (abs_e r).
Proof. intros fT fE l r Hl Hr. two l Hl; two r Hr; cbn; rewrite ?app_nil_r; reflexivity. Qed.

Lemma exp_assign_move_sm : forall fT fE l r, wf2 l -> wf2 r ->
  (let '(x, y, e) := s_assign_move [fT; fE] l r in (abs_e x, abs_e y, e)) = se_assign_move fT fE (abs_e l) (abs_e r).
Proof. intros fT fE l r Hl Hr. two l Hl; two r Hr; cbn; rewrite ?app_nil_r; reflexivity. Qed.

Lemma exp_copy_ctor_sm : forall fT fE r, wf2 r ->
  (let '(x, e) := s_copy_ctor [fT; fE] r in (abs_e x, e)) = se_copy_ctor fT fE (abs_e r).
Proof. intros fT fE r Hr. two r Hr; cbn; rewrite ?app_nil_r; reflexivity. Qed.

Lemma exp_move_ctor_sm : forall fT fE r, wf2 r ->
  (let '(x, y, e) := s_move_ctor [fT; fE] r in (abs_e x, abs_e y, e)) = se_move_ctor fT fE (abs_e r).
Proof. intros fT fE r Hr. two r Hr; cbn; rewrite ?app_nil_r; reflexivity. Qed.

Lemma exp_dtor_sm : forall fT fE s, wf2 s -> s_dtor [fT; fE] s = se_dtor fT fE (abs_e s).
Proof. intros fT fE s H. two s H; cbn; rewrite ?app_nil_r; reflexivity. Qed.
