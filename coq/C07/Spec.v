(* C07 — what the C++ standard says: variant / optional / expected are tagged values (sums).
   No dispatch tables, no unions, no destroy/construct sequences: an operation history is a
   function on plain tagged values.  References are to the C++23 working draft. *)
From Tetl Require Import Lib.Base C07.Types.
Local Open Scope Z_scope.

(** * std::variant<Ts...> : (active index, value) *)
Definition tagged := (nat * Z)%type.

(* the state a move leaves in the source: same alternative, moved-from value *)
Definition sv_moved (alts : list ty) (x : tagged) : tagged :=
  (fst x, moved_val (alt_ty alts (fst x)) (snd x)).

(* [variant.ctor]/14, [variant.assign]/11: the alternative T_j chosen by overload resolution *)
Definition sv_convert (alts : list ty) (src : ty) (v : Z) : option tagged :=
  match select alts src with
  | Some j => Some (j, conv src (alt_ty alts j) v)
  | None => None
  end.

Definition spick {A} (t : bool) (s : A * A) : A * A := if t then (snd s, fst s) else s.
Definition sput {A} (t : bool) (x y : A) : A * A := if t then (y, x) else (x, y).

Definition sv_step (alts : list ty) (s : tagged * tagged) (o : vop) : tagged * tagged :=
  match o with
  | VEmplace t i v | VInPlace t i v => let '(_, y) := spick t s in sput t (i, v) y
  | VEmplaceT t a v | VInPlaceT t a v => let '(_, y) := spick t s in sput t (index_of a alts, v) y
  | VConvAssign t src v | VConvCtor t src v =>
    let '(_, y) := spick t s in
    match sv_convert alts src v with Some x' => sput t x' y | None => s end
  | VCopyAssign t | VCopyCtor t => let '(_, y) := spick t s in sput t y y
  | VMoveAssign t | VMoveCtor t => let '(_, y) := spick t s in sput t y (sv_moved alts y)
  | VSwap => (snd s, fst s)                                   (* [variant.swap] *)
  | VSelfCopy _ | VSelfMove _ | VAlias _ => s
  | VDefault t => let '(_, y) := spick t s in sput t (0%nat, 0) y   (* [variant.ctor]/2: value-initialised T_0 *)
  end.

Definition sv_run (alts : list ty) (s : tagged * tagged) (ops : list vop) : tagged * tagged :=
  fold_left (sv_step alts) ops s.

(* [variant.get]: get_if<I> / holds_alternative<T> *)
Definition sv_get_if (x : tagged) (i : nat) : option Z := if Nat.eqb (fst x) i then Some (snd x) else None.
Definition sv_holds (alts : list ty) (x : tagged) (t : ty) : bool := Nat.eqb (fst x) (index_of t alts).

(* [variant.visit]: the visitor is invoked with the active alternative of every variant *)
Definition sv_visit (altss : list (list ty)) (xs : list tagged) : list (ty * Z) :=
  map (fun p => (alt_ty (fst p) (fst (snd p)), snd (snd p))) (combine altss xs).

(* [variant.relops]: index first, then the values *)
Definition sv_rel (k : nat) (a b : tagged) : bool :=
  match k with
  | 0%nat => Nat.eqb (fst a) (fst b) && rel_z 0 (snd a) (snd b)
  | 1%nat => negb (Nat.eqb (fst a) (fst b)) || rel_z 1 (snd a) (snd b)
  | 2%nat | 3%nat =>
    if Nat.ltb (fst a) (fst b) then true else if Nat.ltb (fst b) (fst a) then false else rel_z k (snd a) (snd b)
  | _ =>
    if Nat.ltb (fst b) (fst a) then true else if Nat.ltb (fst a) (fst b) then false else rel_z k (snd a) (snd b)
  end.

(** * std::optional<T> : option *)
Definition so_moved (U : ty) (c : option Z) : option Z :=
  match c with Some v => Some (moved_val U v) | None => None end.
Definition so_conv (U T : ty) (c : option Z) : option Z :=
  match c with Some v => Some (conv U T v) | None => None end.

Definition so_step (T U : ty) (s : option Z * option Z * option Z) (o : oop) : option Z * option Z * option Z :=
  let '(ab, c) := s in
  match o with
  | OEmplace t v | OAssignT t v | OCtorValue t v => let '(_, y) := spick t ab in (sput t (Some v) y, c)
  | OAssignU t v | OCtorValueU t v => let '(_, y) := spick t ab in (sput t (Some (conv U T v)) y, c)
  | ONullopt t | OBraces t | OReset t | OCtorEmpty t => let '(_, y) := spick t ab in (sput t None y, c)
  | OCopyAssign t | OCopyCtor t => let '(_, y) := spick t ab in (sput t y y, c)
  | OMoveAssign t | OMoveCtor t => let '(_, y) := spick t ab in (sput t y (so_moved T y), c)
  | OSwap => ((snd ab, fst ab), c)
  | OSelfCopy _ | OSelfMove _ | OOwnValue _ => s
  | OAssignOptU t | OCtorOptU t => let '(_, y) := spick t ab in (sput t (so_conv U T c) y, c)
  | OMoveOptU t | OCtorMoveOptU t => let '(_, y) := spick t ab in (sput t (so_conv U T c) y, so_moved U c)
  | OEmplaceC v => (ab, Some v)
  | OResetC => (ab, None)
  | OOwnMember t =>
    let '(x, y) := spick t ab in
    match x with Some v => (sput t (Some (conv TInt T v)) y, c) | None => s end
  end.

Definition so_run (T U : ty) s (ops : list oop) := fold_left (so_step T U) ops s.

(* [optional.observe] value_or, [optional.monadic] and_then / or_else *)
Definition so_value_or (x : option Z) (d : Z) : Z := match x with Some v => v | None => d end.
Definition so_and_then (x : option Z) (f : Z -> option Z) : option Z :=
  match x with Some v => f v | None => None end.
Definition so_or_else (x : option Z) (g : option Z) : option Z := match x with Some _ => x | None => g end.

(* [optional.monadic] / [optional.observe] by value category q of the object: the rvalue overloads
   use std::move( **this) (resp. std::move( *this)), so a non-const rvalue optional is left engaged
   with a moved-from value whenever something is move-constructed from it *)
Definition so_and_then_q (T : ty) (q : qual) (x : option Z) (f : Z -> option Z) (byval : bool)
  : option Z * option qual * option Z :=
  match x with
  | Some v => (f v, Some q, if is_rv q && byval then Some (moved_val T v) else x)
  | None => (None, None, None)
  end.
Definition so_or_else_q (T : ty) (q : qual) (x : option Z) (g : option Z) : option Z * option Z :=
  match x with
  | Some v => (Some v, if is_rv q then Some (moved_val T v) else x)
  | None => (g, None)
  end.
Definition so_value_or_q (T : ty) (q : qual) (x : option Z) (d : Z) : Z * option Z :=
  match x with
  | Some v => (v, if is_rv q then Some (moved_val T v) else x)
  | None => (d, None)
  end.
(* T y = *obj; None: the precondition has_value() does not hold *)
Definition so_take_q (T : ty) (q : qual) (x : option Z) : option (Z * option Z) :=
  match x with
  | Some v => Some (v, if is_rv q then Some (moved_val T v) else x)
  | None => None
  end.

(* [optional.relops] *)
Definition so_rel (k : nat) (x y : option Z) : bool :=
  match k, x, y with
  | 0%nat, Some a, Some b => rel_z 0 a b
  | 0%nat, None, None => true
  | 0%nat, _, _ => false
  | 1%nat, Some a, Some b => rel_z 1 a b
  | 1%nat, None, None => false
  | 1%nat, _, _ => true
  | 2%nat, _, None => false
  | 2%nat, None, Some _ => true
  | 2%nat, Some a, Some b => rel_z 2 a b
  | 3%nat, None, _ => true
  | 3%nat, Some _, None => false
  | 3%nat, Some a, Some b => rel_z 3 a b
  | 4%nat, None, _ => false
  | 4%nat, Some _, None => true
  | 4%nat, Some a, Some b => rel_z 4 a b
  | _, _, None => true
  | _, None, Some _ => false
  | _, Some a, Some b => rel_z 5 a b
  end.

(* [optional.nullops] (C++20: == and <=>; the other forms are rewritten from them):
   0: o == nullopt  1: nullopt == o  2: o != nullopt  3: nullopt != o  4: o < nullopt  5: nullopt < o *)
Definition so_rel_null (k : nat) (x : option Z) : bool :=
  let engaged := match x with Some _ => true | None => false end in
  match k with
  | 0%nat | 1%nat => negb engaged
  | 2%nat | 3%nat => engaged
  | 4%nat => false
  | _ => engaged
  end.

(* [optional.comp.with.t]: rev = false: x OP v; rev = true: v OP x *)
Definition so_rel_val (k : nat) (rev : bool) (x : option Z) (v : Z) : bool :=
  match x with
  | Some a => if rev then rel_z k v a else rel_z k a v
  | None =>
    match k, rev with
    | 0%nat, _ => false
    | 1%nat, _ => true
    | 2%nat, false | 3%nat, false => true     (* empty < v, empty <= v *)
    | 2%nat, true | 3%nat, true => false      (* v < empty, v <= empty *)
    | _, false => false                       (* empty > v, empty >= v *)
    | _, true => true                         (* v > empty, v >= empty *)
    end
  end.

(** * std::expected<T, E> : sum *)
Definition sexp := (Z + Z)%type.

Definition se_moved (T E : ty) (x : sexp) : sexp :=
  match x with inl v => inl (moved_val T v) | inr e => inr (moved_val E e) end.

Definition se_step (T E : ty) (s : sexp * sexp) (o : eop) : sexp * sexp :=
  match o with
  | EValue t v | EEmplace t v => let '(_, y) := spick t s in sput t (inl v) y
  | EUnexpect t v => let '(_, y) := spick t s in sput t (inr v) y
  | ECopyAssign t | ECopyCtor t => let '(_, y) := spick t s in sput t y y
  | EMoveAssign t | EMoveCtor t => let '(_, y) := spick t s in sput t y (se_moved T E y)
  | ESelfCopy _ | ESelfMove _ => s
  | EDefault t => let '(_, y) := spick t s in sput t (inl 0) y
  end.

Definition se_run (T E : ty) s (ops : list eop) := fold_left (se_step T E) ops s.

Definition se_value_or (x : sexp) (d : Z) : Z := match x with inl v => v | inr _ => d end.
(* [expected.object.monadic]; results as (has_value, value-or-error) *)
Definition se_and_then (x : sexp) (f : Z -> bool * Z) : bool * Z :=
  match x with inl v => f v | inr e => (false, e) end.
Definition se_or_else (x : sexp) (g : Z -> bool * Z) : bool * Z :=
  match x with inl v => (true, v) | inr e => g e end.

(* [expected.object.monadic] with the object's value category q: the & and const& overloads use
   **this and error(), the && and const&& overloads std::move( **this) and std::move(error()).
   Result, the category the callable is invoked with (None: not invoked), the object afterwards:
   something is move-constructed from the object's value (error) exactly when the object is a
   non-const rvalue and the result's error / value is built from it, or the callable takes its
   parameter by value. *)
Definition se_and_then_q (T E : ty) (q : qual) (x : sexp) (f : Z -> bool * Z) (byval : bool)
  : (bool * Z) * option qual * sexp :=
  match x with
  | inl v => (f v, Some q, if is_rv q && byval then inl (moved_val T v) else x)
  | inr e => ((false, e), None, if is_rv q then inr (moved_val E e) else x)
  end.
Definition se_or_else_q (T E : ty) (q : qual) (x : sexp) (g : Z -> bool * Z) (byval : bool)
  : (bool * Z) * option qual * sexp :=
  match x with
  | inl v => ((true, v), None, if is_rv q then inl (moved_val T v) else x)
  | inr e => (g e, Some q, if is_rv q && byval then inr (moved_val E e) else x)
  end.

Definition se_value_or_q (T : ty) (q : qual) (x : sexp) (d : Z) : Z * sexp :=
  match x with
  | inl v => (v, if is_rv q then inl (moved_val T v) else x)
  | inr _ => (d, x)
  end.
(* T y = *obj / E y = obj.error(); None: the precondition does not hold *)
Definition se_take_q (T : ty) (q : qual) (x : sexp) : option (Z * sexp) :=
  match x with inl v => Some (v, if is_rv q then inl (moved_val T v) else x) | inr _ => None end.
Definition se_take_error_q (E : ty) (q : qual) (x : sexp) : option (Z * sexp) :=
  match x with inr e => Some (e, if is_rv q then inr (moved_val E e) else x) | inl _ => None end.

(** * optional<T&> (P2988): rebinding reference = nullable pointer to a referent.  State: the
   referent cells, the source std::optional<T0> (an option), the three pointers (a, b), z.
   A step is undefined (None) exactly when the program writes through a reference whose referent's
   lifetime has ended (the source was reset after the reference was bound to its contained object). *)
Definition srstate := (list Z * option Z * ((option rtgt * option rtgt) * option rtgt))%type.

Definition sr_set (cs : list Z) (c : nat) (v : Z) : list Z :=
  firstn c cs ++ match skipn c cs with [] => [] | _ :: r => v :: r end.

Definition sr_step (s : srstate) (o : rop) : option srstate :=
  let '(cs, sr, (ab, z)) := s in
  match o with
  | RBind t c => let '(_, y) := spick t ab in Some (cs, sr, (sput t (Some (RCell c)) y, z))
  | RNull t => let '(_, y) := spick t ab in Some (cs, sr, (sput t None y, z))
  | RCopy t => let '(_, y) := spick t ab in Some (cs, sr, (sput t y y, z))
  | RSwap => Some (cs, sr, ((snd ab, fst ab), z))
  | RWrite t v =>
    let '(x, _) := spick t ab in
    match x with
    | Some (RCell c) => Some (sr_set cs c v, sr, (ab, z))
    | Some RSrc => match sr with Some _ => Some (cs, Some v, (ab, z)) | None => None end
    | None => Some s
    end
  | RSelf _ => Some s
  | RCellSet c v => Some (sr_set cs c v, sr, (ab, z))
  (* [optional.ref.ctor]: rhs.has_value() ? binds to *rhs : disengaged *)
  | RFromOpt t | RAssignOpt t =>     (* x = rhs is x = optional<T&>(rhs): P2988 has no converting assignment *)
    let '(_, y) := spick t ab in
    Some (cs, sr, (sput t (match sr with Some _ => Some RSrc | None => None end) y, z))
  | RFromRef t | RAssignRef t => let '(_, y) := spick t ab in Some (cs, sr, (sput t z y, z))
  | RZBind c => Some (cs, sr, (ab, Some (RCell c)))
  | RZNull => Some (cs, sr, (ab, None))
  | RSrcAssign v | RSrcEmplace v => Some (cs, Some v, (ab, z))
  | RSrcReset => Some (cs, None, (ab, z))
  end.

Fixpoint sr_run (s : srstate) (ops : list rop) : option srstate :=
  match ops with
  | [] => Some s
  | o :: r => match sr_step s o with Some s' => sr_run s' r | None => None end
  end.

(* the value seen through a reference: None = disengaged or dangling (no defined value) *)
Definition sr_deref (cs : list Z) (sr : option Z) (p : option rtgt) : option Z :=
  match p with
  | Some (RCell c) => nth_error cs c
  | Some RSrc => sr
  | None => None
  end.

(** * std::unexpected<E> : one value *)
Definition su_step (E : ty) (s : Z * Z * Z) (o : uop) : Z * Z * Z :=
  let '(ab, c) := s in
  match o with
  | UValue t v => let '(_, y) := spick t ab in (sput t v y, c)
  | UCopy t => let '(_, y) := spick t ab in (sput t y y, c)
  | UMove t => let '(_, y) := spick t ab in (sput t y (moved_val E y), c)
  | USwap => ((snd ab, fst ab), c)
  | USetC v => (ab, v)
  end.

Definition su_run (E : ty) s (ops : list uop) := fold_left (su_step E) ops s.
