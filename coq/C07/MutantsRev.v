(* C07 — review round: the specifications and the value domain are sharp enough to tell apart
   (1) a relational operator written with the element type's own operator from one REWRITTEN through another
       operator (x >= y as not (x < y), x <= y as not (y < x)): the two agree on totally ordered values and differ
       exactly on unordered ones - a NaN in a floating alternative (Types.NANV);
   (2) a copy / move assignment of variant that decides "same alternative" by the alternative's TYPE instead of by
       the INDEX: the two agree on variants of distinct types and differ on variant<T, T> / variant<T, X, T> /
       expected<T, T> holding the two occurrences.
   Executable models of the rewritten code next to the models of the current code, with kernel-checked witnesses
   on which they leave the specification, plus the general facts (where they agree). *)
From Tetl Require Import Lib.Base C07.Types C07.Model C07.Spec C07.Dispatch C07.VariantProofs C07.OptionalProofs.
Local Open Scope nat_scope.

(** * the value relation with an unordered element *)
Lemma rel_z_nan_l : forall k y, rel_z k NANV y = Nat.eqb k 1.
Proof. intros k y. unfold rel_z. reflexivity. Qed.

Lemma rel_z_nan_r : forall k x, rel_z k x NANV = Nat.eqb k 1.
Proof. intros k x. unfold rel_z. change (is_nan NANV) with true. rewrite Bool.orb_true_r. reflexivity. Qed.

(* on ordered values it is the usual total order *)
Lemma rel_z_ordered : forall k x y, x <> NANV -> y <> NANV -> rel_z k x y = rel_tot k x y.
Proof.
  intros k x y Hx Hy. unfold rel_z, is_nan.
  destruct (Z.eqb_spec x NANV) as [E|_]; [contradiction|].
  destruct (Z.eqb_spec y NANV) as [E|_]; [contradiction|]. reflexivity.
Qed.

(* ... on which >= is the negation of <, and <= the negation of the swapped < *)
Lemma rel_tot_ge_not_lt : forall x y, rel_tot 5 x y = negb (rel_tot 2 x y).
Proof. intros x y. cbn [rel_tot]. rewrite Z.geb_leb, Z.leb_antisym. reflexivity. Qed.

Lemma rel_tot_le_not_gt : forall x y, rel_tot 3 x y = negb (rel_tot 2 y x).
Proof. intros x y. cbn [rel_tot]. apply Z.leb_antisym. Qed.

(** * optional operator>= rewritten as  not (lhs < rhs) *)
Definition opt_rel_ge_rewritten (l r : var) : res bool := rbind (opt_rel 2 l r) (fun b => Ok (negb b)).

(* agrees with the real operator whenever no NaN is involved ... *)
Theorem opt_rel_ge_rewritten_ordered : forall l r, val l <> NANV -> val r <> NANV ->
  opt_rel_ge_rewritten l r = opt_rel 5 l r.
Proof.
  intros l r Hl Hr. unfold opt_rel_ge_rewritten, opt_rel.
  destruct (has_value r) eqn:Er; cbn [negb rbind]; [|reflexivity].
  destruct (has_value l) eqn:El; cbn [negb rbind]; [|reflexivity].
  rewrite (opt_deref_ok l El), (opt_deref_ok r Er). cbn [rbind].
  rewrite !rel_z_ordered by assumption. rewrite rel_tot_ge_not_lt. reflexivity.
Qed.

(* ... and leaves [optional.relops] on optional<double>{NaN} >= optional<double>{1.0} *)
Theorem opt_rel_ge_rewritten_refuted :
  let l := replace 1 NANV in let r := replace 1 2%Z in
  opt_rel_ge_rewritten l r = Ok true /\ opt_rel 5 l r = Ok false /\ so_rel 5 (abso l) (abso r) = false.
Proof. vm_compute. repeat split. Qed.

(** * variant operator<= rewritten as  not (rhs < lhs) *)
Definition var_rel_le_rewritten (alts : list ty) (a b : var) : res bool :=
  rbind (var_rel alts 2 b a) (fun r => Ok (negb r)).

Theorem var_rel_le_rewritten_refuted :
  let alts := [TInt; TDouble] in let a := replace 1 2%Z in let b := replace 1 NANV in
  wfv alts a /\ wfv alts b
  /\ var_rel_le_rewritten alts a b = Ok true /\ var_rel alts 3 a b = Ok false /\ sv_rel 3 (absv a) (absv b) = false.
Proof. vm_compute. repeat split; lia. Qed.

(** * variant::assign deciding by the TYPE of the two alternatives instead of their index *)
Definition assign_copy_bytype (alts : list ty) (lhs rhs : var) : res var :=
  if all_trivial alts then Ok rhs
  else rbind (visit_vals [n_of alts; n_of alts] [lhs; rhs])
         (fun l => match l with
                   | [(i, _); (j, rv)] =>
                     if ty_eqb (alt_ty alts i) (alt_ty alts j) then Ok {| idx := idx lhs; val := rv |}
                     else rbind (destroy alts lhs) (fun _ => Ok (Model.replace j rv))
                   | _ => UB OutOfBounds
                   end).

(* agrees with the real assign() when no alternative type is repeated ... *)
Theorem assign_copy_bytype_distinct : forall alts lhs rhs, NoDup (map ty_id alts) ->
  wfv alts lhs -> wfv alts rhs -> assign_copy_bytype alts lhs rhs = assign_copy alts lhs rhs.
Proof.
  intros alts lhs rhs Hnd Hl Hr. unfold assign_copy_bytype, assign_copy.
  destruct (all_trivial alts); [reflexivity|].
  rewrite visit2_ok by assumption. cbn [rbind].
  destruct (Nat.eqb (idx lhs) (idx rhs)) eqn:E.
  - apply Nat.eqb_eq in E. rewrite E, ty_eqb_refl. reflexivity.
  - destruct (ty_eqb (alt_ty alts (idx lhs)) (alt_ty alts (idx rhs))) eqn:Et; [|reflexivity].
    exfalso. apply Nat.eqb_neq in E. apply E.
    apply ty_eqb_eq in Et. unfold alt_ty in Et.
    assert (Hid : nth (idx lhs) (map ty_id alts) 0 = nth (idx rhs) (map ty_id alts) 0).
    { rewrite (nth_indep (map ty_id alts) 0 (ty_id TNullopt)) by (rewrite map_length; exact Hl).
      rewrite (nth_indep (map ty_id alts) 0 (ty_id TNullopt) (n := idx rhs)) by (rewrite map_length; exact Hr).
      rewrite !map_nth. rewrite Et. reflexivity. }
    rewrite NoDup_nth in Hnd. apply Hnd; [rewrite map_length; exact Hl|rewrite map_length; exact Hr|exact Hid].
Qed.

(* ... and leaves [variant.assign] on variant<Tracked, Tracked>: a holds <0>{1}, b holds <1>{2}; a = b *)
Theorem assign_copy_bytype_refuted :
  let alts := [TTr; TTr] in let a := Model.replace 0 1%Z in let b := Model.replace 1 2%Z in
  wfv alts a /\ wfv alts b
  /\ assign_copy_bytype alts a b = Ok (Model.replace 0 2%Z)        (* still holds alternative 0 *)
  /\ assign_copy alts a b = Ok b                                   (* the code: alternative 1 *)
  /\ fst (sv_step alts (absv a, absv b) (VCopyAssign false)) = absv b.
Proof. vm_compute. repeat split; lia. Qed.
