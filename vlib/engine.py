"""Engine shared by all property checks.

Pipeline per run (see DESIGN.md section 2/5):
  1. Coq: (re)build the property's theorem closure with a full .vo build, re-run the
     Properties file to collect Print Assumptions, scan the development for forbidden tokens.
  2. Build the OCaml driver (extracted model + spec) and the C++ harness against /repo/include
     as it is NOW (cache key = content hash of the include tree + harness sources + flags).
  3. Generate cases (corpus first, known-finding witnesses, then the property's generators),
     run them through harness (impl | reference) and driver (model | spec), compare the legs.
  4. Decide: correspondence breaks / broken obligations start a search for a failing input of
     the property itself; report VIOLATION / KNOWN-FINDING lines; write evidence/<ID>.json.
"""
import hashlib
import importlib.util
import json
import os
import random
import re
import shutil
import subprocess
import sys
import time
from collections import Counter
from pathlib import Path

ROOT = Path(__file__).resolve().parent.parent
REPO = Path(os.environ.get("VERIF_REPO", "/repo"))
BUILD = ROOT / "build"
# harness executables depend on the checkout they were compiled against: a run against another checkout
# (VERIF_REPO=<scratch worktree>, used to test the checks against seeded changes) gets its own directory so
# that it never evicts the executables of a concurrent run against /repo
HBUILD = BUILD if REPO == Path("/repo") else BUILD / ("alt-" + hashlib.md5(str(REPO).encode()).hexdigest()[:8])
COQ_MAIN = ROOT / "coq"
# evidence and replay files of a run against another checkout never land in the committed directories
_alt = None if REPO == Path("/repo") else HBUILD
EVID = Path(os.environ.get("VERIF_EVIDENCE_DIR", str(ROOT / "evidence" if _alt is None else _alt / "evidence")))
REPLAY = Path(os.environ.get("VERIF_REPLAY_DIR", str(ROOT / "replay" if _alt is None else _alt / "replay")))
# ... and works in its own copy of the Coq development (the kernels regenerated from THAT checkout and everything
# rebuilt from them live there), so that it neither disturbs nor is disturbed by runs against /repo
COQ = COQ_MAIN if _alt is None else _alt / "coq"
DRV_BUILD = BUILD if _alt is None else _alt


def sync_alt_coq():
    """refresh the private copy of coq/ (sources AND compiled files: only what depends on a regenerated kernel is rebuilt)"""
    if _alt is None:
        return
    COQ.mkdir(parents=True, exist_ok=True)
    sh(["rsync", "-a", "--delete", "--exclude", ".lia.cache", "--exclude", ".nia.cache", "--exclude", ".project.lock",
        "--exclude", ".build.lock", str(COQ_MAIN) + "/", str(COQ) + "/"], timeout=600)

ALLOWED_AXIOMS = {
    # axioms declared by the Coq standard library itself (named in DESIGN.md section 7)
    "Coq.Logic.FunctionalExtensionality.functional_extensionality_dep",
    "FunctionalExtensionality.functional_extensionality_dep",
    "functional_extensionality_dep",
    "Coq.Logic.Classical_Prop.classic", "Classical_Prop.classic", "classic",
    "ClassicalDedekindReals.sig_forall_dec", "sig_forall_dec",
    "ClassicalDedekindReals.sig_not_dec", "sig_not_dec",
    "Coq.Logic.ProofIrrelevance.proof_irrelevance", "proof_irrelevance",
    "Coq.Logic.JMeq.JMeq_eq", "JMeq_eq", "JMeq.JMeq_eq",
    "Eqdep.Eq_rect_eq.eq_rect_eq", "Eq_rect_eq.eq_rect_eq", "eq_rect_eq",
    "PropExtensionality.propositional_extensionality", "propositional_extensionality",
}

FORBIDDEN = [
    r"\bAdmitted\b", r"\badmit\b", r"\bAxiom\b", r"\bAxioms\b", r"\bParameter\b", r"\bParameters\b",
    r"\bConjecture\b", r"Unset\s+Guard", r"bypass_check", r"Admit\s+Obligations", r"\bgive_up\b",
    r"Unset\s+Positivity", r"Unset\s+Universe\s+Checking", r"type-in-type", r"impredicative-set",
    r"native_compute",
]


def sh(cmd, cwd=None, timeout=None, inp=None, env=None):
    try:
        p = subprocess.run(cmd, cwd=cwd, input=inp, stdout=subprocess.PIPE, stderr=subprocess.PIPE,
                           timeout=timeout, env=env, shell=isinstance(cmd, str))
        return p.returncode, p.stdout.decode("utf-8", "replace"), p.stderr.decode("utf-8", "replace")
    except subprocess.TimeoutExpired as e:
        out = (e.stdout or b"").decode("utf-8", "replace")
        err = (e.stderr or b"").decode("utf-8", "replace")
        return 124, out, err + "\nTIMEOUT"


def file_hash(paths, extra=""):
    h = hashlib.sha256()
    h.update(extra.encode())
    for p in paths:
        p = Path(p)
        h.update(str(p.name).encode())
        h.update(p.read_bytes())
    return h.hexdigest()[:16]


_inc_hash = None


def include_hash():
    """content hash of /repo/include as it is right now"""
    global _inc_hash
    if _inc_hash is None:
        h = hashlib.sha256()
        inc = REPO / "include"
        for p in sorted(inc.rglob("*")):
            if p.is_file():
                h.update(str(p.relative_to(inc)).encode())
                h.update(p.read_bytes())
        _inc_hash = h.hexdigest()[:16]
    return _inc_hash


# --------------------------------------------------------------------------- Coq stage
def coq_project():
    sync_alt_coq()
    env = dict(os.environ, VERIF_REPO=str(REPO), VERIF_COQ_DIR=str(COQ))
    return sh(["make", "-s", "coqproject", f"COQDIR={COQ}"], cwd=ROOT, timeout=300, env=env)


def coq_build(pid, extra_targets=()):
    """full .vo build of the property's closure; returns (ok, log)"""
    rc, out, err = coq_project()
    if rc != 0:
        return False, out + err
    targets = [f"{pid}/{f.stem}.vo" for f in sorted((COQ / pid).glob("Properties*.v"))]
    targets += [f"{pid}/Extract.vo"] + list(extra_targets)
    targets = [t for t in targets if (COQ / t[:-1]).exists()]
    cmd = ["timeout", "3000", "make", "-k", "-j16"] + targets
    rc, out, err = sh(cmd, cwd=COQ, timeout=3100)
    return rc == 0, (out + err)[-6000:]


def coq_assumptions(pid):
    """re-run every Properties*.v file of the package; returns (theorems, log, ok)"""
    res, logs, ok = [], "", True
    files = sorted((COQ / pid).glob("Properties*.v"))
    if not files:
        return [], "no Properties*.v file", False
    for f in files:
        r, l, o = coq_assumptions_file(pid, f)
        res += r
        logs += l
        ok = ok and o
    return res, logs, ok


def coq_assumptions_file(pid, src):
    names = re.findall(r"^\s*Print Assumptions\s+([\w.']+)\s*\.", src.read_text(), flags=re.M)
    outdir = DRV_BUILD / pid
    outdir.mkdir(parents=True, exist_ok=True)
    rc, out, err = sh(["timeout", "900", "coqc", "-Q", ".", "Tetl", "-w",
                       "-notation-overridden,-deprecated-hint-without-locality,-deprecated-instance-without-locality",
                       "-o", str(outdir / (src.stem + ".vo")), f"{pid}/{src.name}"], cwd=COQ, timeout=1000)
    res = []
    if rc != 0:
        return [{"theorem": n, "axioms": None, "ok": False} for n in names], out + err, False
    # split the output into one block per Print Assumptions
    blocks = re.split(r"^(?=Closed under the global context|Axioms:)", out, flags=re.M)
    blocks = [b for b in blocks if b.startswith("Closed under") or b.startswith("Axioms:")]
    for i, n in enumerate(names):
        if i >= len(blocks):
            res.append({"theorem": n, "axioms": None, "ok": False})
            continue
        b = blocks[i]
        if b.startswith("Closed under"):
            res.append({"theorem": n, "axioms": [], "ok": True})
        else:
            ax = [a for a in re.findall(r"^([A-Za-z_][\w.']*)\s*:", b, flags=re.M) if a != "Axioms"]  # not the header line
            bad = [a for a in ax if a not in ALLOWED_AXIOMS and a.split(".")[-1] not in ALLOWED_AXIOMS]
            res.append({"theorem": n, "axioms": ax, "ok": not bad, "disallowed": bad})
    return res, out + err, True


def coq_closure(pid):
    """the .v files the property's theorem files (Properties*.v) and its extraction depend on, transitively, read from
    the dependency file coq_makefile maintains; None when it cannot be determined (then the whole tree is scanned)"""
    depf = COQ / ".Makefile.d"
    if not depf.exists():
        return None
    deps = {}
    for line in depf.read_text().splitlines():
        if ":" not in line:
            continue
        lhs, rhs = line.split(":", 1)
        tgt = lhs.split()[0]
        if not tgt.endswith(".vo"):
            continue
        deps[tgt] = [d for d in rhs.split() if d.endswith(".vo")]
    roots = [f"{pid}/{f.stem}.vo" for f in sorted((COQ / pid).glob("Properties*.v"))] + [f"{pid}/Extract.vo"]
    if not any(r in deps for r in roots):
        return None
    seen, todo = set(), [r for r in roots if r in deps]
    while todo:
        t = todo.pop()
        if t in seen:
            continue
        seen.add(t)
        todo += deps.get(t, [])
    return sorted(COQ / (t[:-1]) for t in seen)


def forbidden_scan(pid=None):
    """grep the development the property depends on (its transitive closure; the whole tree when pid is None or the
    closure is unknown); returns list of 'file:line: text'"""
    hits = []
    pats = [re.compile(p) for p in FORBIDDEN]
    files = None
    if pid:
        for _ in range(8):           # the dependency file is rewritten by concurrent `make` runs: retry briefly
            files = coq_closure(pid)
            if files is not None:
                break
            time.sleep(1.0)
        if files is None:            # still unknown: the package's own directory and the shared libraries
            files = sorted(list((COQ / pid).glob("*.v")) + list((COQ / "Lib").glob("*.v")) + list((COQ / "Gen").glob("*.v")))
    if files is None:
        files = sorted(COQ.rglob("*.v"))
    for p in files:
        if not p.exists():
            continue
        depth = 0
        incomment = 0
        for ln, line in enumerate(p.read_text().splitlines(), 1):
            # strip comments (nesting-aware, line based approximation)
            code = ""
            i = 0
            while i < len(line):
                if line.startswith("(*", i):
                    incomment += 1
                    i += 2
                elif line.startswith("*)", i) and incomment:
                    incomment -= 1
                    i += 2
                else:
                    if not incomment:
                        code += line[i]
                    i += 1
            if re.match(r"\s*(Section|Module)\b", code) and ":=" not in code:
                depth += 1
            if re.match(r"\s*End\b", code):
                depth = max(0, depth - 1)
            for pat in pats:
                if pat.search(code):
                    hits.append(f"coq/{p.relative_to(COQ)}:{ln}: {line.strip()}")
            if depth == 0 and re.match(r"\s*(Variable|Variables|Hypothesis|Hypotheses|Context)\b", code):
                hits.append(f"coq/{p.relative_to(COQ)}:{ln}: {line.strip()} (outside a section)")
    return hits


# --------------------------------------------------------------------------- builds
def _evict_old(paths, keep_s=3 * 3600):
    """superseded cached executables are removed only once they are older than keep_s: a concurrent run of the same
    check (other tier, other agent, vp check while an edit is in progress) may still be executing one of them"""
    now = time.time()
    for old in paths:
        try:
            if now - old.stat().st_mtime > keep_s:
                old.unlink()
        except OSError:
            pass


def build_driver(pid):
    """extracted model (+spec) + helpers + property driver -> native executable"""
    model = COQ / f"{pid}_model.ml"
    drv = ROOT / "props" / pid / "driver.ml"
    if not model.exists():
        raise RuntimeError(f"extracted model {model} missing (Coq build failed?)")
    parts = [ROOT / "ocaml" / "prelude.ml", model, ROOT / "ocaml" / "helpers.ml", drv]
    key = file_hash(parts)
    outdir = DRV_BUILD / pid
    outdir.mkdir(parents=True, exist_ok=True)
    exe = outdir / f"driver-{key}"
    if exe.exists():
        return exe
    _evict_old(outdir.glob("driver-*"))
    wd = outdir / f"ocaml-{os.getpid()}"   # per process: concurrent builds of one driver do not share all.ml
    wd.mkdir(exist_ok=True)
    with open(wd / "all.ml", "w") as f:
        for p in parts:
            f.write(f'# 1 "{p}"\n')
            f.write(p.read_text())
            f.write("\n")
    rc, out, err = sh(["ocamlfind", "ocamlopt", "-package", "zarith", "-linkpkg", "-w", "-a", "-unsafe",
                       "-inline", "100", "all.ml", "-o", str(exe) + f".tmp{os.getpid()}"], cwd=wd, timeout=900)
    if rc != 0:
        raise RuntimeError("driver build failed:\n" + (out + err)[-4000:])
    os.replace(str(exe) + f".tmp{os.getpid()}", exe)
    shutil.rmtree(wd, ignore_errors=True)
    return exe


def build_all_drivers():
    ok = True
    for d in sorted((ROOT / "props").iterdir()):
        if (d / "driver.ml").exists() and (COQ / f"{d.name}_model.ml").exists():
            try:
                build_driver(d.name)
                print("driver", d.name, "ok")
            except Exception as e:  # noqa
                ok = False
                print("driver", d.name, "FAILED", e)
    return ok


BASE_FLAGS = ["-std=c++20", "-DTETL_ENABLE_CUSTOM_ASSERT_HANDLER=1", "-w"]


def build_all_harnesses(workers=6):
    """setup: pre-compile the quick-tier harness variants of every package against /repo/include as it is now (the
    executables are cached by content hash, so the first ./check of each property does not pay for the compile)"""
    from concurrent.futures import ThreadPoolExecutor
    jobs = []
    for d in sorted((ROOT / "props").iterdir()):
        if not (d / "prop.py").exists() or not (d / "harness.cpp").exists():
            continue
        try:
            prop = load_prop(d.name)
        except Exception as e:  # noqa
            print("harness", d.name, "prop.py does not load:", e)
            continue
        for h in getattr(prop, "HARNESSES", [{"name": "main", "src": "harness.cpp", "flags": ["-O1", "-DTETL_ENABLE_CONTRACT_CHECKS=1"]}]):
            if h.get("thorough_only"):
                continue
            jobs.append((d.name, h))
        extra = getattr(prop, "setup_extra_builds", None)
        if extra is not None:
            try:
                for pid2, h2 in extra():
                    if not any(j[0] == pid2 and j[1]["name"] == h2["name"] for j in jobs):
                        jobs.append((pid2, h2))
            except Exception as e:  # noqa
                print("harness", d.name, "setup_extra_builds failed:", e)

    def one(job):
        pid, h = job
        t0 = time.time()
        try:
            exe, log = build_harness(pid, h["name"], h["src"], h["flags"], h.get("compiler", "g++"))
            return f"harness {pid}/{h['name']} {'ok' if exe else 'FAILED'} {time.time() - t0:.0f}s" + ("" if exe else " " + log[-300:])
        except Exception as e:  # noqa
            return f"harness {pid}/{h['name']} FAILED {e}"
    with ThreadPoolExecutor(max_workers=workers) as ex:
        for line in ex.map(one, jobs):
            print(line)
    return True


def build_harness(pid, name, src, flags, compiler="g++"):
    srcp = ROOT / "props" / pid / src
    deps = [srcp, ROOT / "harness" / "common.hpp"] + sorted((ROOT / "harness").glob("*.hpp"))
    deps += sorted((ROOT / "props" / pid).glob("*.hpp")) + sorted((ROOT / "props" / pid).glob("*.inc"))
    key = file_hash(deps, extra=include_hash() + " ".join(flags) + compiler)
    outdir = HBUILD / pid
    outdir.mkdir(parents=True, exist_ok=True)
    exe = outdir / f"h-{name}-{key}"
    if exe.exists():
        return exe, ""
    _evict_old(outdir.glob(f"h-{name}-*"))
    tmp = outdir / f".tmp-{os.getpid()}-{name}-{key}"
    cmd = [compiler] + BASE_FLAGS + list(flags) + [f"-I{REPO}/include", f"-I{ROOT}/harness",
                                                    f"-I{ROOT}/props/{pid}", str(srcp), "-o", str(tmp)]
    rc, out, err = sh(cmd, timeout=1800)
    if rc != 0:
        tmp.unlink(missing_ok=True)
        return None, (out + err)[-6000:]
    os.replace(tmp, exe)   # atomic: a concurrent run never sees a half-written executable
    return exe, ""


def run_bin(exe, cases, timeout=3000, args=(), extra_env=None):
    inp = ("\n".join(cases) + "\n").encode()
    env = dict(os.environ)
    if extra_env:
        env.update(extra_env)
    env.setdefault("ASAN_OPTIONS", "detect_leaks=0:abort_on_error=1:handle_abort=0:print_summary=0:allocator_may_return_null=1")
    env.setdefault("UBSAN_OPTIONS", "halt_on_error=1:abort_on_error=1:print_stacktrace=0")
    rc, out, err = sh([str(exe)] + list(args), inp=inp, timeout=timeout, env=env)
    lines = out.split("\n")
    if lines and lines[-1] == "":
        lines.pop()
    return rc, lines, err


def split_legs(line):
    if " | " in line:
        a, b = line.split(" | ", 1)
        return a.strip(), b.strip()
    return line.strip(), "na"


# --------------------------------------------------------------------------- property module
def load_prop(pid):
    path = ROOT / "props" / pid / "prop.py"
    spec = importlib.util.spec_from_file_location(f"prop_{pid}", path)
    mod = importlib.util.module_from_spec(spec)
    sys.modules[f"prop_{pid}"] = mod
    spec.loader.exec_module(mod)
    return mod


def load_known(pid):
    p = ROOT / "known_findings.json"
    if not p.exists():
        return []
    data = json.loads(p.read_text())
    return [f for f in data.get("findings", []) if f.get("property") == pid]


def load_corpus(pid):
    p = ROOT / "corpus" / f"{pid}.txt"
    if not p.exists():
        return []
    return [l.strip() for l in p.read_text().splitlines() if l.strip() and not l.startswith("#")]


# --------------------------------------------------------------------------- the check
class Ctx:
    pass


def analyse(cases, impl_lines, model_lines, known, variant):
    """returns dict of lists of indices"""
    r = {"corr": [], "prop": [], "specval": [], "thm": [], "known": [], "crash": []}
    known_ops = {}
    for k in known:
        for o in k.get("ops", []):
            known_ops.setdefault(o, []).append(k)
    n = len(cases)
    for i in range(n):
        il = impl_lines[i] if i < len(impl_lines) else "missing | na"
        ml = model_lines[i] if i < len(model_lines) else "missing | na"
        e, s = split_legs(il)
        m, p = split_legs(ml)
        if e == "skip":
            continue
        op = cases[i].split(" ", 1)[0]
        if e != m:
            r["corr"].append(i)
        # " # detail" (e.g. which header's check fired) is part of the correspondence only
        e = e.split(" # ", 1)[0]
        m = m.split(" # ", 1)[0]
        bad = (s != "na" and e != s) or (p != "na" and e != p)
        if bad:
            if e == m and op in known_ops:
                r["known"].append(i)
            else:
                r["prop"].append(i)
        if s != "na" and p != "na" and s != p:
            r["specval"].append(i)
        if p != "na" and m != p and not (op in known_ops):
            r["thm"].append(i)
        if e.startswith("crash"):
            r["crash"].append(i)
    return r


def write_replay(pid, n, payload):
    REPLAY.mkdir(exist_ok=True)
    if isinstance(payload, dict):
        payload.setdefault("part", pid)
    path = REPLAY / f"{pid}-{n}.json"
    path.write_text(json.dumps(payload, indent=1))
    return path


def run_part(pid, tier="quick", seed=0, replay=None, report_pid=None):
    """runs one package (props/<pid>, coq/<pid>); violations are reported under report_pid"""
    t0 = time.time()
    rpid = report_pid or pid
    prop = load_prop(pid)
    known = load_known(pid)
    violations = []      # (kind, text, replay payload, found_input: bool)
    notes = []
    evid_extra = {}

    # ---- 0. translator tie: regenerate the Gallina kernels of this property from /repo's current source
    gen_problems = []
    for cfg, outv in getattr(prop, "TRANSLATE", ()):
        env = dict(os.environ, VERIF_REPO=str(REPO))
        outp = (COQ / outv[len("coq/"):]) if outv.startswith("coq/") else (ROOT / outv)
        rc, out, err = sh([sys.executable, str(ROOT / "translate" / "cxx2gallina.py"), str(ROOT / cfg), str(outp)], env=env, timeout=600)
        try:
            info = json.loads(out.strip().splitlines()[-1])
        except Exception:
            info = {"refused": {"?": (out + err)[-400:]}}
        for k, why in info.get("refused", {}).items():
            gen_problems.append(f"translator refused kernel {k} of {cfg}: {why}")
        evid_extra.setdefault("translated_kernels", []).extend(info.get("kernels", []))

    # ---- 1. Coq
    coq_ok, coq_log = coq_build(pid, getattr(prop, "EXTRA_COQ_TARGETS", ()))
    thms, asm_log, asm_ok = coq_assumptions(pid)
    forb = forbidden_scan(pid)
    evid_extra["forbidden_scan_files"] = len(coq_closure(pid) or [])
    broken_obl = list(gen_problems)
    if tier == "thorough" and coq_ok and replay is None:
        # independent re-check of the compiled theorem files and everything they depend on (coqchk), with the
        # list of axioms of every loaded library (-o)
        mods = [f"Tetl.{pid}.{f.stem}" for f in sorted((COQ / pid).glob("Properties*.v"))]
        t1 = time.time()
        rc, out, err = sh(["timeout", "3000", "coqchk", "-silent", "-o", "-Q", ".", "Tetl"] + mods, cwd=COQ, timeout=3100)
        txt = (out + err)
        evid_extra["coqchk"] = {"modules": mods, "exit": rc, "wall_s": round(time.time() - t1, 1),
                                "report": txt[txt.find("CONTEXT SUMMARY"):][:6000] if "CONTEXT SUMMARY" in txt else txt[-3000:]}
        if rc != 0:
            broken_obl.append("coqchk rejects the compiled theorem files: " + txt[-1500:])
    if not coq_ok:
        broken_obl.append("coq build of %s/Properties.vo failed: %s" % (pid, coq_log[-1500:]))
    if not asm_ok:
        broken_obl.append("Properties.v does not compile: " + asm_log[-1500:])
    for t in thms:
        if not t["ok"]:
            broken_obl.append("theorem %s: %s" % (t["theorem"], "not checked" if t["axioms"] is None
                                                  else "depends on disallowed axioms %s" % t.get("disallowed")))
    for h in forb:
        broken_obl.append("forbidden construct in development: " + h)
    n_obl = len(thms)
    n_dis = sum(1 for t in thms if t["ok"]) if (coq_ok and asm_ok and not forb) else 0

    # ---- 2. builds
    harnesses = getattr(prop, "HARNESSES", [{"name": "main", "src": "harness.cpp",
                                              "flags": ["-O1", "-DTETL_ENABLE_CONTRACT_CHECKS=1"]}])
    exes = []
    for h in harnesses:
        if tier == "quick" and h.get("thorough_only"):
            continue
        exe, log = build_harness(pid, h["name"], h["src"], h["flags"], h.get("compiler", "g++"))
        if exe is None:
            broken_obl.append(f"harness {h['name']} does not compile against /repo/include: {log[-2500:]}")
        else:
            exes.append((h, exe))
    driver = None
    try:
        driver = build_driver(pid)
    except Exception as e:  # noqa
        broken_obl.append(str(e)[-2500:])

    # ---- replay mode
    if replay is not None:
        payload = json.loads(Path(replay).read_text())
        cases = [payload["case"]] if "case" in payload else payload.get("cases", [])
        bad = False
        for h, exe in exes:
            _, il, _ = run_bin(exe, cases, args=h.get("args", ()), extra_env=h.get("env"))
            _, ml, _ = run_bin(driver, cases, extra_env=h.get("env")) if driver else (0, ["missing | na"] * len(cases), "")
            for c, a, b in zip(cases, il, ml):
                e, s = split_legs(a)
                m, p = split_legs(b)
                print(f"case: {c}\n  impl[{h['name']}]: {e}\n  reference: {s}\n  model: {m}\n  spec: {p}")
                if (s != "na" and e != s) or (p != "na" and e != p) or e != m:
                    bad = True
        if not cases:
            print(json.dumps(payload, indent=1))
            bad = True
        return (1 if bad else 0), None

    # ---- 3. cases
    rng = random.Random(seed * 1000003 + 17)
    cases = []
    corpus = load_corpus(pid)
    cases += corpus
    kf_idx = {}
    for k in known:
        if k.get("witness"):
            kf_idx[len(cases)] = k
            cases.append(k["witness"])
    gen_cases = list(prop.gen(tier, rng))
    cases += gen_cases
    dist_ops = Counter(c.split(" ", 1)[0] for c in cases)

    results = {}
    model_lines = []
    if driver:
        rc, model_lines, err = run_bin(driver, cases)
        if rc != 0:
            broken_obl.append("model driver failed: " + err[-1500:])
    impl_by_variant = {}
    model_by_variant = {}
    for h, exe in exes:
        rc, il, err = run_bin(exe, cases, args=h.get("args", ()), extra_env=h.get("env"))
        if rc != 0 or len(il) != len(cases):
            broken_obl.append(f"harness {h['name']} run failed rc={rc} lines={len(il)}/{len(cases)}: {err[-800:]}")
        impl_by_variant[h["name"]] = il
        ml = model_lines
        if h.get("env") and driver:
            # a build-mode dependent model (e.g. checks that exist only under CONTRACT_CHECKS_SAFE)
            _, ml, _ = run_bin(driver, cases, extra_env=h.get("env"))
        model_by_variant[h["name"]] = ml
        results[h["name"]] = analyse(cases, il, ml, known, h["name"])

    # ---- 4. decide
    nrep = 0
    reported_known = set()
    outcome_kinds = Counter()
    distinct_nontrivial = 0
    nontriv = getattr(prop, "nontrivial", None)
    seen = set()
    first_variant = exes[0][0]["name"] if exes else None
    if first_variant:
        il = impl_by_variant[first_variant]
        for i, c in enumerate(cases):
            e = split_legs(il[i])[0] if i < len(il) else "missing"
            outcome_kinds[e.split(" ", 1)[0]] += 1
            if c in seen:
                continue
            seen.add(c)
            if nontriv is None or nontriv(c, e):
                distinct_nontrivial += 1

    def legs(i, vname):
        il = impl_by_variant[vname]
        e, s = split_legs(il[i]) if i < len(il) else ("missing", "na")
        ml = model_by_variant.get(vname, model_lines)
        m, p = split_legs(ml[i]) if i < len(ml) else ("missing", "na")
        return {"case": cases[i], "variant": vname, "impl": e, "reference": s, "model": m, "spec": p}

    for vname, r in results.items():
        # known findings: replay of recorded witnesses
        for i, k in kf_idx.items():
            L = legs(i, vname)
            still = (L["impl"] == k.get("impl")) and (L["impl"] == L["model"])
            if still and k["id"] not in reported_known:
                reported_known.add(k["id"])
                print(f"KNOWN-FINDING: property={rpid} {k['id']}: {k['what']} [witness: {k['witness']} -> {L['impl']}; expected {k.get('expected', L['reference'])}]")
            elif not still and L["impl"] != L["model"]:
                pass  # shows up as a correspondence break below
        # direct property failures (impl vs reference/spec) that are not the recorded defects
        prop_idx = sorted(r["prop"], key=lambda i: (len(cases[i]), i))
        by_op = {}
        for i in prop_idx:
            by_op.setdefault(cases[i].split(" ", 1)[0], []).append(i)
        for op, idxs in by_op.items():
            i = idxs[0]
            L = legs(i, vname)
            L.update({"property": pid, "kind": "impl differs from the property's reference", "seed": seed,
                      "tier": tier, "more_failing_cases_same_op": [cases[j] for j in idxs[1:6]],
                      "failing_cases_same_op": len(idxs)})
            nrep += 1
            path = write_replay(pid, nrep, L)
            violations.append((f"VIOLATION property={rpid} replay={path}", True))
        # correspondence breaks with no failing input among them
        prop_set = set(r["prop"])
        corr_only = [i for i in r["corr"] if i not in prop_set]
        if corr_only and not r["prop"]:
            found = search_failing(prop, exes, known, seed, tier)
            i = sorted(corr_only, key=lambda i: (len(cases[i]), i))[0]
            L = legs(i, vname)
            if found:
                found.update({"property": pid, "kind": "correspondence broke; search found a failing input",
                              "correspondence_break": L})
                nrep += 1
                path = write_replay(pid, nrep, found)
                violations.append((f"VIOLATION property={rpid} replay={path}", True))
            else:
                L.update({"property": pid, "kind": "correspondence model<->code no longer checks",
                          "no_longer_checks": f"correspondence leg impl[{vname}] = extracted model on op {cases[i].split(' ',1)[0]}",
                          "disagreeing_cases": len(corr_only), "seed": seed})
                nrep += 1
                path = write_replay(pid, nrep, L)
                violations.append((f"VIOLATION property={rpid} replay={path} no-failing-input-found", False))
        elif corr_only:
            notes.append(f"{len(corr_only)} further correspondence breaks without direct property failure (variant {vname})")
        if r["specval"]:
            notes.append(f"MACHINERY: {len(r['specval'])} cases where Coq spec and reference implementation disagree, e.g. "
                         + json.dumps(legs(r['specval'][0], vname)))
            print(f"MACHINERY-WARNING property={pid}: Coq spec and reference (std/libc) disagree on {len(r['specval'])} cases, e.g. {legs(r['specval'][0], vname)}")
        if r["thm"]:
            notes.append(f"MACHINERY: {len(r['thm'])} cases where extracted model and spec disagree outside known-finding ops, e.g. "
                         + json.dumps(legs(r['thm'][0], vname)))
            print(f"MACHINERY-WARNING property={pid}: extracted model and spec disagree on {len(r['thm'])} cases (outside theorem domain?), e.g. {legs(r['thm'][0], vname)}")

    # property-specific extra legs (site inventory, compile-time obligations, ...)
    extra = getattr(prop, "extra_checks", None)
    if extra is not None:
        ctx = Ctx()
        ctx.pid, ctx.tier, ctx.seed, ctx.rng = pid, tier, seed, rng
        ctx.known = known
        ctx.reported_known = reported_known
        for item in extra(ctx) or []:
            # item: dict(kind='violation'|'known'|'note', text=..., payload=..., found_input=bool)
            if item["kind"] == "violation":
                nrep += 1
                path = write_replay(pid, nrep, item.get("payload", {}))
                tail = "" if item.get("found_input", True) else " no-failing-input-found"
                violations.append((f"VIOLATION property={rpid} replay={path}{tail}", item.get("found_input", True)))
            elif item["kind"] == "known":
                print(f"KNOWN-FINDING: property={rpid} {item['text']}")
            else:
                notes.append(item["text"])
        evid_extra.update(getattr(ctx, "evidence", {}))

    if broken_obl and not violations:
        found = search_failing(prop, exes, known, seed, tier) if exes else None
        payload = {"property": pid, "kind": "proof obligation / build no longer checks", "no_longer_checks": broken_obl}
        if found:
            payload.update(found)
        nrep += 1
        path = write_replay(pid, nrep, payload)
        violations.append((f"VIOLATION property={rpid} replay={path}" + ("" if found else " no-failing-input-found"), bool(found)))
    elif broken_obl:
        notes.append("broken obligations: " + "; ".join(broken_obl)[:2000])

    for v, _ in violations:
        print(v)

    # ---- 5. evidence
    samples = []
    if first_variant:
        step = max(1, len(cases) // 8)
        for i in range(0, len(cases), step):
            samples.append(legs(i, first_variant))
    trusted = list(getattr(prop, "TRUSTED_BASE", [])) + [
        "Coq 8.16.1 kernel incl. vm_compute (no native_compute)",
        "axioms per theorem: see coverage.theorems[*].axioms (empty list = closed under the global context)",
        "extraction: ExtrOcamlBasic only (Extract Inductive bool/option/unit/prod/list/sumbool/sumor, inlined fst/snd/andb/orb/negb); Z/N/nat/positive stay inductive",
        "correspondence check: props/%s/harness.cpp + harness/common.hpp compiled by g++ 12.2 against /repo/include; ocaml driver + zarith; python differ" % pid,
    ]
    evidence = {
        "property_id": pid,
        "tier": tier,
        "seed": seed,
        "level": getattr(prop, "LEVEL", "proof"),
        "coverage": {
            "obligations": max(n_obl, 1),
            "discharged": n_dis if n_obl else 0,
            "checker_cmd": f"make -C coq -k {pid}/Properties.vo && coqc -Q . Tetl {pid}/Properties.v (Print Assumptions under every theorem)",
            "trusted_base": trusted,
            "theorems": thms,
            "broken_obligations": broken_obl,
            "evaluations": len(cases) * max(1, len(exes)),
            "distinct_nontrivial": distinct_nontrivial,
            "traces_validated_against_impl": len(cases),
            "rule": getattr(prop, "RULE", "cases = corpus + known-finding witnesses + property generators; distinct = distinct case lines; non-trivial per props/%s/prop.py" % pid),
            "samples": samples[:10],
            "op_distribution": dict(dist_ops),
            "impl_outcome_kinds": dict(outcome_kinds),
            "harness_variants": [h["name"] for h, _ in exes],
            "include_tree_hash": include_hash(),
            "known_findings_reported": sorted(reported_known),
            "disagreements": {v: {k: len(x) for k, x in r.items()} for v, r in results.items()},
            "notes": notes,
            "exhaustive": False,
        },
        "assumptions": list(getattr(prop, "ASSUMPTIONS", [])),
        "wall_s": round(time.time() - t0, 2),
        "violations": len(violations),
    }
    evidence["coverage"].update(evid_extra)
    return (1 if violations else 0), evidence


def run_check(pid, tier="quick", seed=0, replay=None):
    """a property is one package, or several (props/<pid>/prop.py declares PARTS = [...])"""
    t0 = time.time()
    parts = [pid]
    pfile = ROOT / "props" / pid / "prop.py"
    if pfile.exists():
        m = re.search(r"^PARTS\s*=\s*(\[.*?\])", pfile.read_text(), flags=re.M | re.S)
        if m:
            parts = json.loads(m.group(1).replace("'", '"'))
    if replay is not None:
        payload = json.loads(Path(replay).read_text())
        part = payload.get("part", parts[0] if len(parts) == 1 else None)
        if part is None:
            part = Path(replay).name.rsplit("-", 1)[0]
        rc, _ = run_part(part, tier, seed, replay, report_pid=pid)
        return rc
    rcs = []
    evs = []
    for part in parts:
        rc, ev = run_part(part, tier, seed, None, report_pid=pid)
        rcs.append(rc)
        evs.append((part, ev))
    if len(evs) == 1:
        evidence = evs[0][1]
        evidence["property_id"] = pid
    else:
        cov = {"obligations": 0, "discharged": 0, "evaluations": 0, "distinct_nontrivial": 0,
               "traces_validated_against_impl": 0, "samples": [], "theorems": [], "trusted_base": [],
               "broken_obligations": [], "parts": {}, "exhaustive": False}
        for part, ev in evs:
            c = ev["coverage"]
            for k in ("obligations", "discharged", "evaluations", "distinct_nontrivial", "traces_validated_against_impl"):
                cov[k] += c.get(k, 0)
            cov["samples"] += c.get("samples", [])[:5]
            cov["theorems"] += c.get("theorems", [])
            cov["broken_obligations"] += c.get("broken_obligations", [])
            for t in c.get("trusted_base", []):
                if t not in cov["trusted_base"]:
                    cov["trusted_base"].append(t)
            cov["parts"][part] = {k: v for k, v in c.items() if k not in ("samples", "theorems", "trusted_base")}
        cov["checker_cmd"] = "; ".join(ev["coverage"]["checker_cmd"] for _, ev in evs)
        cov["rule"] = " || ".join(f"[{part}] " + ev["coverage"].get("rule", "") for part, ev in evs)
        evidence = {"property_id": pid, "tier": tier, "seed": seed, "level": evs[0][1]["level"], "coverage": cov,
                    "assumptions": sorted({a for _, ev in evs for a in ev.get("assumptions", [])}),
                    "wall_s": round(time.time() - t0, 2), "violations": sum(ev.get("violations", 0) for _, ev in evs)}
    EVID.mkdir(exist_ok=True)
    (EVID / f"{pid}.json").write_text(json.dumps(evidence, indent=1))
    return 1 if any(rcs) else 0


def search_failing(prop, exes, known, seed, tier, budget_s=90):
    """targeted search for an input on which impl differs from the property's reference"""
    t0 = time.time()
    known_ops = {o for k in known for o in k.get("ops", [])}
    for k in range(1, 6):
        if time.time() - t0 > budget_s:
            break
        rng = random.Random((seed + k) * 7919 + 5)
        try:
            cases = list(prop.gen("search", rng))
        except Exception:
            cases = list(prop.gen("thorough", rng))
        for h, exe in exes:
            rc, il, _ = run_bin(exe, cases, args=h.get("args", ()), timeout=600)
            best = None
            for c, line in zip(cases, il):
                e, s = split_legs(line)
                e = e.split(" # ", 1)[0]      # free-form detail after " # " is not compared (same rule as analyse())
                s = s.split(" # ", 1)[0]
                if s != "na" and e != s and c.split(" ", 1)[0] not in known_ops:
                    if best is None or len(c) < len(best[0]):
                        best = (c, e, s)
            if best:
                return {"case": best[0], "impl": best[1], "reference": best[2], "variant": h["name"],
                        "search_round": k}
    return None


def main(argv):
    import argparse
    ap = argparse.ArgumentParser()
    ap.add_argument("pid")
    ap.add_argument("--tier", default=os.environ.get("VERIF_TIER", "quick"))
    ap.add_argument("--replay", default=None)
    a = ap.parse_args(argv)
    seed = int(os.environ.get("VERIF_SEED", "0") or 0)
    rc = run_check(a.pid, a.tier, seed, a.replay)
    return rc
