#!/usr/bin/env python3
"""Regenerates MANIFEST.json from props/<ID>/manifest.json fragments (one per claimed property)
and the list of all property ids; unclaimed ones go under not_applicable with their reason
from not_claimed.json."""
import json
from pathlib import Path

ROOT = Path(__file__).resolve().parent
props = [json.loads(l) for l in (ROOT / "properties.jsonl").read_text().splitlines() if l.strip()]
ids = [p["id"] for p in props]
not_claimed = json.loads((ROOT / "not_claimed.json").read_text()) if (ROOT / "not_claimed.json").exists() else {}
checks = []
na = []
for pid in ids:
    frag = ROOT / "props" / pid / "manifest.json"
    if frag.exists():
        f = json.loads(frag.read_text())
        c = {
            "property_id": pid,
            "quick_cmd": f"/verif/check {pid} --tier quick",
            "thorough_cmd": f"/verif/check {pid} --tier thorough",
            "evidence_file": f"/verif/evidence/{pid}.json",
            "replay_cmd_template": f"/verif/check {pid} --replay {{path}}",
            "engine": "coq-proof+correspondence",
            "level_claimed": f["level_claimed"],
            "level_note": f["level_note"],
            "technique": f.get("technique", "machine-checked proof in Coq 8.16 about an executable Gallina model + differential correspondence model<->code"),
        }
        checks.append(c)
    else:
        na.append({"property_id": pid, "reason": not_claimed.get(pid, "not yet covered by a Coq model and correspondence check in this development (work in progress; see DESIGN.md)")})
m = {
    "version": 1,
    "setup_cmd": "make -C /verif setup",
    "hooks": {
        "guard": "TETL_VERIF",
        "enable": "no source hooks are needed: harnesses observe the library through its public API, instrumented element/callable types and the library's own TETL_ENABLE_CUSTOM_ASSERT_HANDLER",
        "baseline_off_cmd": "cmake --build /repo/_build -j16 && ctest --test-dir /repo/_build -j8 --timeout 900",
        "source_commits": [],
        "add_only": True,
    },
    "engines": [{
        "name": "coq-proof+correspondence",
        "path": "/verif/check",
        "serves_properties": [c["property_id"] for c in checks],
        "kind_free_text": "Coq 8.16 theorems about executable Gallina models (coq/<ID>/), models extracted to OCaml (ExtrOcamlBasic) and run against C++ harnesses compiled from /repo/include on every run (props/<ID>/), see DESIGN.md",
    }],
    "checks": checks,
    "not_applicable": na,
    "notes": "Fix commits in /repo are listed in known_findings.json under 'fixed'. DESIGN.md section 7 states the trusted base.",
}
(ROOT / "MANIFEST.json").write_text(json.dumps(m, indent=1) + "\n")
print("claimed:", [c["property_id"] for c in checks])
