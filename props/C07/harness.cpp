// C07 harness: etl::variant / optional / expected / optional<T&> (impl leg) against
// std::variant / std::optional / std::expected (reference leg) driven by the same operation
// history.  Both legs run the SAME templated runner, instantiated with a library policy.
//
// case line:  <family.config> <n> { <opc> <t> <p> <q> } * n
//   opc  operation letter, t target object (0 = a, 1 = b), p/q operation arguments (0 if unused)
// leg:        ok { <state after step k> ; } * n <observers of the final state> life <ok|...>
#include "common.hpp"

#include "c07_types.hpp"

#include <expected>
#include <functional>
#include <optional>
#include <tuple>
#include <utility>
#include <variant>

#include <etl/expected.hpp>
#include <etl/optional.hpp>
#include <etl/utility.hpp>
#include <etl/variant.hpp>

using namespace vh;
using namespace c07;

// ------------------------------------------------------------------------- library policies
struct EtlLib {
    static constexpr bool is_etl = true;
    template <typename... Ts>
    using variant = etl::variant<Ts...>;
    template <typename T>
    using optional = etl::optional<T>;
    template <typename T, typename E>
    using expected = etl::expected<T, E>;
    static constexpr auto const& nullopt  = etl::nullopt;
    static constexpr auto const& in_place = etl::in_place;
    static constexpr auto const& unexpect = etl::unexpect;
    template <std::size_t I>
    static constexpr auto ipi()
    {
        return etl::in_place_index<I>;
    }
    template <typename T>
    static constexpr auto ipt()
    {
        return etl::in_place_type<T>;
    }
    template <std::size_t I, typename V>
    static auto get_if(V* v)
    {
        return etl::get_if<I>(v);
    }
    template <typename T, typename V>
    static auto get_if_t(V* v)
    {
        return etl::get_if<T>(v);
    }
    template <typename T, typename V>
    static auto holds(V const& v) -> bool
    {
        return etl::holds_alternative<T>(v);
    }
    template <typename F, typename... Vs>
    static auto visit(F&& f, Vs&&... vs) -> decltype(auto)
    {
        return etl::visit(std::forward<F>(f), std::forward<Vs>(vs)...);
    }
    template <typename T>
    static void swap(T& a, T& b)
    {
        etl::swap(a, b);
    }
    template <typename T>
    static auto make_optional(T&& v)
    {
        return etl::make_optional(std::forward<T>(v));
    }
    template <typename T, typename... A>
    static auto make_optional_t(A&&... a)
    {
        return etl::make_optional<T>(std::forward<A>(a)...);
    }
};

struct StdLib {
    static constexpr bool is_etl = false;
    template <typename... Ts>
    using variant = std::variant<Ts...>;
    template <typename T>
    using optional = std::optional<T>;
    template <typename T, typename E>
    using expected = std::expected<T, E>;
    static constexpr auto const& nullopt  = std::nullopt;
    static constexpr auto const& in_place = std::in_place;
    static constexpr auto const& unexpect = std::unexpect;
    template <std::size_t I>
    static constexpr auto ipi()
    {
        return std::in_place_index<I>;
    }
    template <typename T>
    static constexpr auto ipt()
    {
        return std::in_place_type<T>;
    }
    template <std::size_t I, typename V>
    static auto get_if(V* v)
    {
        return std::get_if<I>(v);
    }
    template <typename T, typename V>
    static auto get_if_t(V* v)
    {
        return std::get_if<T>(v);
    }
    template <typename T, typename V>
    static auto holds(V const& v) -> bool
    {
        return std::holds_alternative<T>(v);
    }
    template <typename F, typename... Vs>
    static auto visit(F&& f, Vs&&... vs) -> decltype(auto)
    {
        return std::visit(std::forward<F>(f), std::forward<Vs>(vs)...);
    }
    template <typename T>
    static void swap(T& a, T& b)
    {
        std::swap(a, b);
    }
    template <typename T>
    static auto make_optional(T&& v)
    {
        return std::make_optional(std::forward<T>(v));
    }
    template <typename T, typename... A>
    static auto make_optional_t(A&&... a)
    {
        return std::make_optional<T>(std::forward<A>(a)...);
    }
};

struct Step {
    char opc;
    int t;
    long p;
    long q;
};

static auto read_steps(Toks& in) -> std::vector<Step>
{
    auto n = in.num();
    std::vector<Step> s;
    for (i64 k = 0; k < n; ++k) {
        auto const& o = in.str();
        Step st{};
        st.opc = o.empty() ? '?' : o[0];
        st.t   = static_cast<int>(in.num());
        st.p   = in.num();
        st.q   = in.num();
        s.push_back(st);
    }
    return s;
}

static void life_report(Out& o)
{
    o.tok("life");
    if (g_life.live.empty() && g_life.over == 0 && g_life.dead == 0) {
        o.tok("ok");
        return;
    }
    if (!g_life.live.empty()) { o.tok("leak").num(static_cast<i64>(g_life.live.size())); }
    if (g_life.dead != 0) { o.tok("double-destroy").num(g_life.dead); }
    if (g_life.over != 0) { o.tok("construct-over-live").num(g_life.over); }
}

template <typename F>
static void six(Out& o, F&& rel)
{
    // rel(k) for k = 0..5 : == != < <= > >=
    std::string s;
    for (int k = 0; k < 6; ++k) { s += rel(k) ? '1' : '0'; }
    o.tok(s);
}

template <typename A, typename B>
static auto rel6(int k, A const& a, B const& b) -> bool
{
    switch (k) {
    case 0: return a == b;
    case 1: return a != b;
    case 2: return a < b;
    case 3: return a <= b;
    case 4: return a > b;
    default: return a >= b;
    }
}

// ------------------------------------------------------------------------- variant
template <typename Lib, typename... Ts>
struct VarRunner {
    using V                        = typename Lib::template variant<Ts...>;
    static constexpr std::size_t N = sizeof...(Ts);
    using Tup                      = std::tuple<Ts...>;
    template <std::size_t I>
    using alt = std::tuple_element_t<I, Tup>;
    // the by-type API (emplace<T>, in_place_type<T>, holds_alternative<T>, get_if<T>) is ill-formed for an
    // alternative type that occurs more than once (families var.R, var.Q)
    template <std::size_t I>
    static constexpr bool uniq = ((std::is_same_v<alt<I>, Ts> ? 1 : 0) + ...) == 1;

    template <typename F>
    static void with_index(std::size_t i, F&& f)
    {
        [&]<std::size_t... I>(std::index_sequence<I...>) {
            ((i == I ? (f(std::integral_constant<std::size_t, I>{}), 0) : 0), ...);
        }(std::make_index_sequence<N>{});
    }

    template <typename F>
    static void with_src(long s, F&& f)
    {
        [&]<int... S>(std::integer_sequence<int, S...>) {
            ((s == S ? (f(std::type_identity<typename type_of_id<S>::type>{}), 0) : 0), ...);
        }(source_ids{});
    }

    static void state(Out& o, V const& x)
    {
        o.num(static_cast<i64>(x.index()));
        long val = -555;
        with_index(x.index(), [&](auto I) {
            auto* p = Lib::template get_if<decltype(I)::value>(&x);
            val     = p != nullptr ? enc(*p) : -556;
        });
        o.num(val);
    }

    static void observers(Out& o, V& a, V& b)
    {
        // holds_alternative / get_if masks (const by index, const by type, non-const by index and
        // by type), single visit, relations both orders, 2- and 3-variant visit
        for (V* x : {&a, &b}) {
            std::string h;
            std::string g;
            V const* cx = x;
            [&]<std::size_t... I>(std::index_sequence<I...>) {
                auto holds_c = [&]<std::size_t J>(std::integral_constant<std::size_t, J>) -> char {
                    if constexpr (uniq<J>) { return Lib::template holds<alt<J>>(*cx) ? '1' : '0'; } else { return '-'; }
                };
                auto get_t = [&]<std::size_t J>(std::integral_constant<std::size_t, J>, auto* pv) -> char {
                    if constexpr (uniq<J>) { return Lib::template get_if_t<alt<J>>(pv) != nullptr ? '1' : '0'; } else { return '-'; }
                };
                ((h += holds_c(std::integral_constant<std::size_t, I>{})), ...);
                ((g += Lib::template get_if<I>(cx) != nullptr ? '1' : '0'), ...);
                ((g += get_t(std::integral_constant<std::size_t, I>{}, cx)), ...);
                ((g += Lib::template get_if<I>(x) != nullptr ? '1' : '0'), ...);
                ((g += get_t(std::integral_constant<std::size_t, I>{}, x)), ...);
            }(std::make_index_sequence<N>{});
            o.tok("h").tok(h).tok(g);
            Lib::visit([&](auto const& v) { o.tok("v").num(tid<std::remove_cvref_t<decltype(v)>>).num(enc(v)); }, *cx);
        }
        six(o, [&](int k) { return rel6(k, std::as_const(a), std::as_const(b)); });
        six(o, [&](int k) { return rel6(k, std::as_const(b), std::as_const(a)); });
        {
            // the visitor receives the active alternative with the value category of the variant expression
            // (the visitor does not move from its argument, so a and b are unchanged)
            std::string cats;
            auto fc = [&](auto&&... v) {
                ((cats += std::is_lvalue_reference_v<decltype(v)>
                              ? (std::is_const_v<std::remove_reference_t<decltype(v)>> ? 'c' : 'l')
                              : (std::is_const_v<std::remove_reference_t<decltype(v)>> ? 'k' : 'r')),
                    ...);
            };
            Lib::visit(fc, a);
            Lib::visit(fc, std::as_const(a));
            Lib::visit(fc, std::move(a));
            Lib::visit(fc, std::move(std::as_const(a)));
            Lib::visit(fc, std::move(a), std::as_const(b));
            o.tok("vc").tok(cats);
        }
        {
            // [variant.visit]: visit RETURNS what the visitor returns - a reference stays a reference (decltype(auto)):
            // is the result an lvalue / rvalue reference, does it designate the object the visitor returned (the int
            // inside the active class alternative, else a static), and does a write through it reach that object
            static int sink = 0;
            auto fr = [](auto& v) -> int& {
                if constexpr (is_class_alt<std::remove_cvref_t<decltype(v)>>) { return v.v; } else { return sink; }
            };
            auto fx = [](auto&&) -> int&& { return std::move(sink); };
            o.tok("vr").b(std::is_lvalue_reference_v<decltype(Lib::visit(fr, a))>);
            o.b(std::is_rvalue_reference_v<decltype(Lib::visit(fx, a))>);
            o.b(std::is_lvalue_reference_v<decltype(Lib::visit([](auto&, auto&) -> int& { return sink; }, a, b))>);
            int* want = &sink;
            with_index(a.index(), [&](auto I) {
                if constexpr (is_class_alt<alt<decltype(I)::value>>) {
                    auto* p = Lib::template get_if<decltype(I)::value>(&a);
                    if (p != nullptr) { want = &p->v; }
                }
            });
            int const before = *want;
            auto&& r         = Lib::visit(fr, a);
            o.b(&r == want);
            r = 4242; // through the reference (or into a temporary copy)
            o.b(*want == 4242);
            *want = before;
        }
        {
            // get_if of a null pointer is a null pointer ([variant.get]); visit of no variant at all calls f();
            // etl::visit also accepts a NON-variant argument and hands it through as a one-alternative operand
            // (std::visit does not: the reference leg calls the visitor with the active alternative and the value);
            // etl::swap / std::swap of the arrays {a, b} and {b, a} swaps element-wise (the array overload of swap.hpp)
            V* np        = nullptr;
            V const* cnp = nullptr;
            o.tok("gn").b(Lib::template get_if<0>(np) == nullptr).b(Lib::template get_if<N - 1>(cnp) == nullptr);
            o.num(Lib::visit([] { return 7; }));
            auto fn = [&](auto const& l, long k, auto const& r) {
                o.tok("vn").num(tid<std::remove_cvref_t<decltype(l)>>).num(enc(l)).num(k);
                o.num(tid<std::remove_cvref_t<decltype(r)>>).num(enc(r));
            };
            if constexpr (Lib::is_etl) {
                etl::visit(fn, std::as_const(a), 7L, std::as_const(b));
            } else {
                std::visit([&](auto const& l, auto const& r) { fn(l, 7L, r); }, std::as_const(a), std::as_const(b));
            }
            V arr1[2] = {a, b};
            V arr2[2] = {b, a};
            Lib::swap(arr1, arr2);
            o.tok("sa");
            state(o, arr1[0]);
            state(o, arr1[1]);
            state(o, arr2[0]);
            state(o, arr2[1]);
        }
        Lib::visit(
            [&](auto const& l, auto const& r) {
                o.tok("v2").num(tid<std::remove_cvref_t<decltype(l)>>).num(enc(l));
                o.num(tid<std::remove_cvref_t<decltype(r)>>).num(enc(r));
            },
            std::as_const(a), std::as_const(b));
        Lib::visit(
            [&](auto const& l, auto const& r, auto const& m) {
                o.tok("v3").num(tid<std::remove_cvref_t<decltype(l)>>).num(enc(l));
                o.num(tid<std::remove_cvref_t<decltype(r)>>).num(enc(r));
                o.num(tid<std::remove_cvref_t<decltype(m)>>).num(enc(m));
            },
            std::as_const(b), std::as_const(a), std::as_const(b));
    }

    static void run(Out& o, std::vector<Step> const& steps)
    {
        g_life.reset();
        {
            V a{};
            V b{};
            o.tok("ok");
            for (auto const& st : steps) {
                V& x      = st.t == 0 ? a : b;
                V& y      = st.t == 0 ? b : a;
                bool done = false;
                switch (st.opc) {
                case 'E': // emplace<I>(args)
                    with_index(static_cast<std::size_t>(st.p), [&](auto I) {
                        auto& r = x.template emplace<decltype(I)::value>(raw<alt<decltype(I)::value>>(st.q));
                        o.tok("r").num(enc(r));
                        done = true;
                    });
                    break;
                case 'T': // emplace<T>(args)
                    with_index(static_cast<std::size_t>(st.p), [&](auto I) {
                        if constexpr (uniq<decltype(I)::value>) {
                            auto& r = x.template emplace<alt<decltype(I)::value>>(raw<alt<decltype(I)::value>>(st.q));
                            o.tok("r").num(enc(r));
                        } else {
                            o.tok("nc");
                        }
                        done = true;
                    });
                    break;
                case 'I': // in_place_index constructor, then move assignment
                    with_index(static_cast<std::size_t>(st.p), [&](auto I) {
                        x    = V(Lib::template ipi<decltype(I)::value>(), raw<alt<decltype(I)::value>>(st.q));
                        done = true;
                    });
                    break;
                case 'Y': // in_place_type constructor, then move assignment
                    with_index(static_cast<std::size_t>(st.p), [&](auto I) {
                        if constexpr (uniq<decltype(I)::value>) {
                            x = V(Lib::template ipt<alt<decltype(I)::value>>(), raw<alt<decltype(I)::value>>(st.q));
                        } else {
                            o.tok("nc");
                        }
                        done = true;
                    });
                    break;
                case 'V': // converting assignment from a value of source type p
                    with_src(st.p, [&](auto S) {
                        using Src = typename decltype(S)::type;
                        if constexpr (std::is_assignable_v<V&, Src>) {
                            x = dec<Src>(st.q);
                        } else {
                            o.tok("nc");
                        }
                        done = true;
                    });
                    break;
                case 'W': // converting constructor from a value of source type p, then move assignment
                    with_src(st.p, [&](auto S) {
                        using Src = typename decltype(S)::type;
                        if constexpr (std::is_constructible_v<V, Src>) {
                            x = V(dec<Src>(st.q));
                        } else {
                            o.tok("nc");
                        }
                        done = true;
                    });
                    break;
                case 'L': { // converting assignment from an lvalue of the alternative type p (copy)
                    with_index(static_cast<std::size_t>(st.p), [&](auto I) {
                        alt<decltype(I)::value> const src = dec<alt<decltype(I)::value>>(st.q);
                        if constexpr (std::is_assignable_v<V&, alt<decltype(I)::value> const&>) {
                            x = src;
                        } else {
                            o.tok("nc");
                        }
                        done = true;
                    });
                    break;
                }
                case 'C':
                    x    = y;
                    done = true;
                    break;
                case 'M':
                    x    = std::move(y);
                    done = true;
                    break;
                case 'K': {
                    V tmp(y);
                    x    = std::move(tmp);
                    done = true;
                    break;
                }
                case 'J': {
                    V tmp(std::move(y));
                    x    = std::move(tmp);
                    done = true;
                    break;
                }
                case 'S':
                    Lib::swap(a, b);
                    done = true;
                    break;
                case 'F': {
                    V const& alias = x;
                    x              = alias;
                    done           = true;
                    break;
                }
                case 'G': {
                    V& alias = x;
                    x        = std::move(alias);
                    done     = true;
                    break;
                }
                case 'A': // assign the variant its own contained value (aliasing converting assignment)
                    with_index(x.index(), [&](auto I) {
                        auto const* p = Lib::template get_if<decltype(I)::value>(&x);
                        if constexpr (std::is_assignable_v<V&, alt<decltype(I)::value> const&>) {
                            if (p != nullptr) { x = *p; }
                        } else {
                            o.tok("nc");
                        }
                        done = true;
                    });
                    break;
                case 'D':
                    x    = V();
                    done = true;
                    break;
                default: break;
                }
                if (!done) { o.tok("bad-step"); }
                state(o, a);
                state(o, b);
                six(o, [&](int k) { return rel6(k, a, b); });
                o.tok(";");
            }
            observers(o, a, b);
        }
        life_report(o);
    }
};

template <typename... Ts>
static void run_variant(Toks& in, Out& impl, Out& ref)
{
    auto steps = read_steps(in);
    guarded(impl, [&](Out& o) { VarRunner<EtlLib, Ts...>::run(o, steps); });
    VarRunner<StdLib, Ts...>::run(ref, steps);
}

// ------------------------------------------------------------------------- optional
template <typename Lib, typename T, typename U>
struct OptRunner {
    using O  = typename Lib::template optional<T>;
    using OU = typename Lib::template optional<U>;
    using OL = typename Lib::template optional<long>;

    template <typename X>
    static void state(Out& o, X const& x)
    {
        o.b(x.has_value());
        o.num(x.has_value() ? enc(*x) : -1);
    }

    static void pr(Out& o, OL const& r) { o.num(r.has_value() ? *r : -1); }

    static void observers(Out& o, O& a, O const& b, OU const& c)
    {
        auto f = [](auto&& v) -> OL { return enc(v) == 2 ? OL{} : OL{enc(v) * 10}; };
        auto g = [] { return O(dec<T>(42)); };
        auto h = [] { return O(); };
        // bool conversion, operator->, value_or, and_then, or_else (lvalue, const lvalue, rvalue)
        o.tok("o").b(static_cast<bool>(a)).b(a.has_value() && a.operator->() != nullptr);
        o.num(a.has_value() ? enc(*a.operator->()) : -1);
        o.num(enc(a.value_or(dec<T>(7)))).num(enc(std::as_const(a).value_or(dec<U>(8)))).num(enc(O(a).value_or(dec<T>(9))));
        pr(o, a.and_then(f));
        pr(o, std::as_const(a).and_then(f));
        pr(o, O(a).and_then(f));
        state(o, std::as_const(a).or_else(g));
        state(o, O(a).or_else(g));
        state(o, std::as_const(a).or_else(h));
        // the ref-qualified overloads: (1) the value category the callee of and_then receives for the four object
        // categories; (2) what a non-const / const rvalue optional is left with by and_then (callee taking its
        // parameter by value), or_else, value_or and T x = *obj
        {
            std::string cats;
            auto fc = [&](auto&& v) -> OL {
                using V          = decltype(v);
                constexpr bool c = std::is_const_v<std::remove_reference_t<V>>;
                constexpr bool l = std::is_lvalue_reference_v<V>;
                cats += l ? (c ? 'c' : 'l') : (c ? 'k' : 'r');
                return OL{enc(v)};
            };
            O t(a);
            (void)t.and_then(fc);
            (void)std::as_const(t).and_then(fc);
            (void)std::move(t).and_then(fc);
            (void)std::move(std::as_const(t)).and_then(fc);
            if (cats.empty()) { cats = "----"; }
            o.tok("q").tok(cats);
        }
        auto fv = [](T v) -> OL { return enc(v) == 2 ? OL{} : OL{enc(v) * 10}; };
        {
            O t(a);
            pr(o, std::move(t).and_then(fv));
            state(o, t);
        }
        {
            O t(a);
            pr(o, std::move(std::as_const(t)).and_then(fv));
            state(o, t);
        }
        {
            O t(a);
            pr(o, t.and_then(fv));
            state(o, t);
        }
        {
            O t(a);
            state(o, std::move(t).or_else(g));
            state(o, t);
        }
        {
            O t(a);
            state(o, std::move(std::as_const(t)).or_else(g));
            state(o, t);
        }
        {
            O t(a);
            o.num(enc(std::move(t).value_or(dec<T>(7))));
            state(o, t);
        }
        {
            O t(a);
            o.num(enc(std::move(std::as_const(t)).value_or(dec<T>(7))));
            state(o, t);
        }
        {
            O t(a);
            if (t.has_value()) {
                T x = *std::move(t);
                o.num(enc(x));
            } else {
                o.num(-1);
            }
            state(o, t);
        }
        {
            O t(a);
            if (t.has_value()) {
                T x = *std::move(std::as_const(t));
                o.num(enc(x));
            } else {
                o.num(-1);
            }
            state(o, t);
        }
        {
            O t(a);
            if (t.has_value()) {
                T x = *t;
                o.num(enc(x));
            } else {
                o.num(-1);
            }
            state(o, t);
        }
        // relations: optional/optional both orders, optional/nullopt (the forms both provide),
        // optional/value both orders for 3 values of T and of U, mixed optional<T>/optional<U>
        o.tok("r");
        six(o, [&](int k) { return rel6(k, std::as_const(a), b); });
        six(o, [&](int k) { return rel6(k, b, std::as_const(a)); });
        {
            std::string s;
            s += (a == Lib::nullopt) ? '1' : '0';
            s += (Lib::nullopt == a) ? '1' : '0';
            s += (a != Lib::nullopt) ? '1' : '0';
            s += (Lib::nullopt != a) ? '1' : '0';
            s += (a < Lib::nullopt) ? '1' : '0';
            s += (Lib::nullopt < a) ? '1' : '0';
            o.tok(s);
        }
        // a floating T/U pair is also compared with a NaN (unordered: the six operators become independent)
        constexpr bool fp = std::is_floating_point_v<T> && std::is_floating_point_v<U>;
        for (long v : {1L, 2L, 3L, fp ? NANV : 3L}) {
            T const tv = dec<T>(v);
            U const uv = dec<U>(v);
            six(o, [&](int k) { return rel6(k, std::as_const(a), tv); });
            six(o, [&](int k) { return rel6(k, tv, std::as_const(a)); });
            six(o, [&](int k) { return rel6(k, std::as_const(a), uv); });
            six(o, [&](int k) { return rel6(k, uv, std::as_const(a)); });
        }
        six(o, [&](int k) { return rel6(k, std::as_const(a), c); });
        six(o, [&](int k) { return rel6(k, c, std::as_const(a)); });
    }

    static void run(Out& o, std::vector<Step> const& steps)
    {
        g_life.reset();
        std::string detail;
        {
            O a;
            O b{Lib::nullopt};
            OU c;
            o.tok("ok");
            for (auto const& st : steps) {
                O& x      = st.t == 0 ? a : b;
                O& y      = st.t == 0 ? b : a;
                bool done = true;
                switch (st.opc) {
                case 'e': {
                    auto& r = x.emplace(raw<T>(st.p));
                    o.tok("r").num(enc(r));
                    break;
                }
                case 'a': x = dec<T>(st.p); break;
                case 'u': x = dec<U>(st.p); break;
                case 'w': { // assignment from lvalues
                    T const tv = dec<T>(st.p);
                    x          = tv;
                    break;
                }
                case 'n': x = Lib::nullopt; break;
                case 'b': x = {}; break;
                case 'r': x.reset(); break;
                case 'c': x = y; break;
                case 'm': x = std::move(y); break;
                case 'k': {
                    O tmp(y);
                    x = std::move(tmp);
                    break;
                }
                case 'l': {
                    O tmp(std::move(y));
                    x = std::move(tmp);
                    break;
                }
                case 's': a.swap(b); break;
                case 'S': Lib::swap(a, b); break;
                case 'f': {
                    O const& alias = x;
                    x              = alias;
                    break;
                }
                case 'g': {
                    O& alias = x;
                    x        = std::move(alias);
                    break;
                }
                case 'h': // assign the optional its own contained value
                    if (x.has_value()) { x = *x; }
                    break;
                case 'v': // assign the optional a value that lives INSIDE its contained object (operator=(U&&), U = int&)
                    if constexpr (std::is_same_v<T, Tracked>) {
                        if (x.has_value()) { x = x->v; }
                    } else {
                        done = false;
                    }
                    break;
                case 'x': x = std::as_const(c); break;
                case 'y': x = std::move(c); break;
                case 'X': {
                    O tmp(std::as_const(c));
                    x = std::move(tmp);
                    break;
                }
                case 'Y': {
                    O tmp(std::move(c));
                    x = std::move(tmp);
                    break;
                }
                case 'E': c.emplace(raw<U>(st.p)); break;
                case 'R': c.reset(); break;
                case 'i': x = O(Lib::in_place, raw<T>(st.p)); break;
                case 'j': x = O(dec<T>(st.p)); break;
                case 'J': x = O(dec<U>(st.p)); break;
                case 'p': { // make_optional(value): optional<decay_t<T>>
                    auto made = Lib::make_optional(dec<T>(st.p));
                    static_assert(std::is_same_v<decltype(made), O>);
                    x = std::move(made);
                    break;
                }
                case 'P': { // make_optional<T>(args...): in-place
                    auto made = Lib::template make_optional_t<T>(raw<T>(st.p));
                    static_assert(std::is_same_v<decltype(made), O>);
                    x = std::move(made);
                    break;
                }
                case 'q': { // make_optional from an lvalue (copies)
                    T const tv = dec<T>(st.p);
                    x          = Lib::make_optional(tv);
                    break;
                }
                case 'd': x = O(); break;
                case 'D': x = O(Lib::nullopt); break;
                default: done = false; break;
                }
                if (!done) { o.tok("bad-step"); }
                state(o, a);
                state(o, b);
                state(o, c);
                six(o, [&](int k) { return rel6(k, std::as_const(a), std::as_const(b)); });
                o.tok(";");
            }
            observers(o, a, b, c);
            observers(o, b, a, c);
            if constexpr (Lib::is_etl) {
                // etl only (UB in std): operator-> of a disengaged optional returns nullptr
                detail += (a.operator->() == nullptr) ? '1' : '0';
                detail += (std::as_const(a).operator->() == nullptr) ? '1' : '0';
                detail += (b.operator->() == nullptr) ? '1' : '0';
                detail += (std::as_const(b).operator->() == nullptr) ? '1' : '0';
            }
        }
        life_report(o);
        if constexpr (Lib::is_etl) { o.tok("#").tok(detail); }
    }
};

template <typename T, typename U>
static void run_optional(Toks& in, Out& impl, Out& ref)
{
    auto steps = read_steps(in);
    guarded(impl, [&](Out& o) { OptRunner<EtlLib, T, U>::run(o, steps); });
    OptRunner<StdLib, T, U>::run(ref, steps);
}

// ------------------------------------------------------------------------- expected
template <typename Lib, typename T, typename E>
struct ExpRunner {
    using X  = typename Lib::template expected<T, E>;
    using XL = typename Lib::template expected<long, E>;
    using XE = typename Lib::template expected<T, long>;

    template <typename Y>
    static void state(Out& o, Y const& x)
    {
        o.b(x.has_value());
        o.num(x.has_value() ? enc(*x) : enc(x.error()));
    }

    // and_then / or_else: etl provides them; libstdc++ 12's std::expected does not (P2505 came
    // later), so the reference leg spells out the standard's definition [expected.object.monadic]
    template <typename Y, typename F>
    static auto and_then(Y&& x, F&& f)
    {
        if constexpr (Lib::is_etl) {
            return std::forward<Y>(x).and_then(std::forward<F>(f));
        } else {
            using R = std::remove_cvref_t<std::invoke_result_t<F, decltype(*std::forward<Y>(x))>>;
            if (x.has_value()) { return std::invoke(std::forward<F>(f), *std::forward<Y>(x)); }
            return R(std::unexpect, std::forward<Y>(x).error());
        }
    }
    template <typename Y, typename F>
    static auto or_else(Y&& x, F&& f)
    {
        if constexpr (Lib::is_etl) {
            return std::forward<Y>(x).or_else(std::forward<F>(f));
        } else {
            using R = std::remove_cvref_t<std::invoke_result_t<F, decltype(std::forward<Y>(x).error())>>;
            if (x.has_value()) { return R(std::in_place, *std::forward<Y>(x)); }
            return std::invoke(std::forward<F>(f), std::forward<Y>(x).error());
        }
    }

    static void observers(Out& o, X& a)
    {
        auto f = [](auto&& v) -> XL {
            return enc(v) == 2 ? XL(Lib::unexpect, raw<E>(55)) : XL(Lib::in_place, enc(v) * 10);
        };
        auto g = [](auto&& e) -> XE {
            return enc(e) == 2 ? XE(Lib::in_place, raw<T>(66)) : XE(Lib::unexpect, enc(e) * 10);
        };
        o.tok("o").b(static_cast<bool>(a)).b(a.has_value() && a.operator->() != nullptr);
        o.num(enc(a.value_or(dec<T>(7)))).num(enc(std::as_const(a).value_or(dec<T>(8)))).num(enc(X(a).value_or(dec<T>(9))));
        state(o, and_then(a, f));
        state(o, and_then(std::as_const(a), f));
        state(o, and_then(X(a), f));
        state(o, or_else(a, g));
        state(o, or_else(std::as_const(a), g));
        state(o, or_else(X(a), g));
        // [expected.object.monadic]: the & / const& overloads hand **this / error() on as lvalues, the && / const&&
        // overloads as std::move(...).  (1) the value category the callee receives, for the four object categories
        std::string cats;
        auto cat_of = [&]<typename V>(std::type_identity<V>) {
            constexpr bool c = std::is_const_v<std::remove_reference_t<V>>;
            constexpr bool l = std::is_lvalue_reference_v<V>;
            cats += l ? (c ? 'c' : 'l') : (c ? 'k' : 'r');
        };
        auto fc = [&](auto&& v) -> XL {
            cat_of(std::type_identity<decltype(v)>{});
            return XL(Lib::in_place, enc(v));
        };
        auto gc = [&](auto&& e) -> XE {
            cat_of(std::type_identity<decltype(e)>{});
            return XE(Lib::unexpect, enc(e));
        };
        {
            X t(a);
            auto n0 = cats.size();
            (void)and_then(t, fc);
            if (cats.size() == n0) { cats += '-'; }
            n0 = cats.size();
            (void)and_then(std::as_const(t), fc);
            if (cats.size() == n0) { cats += '-'; }
            n0 = cats.size();
            (void)and_then(std::move(t), fc); // fc does not move from its argument: t is unchanged when it has a value
            if (cats.size() == n0) { cats += '-'; }
            n0 = cats.size();
            (void)and_then(std::move(std::as_const(t)), fc);
            if (cats.size() == n0) { cats += '-'; }
        }
        {
            X t(a);
            auto n0 = cats.size();
            (void)or_else(t, gc);
            if (cats.size() == n0) { cats += '-'; }
            n0 = cats.size();
            (void)or_else(std::as_const(t), gc);
            if (cats.size() == n0) { cats += '-'; }
            n0 = cats.size();
            (void)or_else(std::move(t), gc);
            if (cats.size() == n0) { cats += '-'; }
            n0 = cats.size();
            (void)or_else(std::move(std::as_const(t)), gc);
            if (cats.size() == n0) { cats += '-'; }
        }
        o.tok("q").tok(cats);
        // (2) what an rvalue expected is left with: a callee that takes its parameter by value move-constructs it
        // from an rvalue **this; the result's error / value is move-constructed from an rvalue error() / **this
        auto fv = [](T v) -> XL { return enc(v) == 2 ? XL(Lib::unexpect, raw<E>(55)) : XL(Lib::in_place, enc(v) * 10); };
        auto gv = [](E e) -> XE { return enc(e) == 2 ? XE(Lib::in_place, raw<T>(66)) : XE(Lib::unexpect, enc(e) * 10); };
        {
            X t(a);
            state(o, and_then(std::move(t), fv));
            state(o, t);
        }
        {
            X t(a);
            state(o, and_then(std::move(std::as_const(t)), fv));
            state(o, t);
        }
        {
            X t(a);
            state(o, or_else(std::move(t), gv));
            state(o, t);
        }
        {
            X t(a);
            state(o, or_else(std::move(std::as_const(t)), gv));
            state(o, t);
        }
        {
            X t(a);
            state(o, and_then(t, fv)); // lvalue: copies
            state(o, t);
            state(o, or_else(t, gv));
            state(o, t);
        }
        // (3) value_or (const& / &&), T x = *obj, E x = obj.error() on a non-const rvalue, a const rvalue, an lvalue
        {
            X t(a);
            o.num(enc(std::move(t).value_or(dec<T>(7))));
            state(o, t);
        }
        {
            X t(a);
            o.num(enc(std::move(std::as_const(t)).value_or(dec<T>(7))));
            state(o, t);
        }
        auto take = [&](auto&& obj, X const& t) {
            if (t.has_value()) {
                T x = *std::forward<decltype(obj)>(obj);
                o.num(enc(x));
            } else {
                E x = std::forward<decltype(obj)>(obj).error();
                o.num(enc(x));
            }
            state(o, t);
        };
        {
            X t(a);
            take(std::move(t), t);
        }
        {
            X t(a);
            take(std::move(std::as_const(t)), t);
        }
        {
            X t(a);
            take(t, t);
        }
    }

    static void run(Out& o, std::vector<Step> const& steps)
    {
        g_life.reset();
        std::string detail;
        {
            X a{};
            X b(Lib::unexpect, raw<E>(0));
            o.tok("ok");
            for (auto const& st : steps) {
                X& x      = st.t == 0 ? a : b;
                X& y      = st.t == 0 ? b : a;
                bool done = true;
                switch (st.opc) {
                case 'v': x = X(Lib::in_place, raw<T>(st.p)); break;
                case 'u': x = X(Lib::unexpect, raw<E>(st.p)); break;
                case 'e': {
                    auto& r = x.emplace(raw<T>(st.p));
                    o.tok("r").num(enc(r));
                    break;
                }
                case 'c': x = y; break;
                case 'm': x = std::move(y); break;
                case 'k': {
                    X tmp(y);
                    x = std::move(tmp);
                    break;
                }
                case 'l': {
                    X tmp(std::move(y));
                    x = std::move(tmp);
                    break;
                }
                case 'f': {
                    X const& alias = x;
                    x              = alias;
                    break;
                }
                case 'g': {
                    X& alias = x;
                    x        = std::move(alias);
                    break;
                }
                case 'd': x = X(); break;
                default: done = false; break;
                }
                if (!done) { o.tok("bad-step"); }
                state(o, a);
                state(o, b);
                o.tok(";");
            }
            observers(o, a);
            observers(o, b);
            if constexpr (Lib::is_etl) {
                // etl only (UB in std): operator-> of an expected without value returns nullptr
                detail += (a.operator->() == nullptr) ? '1' : '0';
                detail += (std::as_const(a).operator->() == nullptr) ? '1' : '0';
                detail += (b.operator->() == nullptr) ? '1' : '0';
                detail += (std::as_const(b).operator->() == nullptr) ? '1' : '0';
            }
        }
        life_report(o);
        if constexpr (Lib::is_etl) { o.tok("#").tok(detail); }
    }
};

template <typename T, typename E>
static void run_expected(Toks& in, Out& impl, Out& ref)
{
    auto steps = read_steps(in);
    guarded(impl, [&](Out& o) { ExpRunner<EtlLib, T, E>::run(o, steps); });
    ExpRunner<StdLib, T, E>::run(ref, steps);
}

// ------------------------------------------------------------------------- unexpected
template <bool Etl, typename E, typename E2>
struct UnexRunner {
    using X  = std::conditional_t<Etl, etl::unexpected<E>, std::unexpected<E>>;
    using X2 = std::conditional_t<Etl, etl::unexpected<E2>, std::unexpected<E2>>;

    static void run(Out& o, std::vector<Step> const& steps)
    {
        g_life.reset();
        {
            X a(raw<E>(0));
            X b(raw<E>(0));
            X2 c(raw<E2>(0));
            o.tok("ok");
            for (auto const& st : steps) {
                X& x      = st.t == 0 ? a : b;
                X& y      = st.t == 0 ? b : a;
                bool done = true;
                switch (st.opc) {
                case 'v': x = X(raw<E>(st.p)); break;
                case 'i':
                    if constexpr (Etl) { x = X(etl::in_place, raw<E>(st.p)); } else { x = X(std::in_place, raw<E>(st.p)); }
                    break;
                case 'c': x = y; break;
                case 'm': x = std::move(y); break;
                case 's': a.swap(b); break;
                case 'S': swap(a, b); break; // the hidden friend, found by ADL
                case 'E': c = X2(raw<E2>(st.p)); break;
                default: done = false; break;
                }
                if (!done) { o.tok("bad-step"); }
                o.num(enc(a.error())).num(enc(std::as_const(b).error())).num(enc(X2(c).error()));
                o.b(a == b).b(a != b).b(a == c).b(b == c);
                o.tok(";");
            }
        }
        life_report(o);
    }
};

template <typename E, typename E2>
static void run_unexpected(Toks& in, Out& impl, Out& ref)
{
    auto steps = read_steps(in);
    guarded(impl, [&](Out& o) { UnexRunner<true, E, E2>::run(o, steps); });
    UnexRunner<false, E, E2>::run(ref, steps);
}

// ------------------------------------------------------------------------- optional<T&>
// libstdc++ 12 has no optional<T&>; the reference leg is the pointer cell of P2988 written out.
// Objects: a, b of optional<R&> (R = T or T const), z of optional<T&>, a source src of
// optional<T> (etl::optional in the impl leg, std::optional in the reference leg), three referent cells.
template <typename T>
struct RefCell {
    T* p = nullptr;
    auto has_value() const -> bool { return p != nullptr; }
    auto operator*() const -> T& { return *p; }
    auto operator->() const -> T* { return p; }
    void reset() { p = nullptr; }
    void bind(T& x) { p = &x; }
    void swap(RefCell& o) { std::swap(p, o.p); }
    // [optional.ref.ctor] optional(const optional<U>& rhs): if rhs.has_value(), binds to *rhs; otherwise disengaged
    template <typename S>
    void from_optional(S& rhs) // S may be const
    {
        if (rhs.has_value()) { p = std::addressof(*rhs); } else { p = nullptr; }
    }
};

// T: type of the cells / of the source optional's value; B: the type the optional<B&> under test refers to
// (B = T, or a base class of T placed at a non-zero offset: the converting forms then adjust the pointer)
template <typename T, typename B, bool Const, bool Etl>
struct RefRunner {
    static constexpr bool Same = std::is_same_v<T, B>;
    // conversions from the optional<T&> z: optional<T const&> from optional<T&>, or optional<B [const]&> from optional<T&>
    static constexpr bool FromZ = Const || !Same;
    using R   = std::conditional_t<Const, B const, B>;
    using O   = std::conditional_t<Etl, etl::optional<R&>, RefCell<R>>;
    using Z   = std::conditional_t<Etl, etl::optional<T&>, RefCell<T>>;
    using Src = std::conditional_t<Etl, etl::optional<T>, std::optional<T>>;

    struct Ctx {
        T const* cells;
        B const* src_addr; // address of the object contained in src (fixed storage), once known
        bool src_engaged;
    };

    template <typename X>
    static auto dangling(X const& x, Ctx const& c) -> bool
    {
        return x.has_value() && c.src_addr != nullptr && x.operator->() == c.src_addr && !c.src_engaged;
    }

    template <typename X>
    static void state(Out& o, X const& x, Ctx const& c)
    {
        o.b(x.has_value());
        if (!x.has_value()) {
            o.num(-1).num(-1);
            return;
        }
        B const* p = x.operator->();
        int cell     = -1;
        for (int i = 0; i < 3; ++i) {
            if (p == static_cast<B const*>(c.cells + i)) { cell = i; }
        }
        if (cell >= 0) {
            o.num(cell);
        } else if (c.src_addr != nullptr && p == c.src_addr) {
            o.num(3);
        } else {
            o.num(-2);
        }
        if (dangling(x, c)) { o.tok("dang"); } else { o.num(enc(*x)); }
    }

    static void run(Out& o, std::vector<Step> const& steps)
    {
        g_life.reset();
        bool undefined = false;
        {
            T cells[3] = {dec<T>(1), dec<T>(2), dec<T>(3)};
            Src src;
            O a;
            O b;
            Z z;
            if constexpr (Etl) { b = O(etl::nullopt); }
            Ctx ctx{cells, nullptr, false};
            o.tok("ok");
            for (auto const& st : steps) {
                O& x      = st.t == 0 ? a : b;
                O& y      = st.t == 0 ? b : a;
                T& cell   = cells[st.p % 3];
                bool done = true;
                switch (st.opc) {
                case 'a': // rebind by assignment from an lvalue
                    if constexpr (Etl) { x = cell; } else { x.bind(cell); }
                    break;
                case 'e':
                    if constexpr (Etl) { x.emplace(cell); } else { x.bind(cell); }
                    break;
                case 'j': // construct from an lvalue, then assign
                    if constexpr (Etl) { x = O(cell); } else { x.bind(cell); }
                    break;
                case 'n':
                    if constexpr (Etl) { x = etl::nullopt; } else { x.reset(); }
                    break;
                case 'r': x.reset(); break;
                case 'c': x = y; break;
                case 'm': x = std::move(y); break;
                case 'k': {
                    O tmp(y);
                    x = tmp;
                    break;
                }
                case 's': a.swap(b); break;
                case 'w': // write through
                    if constexpr (!Const) {
                        if (dangling(x, ctx)) {
                            undefined = true;
                        } else if (x.has_value()) {
                            *x = dec<B>(st.q);
                        }
                    } else {
                        done = false;
                    }
                    break;
                case 'f': {
                    O const& alias = x;
                    x              = alias;
                    break;
                }
                case 'W': cell = dec<T>(st.q); break; // the referent changes behind the optional
                case 'o': // optional<R&>(optional<T> const&): only R = T const instantiates
                    if constexpr (Const) {
                        if constexpr (Etl) {
                            x = O(std::as_const(src));
                        } else {
                            O tmp;
                            tmp.from_optional(std::as_const(src));
                            x = tmp;
                        }
                    } else {
                        done = false;
                    }
                    break;
                case 'i': // the same constructor selected by copy-initialisation (it is not explicit here)
                    if constexpr (Const) {
                        if constexpr (Etl) {
                            O tmp = std::as_const(src);
                            x     = tmp;
                        } else {
                            O tmp;
                            tmp.from_optional(std::as_const(src));
                            x = tmp;
                        }
                    } else {
                        done = false;
                    }
                    break;
                case 'x': // optional<T const&>(optional<T&> const&)
                    if constexpr (FromZ) {
                        if constexpr (Etl) {
                            x = O(std::as_const(z));
                        } else {
                            O tmp;
                            tmp.from_optional(std::as_const(z));
                            x = tmp;
                        }
                    } else {
                        done = false;
                    }
                    break;
                case 'O': // from a NON-const lvalue optional<T>: the optional<U> const& constructor when R is const
                          // (fix 375db84), the optional<U>& constructor otherwise (fix 4d7f899)
                    if constexpr (Etl) {
                        x = O(src);
                    } else {
                        O tmp;
                        tmp.from_optional(src);
                        x = tmp;
                    }
                    break;
                case 'X': // ... from a non-const lvalue optional<T&>
                    if constexpr (FromZ) {
                        if constexpr (Etl) {
                            x = O(z);
                        } else {
                            O tmp;
                            tmp.from_optional(z);
                            x = tmp;
                        }
                    } else {
                        done = false;
                    }
                    break;
                // converting assignment operator=(optional<U> const&) (fix a90346c); P2988 has no such operator:
                // x = rhs means x = optional<R&>(rhs)
                case 'q':
                    if constexpr (Const) {
                        if constexpr (Etl) { x = std::as_const(src); } else { x.from_optional(std::as_const(src)); }
                    } else {
                        done = false;
                    }
                    break;
                case 'Q': // R const: operator=(optional<U> const&); otherwise x = optional<R&>(src) (implicit) + copy assignment
                    if constexpr (Etl) { x = src; } else { x.from_optional(src); }
                    break;
                case 'y':
                    if constexpr (FromZ) {
                        if constexpr (Etl) { x = std::as_const(z); } else { x.from_optional(std::as_const(z)); }
                    } else {
                        done = false;
                    }
                    break;
                case 'Y':
                    if constexpr (FromZ) {
                        if constexpr (Etl) { x = z; } else { x.from_optional(z); }
                    } else {
                        done = false;
                    }
                    break;
                case 'z':
                    if constexpr (Etl) { z = cell; } else { z.bind(cell); }
                    break;
                case 'Z': z.reset(); break;
                case 'S': src = dec<T>(st.q); break;
                case 'E': src.emplace(dec<T>(st.q)); break;
                case 'R': src.reset(); break;
                default: done = false; break;
                }
                if (undefined) { break; }
                if (!done) { o.tok("bad-step"); }
                ctx.src_engaged = src.has_value();
                if (src.has_value()) {
                    B const* now = std::addressof(*src);
                    if (ctx.src_addr != nullptr && ctx.src_addr != now) { o.tok("source-storage-moved"); }
                    ctx.src_addr = now;
                }
                state(o, a, ctx);
                state(o, b, ctx);
                state(o, z, ctx);
                o.b(src.has_value()).num(src.has_value() ? enc(*src) : -1);
                o.num(enc(cells[0])).num(enc(cells[1])).num(enc(cells[2]));
                o.b(static_cast<bool>(a.has_value())).b(a.operator->() != nullptr);
                if constexpr (Etl) { o.b(static_cast<bool>(a)); } else { o.b(a.has_value()); }
                o.tok(";");
            }
        }
        if (undefined) {
            // a write through a reference whose referent was destroyed: not executed
            o.s.clear();
            o.tok(Etl ? "ub" : "na");
            return;
        }
        life_report(o);
    }
};

template <typename T, bool Const, typename B = T>
static void run_optref(Toks& in, Out& impl, Out& ref)
{
    auto steps = read_steps(in);
    guarded(impl, [&](Out& o) { RefRunner<T, B, Const, true>::run(o, steps); });
    RefRunner<T, B, Const, false>::run(ref, steps);
}

// ------------------------------------------------------------------------- visit dispatcher
// visit_with_index over variants of given sizes: which index tuple does the visitor receive?
template <int K>
struct Tag {
    int k = K;
};

template <typename Lib, std::size_t N>
struct SizedVariant;
template <typename Lib>
struct SizedVariant<Lib, 1> {
    using type = typename Lib::template variant<Tag<0>>;
};
template <typename Lib>
struct SizedVariant<Lib, 2> {
    using type = typename Lib::template variant<Tag<0>, Tag<1>>;
};
template <typename Lib>
struct SizedVariant<Lib, 3> {
    using type = typename Lib::template variant<Tag<0>, Tag<1>, Tag<2>>;
};
template <typename Lib>
struct SizedVariant<Lib, 4> {
    using type = typename Lib::template variant<Tag<0>, Tag<1>, Tag<2>, Tag<3>>;
};
template <typename Lib>
struct SizedVariant<Lib, 5> {
    using type = typename Lib::template variant<Tag<0>, Tag<1>, Tag<2>, Tag<3>, Tag<4>>;
};

template <typename Lib, std::size_t... Ns>
static void disp_run(Out& o, std::vector<i64> const& idx)
{
    std::size_t k = 0;
    auto mk       = [&]<std::size_t N>(std::integral_constant<std::size_t, N>) {
        using V = typename SizedVariant<Lib, N>::type;
        V v{};
        std::size_t want = static_cast<std::size_t>(idx[k++]);
        [&]<std::size_t... I>(std::index_sequence<I...>) {
            ((want == I ? (v.template emplace<I>(), 0) : 0), ...);
        }(std::make_index_sequence<N>{});
        return v;
    };
    // braced init list => left-to-right evaluation
    std::tuple<typename SizedVariant<Lib, Ns>::type...> vs{mk(std::integral_constant<std::size_t, Ns>{})...};
    o.tok("ok");
    std::apply(
        [&](auto&... v) {
            if constexpr (Lib::is_etl) {
                // the index the dispatcher claims (param.index) and the alternative it hands over
                etl::visit_with_index(
                    [&](auto... param) { ((o.num(static_cast<i64>(param.index.value)).num(param.value().k)), ...); }, v...);
            } else {
                std::visit([&](auto const&... x) { ((o.num(x.k).num(x.k)), ...); }, v...);
            }
        },
        vs);
}

template <std::size_t... Ns>
static void run_disp(std::vector<i64> const& idx, Out& impl, Out& ref)
{
    guarded(impl, [&](Out& o) { disp_run<EtlLib, Ns...>(o, idx); });
    disp_run<StdLib, Ns...>(ref, idx);
}

template <std::size_t... Pre>
static bool disp_dispatch(std::vector<i64> const& sizes, std::size_t pos, std::vector<i64> const& idx, Out& impl, Out& ref)
{
    if (pos == sizes.size()) {
        if constexpr (sizeof...(Pre) > 0) {
            run_disp<Pre...>(idx, impl, ref);
            return true;
        } else {
            return false;
        }
    } else {
        if constexpr (sizeof...(Pre) < 3) {
            switch (sizes[pos]) {
            case 1: return disp_dispatch<Pre..., 1>(sizes, pos + 1, idx, impl, ref);
            case 2: return disp_dispatch<Pre..., 2>(sizes, pos + 1, idx, impl, ref);
            case 3: return disp_dispatch<Pre..., 3>(sizes, pos + 1, idx, impl, ref);
            case 4: return disp_dispatch<Pre..., 4>(sizes, pos + 1, idx, impl, ref);
            default: return false;
            }
        } else {
            return false;
        }
    }
}

// ------------------------------------------------------------------------- entry
// The harness can be compiled as ONE translation unit (no C07_PART) or, to shorten the rebuild after
// every change of /repo/include, as C07_NPARTS units (-DC07_PART=k, props/C07/pcxx.py) that each
// instantiate a group of families; part 0 holds run_case and main; parts 10-13 are the special-member families, part 14 the vor.* families (c07_vo.hpp)
// (c07_sm.hpp is included by those parts only).
#ifdef C07_PART
#define C07_IN(k) (C07_PART == (k))
#else
#define C07_IN(k) 1
#endif

// ------------------------------------------------------------------------- special-member families (sm*)
// Alternatives Sm<F> (c07_sm.hpp): each of the five special members is trivial or user-provided (logged).
// One runner over three wrapper policies; objects a, b (plus c of optional<SmSrc> for the optional policy).
//   E t i v  x.emplace<i>(v)            (optional: i = 0 reset(), i = 1 emplace(v); expected: i = 0 emplace(v))
//   I t i v  x = W(in_place_index<i>, v) (optional: W(nullopt) / W(in_place, v); expected: in_place / unexpect)
//   C x = y   M x = move(y)   K { W tmp(y); }   J { W tmp(move(y)); }   F x = x   G x = move(x)
//   optional only:  Q 0 0 v  c.emplace(v)   R  c.reset()   x  x = as_const(c)   y  x = move(c)
// after every step: index and value of a and b (and c), of the temporary of K / J, the events of the step;
// at the end: the events of destroying b and a.  In front: the nine static traits of every alternative and
// of the wrapper (for expected without the two assignment-triviality bits: [expected.object.assign] does not
// say when the assignment is trivial and libstdc++'s never is).
#if C07_IN(14)
#include "c07_vo.hpp"
#endif
#if C07_IN(10) || C07_IN(11) || C07_IN(12) || C07_IN(13)
#include "c07_sm.hpp"

template <typename T>
static auto sm_arg(long v) -> int
{
    return static_cast<int>(v); // int and Sm<F> are both constructed from an int
}

template <typename Lib, typename... Ts>
struct SmVarP {
    using W                        = typename Lib::template variant<Ts...>;
    static constexpr std::size_t N = sizeof...(Ts);
    static constexpr unsigned mask = 0x1ffU;
    static constexpr bool has_c    = false;
    template <std::size_t I>
    using alt = std::tuple_element_t<I, std::tuple<Ts...>>;
    template <std::size_t I>
    static auto make(long v) -> W
    {
        return W(Lib::template ipi<I>(), sm_arg<alt<I>>(v));
    }
    template <std::size_t I>
    static void emplace(W& x, long v)
    {
        x.template emplace<I>(sm_arg<alt<I>>(v));
    }
    static auto index(W const& x) -> std::size_t { return x.index(); }
    static auto value(W& x) -> long
    {
        long r = -1;
        sm_with_index<N>(x.index(), [&](auto i) { r = sm_val(*Lib::template get_if<decltype(i)::value>(&x)); });
        return r;
    }
    template <typename Fn>
    static void traits(Fn&& f)
    {
        (f(sm_traits<Ts>()), ...);
    }
};

template <typename Lib, typename T>
struct SmOptP {
    using W                        = typename Lib::template optional<T>;
    using C                        = typename Lib::template optional<SmSrc>;
    static constexpr std::size_t N = 2;
    static constexpr unsigned mask = 0x1ffU;
    static constexpr bool has_c    = true;
    template <std::size_t I>
    static auto make(long v) -> W
    {
        if constexpr (I == 0) {
            return W(Lib::nullopt);
        } else {
            return W(Lib::in_place, static_cast<int>(v));
        }
    }
    template <std::size_t I>
    static void emplace(W& x, long v)
    {
        if constexpr (I == 0) {
            x.reset();
        } else {
            x.emplace(static_cast<int>(v));
        }
    }
    static auto index(W const& x) -> std::size_t { return x.has_value() ? 1 : 0; }
    static auto value(W& x) -> long { return x.has_value() ? sm_val(*x) : 0; }
    template <typename Fn>
    static void traits(Fn&& f)
    {
        f(sm_traits<T>());
    }
};

template <typename Lib, typename T, typename E>
struct SmExpP {
    using W                        = typename Lib::template expected<T, E>;
    static constexpr std::size_t N = 2;
    static constexpr unsigned mask = 0x1f3U; // without "trivially copy / move assignable"
    static constexpr bool has_c    = false;
    template <std::size_t I>
    static auto make(long v) -> W
    {
        if constexpr (I == 0) {
            return W(Lib::in_place, static_cast<int>(v));
        } else {
            return W(Lib::unexpect, static_cast<int>(v));
        }
    }
    template <std::size_t I>
    static void emplace(W& x, long v)
    {
        if constexpr (I == 0) {
            x.emplace(static_cast<int>(v));
        } else {
            x = W(Lib::unexpect, static_cast<int>(v)); // (not generated: expected has no in-place way to hold an error)
        }
    }
    static auto index(W const& x) -> std::size_t { return x.has_value() ? 0 : 1; }
    static auto value(W& x) -> long { return x.has_value() ? sm_val(*x) : sm_val(x.error()); }
    template <typename Fn>
    static void traits(Fn&& f)
    {
        f(sm_traits<T>());
        f(sm_traits<E>());
    }
};

// I0: the index the two objects start with (an int alternative / disengaged): constructing it logs nothing
template <typename P, std::size_t I0>
struct SmRunner {
    using W = typename P::W;

    static void events(Out& o)
    {
        o.tok("ev");
        for (auto const& e : g_sm_ev) { o.tok(e); }
        g_sm_ev.clear();
    }
    static void state(Out& o, W& x) { o.num(static_cast<i64>(P::index(x))).num(P::value(x)); }

    static void run(Out& o, std::vector<Step> const& steps)
    {
        g_sm_ev.clear();
        o.tok("ok").tok("tr");
        P::traits([&](unsigned t) { o.num(t); });
        o.num(sm_traits<W>() & P::mask).tok(";");
        {
            W a = P::template make<I0>(0);
            W b = P::template make<I0>(0);
            auto c = [] {
                if constexpr (P::has_c) {
                    return typename P::C{};
                } else {
                    return 0;
                }
            }();
            g_sm_ev.clear();
            for (auto const& st : steps) {
                W& x      = st.t == 0 ? a : b;
                W& y      = st.t == 0 ? b : a;
                bool done = true;
                bool tmp  = false;
                std::size_t ti = 0;
                long tv   = 0;
                switch (st.opc) {
                case 'E':
                    done = st.p >= 0 && sm_with_index<P::N>(static_cast<std::size_t>(st.p), [&](auto i) {
                        P::template emplace<decltype(i)::value>(x, st.q);
                    });
                    break;
                case 'I':
                    done = st.p >= 0 && sm_with_index<P::N>(static_cast<std::size_t>(st.p), [&](auto i) {
                        x = P::template make<decltype(i)::value>(st.q);
                    });
                    break;
                case 'C': x = y; break;
                case 'M': x = std::move(y); break;
                case 'K': {
                    W t(y);
                    tmp = true;
                    ti  = P::index(t);
                    tv  = P::value(t);
                    break;
                }
                case 'J': {
                    W t(std::move(y));
                    tmp = true;
                    ti  = P::index(t);
                    tv  = P::value(t);
                    break;
                }
                case 'F': {
                    W& r = x;
                    x    = r;
                    break;
                }
                case 'G': {
                    W& r = x;
                    x    = std::move(r);
                    break;
                }
                default:
                    done = false;
                    if constexpr (P::has_c) {
                        done = true;
                        switch (st.opc) {
                        case 'Q': c.emplace(SmSrc{static_cast<int>(st.q)}); break;
                        case 'R': c.reset(); break;
                        case 'x': x = std::as_const(c); break;
                        case 'y': x = std::move(c); break;
                        default: done = false; break;
                        }
                    }
                    break;
                }
                if (!done) { o.tok("bad-step"); }
                state(o, a);
                state(o, b);
                if constexpr (P::has_c) { o.num(c.has_value() ? 1 : 0).num(c.has_value() ? c->v : 0); }
                if (tmp) { o.tok("tmp").num(static_cast<i64>(ti)).num(tv); }
                events(o);
                o.tok(";");
            }
        }
        o.tok("fin");
        events(o);
    }
};

template <template <typename, typename...> class PT, std::size_t I0, typename... Ts>
static void run_sm(Toks& in, Out& impl, Out& ref)
{
    auto steps = read_steps(in);
    guarded(impl, [&](Out& o) { SmRunner<PT<EtlLib, Ts...>, I0>::run(o, steps); });
    SmRunner<PT<StdLib, Ts...>, I0>::run(ref, steps);
}

// op = "<family>.<F>": the flag set F of the class alternative
template <unsigned Lo, unsigned Hi, typename Fn>
static auto sm_flags(std::string const& op, char const* family, Fn&& f) -> bool
{
    auto const n = std::strlen(family);
    if (op.compare(0, n, family) != 0 || op.size() <= n) { return false; }
    auto const fl = static_cast<unsigned>(std::atoi(op.c_str() + n));
    if (op != family + std::to_string(fl) || fl < Lo || fl >= Hi) { return false; }
    return sm_with_index<Hi - Lo>(fl - Lo, [&](auto i) { f(std::integral_constant<unsigned, Lo + decltype(i)::value>{}); });
}
#endif


namespace c07parts {
bool part0(std::string const& op, Toks& in, Out& impl, Out& ref);
bool part1(std::string const& op, Toks& in, Out& impl, Out& ref);
bool part2(std::string const& op, Toks& in, Out& impl, Out& ref);
bool part3(std::string const& op, Toks& in, Out& impl, Out& ref);
bool part4(std::string const& op, Toks& in, Out& impl, Out& ref);
bool part5(std::string const& op, Toks& in, Out& impl, Out& ref);
bool part8(std::string const& op, Toks& in, Out& impl, Out& ref);
bool part9(std::string const& op, Toks& in, Out& impl, Out& ref);
bool part10(std::string const& op, Toks& in, Out& impl, Out& ref);
bool part11(std::string const& op, Toks& in, Out& impl, Out& ref);
bool part12(std::string const& op, Toks& in, Out& impl, Out& ref);
bool part13(std::string const& op, Toks& in, Out& impl, Out& ref);
bool part14(std::string const& op, Toks& in, Out& impl, Out& ref);
// the dispatcher cases whose first variant has 3 / 4 alternatives (the bulk of the visit instantiations)
bool disp3(std::vector<i64> const& sizes, std::vector<i64> const& idx, Out& impl, Out& ref);
bool disp4(std::vector<i64> const& sizes, std::vector<i64> const& idx, Out& impl, Out& ref);
} // namespace c07parts

#if C07_IN(6)
bool c07parts::disp4(std::vector<i64> const& sizes, std::vector<i64> const& idx, Out& impl, Out& ref)
{
    return disp_dispatch<4>(sizes, 1, idx, impl, ref);
}
#endif
#if C07_IN(7)
bool c07parts::disp3(std::vector<i64> const& sizes, std::vector<i64> const& idx, Out& impl, Out& ref)
{
    return disp_dispatch<3>(sizes, 1, idx, impl, ref);
}
#endif

#if C07_IN(1)
bool c07parts::part1(std::string const& op, Toks& in, Out& impl, Out& ref)
{
    if (op == "var.B") { return run_variant<int, Tracked, float>(in, impl, ref), true; }
    if (op == "var.G") { return run_variant<float, long>(in, impl, ref), true; }
    if (op == "var.H") { return run_variant<bool, Str>(in, impl, ref), true; }
    return false;
}
#endif
#if C07_IN(2)
bool c07parts::part2(std::string const& op, Toks& in, Out& impl, Out& ref)
{
    if (op == "var.C") { return run_variant<Tracked, Tracked2>(in, impl, ref), true; }
    if (op == "var.E") { return run_variant<bool, Tracked>(in, impl, ref), true; }
    return false;
}
#endif
#if C07_IN(3)
bool c07parts::part3(std::string const& op, Toks& in, Out& impl, Out& ref)
{
    if (op == "var.D") { return run_variant<int, long, char, Tracked>(in, impl, ref), true; }
    if (op == "var.I") { return run_variant<Str, Tracked, bool>(in, impl, ref), true; }
    return false;
}
#endif
#if C07_IN(4)
bool c07parts::part4(std::string const& op, Toks& in, Out& impl, Out& ref)
{
    if (op == "var.F") { return run_variant<char, Tracked, double>(in, impl, ref), true; }
    if (op == "exp.il") { return run_expected<int, long>(in, impl, ref), true; }
    if (op == "exp.tt") { return run_expected<Tracked, Tracked2>(in, impl, ref), true; }
    if (op == "exp.ti") { return run_expected<Tracked, int>(in, impl, ref), true; }
    if (op == "exp.ii") { return run_expected<int, int>(in, impl, ref), true; } // variant<int, int> underneath
    if (op == "unx.il") { return run_unexpected<int, long>(in, impl, ref), true; }
    if (op == "unx.tt") { return run_unexpected<Tracked, Tracked2>(in, impl, ref), true; }
    return false;
}
#endif
#if C07_IN(5)
bool c07parts::part5(std::string const& op, Toks& in, Out& impl, Out& ref)
{
    if (op == "opt.is") { return run_optional<int, short>(in, impl, ref), true; }
    if (op == "opt.ti") { return run_optional<Tracked, int>(in, impl, ref), true; }
    if (op == "opt.t2") { return run_optional<Tracked2, Tracked>(in, impl, ref), true; }
    if (op == "opt.ib") { return run_optional<int, bool>(in, impl, ref), true; }
    if (op == "ref.i") { return run_optref<int, false>(in, impl, ref), true; }
    if (op == "ref.t") { return run_optref<Tracked, false>(in, impl, ref), true; }
    if (op == "cref.i") { return run_optref<int, true>(in, impl, ref), true; }
    if (op == "cref.t") { return run_optref<Tracked, true>(in, impl, ref), true; }
    if (op == "bref.d") { return run_optref<Derived, false, Base>(in, impl, ref), true; }
    if (op == "cbref.d") { return run_optref<Derived, true, Base>(in, impl, ref), true; }
    return false;
}
#endif
#if C07_IN(8)
bool c07parts::part8(std::string const& op, Toks& in, Out& impl, Out& ref)
{
    // repeated alternative types: only the index-based API exists; assign() must decide by INDEX
    if (op == "var.R") { return run_variant<Tracked, Tracked>(in, impl, ref), true; }
    // trivial default constructor, user-provided copy / move: the non-trivial special-member path must be chosen
    if (op == "var.P") { return run_variant<int, TrivDef>(in, impl, ref), true; }
    if (op == "var.Q") { return run_variant<Tracked, int, Tracked>(in, impl, ref), true; }
    return false;
}
#endif
#if C07_IN(9)
bool c07parts::part9(std::string const& op, Toks& in, Out& impl, Out& ref)
{
    // floating alternatives that can hold a NaN (partially ordered values)
    if (op == "var.J") { return run_variant<int, double>(in, impl, ref), true; }
    if (op == "opt.df") { return run_optional<double, float>(in, impl, ref), true; }
    if (op == "unx.df") { return run_unexpected<double, float>(in, impl, ref), true; }
    if (op == "exp.rr") { return run_expected<Tracked, Tracked>(in, impl, ref), true; } // variant<Tracked, Tracked> underneath
    return false;
}
#endif
// special-member families: variant<int, Sm<F>>, optional<Sm<F>>, expected<Sm<F>, int>, expected<int, Sm<F>> for every
// flag set F, and three-alternative lists mixing two flag sets
#if C07_IN(10)
bool c07parts::part10(std::string const& op, Toks& in, Out& impl, Out& ref)
{
    return sm_flags<0, 16>(op, "smv.", [&](auto f) { run_sm<SmVarP, 0, int, Sm<decltype(f)::value>>(in, impl, ref); });
}
#endif
#if C07_IN(11)
bool c07parts::part11(std::string const& op, Toks& in, Out& impl, Out& ref)
{
    if (op == "smw.a") { return run_sm<SmVarP, 1, Sm<2>, int, Sm<16>>(in, impl, ref), true; }
    if (op == "smw.b") { return run_sm<SmVarP, 2, Sm<8>, Sm<1>, int>(in, impl, ref), true; }
    if (op == "smw.c") { return run_sm<SmVarP, 0, int, Sm<4>, Sm<2>>(in, impl, ref), true; }
    return sm_flags<16, 32>(op, "smv.", [&](auto f) { run_sm<SmVarP, 0, int, Sm<decltype(f)::value>>(in, impl, ref); });
}
#endif
#if C07_IN(12)
bool c07parts::part12(std::string const& op, Toks& in, Out& impl, Out& ref)
{
    return sm_flags<0, 32>(op, "smo.", [&](auto f) { run_sm<SmOptP, 0, Sm<decltype(f)::value>>(in, impl, ref); });
}
#endif
#if C07_IN(13)
bool c07parts::part13(std::string const& op, Toks& in, Out& impl, Out& ref)
{
    return sm_flags<0, 32>(op, "sme.", [&](auto f) { run_sm<SmExpP, 1, Sm<decltype(f)::value>, int>(in, impl, ref); })
        || sm_flags<0, 32>(op, "smf.", [&](auto f) { run_sm<SmExpP, 0, int, Sm<decltype(f)::value>>(in, impl, ref); });
}
#endif
// value_or with a fallback of another arithmetic type: optional<T> / expected<T, int>, T x U (c07_vo.hpp)
#if C07_IN(14)
bool c07parts::part14(std::string const& op, Toks& in, Out& impl, Out& ref)
{
    return c07vo::run<EtlLib, StdLib>(op, in, impl, ref);
}
#endif
#if C07_IN(0)
bool c07parts::part0(std::string const& op, Toks& in, Out& impl, Out& ref)
{
    if (op == "var.A") { return run_variant<int, float>(in, impl, ref), true; }
    if (op == "disp") {
        auto sizes = in.list();
        auto idx   = in.list();
        if (sizes.size() != idx.size() || sizes.empty()) { return false; }
        switch (sizes[0]) {
        case 1: return disp_dispatch<1>(sizes, 1, idx, impl, ref);
        case 2: return disp_dispatch<2>(sizes, 1, idx, impl, ref);
        case 3: return disp3(sizes, idx, impl, ref);
        case 4: return disp4(sizes, idx, impl, ref);
        default: return false;
        }
    }
    return false;
}

bool vh::run_case(std::string const& op, Toks& in, Out& impl, Out& ref)
{
    using namespace c07parts;
    // every part returns false without consuming tokens when the family is not its own
    return part0(op, in, impl, ref) || part1(op, in, impl, ref) || part2(op, in, impl, ref) || part3(op, in, impl, ref)
        || part4(op, in, impl, ref) || part5(op, in, impl, ref) || part8(op, in, impl, ref) || part9(op, in, impl, ref)
        || part10(op, in, impl, ref) || part11(op, in, impl, ref) || part12(op, in, impl, ref) || part13(op, in, impl, ref)
        || part14(op, in, impl, ref);
}

VERIF_MAIN()
#endif
