"""C07 — optional / variant / expected track the std types: case generators and configuration."""
import hashlib
import itertools
import json
import os
import subprocess
import tempfile

ID = "C07"
LEVEL = "proof"
# harness.cpp is compiled in 15 parts, 4 at a time (props/C07/pcxx.py): ~40 s instead of ~95 s after a change of /repo/include
HARNESSES = [{"name": "main", "src": "harness.cpp",
              "compiler": os.path.join(os.path.dirname(os.path.abspath(__file__)), "pcxx.py"),
              "flags": ["-std=c++2b", "-O1", "-fno-lifetime-dse", "-DTETL_ENABLE_CONTRACT_CHECKS=1", "-DC07_NPARTS=15"]},
             # ASan+UBSan build of the same harness (thorough tier; also picked up by C02's aggregated sanitizer run).
             # -O0: the instrumented -O1 build costs ~6 CPU-minutes, -O0 ~2.5
             {"name": "asan", "src": "harness.cpp", "thorough_only": True,
              "compiler": os.path.join(os.path.dirname(os.path.abspath(__file__)), "pcxx.py"),
              "flags": ["-std=c++2b", "-O0", "-fno-lifetime-dse", "-fsanitize=address,undefined",
                        "-fno-sanitize-recover=all", "-DTETL_ENABLE_CONTRACT_CHECKS=1", "-DC07_NPARTS=15"]}]

RULE = ("a case is a whole operation history on two objects a,b (plus an optional<U>/unexpected<E2> c); exhaustive: "
        "every history of depth <= 2 over the FULL op alphabet (all alternatives x 3 values x emplace/in_place by index "
        "and type, lvalue/rvalue converting assignment and constructor from all 9 source types, copy/move "
        "assignment/construction, swap, self copy/move, alias assignment, default) for variant sets A,B,C (full x core "
        "for D-G), every (state of a, state of b) pair incl. moved-from x every assignment/swap/self/alias op, every "
        "history of depth 3 (quick) / 4 (thorough) over the core alphabet for the 2- and 3-alternative sets, all optional "
        "and expected histories of depth <= 2 (full alphabet) and 3/4 (core), optional<T&> and unexpected depth <= 2/3, "
        "the visit dispatcher on every size tuple in {1..4}^k, k <= 3, and every active index tuple; plus seeded random "
        "histories of depth 3..10; each case prints the state after every step, all six relations, and all observers "
        "of the final state, and a live-instance verdict of the Tracked element type. Families added by the review: "
        "variants with a REPEATED alternative type <Tracked,Tracked>, <Tracked,int,Tracked> and expected<Tracked,Tracked> "
        "(index-based API only; assignment between the two occurrences), <int,double> / optional<double>|optional<float> / "
        "unexpected<double> whose floating alternative also takes a NaN (unordered: the six relations are independent), "
        "<int,TrivDef> (class with a trivial default constructor and user-provided copy/move); observers added: what visit "
        "returns for a reference-returning visitor (reference kept, identity, write-through), get_if(nullptr), visit of no "
        "variant, etl::visit with a non-variant operand, swap of two arrays of variants; compile-only API probes "
        "(extra_checks): provided call forms must compile, recorded-missing ones (optional vs nullopt >,<=,>=; expected "
        "assignment/swap/==) must still be ill-formed. Special-member families sm*: alternatives Sm<F> whose copy ctor / move ctor / "
        "copy assignment / move assignment / destructor are one by one trivial or user-provided (F = all 32 combinations; a "
        "user-provided member logs an event, a user-provided move leaves 99 in its source) in variant<int,Sm<F>>, optional<Sm<F>>, "
        "expected<Sm<F>,int>, expected<int,Sm<F>> and three 3-alternative lists: every (alternative of a, alternative of b) pair x "
        "copy/move assignment, copy/move construction, self copy/move, assignment from a temporary, optional<U> source engaged or not "
        "x converting copy/move assignment; every history of depth <= 2 for 10 flag sets (thorough: all), random depth 3..8; printed: "
        "the static triviality traits of the alternatives and of the wrapper, states, temporaries, the event sequence of every step "
        "and of the final destruction. Families vor.<T><U>: value_or of optional<T> / expected<T,int> with a fallback of ANOTHER arithmetic type "
        "(T in short,int,unsigned,long long,float,double x U in bool,signed char,short,int,unsigned,long long,float,double): engaged with every "
        "boundary value of T (around the powers of two where a narrower or floating type loses digits) x 6 (thorough: all) fallback values, "
        "disengaged with every boundary fallback whose conversion to T is defined, random 2^k+offset pairs; 12 results per wrapper (4 value "
        "categories of the object x 3 of the fallback) + the object afterwards. "
        "non-trivial = distinct case line with impl outcome ok and at least one step (or a dispatcher case)")

TRUSTED_BASE = ["reference leg: libstdc++ 12 std::variant / std::optional / std::expected (-std=c++2b) on the same histories",
                "reference for optional<T&> (not in libstdc++ 12): a hand-written pointer cell per P2988",
                "reference for expected::and_then/or_else (not in libstdc++ 12): [expected.object.monadic] written out over std::expected",
                "Tracked/Tracked2 instrumented element types (props/C07/c07_types.hpp), -fno-lifetime-dse so that the destructor's poison store is kept",
                "vor.* families: floating values are exchanged as twice their value (props/C07/c07_vo.hpp dec/put, exact for the generated multiples of 1/2)",
                "Sm<F> element types with conditionally trivial special members (props/C07/c07_sm.hpp, P0848 requires-clauses) and their global event log"]
ASSUMPTIONS = ["IEEE-754 binary32/binary64 with round-to-nearest-even for the arithmetic conversions of the vor.* families (TypesVo.vo_conv)",
               "LP64; char is signed; g++ 12 overload resolution and narrowing rules as the reference for the alternative selection"]

# type ids shared with harness and Coq: 0 bool 1 char 2 short 3 int 4 long 5 float 6 double 7 Tracked 8 Tracked2
# 10 char const* (source only) 11 Str (class constructible from char const*)
SETS = {
    "A": [3, 5],
    "B": [3, 7, 5],
    "C": [7, 8],
    "D": [3, 4, 1, 7],
    "E": [0, 7],
    "F": [1, 7, 6],
    "G": [5, 4],
    "H": [0, 11],
    "I": [11, 7, 0],
    # repeated alternative types: only the index-based API is well-formed; copy/move assignment must decide
    # "same alternative" by INDEX, not by type (a holds <0>, b holds <2> of the same type: destroy + construct)
    "R": [7, 7],
    "Q": [7, 3, 7],
    # a floating alternative that also takes a NaN (encoded NANV = 1000): unordered, so the six relational
    # operators are independent of each other (>= is not "not <")
    "J": [3, 6],
    # <int, TrivDef>: a class with a TRIVIAL default constructor and user-provided copy / move (id 8: modelled like
    # Tracked2).  No converting operations from class sources (TrivDef is constructible from int only)
    "P": [3, 8],
}
NANV = 1000
NAN_SETS = ("J",)

SRC_IDS = [0, 1, 2, 3, 4, 5, 6, 7, 8, 10, 11]


def dom(ty):
    if ty == 0:
        return [0, 1, 1]
    if ty in (5, 6):
        return [2, 3, 5]
    return [1, 2, 3]


def step(opc, t=0, p=0, q=0):
    return f"{opc} {t} {p} {q}"


def line(op, steps):
    return f"{op} {len(steps)} " + " ".join(steps)


def var_full(alts, nan=False):
    out = []
    for t in (0, 1):
        for i, ty in enumerate(alts):
            for v in sorted(set(dom(ty))) + ([NANV] if nan and ty in (5, 6) else []):
                for opc in ("ETIYL" if alts.count(ty) == 1 else "EI"):
                    out.append(step(opc, t, i, v))
        for s in (SRC_IDS if alts != SETS["P"] else [x for x in SRC_IDS if x not in (7, 8)]):
            # a NaN source only where no floating -> integer conversion can follow (undefined): the floating sources
            # of a set whose class alternatives are not reachable from a floating value
            for v in sorted(set(dom(s)))[:2] + ([NANV] if nan and s in (5, 6) else []):
                out.append(step("V", t, s, v))
                out.append(step("W", t, s, v))
        for opc in "CMKJFGAD":
            out.append(step(opc, t))
    out.append(step("S"))
    return out


def var_core(alts, nan=False):
    out = []
    for t in (0, 1):
        for i, ty in enumerate(alts):
            for v in sorted(set(dom(ty)))[:2] + ([NANV] if nan and ty in (5, 6) else []):
                out.append(step("E", t, i, v))
        # (set P: TrivDef is not a source type - it shares its id with Tracked2 -, use a short)
        out.append(step("V", t, alts[-1], dom(alts[-1])[2]) if alts != SETS["P"] else step("V", t, 2, 3))
        for opc in "CMA":
            out.append(step(opc, t))
    out.append(step("S"))
    return out


def var_pairs(alts, nan=False):
    """every (state a, state b) pair (a moved-from class value is the payload 99) x every two-object / self / alias op"""
    states = []
    for i, ty in enumerate(alts):
        for v in sorted(set(dom(ty))) + ([99] if ty in (7, 8) else []) + ([NANV] if nan and ty in (5, 6) else []):
            states.append((i, v))
    out = []
    ops = [step(o, t) for o in "CMKJFGA" for t in (0, 1)] + [step("S")]
    for (i, v) in states:
        for (j, w) in states:
            pre = [step("E", 0, i, v), step("E", 1, j, w)]
            for o in ops:
                out.append(pre + [o])
                out.append(pre + [o, step("S")])
    return out


OPT_CFG = {"opt.is": (3, 2), "opt.ti": (7, 3), "opt.t2": (8, 7), "opt.ib": (3, 0), "opt.df": (6, 5)}


def opt_full(T, U):
    out = []
    fp = T in (5, 6) and U in (5, 6)
    for t in (0, 1):
        for v in (1, 2, 3) + ((NANV,) if fp else ()):
            for opc in "eauwijJ":
                out.append(step(opc, t, v))
        for opc in "pPq":
            out.append(step(opc, t, 2))
        for opc in "nbrcmklfghxyXYdD" + ("v" if T == 7 else ""):
            out.append(step(opc, t))
    for v in (1, 2, 3) + ((NANV,) if fp else ()):
        out.append(step("E", 0, v))
    out += [step("R"), step("s"), step("S")]
    return out


def opt_core(T, U):
    out = []
    fp = T in (5, 6) and U in (5, 6)
    for t in (0, 1):
        for v in (1, 2) + ((NANV,) if fp else ()):
            out.append(step("e", t, v))
        out.append(step("a", t, 3))
        for opc in "ncmxy" + ("v" if T == 7 else ""):
            out.append(step(opc, t))
    out += [step("E", 0, 2), step("R"), step("s")] + ([step("E", 0, NANV)] if fp else [])
    return out


EXP_CFG = ["exp.il", "exp.tt", "exp.ti", "exp.ii", "exp.rr"]


def exp_full():
    out = []
    for t in (0, 1):
        for v in (1, 2, 3):
            for opc in "vue":
                out.append(step(opc, t, v))
        for opc in "cmklfgd":
            out.append(step(opc, t))
    return out


def exp_core():
    out = []
    for t in (0, 1):
        for v in (1, 2):
            for opc in "vu":
                out.append(step(opc, t, v))
        out.append(step("e", t, 3))
        for opc in "cm":
            out.append(step(opc, t))
    return out


def ref_full():
    out = []
    for t in (0, 1):
        for c in (0, 1, 2):
            for opc in "aej":
                out.append(step(opc, t, c))
        for v in (5, 6):
            out.append(step("w", t, 0, v))
        for opc in "nrcmkfOQ":
            out.append(step(opc, t))
    out.append(step("s"))
    for c in (0, 1, 2):
        out.append(step("W", 0, c, 7))
    # the source optional<T>: O / Q bind to its contained object (non-const), w then writes into the source;
    # after R a bound reference dangles: its value is printed as `dang`, a write through it ends the history (ub | na)
    out += [step("S", 0, 0, 5), step("S", 0, 0, 6), step("E", 0, 0, 8), step("R")]
    return out


def ref_core():
    out = []
    for t in (0, 1):
        out.append(step("a", t, 0))
        out.append(step("w", t, 0, 4))
        for opc in "ncOQ":
            out.append(step(opc, t))
    out += [step("s"), step("W", 0, 0, 7), step("S", 0, 0, 5), step("E", 0, 0, 6), step("R")]
    return out


def cref_full():
    """optional<T const&>: no write-through; referents change behind the optional (W), the converting constructor
    from a const optional<T> source (o direct-, i copy-initialisation) and from an optional<T&> (x)"""
    out = []
    for t in (0, 1):
        for c in (0, 1, 2):
            out.append(step("a", t, c))
        out.append(step("e", t, 1))
        out.append(step("j", t, 2))
        for opc in "nrcmkfoixOXqQyY":
            out.append(step(opc, t))
    out.append(step("s"))
    for c in (0, 1, 2):
        out.append(step("W", 0, c, 7))
    out += [step("z", 0, 0), step("z", 0, 2), step("Z"), step("S", 0, 0, 5), step("S", 0, 0, 6), step("E", 0, 0, 8),
            step("R")]
    return out


def bref_full():
    """optional<Base&> next to optional<Derived&> z (Base at a non-zero offset in Derived): write-through, conversions from z"""
    out = []
    for t in (0, 1):
        for c in (0, 1, 2):
            out.append(step("a", t, c))
        out.append(step("e", t, 1))
        out.append(step("j", t, 2))
        out.append(step("w", t, 0, 5))
        for opc in "nrcmkfxXyYOQ":
            out.append(step(opc, t))
    out.append(step("s"))
    for c in (0, 1, 2):
        out.append(step("W", 0, c, 7))
    out += [step("z", 0, 0), step("z", 0, 2), step("Z"), step("S", 0, 0, 5), step("E", 0, 0, 8), step("R")]
    return out


def cref_core():
    out = []
    for t in (0, 1):
        out.append(step("a", t, 0))
        for opc in "ncoxQy":
            out.append(step(opc, t))
    out += [step("s"), step("W", 0, 0, 7), step("z", 0, 1), step("Z"), step("S", 0, 0, 5), step("E", 0, 0, 6), step("R")]
    return out


def unx_full(nan=False):
    out = []
    for t in (0, 1):
        for v in (1, 2, 3) + ((NANV,) if nan else ()):
            out.append(step("v", t, v))
            out.append(step("i", t, v))
        out.append(step("c", t))
        out.append(step("m", t))
    for v in (1, 2) + ((NANV,) if nan else ()):
        out.append(step("E", 0, v))
    out += [step("s"), step("S")]
    return out


# ---- special-member families: <family>.<F>, F = flag set of the class alternative Sm<F> (bit 0 copy ctor, 1 move
# ctor, 2 copy assignment, 3 move assignment, 4 destructor user-provided); smw.* three alternatives, two flag sets
SM_KINDS = {"smv": (2, "var"), "smo": (2, "opt"), "sme": (2, "exp"), "smf": (2, "exp")}
SM_W = {"smw.a": 3, "smw.b": 3, "smw.c": 3}
SM_DEEP = (0, 1, 2, 4, 8, 16, 3, 12, 30, 31)   # flag sets that also get every history of depth <= 2


def sm_alpha(n, kind):
    out = []
    for t in (0, 1):
        for i in range(n):
            if kind == "exp" and i == 1:
                continue                      # expected has no in-place way to hold an error: I only
            for v in (1, 2):
                out.append(step("E", t, i, 0 if (kind == "opt" and i == 0) else v))
        for i in range(n):
            out.append(step("I", t, i, 0 if (kind == "opt" and i == 0) else 3))
        for opc in "CMKJFG" + ("xy" if kind == "opt" else ""):
            out.append(step(opc, t))
    if kind == "opt":
        out += [step("Q", 0, 0, 5), step("Q", 0, 0, 6), step("R")]
    return out


def sm_pairs(n, kind):
    """every (alternative of a, alternative of b) x every assignment / construction / self op (+ the optional<U> source
    engaged or not x the converting assignments)"""
    def put(t, i, v):
        if kind == "exp" and i == 1:
            return step("I", t, i, v)
        return step("E", t, i, 0 if (kind == "opt" and i == 0) else v)
    out = []
    ops = [step(o, t) for o in "CMKJFG" for t in (0, 1)] + [step("I", 0, i, 0 if (kind == "opt" and i == 0) else 3) for i in range(n)]
    for i in range(n):
        for j in range(n):
            pre = [put(0, i, 1), put(1, j, 2)]
            for o in ops:
                out.append(pre + [o])
            if kind == "opt":
                for c in ([step("Q", 0, 0, 5)], [step("R")]):
                    for o in (step("x", 0), step("y", 0), step("x", 1), step("y", 1)):
                        out.append(pre + c + [o])
                        out.append(pre + c + [o, o])
    return out


def sm_cases(quick, search, rng):
    out = []
    fams = [(f"{k}.{f}", n, kind, f in SM_DEEP) for k, (n, kind) in SM_KINDS.items() for f in range(32)]
    fams += [(k, n, "var", True) for k, n in SM_W.items()]
    for op, n, kind, deep in fams:
        alpha = sm_alpha(n, kind)
        out.append(line(op, []))
        if not search:
            for h in sm_pairs(n, kind):
                out.append(line(op, h))
            if deep or not quick:
                for h in histories(alpha, 2):
                    out.append(line(op, h))
            if deep and not quick:
                for h in exact([a for a in alpha if a[0] in "EMCJ" or a[0] in "xy"], 3):
                    out.append(line(op, h))
        for _ in range((60 if quick else 600) if not search else 150):
            out.append(line(op, rand_hist(rng, alpha, 3, 8)))
    return out


# ---- value_or with a fallback of another arithmetic type: vor.<T><U> <engaged> <held> <fallback>
# a value of a floating type travels as TWICE its value (only multiples of 1/2 the type holds exactly are used)
VO_T = "siulfd"
VO_U = "bcsiulfd"
VO_RANGE = {"b": (0, 1), "c": (-128, 127), "s": (-32768, 32767), "i": (-2**31, 2**31 - 1), "u": (0, 2**32 - 1),
            "l": (-2**63, 2**63 - 1)}
VO_MANT = {"f": 24, "d": 53}


def vo_round(p, z):
    """round to nearest, ties to even, to p significant bits (TypesVo.round_to)"""
    a = abs(z)
    if a < 2**p:
        return z
    m = 1 << (a.bit_length() - p)
    q, r = divmod(a, m)
    if 2 * r > m or (2 * r == m and q % 2 == 1):
        q += 1
    return (q * m) if z >= 0 else -(q * m)


def vo_fit(t, v):
    """v if the type holds it (floating: v is the doubled value), else None"""
    if t in VO_MANT:
        return v if abs(v) < 2**62 and vo_round(VO_MANT[t], v) == v else None
    lo, hi = VO_RANGE[t]
    return v if lo <= v <= hi else None


def vo_pool(t):
    """boundary values: around every power of two where a narrower or a floating type starts to lose digits"""
    ints = {0, 1, -1, 2, 5, 7, 42, 99, 70000, -70000, 16777217, -16777217, 16777219, 33554434, 9007199254740993,
            -9007199254740993, 9007199254740995, 1099511627777, 4611686018427387905}
    for k in (7, 8, 15, 16, 23, 24, 25, 26, 31, 32, 33, 40, 52, 53, 54, 55, 62, 63):
        for d in (-65, -1, 0, 1, 3):
            ints.add(2**k + d)
            ints.add(-(2**k) + d)
    if t in VO_MANT:
        # the integers above (doubled), the odd halves of small values, and whatever survives rounding to the precision
        cand = {2 * v for v in ints} | {1, -1, 3, 5, 85, -85, 255, -257, 65535, 2**24 + 1, 2**25 + 1, -(2**25) - 1, 2**31 - 1,
                                        2**32 + 1, 2**53 + 1, 2**54 + 1}
        cand |= {vo_round(VO_MANT[t], v) for v in list(cand)}
        return sorted(v for v in cand if vo_fit(t, v) is not None)
    return sorted(v for v in ints if vo_fit(t, v) is not None)


def vo_rand(rng, t):
    """a random value of the type: a power of two plus a small or a random offset, either sign"""
    k = rng.randint(0, 63)
    v = 2**k + rng.choice((0, 1, -1, 2, 3, rng.randint(0, 2**k)))
    if rng.random() < 0.5:
        v = -v
    if t in VO_MANT:
        v = vo_round(VO_MANT[t], v)
        return v if vo_fit(t, v) is not None else 2 * rng.randint(-100, 100) + 1
    lo, hi = VO_RANGE[t]
    return v if lo <= v <= hi else lo + v % (hi - lo + 1)


def vo_defined(T, U, engaged, fb):
    """static_cast<T>(fallback) is evaluated on the disengaged path only; floating -> integer is undefined when the
    truncated value is out of range ([conv.fpint]); such inputs are not generated"""
    if engaged or U not in VO_MANT or T in VO_MANT:
        return True
    q = abs(fb) // 2 * (1 if fb >= 0 else -1)
    lo, hi = VO_RANGE[T]
    return lo <= q <= hi


def vor_cases(quick, search, rng):
    out = []
    pools = {t: vo_pool(t) for t in set(VO_T + VO_U)}
    for T in VO_T:
        for U in VO_U:
            op = f"vor.{T}{U}"
            few = sorted(set([pools[U][0], pools[U][-1]] + [v for v in pools[U] if abs(v) <= 5][:3] + [pools[U][len(pools[U]) // 2]]))
            if not search:
                for h in pools[T]:
                    for fb in (few if quick else pools[U]):
                        out.append(f"{op} 1 {h} {fb}")
                for fb in pools[U]:
                    if vo_defined(T, U, False, fb):
                        out.append(f"{op} 0 0 {fb}")
                        if not quick:
                            out.append(f"{op} 0 {pools[T][-1]} {fb}")
            for _ in range(60 if quick else 1500):
                e = rng.randint(0, 1)
                h, fb = vo_rand(rng, T), vo_rand(rng, U)
                if vo_defined(T, U, e, fb):
                    out.append(f"{op} {e} {h} {fb}")
    return out


def histories(alpha, depth):
    for d in range(1, depth + 1):
        for h in itertools.product(alpha, repeat=d):
            yield list(h)


def exact(alpha, depth):
    for h in itertools.product(alpha, repeat=depth):
        yield list(h)


def rand_hist(rng, alpha, lo, hi):
    return [rng.choice(alpha) for _ in range(rng.randint(lo, hi))]


def gen(tier, rng):
    quick = tier == "quick"
    search = tier == "search"
    out = []
    nrand = 1000 if quick else 20000
    if search:
        nrand = 6000
    # ---------------- variant
    for name, alts in SETS.items():
        op = "var." + name
        nan = name in NAN_SETS
        full = var_full(alts, nan)
        core = var_core(alts, nan)
        out.append(line(op, []))
        if not search:
            for s in full:
                out.append(line(op, [s]))
            if name in ("A", "B", "C") or not quick:
                for h in exact(full, 2):
                    out.append(line(op, h))
            else:
                # depth 2: full x core and core x full
                for a in full:
                    for b in core:
                        out.append(line(op, [a, b]))
                        out.append(line(op, [b, a]))
            for h in var_pairs(alts, nan):
                out.append(line(op, h))
            if name in ("A", "B", "R"):
                for h in exact(core, 3):
                    out.append(line(op, h))
                if not quick and name != "R":
                    for h in exact(core, 4):
                        out.append(line(op, h))
            elif name in ("C", "D", "Q", "J", "P") and not quick:
                for h in exact(core, 3):
                    out.append(line(op, h))
        for _ in range(nrand):
            out.append(line(op, rand_hist(rng, full, 3, 10)))
        for _ in range(nrand):
            out.append(line(op, rand_hist(rng, core, 4, 10)))
    # ---------------- optional
    for op, (T, U) in OPT_CFG.items():
        full = opt_full(T, U)
        core = opt_core(T, U)
        out.append(line(op, []))
        if not search:
            for h in histories(full, 2):
                out.append(line(op, h))
            for h in exact(core, 3):
                out.append(line(op, h))
            if not quick:
                for h in exact(core, 4):
                    out.append(line(op, h))
        for _ in range(nrand):
            out.append(line(op, rand_hist(rng, full, 3, 10)))
    # ---------------- expected
    for op in EXP_CFG:
        full = exp_full()
        core = exp_core()
        out.append(line(op, []))
        if not search:
            for h in histories(full, 2):
                out.append(line(op, h))
            for h in exact(core, 3):
                out.append(line(op, h))
            if not quick:
                for h in exact(core, 4):
                    out.append(line(op, h))
        for _ in range(nrand):
            out.append(line(op, rand_hist(rng, full, 3, 10)))
    # ---------------- unexpected
    for op in ("unx.il", "unx.tt", "unx.df"):
        full = unx_full(op == "unx.df")
        out.append(line(op, []))
        if not search:
            for h in histories(full, 2 if quick else 3):
                out.append(line(op, h))
        for _ in range(nrand // 3):
            out.append(line(op, rand_hist(rng, full, 3, 10)))
    # ---------------- optional<T&>
    for op in ("ref.i", "ref.t"):
        full = ref_full()
        core = ref_core()
        out.append(line(op, []))
        if not search:
            for h in histories(full, 2):
                out.append(line(op, h))
            for h in exact(core, 3):
                out.append(line(op, h))
            if not quick:
                for h in exact(full, 3):
                    out.append(line(op, h))
                for h in exact(core, 4):
                    out.append(line(op, h))
        for _ in range(nrand):
            out.append(line(op, rand_hist(rng, full, 3, 10)))
        for _ in range(nrand):
            out.append(line(op, rand_hist(rng, core, 4, 12)))
    for op in ("cref.i", "cref.t"):
        full = cref_full()
        core = cref_core()
        out.append(line(op, []))
        if not search:
            for h in histories(full, 2):
                out.append(line(op, h))
            for h in exact(core, 3):
                out.append(line(op, h))
            if not quick:
                for h in exact(core, 4):
                    out.append(line(op, h))
        for _ in range(nrand):
            out.append(line(op, rand_hist(rng, full, 3, 10)))
        for _ in range(nrand):
            out.append(line(op, rand_hist(rng, core, 4, 12)))
    full = bref_full()
    out.append(line("bref.d", []))
    if not search:
        for h in histories(full, 2):
            out.append(line("bref.d", h))
    for _ in range(nrand):
        out.append(line("bref.d", rand_hist(rng, full, 3, 10)))
    full = cref_full()
    core = cref_core()
    out.append(line("cbref.d", []))
    if not search:
        for h in histories(full, 2):
            out.append(line("cbref.d", h))
        if not quick:
            for h in exact(core, 3):
                out.append(line("cbref.d", h))
    for _ in range(nrand):
        out.append(line("cbref.d", rand_hist(rng, full, 3, 10)))
    for _ in range(nrand):
        out.append(line("cbref.d", rand_hist(rng, core, 4, 12)))
    # ---------------- special members by triviality
    out += sm_cases(quick, search, rng)
    # ---------------- value_or with a fallback of another arithmetic type
    out += vor_cases(quick, search, rng)
    # ---------------- visit dispatcher: every size tuple in {1..4}^k, k<=3, every active tuple
    for k in (1, 2, 3):
        for sizes in itertools.product((1, 2, 3, 4), repeat=k):
            for idx in itertools.product(*[range(n) for n in sizes]):
                out.append(f"disp {k} " + " ".join(map(str, sizes)) + f" {k} " + " ".join(map(str, idx)))
    return out


def nontrivial(case, impl):
    if not impl.startswith("ok"):
        return False
    return case.startswith("disp") or case.startswith("vor.") or " ; " in impl


# --------------------------------------------------------------------------------------------------------------
# API probes (compile-only, `extra_checks`): what the harness cannot observe at run time because the call is
# ill-formed.  PROBES_MUST: forms etl provides today - they must keep compiling (one translation unit; a failure is
# a violation with the offending statement).  PROBES_KNOWN: forms std::optional / std::expected provide and etl does
# NOT (recorded, not repaired: they are additions, and the property is about the operators "that each type
# provides"); each is compiled alone and must FAIL - when one starts to compile the note says so (then move it to
# PROBES_MUST and into the harness).  Both lists are compiled against std:: as well (s/etl::/std::/) as a check of
# the probes themselves: there every statement must compile.
PROBE_HDR = """#include <etl/expected.hpp>
#include <etl/optional.hpp>
#include <etl/utility.hpp>
#include <etl/variant.hpp>
#include <expected>
#include <optional>
#include <utility>
#include <variant>
struct S { int v; friend bool operator==(S const&, S const&) = default; friend auto operator<=>(S const&, S const&) = default; };
"""
PROBES_MUST = [
    ("optional-nullopt-eq-lt", "etl::optional<int> o; (void)(o == etl::nullopt); (void)(etl::nullopt == o); (void)(o != etl::nullopt); "
                               "(void)(etl::nullopt != o); (void)(o < etl::nullopt); (void)(etl::nullopt < o);"),
    ("optional-six-relations-mixed", "etl::optional<int> o; etl::optional<long> p; (void)(o == p); (void)(o != p); (void)(o < p); "
                                     "(void)(o <= p); (void)(o > p); (void)(o >= p); (void)(o >= 3); (void)(3L <= o);"),
    ("visit-returns-reference", "etl::variant<int, S> v; int k = 0; int& r = etl::visit([&](auto&) -> int& { return k; }, v); (void)r;"),
    ("etl-only visit_with_index-returns-reference",
     "etl::variant<int, S> v; int k = 0; int& q = etl::visit_with_index([&](auto) -> int& { return k; }, v); (void)q;"),
    ("variant-copy-of-class-with-trivial-default-ctor",
     "struct P { int v; P() = default; P(P const& o) noexcept : v(o.v) {} P(P&& o) noexcept : v(o.v) {} "
     "P& operator=(P const&) noexcept { return *this; } P& operator=(P&&) noexcept { return *this; } }; "
     "etl::variant<int, P> a; etl::variant<int, P> b(a); a = b; etl::optional<P> o; etl::optional<P> p(o); (void)p;"),
    ("expected-observers", "etl::expected<int, long> e; (void)e.has_value(); (void)*e; (void)e.value_or(1); e.emplace(2); "
                           "etl::expected<int, long> f(etl::unexpect, 3L); (void)f.error(); e = f;"),
    ("unexpected-eq-swap", "etl::unexpected<int> a(1); etl::unexpected<long> b(2L); (void)(a == b); etl::unexpected<int> c(3); a.swap(c); swap(a, c);"),
    ("repeated-alternative-by-index", "etl::variant<S, S> v(etl::in_place_index<1>, S{1}); v.emplace<0>(S{2}); (void)etl::get_if<1>(&v); "
                                      "static_assert(!etl::is_constructible_v<etl::variant<S, S>, S>);"),
]
PROBES_KNOWN = [
    ("KF-C07-optional-nullopt-relops", [
        "etl::optional<int> o; (void)(o > etl::nullopt);", "etl::optional<int> o; (void)(o <= etl::nullopt);",
        "etl::optional<int> o; (void)(o >= etl::nullopt);", "etl::optional<int> o; (void)(etl::nullopt > o);",
        "etl::optional<int> o; (void)(etl::nullopt <= o);", "etl::optional<int> o; (void)(etl::nullopt >= o);"],
     "optional vs nullopt: etl provides only == and < (both argument orders; != is the C++20 rewrite); opt > nullopt, opt <= nullopt, "
     "opt >= nullopt, nullopt > opt, nullopt <= opt, nullopt >= opt select the unconstrained optional-vs-VALUE template and fail inside "
     "its body (*opt > nullopt). [optional.nullops] has all of them through operator<=>. Missing overloads, recorded rather than "
     "added (the property compares the relational operators each type provides)"),
    ("KF-C07-expected-missing-members", [
        "etl::expected<int, long> e; e = 5;", "etl::expected<int, long> e; e = etl::unexpected<long>(3L);",
        "etl::expected<int, long> e(5);", "etl::expected<int, long> e(etl::unexpected<long>(3L));",
        "etl::expected<int, long> e, f; e.swap(f);", "etl::expected<int, long> e, f; (void)(e == f);",
        "etl::expected<int, long> e; (void)(e == 5);", "etl::expected<int, long> e; (void)(e == etl::unexpected<long>(3L));",
        "etl::expected<int, long> e; (void)e.value();", "etl::expected<void, long> e;"],
     "etl::expected<T, E> has no assignment from a value or from unexpected<G>, no converting constructors from a value / unexpected, "
     "no swap, no operator== (expected/expected, expected/value, expected/unexpected), no value(), error_or, transform, "
     "transform_error and no expected<void, E> ([expected.object.assign], [expected.object.swap], [expected.object.eq], "
     "[expected.void]); what it has (in_place / unexpect construction, copy / move, emplace, observers, value_or, and_then, or_else) "
     "is compared with std::expected. Additions, recorded rather than written"),
]


def _probe_src(body, std):
    src = PROBE_HDR + "int main() {\n" + body + "\nreturn 0; }\n"
    return src.replace("etl::", "std::") if std else src


def _probe_compile(repo, body, std=False):
    with tempfile.NamedTemporaryFile("w", suffix=".cpp", delete=False) as f:
        f.write(_probe_src(body, std))
        path = f.name
    try:
        p = subprocess.run(["g++", "-std=c++2b", "-fsyntax-only", "-w", f"-I{repo}/include", path],
                           stdout=subprocess.PIPE, stderr=subprocess.PIPE, timeout=300)
        return p.returncode == 0, p.stderr.decode("utf-8", "replace")[-1200:]
    finally:
        os.unlink(path)


def _probe_key(repo):
    """content hash of the whole include tree (the engine's, computed once per run) + this file's probe lists"""
    h = hashlib.sha256()
    try:
        from vlib import engine
        h.update(engine.include_hash().encode() if str(engine.REPO) == str(repo) else b"other")
        if str(engine.REPO) != str(repo):
            raise RuntimeError
    except Exception:  # stand-alone use: hash the tree here
        inc = os.path.join(repo, "include")
        for root, _, files in sorted(os.walk(inc)):
            for fn in sorted(files):
                with open(os.path.join(root, fn), "rb") as f:
                    h.update(os.path.join(root, fn).encode())
                    h.update(f.read())
    h.update(json.dumps([PROBE_HDR, PROBES_MUST, PROBES_KNOWN]).encode())
    return h.hexdigest()[:16]


def _probe_results(repo):
    here = os.path.dirname(os.path.abspath(__file__))
    cdir = os.path.join(os.path.dirname(os.path.dirname(here)), "build", "C07")
    os.makedirs(cdir, exist_ok=True)
    cache = os.path.join(cdir, "probes-" + _probe_key(repo) + ".json")
    if os.path.exists(cache):
        with open(cache) as f:
            return json.load(f)
    from concurrent.futures import ThreadPoolExecutor
    jobs = [("must", name, body, False) for name, body in PROBES_MUST]
    jobs.append(("must-std", "all", "\n".join("{ " + body + " }" for n, body in PROBES_MUST if not n.startswith("etl-only")), True))
    for kid, bodies, _ in PROBES_KNOWN:
        for b in bodies:
            jobs.append(("known", kid, b, False))
        jobs.append(("known-std", kid, "\n".join("{ " + b + " }" for b in bodies), True))
    with ThreadPoolExecutor(max_workers=4) as ex:
        res = list(ex.map(lambda j: _probe_compile(repo, j[2], j[3]), jobs))
    out = [{"kind": j[0], "name": j[1], "body": j[2], "ok": r[0], "err": "" if r[0] else r[1]} for j, r in zip(jobs, res)]
    for old in os.listdir(cdir):
        if old.startswith("probes-"):
            os.unlink(os.path.join(cdir, old))
    with open(cache, "w") as f:
        json.dump(out, f)
    return out


def extra_checks(ctx):
    repo = os.environ.get("VERIF_REPO", "/repo")
    items = []
    res = _probe_results(repo)
    must_ok = 0
    for r in res:
        if r["kind"] == "must":
            if r["ok"]:
                must_ok += 1
            else:
                items.append({"kind": "violation", "found_input": True,
                              "payload": {"property": "C07", "kind": "a call form etl provides (and std provides) no longer compiles",
                                          "probe": r["name"], "statements": r["body"], "compiler_output": r["err"]}})
        elif r["kind"] in ("must-std", "known-std") and not r["ok"]:
            items.append({"kind": "note", "text": f"MACHINERY: API probe list {r['name']} does not compile against std:: either: {r['err'][-300:]}"})
            print(f"MACHINERY-WARNING property=C07: API probes ({r['kind']} {r['name']}) do not compile against libstdc++: fix props/C07/prop.py")
    for kid, bodies, what in PROBES_KNOWN:
        rs = [r for r in res if r["kind"] == "known" and r["name"] == kid]
        still = [r["body"] for r in rs if not r["ok"]]
        now_ok = [r["body"] for r in rs if r["ok"]]
        if still:
            items.append({"kind": "known", "text": f"{kid}: {what} [{len(still)}/{len(rs)} probe statements are ill-formed with etl, well-formed with std; e.g. {still[0]}]"})
        if now_ok:
            items.append({"kind": "note", "text": f"{kid}: {len(now_ok)} recorded-missing call forms now compile (move them to PROBES_MUST and into the harness): {now_ok[:3]}"})
    items.append({"kind": "note", "text": f"{must_ok}/{len(PROBES_MUST)} API probes of provided call forms compile"})
    ctx.evidence = {"api_probes": {"must_compile": [n for n, _ in PROBES_MUST], "passed": must_ok,
                                   "recorded_missing": {k: len(b) for k, b, _ in PROBES_KNOWN}}}
    return items
