// C07 harness: instrumented alternative types, value encodings, the two library policies.
//
// Every alternative value is printed through an integer encoding (enc) so that the C++ legs and
// the Coq model/spec talk about the same numbers:
//   bool 0/1, char/short/int/long the value, float/double twice the value (so halves are
//   representable and a float<->int mix-up is visible), Tracked/Tracked2 the int payload.
// Tracked/Tracked2 are non-trivial in every special member.  A move leaves MOVED (99) in the
// source; the destructor poisons the payload (-777) so that a read after destroy is visible
// (compile with -fno-lifetime-dse).  Every constructor/destructor is recorded in a live-address
// set: construct-over-live, destroy-of-dead and leaks are reported per leg.
#ifndef VERIF_C07_TYPES_HPP
#define VERIF_C07_TYPES_HPP

#include <cstddef>
#include <limits>
#include <set>
#include <type_traits>
#include <utility>

namespace c07 {

inline constexpr int MOVED  = 99;
inline constexpr int POISON = -777;
inline constexpr long NANV  = 1000; // encoding of a NaN held by a float / double alternative (Types.v NANV)

struct Life {
    std::set<void const*> live;
    int over = 0; // constructor ran on an address that already holds a live object
    int dead = 0; // destructor ran on an address that holds no live object
    void reset()
    {
        live.clear();
        over = 0;
        dead = 0;
    }
    void born(void const* p)
    {
        if (!live.insert(p).second) { ++over; }
    }
    void died(void const* p)
    {
        if (live.erase(p) == 0) { ++dead; }
    }
};
inline Life g_life;

struct Tracked {
    int v;
    Tracked() noexcept : v(0) { g_life.born(this); }
    Tracked(int x) noexcept : v(x) { g_life.born(this); } // implicit on purpose (converting selection)
    Tracked(Tracked const& o) noexcept : v(o.v) { g_life.born(this); }
    Tracked(Tracked&& o) noexcept : v(o.v)
    {
        o.v = MOVED;
        g_life.born(this);
    }
    auto operator=(Tracked const& o) noexcept -> Tracked&
    {
        v = o.v;
        return *this;
    }
    auto operator=(Tracked&& o) noexcept -> Tracked&
    {
        if (this != &o) {
            v   = o.v;
            o.v = MOVED;
        }
        return *this;
    }
    ~Tracked()
    {
        g_life.died(this);
        v = POISON;
    }
};

struct Tracked2 {
    int v;
    Tracked2() noexcept : v(0) { g_life.born(this); }
    explicit Tracked2(int x) noexcept : v(x) { g_life.born(this); }
    Tracked2(Tracked const& o) noexcept : v(o.v) { g_life.born(this); } // implicit: optional<Tracked2>(optional<Tracked>)
    Tracked2(Tracked&& o) noexcept : v(o.v)
    {
        o.v = MOVED;
        g_life.born(this);
    }
    Tracked2(Tracked2 const& o) noexcept : v(o.v) { g_life.born(this); }
    Tracked2(Tracked2&& o) noexcept : v(o.v)
    {
        o.v = MOVED;
        g_life.born(this);
    }
    auto operator=(Tracked2 const& o) noexcept -> Tracked2&
    {
        v = o.v;
        return *this;
    }
    auto operator=(Tracked2&& o) noexcept -> Tracked2&
    {
        if (this != &o) {
            v   = o.v;
            o.v = MOVED;
        }
        return *this;
    }
    auto operator=(Tracked const& o) noexcept -> Tracked2&
    {
        v = o.v;
        return *this;
    }
    auto operator=(Tracked&& o) noexcept -> Tracked2&
    {
        v   = o.v;
        o.v = MOVED;
        return *this;
    }
    ~Tracked2()
    {
        g_life.died(this);
        v = POISON;
    }
};

// a class whose DEFAULT constructor is trivial while copy / move construction and assignment are user-provided:
// "trivially copy constructible" must be asked about T(T const&), not about T() (etl's trait of that name answers
// for T(); variant<int, TrivDef> was not copy-constructible before the fix).  The model treats it like Tracked2
// (a class with an explicit constructor from int); it has no conversion from Tracked.
struct TrivDef {
    int v;
    TrivDef() = default;
    explicit TrivDef(int x) noexcept : v(x) { }
    TrivDef(TrivDef const& o) noexcept : v(o.v) { }
    TrivDef(TrivDef&& o) noexcept : v(o.v) { o.v = MOVED; }
    auto operator=(TrivDef const& o) noexcept -> TrivDef&
    {
        v = o.v;
        return *this;
    }
    auto operator=(TrivDef&& o) noexcept -> TrivDef&
    {
        if (this != &o) {
            v   = o.v;
            o.v = MOVED;
        }
        return *this;
    }
};
static_assert(std::is_trivially_default_constructible_v<TrivDef> && !std::is_trivially_copy_constructible_v<TrivDef>);

// string literals of length 0..9: a char const* value is identified by the length of its string
inline constexpr char const* g_lits[10] = {"", "x", "xx", "xxx", "xxxx", "xxxxx", "xxxxxx", "xxxxxxx", "xxxxxxxx", "xxxxxxxxx"};
inline auto lit(long e) -> char const* { return g_lits[e < 0 ? 0 : (e > 9 ? 9 : e)]; }
inline auto lit_len(char const* p) -> int
{
    int n = 0;
    while (p[n] != '\0') { ++n; }
    return n;
}

// a string_view-like class: implicitly constructible from a pointer (next to bool in a variant:
// pointer -> bool is a narrowing conversion since P1957, so the class must be selected)
struct Str {
    int v;
    Str() noexcept : v(0) { g_life.born(this); }
    Str(char const* p) noexcept : v(lit_len(p)) { g_life.born(this); } // implicit on purpose
    Str(Str const& o) noexcept : v(o.v) { g_life.born(this); }
    Str(Str&& o) noexcept : v(o.v)
    {
        o.v = MOVED;
        g_life.born(this);
    }
    auto operator=(Str const& o) noexcept -> Str&
    {
        v = o.v;
        return *this;
    }
    auto operator=(Str&& o) noexcept -> Str&
    {
        if (this != &o) {
            v   = o.v;
            o.v = MOVED;
        }
        return *this;
    }
    ~Str()
    {
        g_life.died(this);
        v = POISON;
    }
};

// a base class at a non-zero offset inside the derived class: optional<Base&> from optional<Derived&> /
// optional<Base const&> from optional<Derived> must adjust the pointer (and must not adjust a null one)
struct Pad {
    long pad[2] = {11, 22};
};
struct Base {
    int v = 0;
};
struct Derived : Pad, Base {
    int extra = 5;
    Derived() = default;
    explicit Derived(int x) { v = x; }
};

#define C07_REL(A, B)                                                                                                  \
    inline bool operator==(A const& l, B const& r) { return l.v == r.v; }                                              \
    inline bool operator!=(A const& l, B const& r) { return l.v != r.v; }                                              \
    inline bool operator<(A const& l, B const& r) { return l.v < r.v; }                                                \
    inline bool operator<=(A const& l, B const& r) { return l.v <= r.v; }                                              \
    inline bool operator>(A const& l, B const& r) { return l.v > r.v; }                                                \
    inline bool operator>=(A const& l, B const& r) { return l.v >= r.v; }
C07_REL(Tracked, Tracked)
C07_REL(Tracked2, Tracked2)
C07_REL(Tracked, Tracked2)
C07_REL(Tracked2, Tracked)
C07_REL(Str, Str)
C07_REL(TrivDef, TrivDef)
#undef C07_REL

// ---- type universe (ids shared with Coq: Model.ty) -------------------------------------
template <typename T>
inline constexpr int tid = -1;
template <>
inline constexpr int tid<bool> = 0;
template <>
inline constexpr int tid<char> = 1;
template <>
inline constexpr int tid<short> = 2;
template <>
inline constexpr int tid<int> = 3;
template <>
inline constexpr int tid<long> = 4;
template <>
inline constexpr int tid<float> = 5;
template <>
inline constexpr int tid<double> = 6;
template <>
inline constexpr int tid<Tracked> = 7;
template <>
inline constexpr int tid<Tracked2> = 8;
template <>
inline constexpr int tid<TrivDef> = 8; // printed (and modelled) as Tracked2
template <>
inline constexpr int tid<char const*> = 10;
template <>
inline constexpr int tid<Str> = 11;

template <int Id>
struct type_of_id;
template <>
struct type_of_id<0> {
    using type = bool;
};
template <>
struct type_of_id<1> {
    using type = char;
};
template <>
struct type_of_id<2> {
    using type = short;
};
template <>
struct type_of_id<3> {
    using type = int;
};
template <>
struct type_of_id<4> {
    using type = long;
};
template <>
struct type_of_id<5> {
    using type = float;
};
template <>
struct type_of_id<6> {
    using type = double;
};
template <>
struct type_of_id<7> {
    using type = Tracked;
};
template <>
struct type_of_id<8> {
    using type = Tracked2;
};
template <>
struct type_of_id<10> {
    using type = char const*;
};
template <>
struct type_of_id<11> {
    using type = Str;
};
// the source types of the converting constructor / assignment (9 = nullopt_t is not one)
using source_ids = std::integer_sequence<int, 0, 1, 2, 3, 4, 5, 6, 7, 8, 10, 11>;

template <typename T>
inline long enc(T const& x)
{
    using U = std::remove_cv_t<T>;
    if constexpr (std::is_same_v<U, float> || std::is_same_v<U, double>) {
        if (x != x) { return NANV; } // every NaN is the one encoded value: payloads / signs are not compared
        return static_cast<long>(x * 2);
    } else if constexpr (std::is_same_v<U, Tracked> || std::is_same_v<U, Tracked2> || std::is_same_v<U, Str> || std::is_same_v<U, TrivDef>) {
        return x.v;
    } else if constexpr (std::is_same_v<U, Base> || std::is_same_v<U, Derived>) {
        return x.v;
    } else if constexpr (std::is_same_v<U, char const*>) {
        return lit_len(x);
    } else {
        return static_cast<long>(x);
    }
}

// a prvalue of T holding the encoded value e
template <typename T>
inline auto dec(long e) -> T
{
    if constexpr (std::is_same_v<T, float> || std::is_same_v<T, double>) {
        if (e == NANV) { return std::numeric_limits<T>::quiet_NaN(); }
        return static_cast<T>(static_cast<double>(e) / 2);
    } else if constexpr (std::is_same_v<T, Tracked> || std::is_same_v<T, Tracked2> || std::is_same_v<T, TrivDef>) {
        return T(static_cast<int>(e));
    } else if constexpr (std::is_same_v<T, Derived>) {
        return Derived(static_cast<int>(e));
    } else if constexpr (std::is_same_v<T, Base>) {
        Base b;
        b.v = static_cast<int>(e);
        return b;
    } else if constexpr (std::is_same_v<T, Str>) {
        return Str(lit(e));
    } else if constexpr (std::is_same_v<T, char const*>) {
        return lit(e);
    } else if constexpr (std::is_same_v<T, bool>) {
        return e != 0;
    } else {
        return static_cast<T>(e);
    }
}

// constructor argument for in-place construction of T holding e (no temporary of class type)
template <typename T>
inline auto raw(long e)
{
    if constexpr (std::is_same_v<T, Tracked> || std::is_same_v<T, Tracked2> || std::is_same_v<T, TrivDef>) {
        return static_cast<int>(e);
    } else if constexpr (std::is_same_v<T, Str>) {
        return lit(e);
    } else {
        return dec<T>(e);
    }
}

template <typename T>
inline constexpr bool is_class_alt
    = std::is_same_v<T, Tracked> || std::is_same_v<T, Tracked2> || std::is_same_v<T, Str> || std::is_same_v<T, TrivDef>;

} // namespace c07

#endif
