(* C07 driver: model leg = extracted Model.v run on the history, spec leg = extracted Spec.v.
   Parsing and printing only; the token layout is the one of props/C07/harness.cpp. *)
exception Bad of string

let ok_or = function
  | Ok x -> x
  | Contract -> raise (Bad "contract")
  | UB _ -> raise (Bad "ub")
  | OutOfFuel -> raise (Bad "outoffuel")

let ni = nat_of_int
let zi = z_of_int
let si z = str_of_z z
let sn n = string_of_int (int_of_nat n)
let tb t = t <> 0

type step = { opc : char; t : int; p : int; q : int }

let read_steps tk =
  let n = next_int tk in
  List.init n (fun _ ->
      let o = next_str tk in
      let t = next_int tk in
      let p = next_int tk in
      let q = next_int tk in
      { opc = (if o = "" then '?' else o.[0]); t; p; q })

let six f = String.concat "" (List.map (fun k -> b2s (f (ni k))) [ 0; 1; 2; 3; 4; 5 ])

let sets =
  [ ("var.A", [ TInt; TFloat ]); ("var.B", [ TInt; TTr; TFloat ]); ("var.C", [ TTr; TTr2 ]);
    ("var.D", [ TInt; TLong; TChar; TTr ]); ("var.E", [ TBool; TTr ]); ("var.F", [ TChar; TTr; TDouble ]);
    ("var.G", [ TFloat; TLong ]); ("var.H", [ TBool; TStr ]); ("var.I", [ TStr; TTr; TBool ]);
    (* repeated alternative types (index-based API only) and a floating alternative that takes NaN values *)
    ("var.R", [ TTr; TTr ]); ("var.Q", [ TTr; TInt; TTr ]); ("var.J", [ TInt; TDouble ]);
    (* TrivDef (trivial default constructor, user-provided copy / move): a class like Tracked2; its family has no
       converting operations from Tracked / Tracked2 sources *)
    ("var.P", [ TInt; TTr2 ]) ]

(* the alternative type at position i occurs exactly once: the by-type API (emplace<T>, in_place_type<T>,
   holds_alternative<T>, get_if<T>) is well-formed for it *)
let uniq alts i =
  let t = alt_ty alts (ni i) in
  List.length (List.filter (fun u -> ty_id u = ty_id t) alts) = 1

(* ------------------------------------------------------------------ variant *)
let vop_of alts s =
  let t = tb s.t in
  match s.opc with
  | 'E' -> VEmplace (t, ni s.p, zi s.q)
  | 'T' when uniq alts s.p -> VEmplaceT (t, alt_ty alts (ni s.p), zi s.q)
  | 'I' -> VInPlace (t, ni s.p, zi s.q)
  | 'Y' when uniq alts s.p -> VInPlaceT (t, alt_ty alts (ni s.p), zi s.q)
  | 'T' | 'Y' -> VSelfCopy t   (* ill-formed call ("nc"): nothing happens; VSelfCopy is the identity in model and spec *)
  | 'V' -> VConvAssign (t, ty_of_id (ni s.p), zi s.q)
  | 'W' -> VConvCtor (t, ty_of_id (ni s.p), zi s.q)
  | 'L' -> VConvAssign (t, alt_ty alts (ni s.p), zi s.q)
  | 'C' -> VCopyAssign t
  | 'M' -> VMoveAssign t
  | 'K' -> VCopyCtor t
  | 'J' -> VMoveCtor t
  | 'S' -> VSwap
  | 'F' -> VSelfCopy t
  | 'G' -> VSelfMove t
  | 'A' -> VAlias t
  | 'D' -> VDefault t
  | _ -> raise Not_found

(* tokens printed in front of the state for a step *)
let vstep_prefix alts s (xi, xv) =
  match s.opc with
  | 'T' | 'Y' when not (uniq alts s.p) -> [ "nc" ]
  | 'E' | 'T' -> [ "r"; si xv ]
  | 'V' | 'W' -> ( match select alts (ty_of_id (ni s.p)) with None -> [ "nc" ] | Some _ -> [])
  | 'L' -> ( match select alts (alt_ty alts (ni s.p)) with None -> [ "nc" ] | Some _ -> [])
  | 'A' -> ( match select alts (alt_ty alts xi) with None -> [ "nc" ] | Some _ -> [])
  | _ -> []

let var_model alts steps =
  let buf = ref [ "ok" ] in
  let add l = buf := List.rev_append l !buf in
  let n = List.length alts in
  let st = ref (var_default, var_default) in
  List.iter
    (fun s ->
      let x0 = if tb s.t then snd !st else fst !st in
      st := ok_or (vstep alts !st (vop_of alts s));
      let a, b = !st in
      let x = if tb s.t then b else a in
      add (vstep_prefix alts s ((if s.opc = 'A' then x0.idx else x.idx), x.val0));
      add [ sn a.idx; si a.val0; sn b.idx; si b.val0; six (fun k -> ok_or (var_rel alts k a b)); ";" ])
    steps;
  let a, b = !st in
  List.iter
    (fun x ->
      let idxs = List.init n (fun i -> i) in
      let h =
        String.concat ""
          (List.map (fun i -> if uniq alts i then b2s (holds_alternative alts x (alt_ty alts (ni i))) else "-") idxs)
      in
      let g1 = String.concat "" (List.map (fun i -> b2s (ok_or (get_if x (ni i)) <> None)) idxs) in
      let g2 =
        String.concat ""
          (List.map
             (fun i -> if uniq alts i then b2s (ok_or (get_if x (index_of (alt_ty alts (ni i)) alts)) <> None) else "-")
             idxs)
      in
      add [ "h"; h; g1 ^ g2 ^ g1 ^ g2 ];
      match ok_or (visit_types [ alts ] [ x ]) with
      | [ (t, v) ] -> add [ "v"; sn (ty_id t); si v ]
      | _ -> raise (Bad "visit-shape"))
    [ a; b ];
  add [ six (fun k -> ok_or (var_rel alts k a b)); six (fun k -> ok_or (var_rel alts k b a)) ];
  (* value categories handed to the visitor: not modelled beyond "the category of the variant expression" *)
  add [ "vc"; "lcrkrc" ];
  (* visit returns what the visitor returns, references included: both C++ legs only *)
  add [ "vr"; "1"; "1"; "1"; "1"; "1" ];
  (* get_if(nullptr), visit(f), visit with a non-variant operand in the middle (a one-alternative operand of the
     dispatcher), element-wise swap of two arrays {a, b} <-> {b, a} *)
  add [ "gn"; "1"; "1"; "7" ];
  (match ok_or (visit_vals [ n_of alts; S O; n_of alts ] [ a; { idx = O; val0 = zi 7 }; b ]) with
   | [ (i, v); (_, k); (j, w) ] -> add [ "vn"; sn (ty_id (alt_ty alts i)); si v; si k; sn (ty_id (alt_ty alts j)); si w ]
   | _ -> raise (Bad "visit-shape"));
  (let x0, y0 = ok_or (swap_generic alts a b) in
   let x1, y1 = ok_or (swap_generic alts b a) in
   add ("sa" :: List.concat_map (fun (x : var) -> [ sn x.idx; si x.val0 ]) [ x0; x1; y0; y1 ]));
  add ("v2" :: List.concat_map (fun (t, v) -> [ sn (ty_id t); si v ]) (ok_or (visit_types [ alts; alts ] [ a; b ])));
  add
    ("v3"
    :: List.concat_map (fun (t, v) -> [ sn (ty_id t); si v ]) (ok_or (visit_types [ alts; alts; alts ] [ b; a; b ])));
  add [ "life"; "ok" ];
  join (List.rev !buf)

let var_spec alts steps =
  let buf = ref [ "ok" ] in
  let add l = buf := List.rev_append l !buf in
  let n = List.length alts in
  let st = ref ((O, Z0), (O, Z0)) in
  List.iter
    (fun s ->
      let x0 = if tb s.t then snd !st else fst !st in
      st := sv_step alts !st (vop_of alts s);
      let a, b = !st in
      let x = if tb s.t then b else a in
      add (vstep_prefix alts s ((if s.opc = 'A' then fst x0 else fst x), snd x));
      add [ sn (fst a); si (snd a); sn (fst b); si (snd b); six (fun k -> sv_rel k a b); ";" ])
    steps;
  let a, b = !st in
  List.iter
    (fun x ->
      let idxs = List.init n (fun i -> i) in
      let h =
        String.concat "" (List.map (fun i -> if uniq alts i then b2s (sv_holds alts x (alt_ty alts (ni i))) else "-") idxs)
      in
      let g1 = String.concat "" (List.map (fun i -> b2s (sv_get_if x (ni i) <> None)) idxs) in
      let g2 =
        String.concat ""
          (List.map
             (fun i -> if uniq alts i then b2s (sv_get_if x (index_of (alt_ty alts (ni i)) alts) <> None) else "-")
             idxs)
      in
      add [ "h"; h; g1 ^ g2 ^ g1 ^ g2 ];
      match sv_visit [ alts ] [ x ] with
      | [ (t, v) ] -> add [ "v"; sn (ty_id t); si v ]
      | _ -> raise (Bad "visit-shape"))
    [ a; b ];
  add [ six (fun k -> sv_rel k a b); six (fun k -> sv_rel k b a) ];
  add [ "vc"; "lcrkrc" ];
  (* visit returns what the visitor returns, references included: both C++ legs only *)
  add [ "vr"; "1"; "1"; "1"; "1"; "1" ];
  add [ "gn"; "1"; "1"; "7" ];
  (match sv_visit [ alts; alts ] [ a; b ] with
   | [ (t, v); (u, w) ] -> add [ "vn"; sn (ty_id t); si v; "7"; sn (ty_id u); si w ]
   | _ -> raise (Bad "visit-shape"));
  add ("sa" :: List.concat_map (fun (i, v) -> [ sn i; si v ]) [ b; a; a; b ]);
  add ("v2" :: List.concat_map (fun (t, v) -> [ sn (ty_id t); si v ]) (sv_visit [ alts; alts ] [ a; b ]));
  add ("v3" :: List.concat_map (fun (t, v) -> [ sn (ty_id t); si v ]) (sv_visit [ alts; alts; alts ] [ b; a; b ]));
  add [ "life"; "ok" ];
  join (List.rev !buf)

(* ------------------------------------------------------------------ optional *)
(* nu: normalisation of a U-typed literal (U = bool: any non-zero value is true) *)
let norm_u tU v = if tU = TBool then (if Big.equal (big_of_z v) Big.zero then Z0 else zi 1) else v

let oop_of tU s =
  let t = tb s.t in
  let nu = norm_u tU in
  match s.opc with
  | 'e' -> OEmplace (t, zi s.p)
  | 'a' | 'w' -> OAssignT (t, zi s.p)
  | 'u' -> OAssignU (t, nu (zi s.p))
  | 'n' -> ONullopt t
  | 'b' -> OBraces t
  | 'r' -> OReset t
  | 'c' -> OCopyAssign t
  | 'm' -> OMoveAssign t
  | 'k' -> OCopyCtor t
  | 'l' -> OMoveCtor t
  | 's' | 'S' -> OSwap
  | 'f' -> OSelfCopy t
  | 'g' -> OSelfMove t
  | 'h' -> OOwnValue t
  | 'v' -> OOwnMember t
  | 'x' -> OAssignOptU t
  | 'y' -> OMoveOptU t
  | 'X' -> OCtorOptU t
  | 'Y' -> OCtorMoveOptU t
  | 'E' -> OEmplaceC (nu (zi s.p))
  | 'R' -> OResetC
  | 'i' | 'j' | 'p' | 'P' | 'q' -> OCtorValue (t, zi s.p)   (* p, P, q: make_optional(value) / make_optional<T>(args) / make_optional(lvalue) *)
  | 'J' -> OCtorValueU (t, nu (zi s.p))
  | 'd' | 'D' -> OCtorEmpty t
  | _ -> raise Not_found

(* the values an optional is compared with: a floating T/U pair also with a NaN *)
let is_fp t = (t = TFloat || t = TDouble)
let fp_vals tT tU = [ 1; 2; 3; (if is_fp tT && is_fp tU then 1000 else 3) ]

let f_and_then v = if Big.equal (big_of_z v) (Big.of_int 2) then None else Some (z_of_big (Big.mul (big_of_z v) (Big.of_int 10)))
let so = function Some v -> si v | None -> "-1"
let sstate = function Some v -> [ "1"; si v ] | None -> [ "0"; "-1" ]
let qletter = function Some QL -> "l" | Some QC -> "c" | Some QR -> "r" | Some QCR -> "k" | None -> "-"

(* observers of the ref-qualified overloads of optional (layout of OptRunner::observers after "q"):
   at q f byval -> ((result, category), object) ; oe q -> (result, object) ; vo q -> (value, object) ;
   tk q -> (value, object) option ; view : object -> Z option *)
let opt_qual_observers at oe vo tk view =
  let cats = String.concat "" (List.map (fun q -> let (_, c), _ = at q (fun v -> Some v) false in qletter c) [ QL; QC; QR; QCR ]) in
  let a3 q = let (r, _), t = at q f_and_then true in [ so r ] @ sstate (view t) in
  let o2 q = let r, t = oe q in sstate r @ sstate (view t) in
  let v2 q = let v, t = vo q in [ si v ] @ sstate (view t) in
  let t2 q obj = match tk q with Some (v, t) -> [ si v ] @ sstate (view t) | None -> [ "-1" ] @ sstate (view obj) in
  fun obj ->
    [ "q"; cats ] @ a3 QR @ a3 QCR @ a3 QL @ o2 QR @ o2 QCR @ v2 QR @ v2 QCR @ t2 QR obj @ t2 QCR obj @ t2 QL obj


let opt_model tT tU steps =
  let buf = ref [ "ok" ] in
  let add l = buf := List.rev_append l !buf in
  let view x = if has_value x then Some (ok_or (opt_deref x)) else None in
  let st = ref ((opt_empty, opt_empty), opt_empty) in
  List.iter
    (fun s ->
      st := ok_or (ostep tT tU !st (oop_of tU s));
      let (a, b), c = !st in
      (if s.opc = 'e' then
       let x = if tb s.t then b else a in
       add [ "r"; si (ok_or (opt_deref x)) ]);
      add (sstate (view a) @ sstate (view b) @ sstate (view c));
      add [ six (fun k -> ok_or (opt_rel k a b)); ";" ])
    steps;
  let (a, b), c = !st in
  let observers a b =
    add [ "o"; b2s (has_value a); b2s (has_value a); so (view a) ];
    add (List.map (fun d -> si (ok_or (opt_value_or a d))) [ zi 7; conv tU tT (norm_u tU (zi 8)); zi 9 ]);
    let r = so (ok_or (opt_and_then a f_and_then)) in
    add [ r; r; r ];
    let g = sstate (ok_or (opt_or_else tT a (Some (zi 42)))) in
    add (g @ g @ sstate (ok_or (opt_or_else tT a None)));
    add
      (opt_qual_observers
         (fun q f bv -> ok_or (opt_and_then_q tT q a f bv))
         (fun q -> ok_or (opt_or_else_q tT q a (Some (zi 42))))
         (fun q -> ok_or (opt_value_or_q tT q a (zi 7)))
         (fun q -> if has_value a then Some (ok_or (opt_take_q tT q a)) else None)
         view a);
    add [ "r"; six (fun k -> ok_or (opt_rel k a b)); six (fun k -> ok_or (opt_rel k b a)) ];
    add [ String.concat "" (List.map (fun k -> b2s (opt_rel_null (ni k) a)) [ 0; 1; 2; 3; 4; 5 ]) ];
    List.iter
      (fun v ->
        let l = six (fun k -> ok_or (opt_rel_val k false a (zi v))) in
        let r = six (fun k -> ok_or (opt_rel_val k true a (zi v))) in
        let lu = six (fun k -> ok_or (opt_rel_val k false a (norm_u tU (zi v)))) in
        let ru = six (fun k -> ok_or (opt_rel_val k true a (norm_u tU (zi v)))) in
        add [ l; r; lu; ru ])
      (fp_vals tT tU);
    add [ six (fun k -> ok_or (opt_rel k a c)); six (fun k -> ok_or (opt_rel k c a)) ]
  in
  observers a b;
  observers b a;
  add [ "life"; "ok" ];
  (* etl-only detail: operator-> = get_if<1>(&_var) is null on a disengaged optional *)
  let nul x = b2s (ok_or (get_if x (S O)) = None) in
  add [ "#"; nul a ^ nul a ^ nul b ^ nul b ];
  join (List.rev !buf)

let opt_spec tT tU steps =
  let buf = ref [ "ok" ] in
  let add l = buf := List.rev_append l !buf in
  let st = ref ((None, None), None) in
  List.iter
    (fun s ->
      st := so_step tT tU !st (oop_of tU s);
      let (a, b), c = !st in
      (if s.opc = 'e' then
       let x = if tb s.t then b else a in
       add [ "r"; so x ]);
      add (sstate a @ sstate b @ sstate c);
      add [ six (fun k -> so_rel k a b); ";" ])
    steps;
  let (a, b), c = !st in
  let observers a b =
    let h = b2s (a <> None) in
    add [ "o"; h; h; so a ];
    add (List.map (fun d -> si (so_value_or a d)) [ zi 7; conv tU tT (norm_u tU (zi 8)); zi 9 ]);
    let r = so (so_and_then a f_and_then) in
    add [ r; r; r ];
    let g = sstate (so_or_else a (Some (zi 42))) in
    add (g @ g @ sstate (so_or_else a None));
    add
      (opt_qual_observers
         (fun q f bv -> so_and_then_q tT q a f bv)
         (fun q -> so_or_else_q tT q a (Some (zi 42)))
         (fun q -> so_value_or_q tT q a (zi 7))
         (fun q -> so_take_q tT q a)
         (fun x -> x) a);
    add [ "r"; six (fun k -> so_rel k a b); six (fun k -> so_rel k b a) ];
    add [ String.concat "" (List.map (fun k -> b2s (so_rel_null (ni k) a)) [ 0; 1; 2; 3; 4; 5 ]) ];
    List.iter
      (fun v ->
        let l = six (fun k -> so_rel_val k false a (zi v)) in
        let r = six (fun k -> so_rel_val k true a (zi v)) in
        let lu = six (fun k -> so_rel_val k false a (norm_u tU (zi v))) in
        let ru = six (fun k -> so_rel_val k true a (norm_u tU (zi v))) in
        add [ l; r; lu; ru ])
      (fp_vals tT tU);
    add [ six (fun k -> so_rel k a c); six (fun k -> so_rel k c a) ]
  in
  observers a b;
  observers b a;
  add [ "life"; "ok" ];
  join (List.rev !buf)

(* ------------------------------------------------------------------ expected *)
let eop_of s =
  let t = tb s.t in
  match s.opc with
  | 'v' -> EValue (t, zi s.p)
  | 'u' -> EUnexpect (t, zi s.p)
  | 'e' -> EEmplace (t, zi s.p)
  | 'c' -> ECopyAssign t
  | 'm' -> EMoveAssign t
  | 'k' -> ECopyCtor t
  | 'l' -> EMoveCtor t
  | 'f' -> ESelfCopy t
  | 'g' -> ESelfMove t
  | 'd' -> EDefault t
  | _ -> raise Not_found

let is2 v = Big.equal (big_of_z v) (Big.of_int 2)
let times10 v = z_of_big (Big.mul (big_of_z v) (Big.of_int 10))
let f_exp v = if is2 v then (false, zi 55) else (true, times10 v)
let g_exp e = if is2 e then (true, zi 66) else (false, times10 e)
let pstate (h, v) = [ b2s h; si v ]

(* observers of the four ref-qualified overloads (layout of ExpRunner::observers after "q") *)
(* fc / gc of the harness: identity mapping, do not consume their argument *)
let fc_exp v = (true, v)
let gc_exp e = (false, e)

(* at : q -> callee -> byval -> ((result, category), object after) ; view : object -> (bool, Z) *)
let qual_observers at ot vo tk view =
  let cats =
    String.concat ""
      (List.map (fun q -> let (_, c), _ = at q fc_exp false in qletter c) [ QL; QC; QR; QCR ]
      @ List.map (fun q -> let (_, c), _ = ot q gc_exp false in qletter c) [ QL; QC; QR; QCR ])
  in
  let pair ((r, _), t) = pstate r @ pstate (view t) in
  [ "q"; cats ]
  @ pair (at QR f_exp true) @ pair (at QCR f_exp true) @ pair (ot QR g_exp true) @ pair (ot QCR g_exp true)
  @ pair (at QL f_exp true) @ pair (ot QL g_exp true)
  @ List.concat_map (fun q -> let v, t = vo q in si v :: pstate (view t)) [ QR; QCR ]
  @ List.concat_map (fun q -> let v, t = tk q in si v :: pstate (view t)) [ QR; QCR; QL ]

let exp_model tT tE steps =
  let buf = ref [ "ok" ] in
  let add l = buf := List.rev_append l !buf in
  let view x = if exp_has_value x then (true, ok_or (exp_deref x)) else (false, ok_or (exp_error x)) in
  let st = ref (var_default, { idx = S O; val0 = Z0 }) in
  List.iter
    (fun s ->
      st := ok_or (estep tT tE !st (eop_of s));
      let a, b = !st in
      (if s.opc = 'e' then
       let x = if tb s.t then b else a in
       add [ "r"; si (ok_or (exp_deref x)) ]);
      add (pstate (view a) @ pstate (view b) @ [ ";" ]))
    steps;
  let a, b = !st in
  let observers a =
    add [ "o"; b2s (exp_has_value a); b2s (exp_has_value a) ];
    add (List.map (fun d -> si (ok_or (exp_value_or a (zi d)))) [ 7; 8; 9 ]);
    let r = pstate (ok_or (exp_and_then a f_exp)) in
    add (r @ r @ r);
    let r = pstate (ok_or (exp_or_else a g_exp)) in
    add (r @ r @ r);
    add
      (qual_observers
         (fun q f bv -> ok_or (exp_and_then_q tT tE q a f bv))
         (fun q g bv -> ok_or (exp_or_else_q tT tE q a g bv))
         (fun q -> ok_or (exp_value_or_q tT q a (zi 7)))
         (fun q -> if exp_has_value a then ok_or (exp_take_q tT q a) else ok_or (exp_take_error_q tE q a))
         view)
  in
  observers a;
  observers b;
  add [ "life"; "ok" ];
  (* etl-only detail: operator-> = get_if<0>(&_u) is null when there is no value *)
  let nul x = b2s (ok_or (get_if x O) = None) in
  add [ "#"; nul a ^ nul a ^ nul b ^ nul b ];
  join (List.rev !buf)

let exp_spec tT tE steps =
  let buf = ref [ "ok" ] in
  let add l = buf := List.rev_append l !buf in
  let view = function Inl v -> (true, v) | Inr e -> (false, e) in
  let st = ref (Inl Z0, Inr Z0) in
  List.iter
    (fun s ->
      st := se_step tT tE !st (eop_of s);
      let a, b = !st in
      (if s.opc = 'e' then
       let x = if tb s.t then b else a in
       add [ "r"; si (snd (view x)) ]);
      add (pstate (view a) @ pstate (view b) @ [ ";" ]))
    steps;
  let a, b = !st in
  let observers a =
    let h = b2s (fst (view a)) in
    add [ "o"; h; h ];
    add (List.map (fun d -> si (se_value_or a (zi d))) [ 7; 8; 9 ]);
    let r = pstate (se_and_then a f_exp) in
    add (r @ r @ r);
    let r = pstate (se_or_else a g_exp) in
    add (r @ r @ r);
    add
      (qual_observers
         (fun q f bv -> se_and_then_q tT tE q a f bv)
         (fun q g bv -> se_or_else_q tT tE q a g bv)
         (fun q -> se_value_or_q tT q a (zi 7))
         (fun q ->
           match (match a with Inl _ -> se_take_q tT q a | Inr _ -> se_take_error_q tE q a) with
           | Some r -> r
           | None -> raise (Bad "na"))
         view)
  in
  observers a;
  observers b;
  add [ "life"; "ok" ];
  join (List.rev !buf)

(* ------------------------------------------------------------------ optional<T&> *)
(* cst: the family with a const referent type (the cref families): no write-through; the converting
   constructors from optional<T> const& / optional<T&> const& exist only there *)
let rop_of (cst, fromz) s =
  let t = tb s.t in
  match s.opc with
  | 'a' | 'e' | 'j' -> RBind (t, ni (s.p mod 3))
  | 'n' | 'r' -> RNull t
  | 'c' | 'm' | 'k' -> RCopy t
  | 's' -> RSwap
  | 'w' when not cst -> RWrite (t, zi s.q)
  | 'f' -> RSelf t
  | 'W' -> RCellSet (ni (s.p mod 3), zi s.q)
  | ('o' | 'i' | 'O') when cst -> RFromOpt t
  | ('O' | 'Q') when not cst -> RFromOpt t   (* optional(optional<U>&); x = src is x = O(src) there *)
  | ('x' | 'X') when fromz -> RFromRef t
  | ('q' | 'Q') when cst -> RAssignOpt t
  | ('y' | 'Y') when fromz -> RAssignRef t
  | 'z' -> RZBind (ni (s.p mod 3))
  | 'Z' -> RZNull
  | 'S' -> RSrcAssign (zi s.q)
  | 'E' -> RSrcEmplace (zi s.q)
  | 'R' -> RSrcReset
  | _ -> raise Not_found

let tgt_id = function RCell c -> sn c | RSrc -> "3"

(* deref: Some v / None (no defined value: dangling) *)
let ref_line cs (hs, vs) pa pb pz deref =
  let one p =
    match p with
    | Some g -> [ "1"; tgt_id g; (match deref p with Some v -> si v | None -> "dang") ]
    | None -> [ "0"; "-1"; "-1" ]
  in
  let h = b2s (pa <> None) in
  one pa @ one pb @ one pz @ [ b2s hs; (if hs then si vs else "-1") ] @ List.map si cs @ [ h; h; h; ";" ]

let ref_model ty cst steps =
  let buf = ref [ "ok" ] in
  let add l = buf := List.rev_append l !buf in
  let st = ref { cells = [ zi 1; zi 2; zi 3 ]; src = opt_empty; pa = None; pb = None; pz = None } in
  List.iter
    (fun s ->
      st := ok_or (rstep ty !st (rop_of cst s));
      let sr = !st.src in
      let hs = has_value sr in
      add
        (ref_line !st.cells
           (hs, if hs then ok_or (opt_deref sr) else Z0)
           !st.pa !st.pb !st.pz
           (fun p -> match ref_deref !st.cells sr p with Ok v -> Some v | UB _ -> None | r -> Some (ok_or r))))
    steps;
  add [ "life"; "ok" ];
  join (List.rev !buf)

let ref_spec cst steps =
  let buf = ref [ "ok" ] in
  let add l = buf := List.rev_append l !buf in
  let st = ref (([ zi 1; zi 2; zi 3 ], None), ((None, None), None)) in
  List.iter
    (fun s ->
      (match sr_step !st (rop_of cst s) with Some s' -> st := s' | None -> raise (Bad "na"));
      let (cs, sr), ((pa, pb), pz) = !st in
      add
        (ref_line cs
           (match sr with Some v -> (true, v) | None -> (false, Z0))
           pa pb pz
           (fun p -> sr_deref cs sr p)))
    steps;
  add [ "life"; "ok" ];
  join (List.rev !buf)

(* ------------------------------------------------------------------ unexpected *)
let uop_of s =
  let t = tb s.t in
  match s.opc with
  | 'v' | 'i' -> UValue (t, zi s.p)
  | 'c' -> UCopy t
  | 'm' -> UMove t
  | 's' | 'S' -> USwap
  | 'E' -> USetC (zi s.p)
  | _ -> raise Not_found

let unx_leg step steps =
  let buf = ref [ "ok" ] in
  let add l = buf := List.rev_append l !buf in
  let st = ref ((Z0, Z0), Z0) in
  List.iter
    (fun s ->
      st := step !st (uop_of s);
      let (a, b), c = !st in
      add [ si a; si b; si c; b2s (unex_eq a b); b2s (not (unex_eq a b)); b2s (unex_eq a c); b2s (unex_eq b c); ";" ])
    steps;
  add [ "life"; "ok" ];
  join (List.rev !buf)

(* ------------------------------------------------------------------ entry *)
let guard f = try f () with Bad m -> m

(* ------------------------------------------------------------------ special-member families, ops "sm?.<F>" *)
(* (alternatives, index the objects start with, has the optional<U> object c, flags whose element traits are
   printed, mask of the wrapper's traits) *)
let sm_cfg op =
  let fl n = f_of_bits (ni n) in
  let num pre =
    let n = String.length pre in
    if String.length op > n && String.sub op 0 n = pre then
      match int_of_string_opt (String.sub op n (String.length op - n)) with
      | Some f when f >= 0 && f < 32 && pre ^ string_of_int f = op -> Some f
      | _ -> None
    else None
  in
  match op with
  | "smw.a" -> Some ([ fl 2; f_plain; fl 16 ], 1, false, [ fl 2; f_plain; fl 16 ], 0x1ff)
  | "smw.b" -> Some ([ fl 8; fl 1; f_plain ], 2, false, [ fl 8; fl 1; f_plain ], 0x1ff)
  | "smw.c" -> Some ([ f_plain; fl 4; fl 2 ], 0, false, [ f_plain; fl 4; fl 2 ], 0x1ff)
  | _ -> (
      match (num "smv.", num "smo.", num "sme.", num "smf.") with
      | Some f, _, _, _ -> Some ([ f_plain; fl f ], 0, false, [ f_plain; fl f ], 0x1ff)
      | _, Some f, _, _ -> Some ([ f_plain; fl f ], 0, true, [ fl f ], 0x1ff)
      | _, _, Some f, _ -> Some ([ fl f; f_plain ], 1, false, [ fl f; f_plain ], 0x1f3)
      | _, _, _, Some f -> Some ([ f_plain; fl f ], 0, false, [ f_plain; fl f ], 0x1f3)
      | _ -> None)

let sm_ev_s = function
  | EvI v -> "i" ^ si v
  | EvCC v -> "c" ^ si v
  | EvMC v -> "m" ^ si v
  | EvCA (o, n) -> "a" ^ si o ^ ":" ^ si n
  | EvMA (o, n) -> "A" ^ si o ^ ":" ^ si n
  | EvD v -> "d" ^ si v
  | EvXC v -> "x" ^ si v
  | EvXM v -> "X" ^ si v
  | EvXA (o, n) -> "y" ^ si o ^ ":" ^ si n
  | EvXMA (o, n) -> "Y" ^ si o ^ ":" ^ si n

let sm_leg traits run (alts, i0, has_c, elts, mask) steps =
  let nalts = List.length alts in
  let sop_of s =
    let t = tb s.t in
    (* optional: index 0 is the disengaged state, it has no value *)
    let v = if has_c && s.p = 0 then zi 0 else zi s.q in
    match s.opc with
    | 'E' when s.p >= 0 && s.p < nalts && (mask = 0x1ff || s.p = 0) -> SEmplace (t, ni s.p, v)
    | 'I' when s.p >= 0 && s.p < nalts -> SInPlace (t, ni s.p, v)
    | 'C' -> SCopyAssign t
    | 'M' -> SMoveAssign t
    | 'K' -> SCopyCtor t
    | 'J' -> SMoveCtor t
    | 'F' -> SSelfCopy t
    | 'G' -> SSelfMove t
    | 'Q' when has_c -> SSetC (zi s.q)
    | 'R' when has_c -> SResetC
    | 'x' when has_c -> SConvCopy t
    | 'y' when has_c -> SConvMove t
    | _ -> raise Not_found
  in
  let ops = List.map sop_of steps in
  let o0 = { oi = ni i0; ov = zi 0 } in
  let per, fin = run alts ((o0, o0), { oi = ni 0; ov = zi 0 }) ops in
  let st x = [ sn x.oi; si x.ov ] in
  let head =
    [ "ok"; "tr" ] @ List.map (fun f -> sn (elt_traits f)) elts @ [ string_of_int (int_of_nat (traits alts) land mask); ";" ]
  in
  let body =
    List.concat_map
      (fun ((((a, b), c), tmp), e) ->
        st a @ st b
        @ (if has_c then [ (if int_of_nat c.oi = 1 then "1" else "0"); (if int_of_nat c.oi = 1 then si c.ov else "0") ] else [])
        @ (match tmp with Some t -> "tmp" :: st t | None -> [])
        @ ("ev" :: List.map sm_ev_s e)
        @ [ ";" ])
      per
  in
  join (head @ body @ ("fin" :: "ev" :: List.map sm_ev_s fin))

(* ------------------------------------------------------------------ value_or with a fallback of another type
   vor.<T><U> <engaged> <held> <fallback>; a floating value travels as twice its value.  Per wrapper (optional,
   expected): 12 results (4 value categories of the object x 3 of the fallback: one function of the inputs for these
   scalar types), then has_value() and the held value *)
let vo_ty = function
  | 'b' -> Some SBool | 'c' -> Some SChar | 's' -> Some SShort | 'i' -> Some SInt | 'u' -> Some SUInt
  | 'l' -> Some SLong | 'f' -> Some SFloat | 'd' -> Some SDouble | _ -> None

let vo_cfg op =
  if String.length op = 6 && String.sub op 0 4 = "vor." then
    match (vo_ty op.[4], vo_ty op.[5]) with
    | Some t, Some u when op.[4] <> 'b' && op.[4] <> 'c' -> Some (t, u)
    | _ -> None
  else None

let vo_leg value engaged held =
  match value with
  | Ok r ->
      let one = List.init 12 (fun _ -> si r) @ [ b2s engaged; (if engaged then si held else "0") ] in
      join (("ok" :: one) @ one)
  | UB _ -> "ub"
  | Contract -> "contract"
  | OutOfFuel -> "outoffuel"

let run_case op tk =
  match List.assoc_opt op sets with
  | None when vo_cfg op <> None ->
      let tT, tU = Option.get (vo_cfg op) in
      let engaged = next_int tk <> 0 in
      let held = next_z tk in
      let fb = next_z tk in
      let m = vo_leg (vo_value_or tT tU engaged held fb) engaged held in
      let sp =
        match svo_value_or tT tU (if engaged then Some held else None) fb with
        | Ok _ as r -> vo_leg r engaged held
        | _ -> "na"
      in
      (m, sp)
  | Some alts ->
      let steps = read_steps tk in
      (guard (fun () -> var_model alts steps), guard (fun () -> var_spec alts steps))
  | None when sm_cfg op <> None ->
      let cfg = Option.get (sm_cfg op) in
      let steps = read_steps tk in
      (guard (fun () -> sm_leg m_traits m_run cfg steps), guard (fun () -> sm_leg s_traits s_run cfg steps))
  | None -> (
      match op with
      | "opt.is" | "opt.ti" | "opt.t2" | "opt.ib" | "opt.df" ->
          let tT, tU =
            match op with
            | "opt.is" -> (TInt, TShort)
            | "opt.df" -> (TDouble, TFloat)
            | "opt.ti" -> (TTr, TInt)
            | "opt.ib" -> (TInt, TBool)
            | _ -> (TTr2, TTr)
          in
          let steps = read_steps tk in
          (guard (fun () -> opt_model tT tU steps), guard (fun () -> opt_spec tT tU steps))
      | "exp.il" | "exp.tt" | "exp.ti" | "exp.ii" | "exp.rr" ->
          let tT, tE =
            match op with
            | "exp.il" -> (TInt, TLong) | "exp.tt" -> (TTr, TTr2) | "exp.ii" -> (TInt, TInt) | "exp.rr" -> (TTr, TTr)
            | _ -> (TTr, TInt)
          in
          let steps = read_steps tk in
          (guard (fun () -> exp_model tT tE steps), guard (fun () -> exp_spec tT tE steps))
      | "unx.il" | "unx.tt" | "unx.df" ->
          let tE = if op = "unx.il" then TInt else if op = "unx.df" then TDouble else TTr in
          let steps = read_steps tk in
          (guard (fun () -> unx_leg (ustep tE) steps), guard (fun () -> unx_leg (su_step tE) steps))
      | "ref.i" | "ref.t" | "cref.i" | "cref.t" | "bref.d" | "cbref.d" ->
          let steps = read_steps tk in
          (* (const referent type, conversions from the optional<T&> z exist) *)
          let cst = (op = "cref.i" || op = "cref.t" || op = "cbref.d", op <> "ref.i" && op <> "ref.t") in
          (* Derived (bref.d, cbref.d) is a trivially copyable class: for the source optional it behaves like int *)
          let ty = if op = "ref.t" || op = "cref.t" then TTr else TInt in
          (guard (fun () -> ref_model ty cst steps), guard (fun () -> ref_spec cst steps))
      | "disp" ->
          let sizes = List.map ni (next_intlist tk) in
          let idx = List.map ni (next_intlist tk) in
          if List.length sizes <> List.length idx then raise Not_found;
          let vs = List.map (fun i -> { idx = i; val0 = zi (int_of_nat i) }) idx in
          let m =
            guard (fun () ->
                join ("ok" :: List.concat_map (fun (i, v) -> [ sn i; si v ]) (ok_or (visit_vals sizes vs))))
          in
          (m, join ("ok" :: List.concat_map (fun i -> [ sn i; sn i ]) idx))
      | _ -> raise Not_found)

let () = main run_case
