// C07 harness, families vor.<T><U>: value_or of optional<T> and expected<T, int> called with a fallback of ANOTHER
// arithmetic type U (fix-miss round 5).  T in {s short, i int, u unsigned, l long long, f float, d double},
// U in {b bool, c signed char, s, i, u, l, f, d}.
//   case line:  vor.<T><U> <engaged> <held> <fallback>
// A value of a floating type travels as TWICE its value (an integer; the generator only uses multiples of 1/2 that the
// type holds exactly).  Per wrapper (optional first, expected second) the leg has the result of value_or on
//   an lvalue, a const lvalue, an rvalue (the && overload), a const rvalue   x   fallback as lvalue, const lvalue, rvalue
// and then has_value() and the held value after the three calls on the lvalue (value_or must not change the object).
#pragma once
#include "common.hpp"

#include <cmath>
#include <cstdio>
#include <type_traits>
#include <utility>

namespace c07vo {
using vh::i64;
using vh::Out;
using vh::Toks;

template <typename T>
auto dec(i64 x) -> T
{
    if constexpr (std::is_floating_point_v<T>) {
        return static_cast<T>(static_cast<double>(x) * 0.5);
    } else {
        return static_cast<T>(x);
    }
}

template <typename T>
void put(Out& o, T v)
{
    if constexpr (std::is_floating_point_v<T>) {
        auto d = static_cast<double>(v) * 2.0;
        if (d == std::floor(d) && std::fabs(d) < 1.0e30) {
            o.big(static_cast<vh::i128>(d));
        } else {
            char buf[64];
            std::snprintf(buf, sizeof buf, "x%a", static_cast<double>(v));
            o.tok(buf);
        }
    } else {
        o.num(static_cast<i64>(v));
    }
}

template <typename Lib, typename T, typename U>
struct VoRunner {
    using O = typename Lib::template optional<T>;
    using X = typename Lib::template expected<T, int>;

    template <typename W>
    static void four(Out& o, W const& w0, U fb)
    {
        U const cfb = fb;
        static_assert(std::is_same_v<decltype(std::declval<W&>().value_or(fb)), T>);
        static_assert(std::is_same_v<decltype(std::declval<W const&>().value_or(cfb)), T>);
        static_assert(std::is_same_v<decltype(std::declval<W&&>().value_or(U(fb))), T>);
        W w(w0);
        put<T>(o, w.value_or(fb));
        put<T>(o, w.value_or(cfb));
        put<T>(o, w.value_or(U(fb)));
        auto const& c = std::as_const(w);
        put<T>(o, c.value_or(fb));
        put<T>(o, c.value_or(cfb));
        put<T>(o, c.value_or(U(fb)));
        {
            W r1(w0);
            W r2(w0);
            W r3(w0);
            put<T>(o, std::move(r1).value_or(fb));
            put<T>(o, std::move(r2).value_or(cfb));
            put<T>(o, std::move(r3).value_or(U(fb)));
        }
        put<T>(o, std::move(c).value_or(fb));
        put<T>(o, std::move(c).value_or(cfb));
        put<T>(o, std::move(c).value_or(U(fb)));
        o.b(w.has_value());
        if (w.has_value()) {
            put<T>(o, *w);
        } else {
            o.num(0);
        }
    }

    static void run(i64 engaged, i64 held, i64 fb, Out& o)
    {
        o.tok("ok");
        auto h = dec<T>(held);
        auto f = dec<U>(fb);
        O a    = engaged != 0 ? O(h) : O();
        X x    = engaged != 0 ? X(Lib::in_place, h) : X(Lib::unexpect, 5);
        four(o, a, f);
        four(o, x, f);
    }
};

template <typename EtlLib, typename StdLib, typename T, typename U>
void run_pair(i64 e, i64 h, i64 f, Out& impl, Out& ref)
{
    vh::guarded(impl, [&](Out& o) { VoRunner<EtlLib, T, U>::run(e, h, f, o); });
    vh::guarded(ref, [&](Out& o) { VoRunner<StdLib, T, U>::run(e, h, f, o); });
}

template <typename EtlLib, typename StdLib, typename T>
bool by_u(char u, i64 e, i64 h, i64 f, Out& impl, Out& ref)
{
    switch (u) {
    case 'b': return run_pair<EtlLib, StdLib, T, bool>(e, h, f, impl, ref), true;
    case 'c': return run_pair<EtlLib, StdLib, T, signed char>(e, h, f, impl, ref), true;
    case 's': return run_pair<EtlLib, StdLib, T, short>(e, h, f, impl, ref), true;
    case 'i': return run_pair<EtlLib, StdLib, T, int>(e, h, f, impl, ref), true;
    case 'u': return run_pair<EtlLib, StdLib, T, unsigned>(e, h, f, impl, ref), true;
    case 'l': return run_pair<EtlLib, StdLib, T, long long>(e, h, f, impl, ref), true;
    case 'f': return run_pair<EtlLib, StdLib, T, float>(e, h, f, impl, ref), true;
    case 'd': return run_pair<EtlLib, StdLib, T, double>(e, h, f, impl, ref), true;
    default: return false;
    }
}

template <typename EtlLib, typename StdLib>
bool run(std::string const& op, Toks& in, Out& impl, Out& ref)
{
    if (op.size() != 6 || op.compare(0, 4, "vor.") != 0) { return false; }
    auto e = in.num();
    auto h = in.num();
    auto f = in.num();
    switch (op[4]) {
    case 's': return by_u<EtlLib, StdLib, short>(op[5], e, h, f, impl, ref);
    case 'i': return by_u<EtlLib, StdLib, int>(op[5], e, h, f, impl, ref);
    case 'u': return by_u<EtlLib, StdLib, unsigned>(op[5], e, h, f, impl, ref);
    case 'l': return by_u<EtlLib, StdLib, long long>(op[5], e, h, f, impl, ref);
    case 'f': return by_u<EtlLib, StdLib, float>(op[5], e, h, f, impl, ref);
    case 'd': return by_u<EtlLib, StdLib, double>(op[5], e, h, f, impl, ref);
    default: return false;
    }
}
} // namespace c07vo
