// C07 harness, special-member families (sm*): alternative types whose five special members are,
// one by one, either TRIVIAL (defaulted) or USER-PROVIDED, and every user-provided member leaves an
// observable mark: an entry in a global event log (and the moved-from sentinel in the source of a
// user-provided move).  A wrapper (variant / optional / expected) that takes its defaulted, bytewise
// special member where the standard prescribes the alternative's own operation - or the other way
// round - produces a different event sequence and a different source state.
//
//   Sm<F>: bit 0 copy ctor, 1 move ctor, 2 copy assignment, 3 move assignment, 4 destructor
//          (bit set = user-provided).  Construction from int ('i') and the conversions from SmSrc
//          (construct 'x'/'X', assign 'y'/'Y': lvalue / rvalue source) are always user-provided.
//   events: i<v> c<v> m<v> a<old>:<new> A<old>:<new> d<v> x<v> X<v> y<old>:<new> Y<old>:<new>
#ifndef VERIF_C07_SM_HPP
#define VERIF_C07_SM_HPP

#include "c07_types.hpp"

#include <string>
#include <type_traits>
#include <utility>
#include <vector>

namespace c07 {

inline std::vector<std::string> g_sm_ev;
inline void sm_ev(char k, long a) { g_sm_ev.push_back(std::string(1, k) + std::to_string(a)); }
inline void sm_ev2(char k, long a, long b) { g_sm_ev.push_back(std::string(1, k) + std::to_string(a) + ":" + std::to_string(b)); }

// source type of the converting operations: an aggregate, trivial in every special member
struct SmSrc {
    int v;
};

template <unsigned F>
struct Sm {
    int v;
    explicit Sm(int x) noexcept : v(x) { sm_ev('i', x); }
    Sm(SmSrc const& s) noexcept : v(s.v) { sm_ev('x', s.v); }
    Sm(SmSrc&& s) noexcept : v(s.v)
    {
        sm_ev('X', s.v);
        s.v = MOVED;
    }
    auto operator=(SmSrc const& s) noexcept -> Sm&
    {
        sm_ev2('y', v, s.v);
        v = s.v;
        return *this;
    }
    auto operator=(SmSrc&& s) noexcept -> Sm&
    {
        sm_ev2('Y', v, s.v);
        v   = s.v;
        s.v = MOVED;
        return *this;
    }

    Sm(Sm const&) = default;
    Sm(Sm const& o) noexcept
        requires((F & 1U) != 0)
        : v(o.v)
    {
        sm_ev('c', o.v);
    }
    Sm(Sm&&) = default;
    Sm(Sm&& o) noexcept
        requires((F & 2U) != 0)
        : v(o.v)
    {
        sm_ev('m', o.v);
        o.v = MOVED;
    }
    auto operator=(Sm const&) -> Sm& = default;
    auto operator=(Sm const& o) noexcept -> Sm&
        requires((F & 4U) != 0)
    {
        sm_ev2('a', v, o.v);
        v = o.v;
        return *this;
    }
    auto operator=(Sm&&) -> Sm& = default;
    auto operator=(Sm&& o) noexcept -> Sm&
        requires((F & 8U) != 0)
    {
        sm_ev2('A', v, o.v);
        if (this != &o) {
            v   = o.v;
            o.v = MOVED;
        }
        return *this;
    }
    ~Sm() = default;
    ~Sm()
        requires((F & 16U) != 0)
    {
        sm_ev('d', v);
        v = POISON;
    }
};

// the nine static answers: trivially copy/move constructible, copy/move assignable, destructible (bits 0-4),
// copy/move constructible, copy/move assignable (bits 5-8)
template <typename T>
constexpr auto sm_traits() -> unsigned
{
    return (std::is_trivially_copy_constructible_v<T> ? 1U : 0U) | (std::is_trivially_move_constructible_v<T> ? 2U : 0U)
         | (std::is_trivially_copy_assignable_v<T> ? 4U : 0U) | (std::is_trivially_move_assignable_v<T> ? 8U : 0U)
         | (std::is_trivially_destructible_v<T> ? 16U : 0U) | (std::is_copy_constructible_v<T> ? 32U : 0U)
         | (std::is_move_constructible_v<T> ? 64U : 0U) | (std::is_copy_assignable_v<T> ? 128U : 0U)
         | (std::is_move_assignable_v<T> ? 256U : 0U);
}

template <typename T>
inline constexpr bool is_sm = false;
template <unsigned F>
inline constexpr bool is_sm<Sm<F>> = true;

template <typename T>
inline auto sm_val(T const& x) -> long
{
    if constexpr (is_sm<T> || std::is_same_v<T, SmSrc>) {
        return x.v;
    } else if constexpr (std::is_arithmetic_v<T>) {
        return static_cast<long>(x);
    } else {
        return 0; // nullopt_t
    }
}

// call f(integral_constant<size_t, i>) for the run-time i < N
template <std::size_t N, typename Fn>
inline auto sm_with_index(std::size_t i, Fn&& f) -> bool
{
    return [&]<std::size_t... Is>(std::index_sequence<Is...>) {
        return ((i == Is ? (f(std::integral_constant<std::size_t, Is>{}), true) : false) || ...);
    }(std::make_index_sequence<N>{});
}

} // namespace c07

#endif
