#!/usr/bin/env python3
"""Parallel compile wrapper used as the 'compiler' of the C07 harness.

One translation unit with all family instantiations takes ~50 s to compile, and the harness is
rebuilt whenever /repo/include changes.  This wrapper compiles the SAME source once per part
(-DC07_PART=k, k < C07_NPARTS; see the end of harness.cpp), at most C07_JOBS (default 4) compiler
processes at a time, and links the objects.  It accepts the g++ command line the engine builds:
    pcxx.py <flags...> -DC07_NPARTS=6 <src>.cpp -o <exe>
"""
import os
import subprocess
import sys
import tempfile


def main(argv):
    cxx = os.environ.get("C07_CXX", "g++")
    args = list(argv)
    out = None
    src = None
    flags = []
    nparts = 1
    i = 0
    while i < len(args):
        a = args[i]
        if a == "-o":
            out = args[i + 1]
            i += 2
            continue
        if a.startswith("-DC07_NPARTS="):
            nparts = int(a.split("=", 1)[1])
            flags.append(a)
        elif a.endswith(".cpp") and not a.startswith("-"):
            src = a
        else:
            flags.append(a)
        i += 1
    if out is None or src is None:
        sys.stderr.write("pcxx.py: need <src>.cpp and -o <exe>\n")
        return 2
    tmp = tempfile.mkdtemp(prefix="c07-build-")
    objs = []
    cmds = []
    # the heaviest parts (dispatcher instantiations, special-member families) first
    first = (0, 6, 7, 13, 12, 11)   # (13, 12, 11: the 32 flag sets of the special-member families)
    order = [k for k in first if k < nparts] + [k for k in range(nparts) if k not in first]
    for k in order:
        obj = os.path.join(tmp, "part%d.o" % k)
        objs.append(obj)
        cmds.append([cxx] + flags + ["-DC07_PART=%d" % k, "-c", src, "-o", obj])
    jobs = max(1, int(os.environ.get("C07_JOBS", "4")))
    rc = 0
    running = []
    pending = list(cmds)
    while pending or running:
        while pending and len(running) < jobs:
            running.append(subprocess.Popen(pending.pop(0), stdout=subprocess.PIPE, stderr=subprocess.STDOUT))
        p = running.pop(0)
        o, _ = p.communicate()
        if p.returncode != 0:
            rc = p.returncode
            sys.stderr.write(o.decode("utf-8", "replace")[-6000:])
    if rc == 0:
        link = [cxx] + [f for f in flags if not f.startswith("-D") and not f.startswith("-I")] + objs + ["-o", out]
        p = subprocess.run(link, stdout=subprocess.PIPE, stderr=subprocess.STDOUT)
        rc = p.returncode
        if rc != 0:
            sys.stderr.write(p.stdout.decode("utf-8", "replace")[-6000:])
    for f in objs:
        if os.path.exists(f):
            os.unlink(f)
    os.rmdir(tmp)
    return rc


if __name__ == "__main__":
    sys.exit(main(sys.argv[1:]))
