(* C17 driver: model leg = extracted Model.v (run_m, ...), spec leg = extracted Spec.v (s_run, ...).
   Parsing and printing only. *)
let npos_big = Big.pred (Big.shift_left Big.one 64)

let parse_op t : op =
  match next_str t with
  | "sa" -> OSetAll
  | "ra" -> OResetAll
  | "fa" -> OFlipAll
  | "not" -> ONot
  | "s" -> let p = next_nat t in let v = next_bool t in OSet (p, v)
  | "r" -> OReset (next_nat t)
  | "f" -> OFlip (next_nat t)
  | "rs" -> let p = next_nat t in let v = next_bool t in ORefSet (p, v)
  | "rc" -> let p = next_nat t in let q = next_nat t in ORefCopy (p, q)
  | "rcs" -> let p = next_nat t in let q = next_nat t in ORefCopySelf (p, q)
  | "rf" -> ORefFlip (next_nat t)
  | "ands" -> OAndSelf
  | "ors" -> OOrSelf
  | "xors" -> OXorSelf
  | "cstr" ->
      let s = next_nlist t in
      let counted = next_bool t in
      let zero = next_n t in
      let one = next_n t in
      OCStr (s, counted, zero, one)
  | "and" -> OAnd
  | "or" -> OOr
  | "xor" -> OXor
  | "andf" -> OAndF
  | "orf" -> OOrF
  | "xorf" -> OXorF
  | "int" -> OInt (next_n t)
  | "str" ->
      let s = next_nlist t in
      let pos = next_nat t in
      let n = next_n t in
      let zero = next_n t in
      let one = next_n t in
      OStr (s, pos, n, zero, one)
  | "sw" -> OSwap
  | "t" -> OTest (next_nat t)
  | _ -> raise Not_found

let parse_ops t =
  let k = next_int t in
  List.init k (fun _ -> ()) |> List.map (fun () -> parse_op t)

let chars_s (l : n list) =
  String.concat "" (List.map (fun c -> let i = Big.to_int (big_of_n c) in
                                if i > 32 && i < 127 then String.make 1 (Char.chr i)
                                else Printf.sprintf "\\%d." i) l)
let codes_s (l : n list) = join (string_of_int (List.length l) :: List.map str_of_n l)
let bools_s l = String.concat "" (List.map b2s l)

let obs_fields show_ull str cnt al an no ull eq q =
  join [ chars_s str; string_of_int (int_of_nat cnt); b2s al ^ b2s an ^ b2s no;
         (match ull with Some v when show_ull -> str_of_n v | _ -> "-");
         b2s eq ^ (if q = [] then "" else ":" ^ bools_s q) ]

let m_step_s show_ull = function
  | None -> "contract"
  | Some (o, q) -> obs_fields show_ull o.o_string o.o_count o.o_all o.o_any o.o_none o.o_ullong o.o_eq q
let s_step_s = m_step_s

let words_s ws = String.concat "," (List.map (fun x -> Big.format "%x" (big_of_n x)) ws)

let run_case opname t =
  match opname with
  | "hist" ->
      let kind = next_str t in
      let w = next_nat t in
      let bits = next_nat t in
      let ops = parse_ops t in
      let show_ull = kind = "bs" in
      let m = run_m bits w (init_m bits w) ops in
      let s = s_run bits (s_init bits) ops in
      (String.concat " ; " (List.map (m_step_s show_ull) m),
       String.concat " ; " (List.map (s_step_s show_ull) s))
  | "words" ->
      (* raw storage after every step (object representation of the etl object); no spec leg *)
      let _kind = next_str t in
      let w = next_nat t in
      let bits = next_nat t in
      let ops = parse_ops t in
      let r = run_words_m bits w (init_m bits w) ops in
      (String.concat " ; " (List.map (function Some ws -> words_s ws | None -> "contract") r), "na")
  | "tostr" ->
      let bits = next_nat t in
      let s = next_nlist t in
      let zero = next_n t in
      let one = next_n t in
      let w = nat_of_int 64 in
      let mx = ones0 w in
      let m = match of_string bits w mx mx s O (n_of_big npos_big) chr0 chr1 with
        | Ok ws -> join [ codes_s (to_string_m bits w mx ws zero one); codes_s (to_string_m bits w mx ws zero chr1) ]
        | _ -> "contract" in
      let p = match s_of_string bits s O (n_of_big npos_big) chr0 chr1 with
        | SOk a -> join [ codes_s (s_to_string a zero one); codes_s (s_to_string a zero chr1) ]
        | _ -> "na" in
      (m, p)
  | "wstr" | "cistr" ->
      (* string constructor + to_string with wchar_t: the model is generic in the character code;
         cistr: a traits class with a coarser eq(): the codes of the case line are the eq-classes *)
      let bits = next_nat t in
      let s = next_nlist t in
      let pos = next_nat t in
      let n = next_n t in
      let zero = next_n t in
      let one = next_n t in
      let w = nat_of_int 64 in
      let mx = ones0 w in
      let m = match of_string bits w mx mx s pos n zero one with
        | Ok ws -> join [ codes_s (to_string_m bits w mx ws chr0 chr1); codes_s (to_string_m bits w mx ws zero one) ]
        | _ -> "contract" in
      let p = match s_of_string bits s pos n zero one with
        | SOk a -> join [ codes_s (s_to_string a chr0 chr1); codes_s (s_to_string a zero one) ]
        | _ -> "contract" in
      (m, p)
  | "ct" ->
      (* the two fixed scripts the harness evaluates in a constant expression *)
      let kind = next_str t in
      let w = next_nat t in
      let bits = next_nat t in
      let m1 = ct_check bits (run_m bits w (init_m bits w) (ct_ops bits)) in
      let s1 = ct_check bits (s_run bits (s_init bits) (ct_ops bits)) in
      if kind = "bs" then
        let m2 = ct_str_check bits (run_m bits w (init_m bits w) (ct_str_ops bits)) in
        let s2 = ct_str_check bits (s_run bits (s_init bits) (ct_str_ops bits)) in
        (join [ b2s m1; b2s m2 ], join [ b2s s1; b2s s2 ])
      else (b2s m1, b2s s1)
  | "popfb" ->
      (* detail::popcount_fallback<UInt> (the constant-evaluation path of popcount) and popcount *)
      let w = next_nat t in
      let x = next_n t in
      let fb = match popcount_fallback (ones0 w) (S w) x with Some c -> string_of_int (int_of_nat c) | None -> "fuel" in
      let c = string_of_int (int_of_nat (popcount x)) in
      (join [ fb; c ], join [ c; c ])
  | _ -> raise Not_found

let () = main run_case
