// C17 harness: etl::bitset<Bits> and etl::basic_bitset<Bits, WordType> (impl leg) against
// std::bitset<Bits> (reference leg).  One case = a whole operation history on a two-register
// machine (current set, other set); after every step the public observers are printed.
#include "common.hpp"

#include <algorithm>
#include <bitset>
#include <bit>
#include <new>
#include <stdexcept>
#include <string>
#include <utility>

#include <etl/bit.hpp>
#include <etl/bitset.hpp>
#include <etl/string_view.hpp>

using namespace vh;

namespace {

constexpr u64 npos64 = ~u64{0};

// run f with the contract handler armed; false = a TETL_PRECONDITION fired.
// (the objects f works on live in the caller, not in this frame)
template <typename F>
__attribute__((noinline)) bool step_guard(F&& f)
{
    g_armed = true;
    bool ok = false;
    if (setjmp(g_jmp) == 0) {
        f();
        ok = true;
    }
    g_armed = false;
    return ok;
}

struct Op {
    std::string name;
    u64 a = 0, b = 0;          // pos/value, src
    std::string str;           // str: characters
    u64 pos = 0, n = 0;
    char zero = '0', one = '1';
};

std::vector<Op> parse_ops(Toks& in)
{
    auto k = in.num();
    std::vector<Op> ops;
    for (i64 j = 0; j < k; ++j) {
        Op o;
        o.name = in.str();
        auto const& s = o.name;
        if (s == "s" || s == "rs" || s == "rc" || s == "rcs") { o.a = in.unum(); o.b = in.unum(); }
        else if (s == "r" || s == "f" || s == "rf" || s == "t" || s == "int") { o.a = in.unum(); }
        else if (s == "str") {
            auto len = in.num();
            for (i64 c = 0; c < len; ++c) { o.str.push_back(static_cast<char>(in.num())); }
            o.pos  = in.unum();
            o.n    = in.unum();
            o.zero = static_cast<char>(in.num());
            o.one  = static_cast<char>(in.num());
        } else if (s == "cstr") {
            // char const* constructor: the array is the characters + a terminating NUL; counted = 1: n = number
            // of characters, counted = 0: n = npos (the string ends at the first NUL of the array)
            auto len = in.num();
            for (i64 c = 0; c < len; ++c) { o.str.push_back(static_cast<char>(in.num())); }
            o.a    = in.unum();
            o.zero = static_cast<char>(in.num());
            o.one  = static_cast<char>(in.num());
        }
        ops.push_back(o);
    }
    return ops;
}

std::string join_steps(std::vector<std::string> const& v)
{
    std::string r;
    for (std::size_t i = 0; i < v.size(); ++i) {
        if (i != 0) { r += " ; "; }
        r += v[i];
    }
    return r;
}

std::string bools(std::initializer_list<bool> l)
{
    std::string r;
    for (bool b : l) { r += b ? '1' : '0'; }
    return r;
}

// ---- uniform access to the two etl class templates ---------------------------------------
template <std::size_t B>
struct AsBitset {
    using T                        = etl::bitset<B>;
    static constexpr std::size_t nbits = B;
    static constexpr bool is_full  = true;
    static constexpr unsigned word = 64;
    // the positional mutators return *this (checked by the caller through the returned address)
    static T* set(T& x, std::size_t p, bool v) { return &x.set(p, v); }
    static T* set1(T& x, std::size_t p) { return &x.set(p); }   // defaulted value = true
    static T* reset(T& x, std::size_t p) { return &x.reset(p); }
    static T* flip(T& x, std::size_t p) { return &x.flip(p); }
    static bool test(T const& x, std::size_t p) { return x.test(p); }
    static T inverted(T const& x) { return ~x; }
    static std::string text(T const& x)
    {
        auto s = x.template to_string<B>();
        return std::string(s.begin(), s.end());
    }
};

template <std::size_t B, typename W>
struct AsBasic {
    using T                        = etl::basic_bitset<B, W>;
    static constexpr std::size_t nbits = B;
    static constexpr bool is_full  = false;
    static constexpr unsigned word = sizeof(W) * 8;
    static T* set(T& x, std::size_t p, bool v) { return &x.unchecked_set(p, v); }
    static T* set1(T& x, std::size_t p) { return &x.unchecked_set(p); }   // defaulted value = true
    static T* reset(T& x, std::size_t p) { return &x.unchecked_reset(p); }
    static T* flip(T& x, std::size_t p) { return &x.unchecked_flip(p); }
    static bool test(T const& x, std::size_t p) { return x.unchecked_test(p); }
    static T inverted(T const& x) { T c(x); c.flip(); return c; }   // no operator~ in basic_bitset
    static std::string text(T const& x)
    {
        std::string s;
        for (std::size_t i = B; i-- > 0;) { s += x.unchecked_test(i) ? '1' : '0'; }
        return s;
    }
};

template <typename A>
std::string observe_etl(typename A::T const& cur, typename A::T const& oth, std::string const& q)
{
    std::string r = A::text(cur);
    r += ' ' + std::to_string(cur.count());
    r += ' ' + bools({cur.all(), cur.any(), cur.none()});
    if constexpr (A::is_full && (A::nbits <= 64)) {
        auto u  = cur.to_ullong();
        auto ul = cur.to_ulong();
        r += ' ' + std::to_string(u);
        if (u != ul) { r += "routes-differ"; }
    } else {
        r += " -";
    }
    r += ' ' + bools({cur == oth});
    if (cur.size() != A::nbits || oth.size() != A::nbits) { r += "size-differs"; }
    // the rewritten operator!= and the symmetric call; a set equals itself and its copy
    if ((cur != oth) == (cur == oth) || (oth == cur) != (cur == oth)) { r += "neq-inconsistent"; }
    {
        typename A::T const cp(cur);
        if (!(cur == cur) || !(cp == cur) || cp != cur) { r += "copy-differs"; }
    }
    if (!q.empty()) { r += ':' + q; }
    return r;
}

template <std::size_t B>
std::string observe_std(std::bitset<B> const& cur, std::bitset<B> const& oth, std::string const& q, bool full)
{
    std::string r = cur.to_string();
    r += ' ' + std::to_string(cur.count());
    r += ' ' + bools({cur.all(), cur.any(), cur.none()});
    if (full && B <= 64) { r += ' ' + std::to_string(cur.to_ullong()); }
    else { r += " -"; }
    r += ' ' + bools({cur == oth});
    if (!q.empty()) { r += ':' + q; }
    return r;
}

template <typename T>
std::string raw_words(T const& x, unsigned wordbits, std::size_t nbits)
{
    // object representation of the etl object = its _words array (little endian host)
    unsigned char buf[sizeof(T)];
    std::memcpy(buf, &x, sizeof(T));
    std::string r;
    std::size_t wb = wordbits / 8;
    std::size_t const nwords = (nbits + wordbits - 1) / wordbits;   // 0 words for Bits = 0 (sizeof is 1 then)
    for (std::size_t k = 0; k < nwords && k < sizeof(T) / wb; ++k) {
        u64 v = 0;
        for (std::size_t j = 0; j < wb; ++j) { v |= static_cast<u64>(buf[k * wb + j]) << (8 * j); }
        char tmp[32];
        std::snprintf(tmp, sizeof tmp, "%llx", v);
        if (k != 0) { r += ','; }
        r += tmp;
    }
    return r;
}

// one step on the etl side; returns false when a precondition fired (state untouched)
template <typename A>
bool etl_step(typename A::T& cur, typename A::T& oth, Op const& o, std::string& q)
{
    using T = typename A::T;
    auto const& s = o.name;
    return step_guard([&] {
        // every mutator returns *this (the proxy's members: the proxy); "ret" marks a wrong returned object
        auto same = [&](T* r) { if (r != &cur) { q = "ret-differs"; } };
        if (s == "sa") { same(&cur.set()); }
        else if (s == "ra") { same(&cur.reset()); }
        else if (s == "fa") { same(&cur.flip()); }
        else if (s == "not") { cur = A::inverted(cur); }
        else if (s == "s") { same((o.b != 0 && (o.a % 2) == 0) ? A::set1(cur, o.a) : A::set(cur, o.a, o.b != 0)); }
        else if (s == "r") { same(A::reset(cur, o.a)); }
        else if (s == "f") { same(A::flip(cur, o.a)); }
        else if (s == "rs") {
            auto ref = cur[o.a];
            auto& back = (ref = (o.b != 0));
            if (&back != &ref || static_cast<bool>(back) != (o.b != 0)) { q = "ret-differs"; }
        }
        else if (s == "rc") {
            auto ref = cur[o.a];
            auto& back = (ref = oth[o.b]);
            if (&back != &ref) { q = "ret-differs"; }
        }
        else if (s == "rcs") { cur[o.a] = cur[o.b]; }        // both proxies into the same object
        else if (s == "rf") {
            auto ref = cur[o.a];
            auto& back = ref.flip();
            if (&back != &ref) { q = "ret-differs"; }
        }
        else if (s == "and") { same(&(cur &= oth)); }
        else if (s == "or") { same(&(cur |= oth)); }
        else if (s == "xor") { same(&(cur ^= oth)); }
        else if (s == "ands") { same(&(cur &= cur)); }         // aliased operands
        else if (s == "ors") { same(&(cur |= cur)); }
        else if (s == "xors") { same(&(cur ^= cur)); }
        else if (s == "andf") { cur = cur & oth; }
        else if (s == "orf") { cur = cur | oth; }
        else if (s == "xorf") { cur = cur ^ oth; }
        else if (s == "int") { cur = T(static_cast<unsigned long long>(o.a)); }
        else if (s == "sw") { std::swap(cur, oth); }
        else if (s == "t") {
            bool t1 = A::test(cur, o.a);
            bool t2 = std::as_const(cur)[o.a];
            bool t3 = static_cast<bool>(cur[o.a]);
            bool t4 = ~cur[o.a];
            q       = bools({t1, t2, t3, t4});
        } else if (s == "str") {
            if constexpr (A::is_full) {
                auto sv = etl::string_view(o.str.data(), o.str.size());
                T tmp(sv, static_cast<std::size_t>(o.pos), static_cast<std::size_t>(o.n), o.zero, o.one);
                // the char const* constructor must agree whenever it denotes the same characters
                if (o.pos == 0) {
                    bool has_nul = o.str.find('\0') != std::string::npos;
                    if (o.n == npos64 && !has_nul) {
                        T alt(o.str.c_str(), etl::string_view::npos, o.zero, o.one);
                        if (!(alt == tmp)) { q = "routes-differ"; }
                        if (o.zero == '0' && o.one == '1') {
                            T alt2(o.str.c_str());
                            T alt3(sv);
                            if (!(alt2 == tmp) || !(alt3 == tmp)) { q = "routes-differ"; }
                        }
                    } else if (o.n <= o.str.size()) {
                        T alt(o.str.c_str(), static_cast<std::size_t>(o.n), o.zero, o.one);
                        if (!(alt == tmp)) { q = "routes-differ"; }
                    }
                }
                cur = tmp;
            } else {
                q = "unsupported";
            }
        } else if (s == "cstr") {
            if constexpr (A::is_full) {
                // o.str.c_str() = the characters followed by a NUL
                if (o.a != 0) {
                    cur = T(o.str.c_str(), o.str.size(), o.zero, o.one);
                } else if (o.zero == '0' && o.one == '1' && o.str.size() % 2 == 0) {
                    cur = T(o.str.c_str());                    // all defaults
                } else {
                    cur = T(o.str.c_str(), etl::string_view::npos, o.zero, o.one);
                }
            } else {
                q = "unsupported";
            }
        } else {
            q = "unknown-op";
        }
    });
}

// the same step on std::bitset; false = out_of_range (or operator[] outside the set, where
// std has undefined behaviour and etl documents a precondition)
template <std::size_t B>
bool std_step(std::bitset<B>& cur, std::bitset<B>& oth, Op const& o, std::string& q)
{
    auto const& s = o.name;
    try {
        if (s == "sa") { cur.set(); }
        else if (s == "ra") { cur.reset(); }
        else if (s == "fa") { cur.flip(); }
        else if (s == "not") { cur = ~cur; }
        else if (s == "s") { cur.set(o.a, o.b != 0); }
        else if (s == "r") { cur.reset(o.a); }
        else if (s == "f") { cur.flip(o.a); }
        else if (s == "rs") { if (o.a >= B) { return false; } cur[o.a] = (o.b != 0); }
        else if (s == "rc") { if (o.a >= B || o.b >= B) { return false; } cur[o.a] = oth[o.b]; }
        else if (s == "rf") { if (o.a >= B) { return false; } cur[o.a].flip(); }
        else if (s == "rcs") { if (o.a >= B || o.b >= B) { return false; } cur[o.a] = cur[o.b]; }
        else if (s == "ands") { cur &= cur; }
        else if (s == "ors") { cur |= cur; }
        else if (s == "xors") { cur ^= cur; }
        else if (s == "and") { cur &= oth; }
        else if (s == "or") { cur |= oth; }
        else if (s == "xor") { cur ^= oth; }
        else if (s == "andf") { cur = cur & oth; }
        else if (s == "orf") { cur = cur | oth; }
        else if (s == "xorf") { cur = cur ^ oth; }
        else if (s == "int") { cur = std::bitset<B>(static_cast<unsigned long long>(o.a)); }
        else if (s == "sw") { std::swap(cur, oth); }
        else if (s == "t") {
            bool t1 = cur.test(o.a);
            bool t2 = std::as_const(cur)[o.a];
            bool t3 = static_cast<bool>(cur[o.a]);
            bool t4 = ~cur[o.a];
            q       = bools({t1, t2, t3, t4});
        } else if (s == "str") {
            // [bitset.cons]: invalid_argument if ANY of the rlen = min(n, size - pos) characters is
            // neither zero nor one.  libstdc++ only examines the first min(N, rlen) of them; the
            // standard's wording is applied to the remaining ones here.
            if (o.pos <= o.str.size()) {
                u64 rlen = std::min<u64>(o.n, o.str.size() - o.pos);
                for (u64 j = 0; j < rlen; ++j) {
                    char c = o.str[static_cast<std::size_t>(o.pos + j)];
                    if (c != o.zero && c != o.one) { return false; }
                }
            }
            cur = std::bitset<B>(o.str, static_cast<std::size_t>(o.pos), static_cast<std::size_t>(o.n), o.zero, o.one);
        } else if (s == "cstr") {
            // [bitset.cons]: bitset(n == npos ? basic_string(str) : basic_string(str, n), 0, n, zero, one);
            // the same completion of libstdc++'s validation as above
            std::string eff = o.a != 0 ? o.str : std::string(o.str.c_str());
            for (char c : eff) {
                if (c != o.zero && c != o.one) { return false; }
            }
            cur = o.a != 0 ? std::bitset<B>(o.str.c_str(), o.str.size(), o.zero, o.one)
                           : std::bitset<B>(o.str.c_str(), std::string::npos, o.zero, o.one);
        }
    } catch (std::out_of_range const&) {
        return false;
    } catch (std::invalid_argument const&) {
        return false;
    }
    return true;
}

template <typename A, std::size_t B>
void run_hist(std::vector<Op> const& ops, Out& impl, Out& ref, bool words)
{
    using T = typename A::T;
    static_assert(B == 0 || sizeof(T) == ((B + A::word - 1) / A::word) * (A::word / 8));
    // default-initialised (not value-initialised) objects in storage filled with 0xFF: the default constructor
    // itself has to clear every word
    alignas(T) unsigned char cur_buf[sizeof(T)];
    alignas(T) unsigned char oth_buf[sizeof(T)];
    std::memset(cur_buf, 0xFF, sizeof(T));
    std::memset(oth_buf, 0xFF, sizeof(T));
    T& cur = *::new (static_cast<void*>(cur_buf)) T;
    T& oth = *::new (static_cast<void*>(oth_buf)) T;
    std::bitset<B> scur;
    std::bitset<B> soth;
    std::vector<std::string> ei;
    std::vector<std::string> si;
    for (auto const& o : ops) {
        std::string q;
        bool ok = etl_step<A>(cur, oth, o, q);
        if (words) {
            ei.push_back(ok ? raw_words(cur, A::word, B) : std::string("contract"));
            continue;
        }
        ei.push_back(ok ? observe_etl<A>(cur, oth, q) : std::string("contract"));
        std::string sq;
        bool sok = std_step<B>(scur, soth, o, sq);
        si.push_back(sok ? observe_std<B>(scur, soth, sq, A::is_full) : std::string("contract"));
    }
    impl.tok(join_steps(ei));
    if (!words) { ref.tok(join_steps(si)); }
}

template <std::size_t B>
bool dispatch_kind(std::string const& kind, unsigned w, std::vector<Op> const& ops, Out& impl, Out& ref, bool words)
{
    if (kind == "bs" && w == 64) { run_hist<AsBitset<B>, B>(ops, impl, ref, words); return true; }
    if (kind == "bb") {
        switch (w) {
        case 8: run_hist<AsBasic<B, std::uint8_t>, B>(ops, impl, ref, words); return true;
        case 16: run_hist<AsBasic<B, std::uint16_t>, B>(ops, impl, ref, words); return true;
        case 32: run_hist<AsBasic<B, std::uint32_t>, B>(ops, impl, ref, words); return true;
        case 64: run_hist<AsBasic<B, std::uint64_t>, B>(ops, impl, ref, words); return true;
        default: return false;
        }
    }
    return false;
}

// 257: more set bits than an 8-bit counter holds, 33 / 17 / 9 / 5 storage words
// 0: std::bitset<0> is a valid type (no bits; every positional member throws; to_string() is empty)
#define WIDTHS(X) X(0) X(1) X(7) X(8) X(9) X(31) X(32) X(33) X(63) X(64) X(65) X(127) X(128) X(129) X(257)

// The same classes under constant evaluation (count() then runs detail::popcount_fallback): two
// fixed scripts (Ops.v: ct_ops / ct_str_ops), evaluated by the compiler for the etl classes and at
// run time for std::bitset; op "ct" prints the results.
template <typename T, std::size_t B>
constexpr bool ct_script()
{
    T cur{};
    T oth{};
    auto const expect = B >= 64 ? std::size_t{2} : std::size_t{1};
    cur.set();
    if (!(cur.all() && cur.count() == B)) { return false; }
    cur.flip();
    if (!cur.none()) { return false; }
    cur.flip();   // all ones again, this time through flip(): the padding must have been re-masked
    if (!(cur.all() && cur.count() == B)) { return false; }
    { T t = cur; cur = oth; oth = t; }
    if (!cur.none()) { return false; }
    cur = T(0x8000000000000001ULL);
    if (cur.count() != expect) { return false; }
    cur ^= oth;   // complement
    if (cur.count() != B - expect || cur == oth) { return false; }
    cur[B - 1] = true;
    cur[0].flip();
    cur |= oth;
    if (!(cur == oth) || !cur.all()) { return false; }
    cur = cur & oth;
    return cur.count() == B;
}
template <std::size_t B>
constexpr bool ct_strings_etl()
{
    etl::bitset<B> s("10");   // B == 1: only the first character is used
    if (s.count() != 1) { return false; }
    if constexpr (B <= 64) {
        if (s.to_ullong() != (B >= 2 ? 2U : 1U)) { return false; }
    }
    auto const p = B >= 2 ? std::size_t{1} : std::size_t{0};
    if (!(s.test(p) && std::as_const(s)[p] && static_cast<bool>(s[p]) && !(~s[p]))) { return false; }
    auto const t = (~s).template to_string<B>();
    return t.size() == B && t[B - 1] == (B >= 2 ? '1' : '0');
}
template <std::size_t B>
bool ct_strings_std()
{
    std::bitset<B> s(std::string("10"));
    if (s.count() != 1) { return false; }
    if constexpr (B <= 64) {
        if (s.to_ullong() != (B >= 2 ? 2U : 1U)) { return false; }
    }
    auto const p = B >= 2 ? std::size_t{1} : std::size_t{0};
    if (!(s.test(p) && std::as_const(s)[p] && static_cast<bool>(s[p]) && !(~s[p]))) { return false; }
    auto const t = (~s).to_string();
    return t.size() == B && t[B - 1] == (B >= 2 ? '1' : '0');
}

// Evaluate a script in a constant expression WITHOUT breaking the build when it is not one (e.g. it reads an
// uninitialised member): the value is a defaulted template argument, a non-constant expression there is a
// substitution failure and the fallback overload reports "not a constant expression" (printed as 2).
template <typename T, std::size_t B, bool V = ct_script<T, B>()>
constexpr int ct_eval(int) { return V ? 1 : 0; }
template <typename T, std::size_t B>
constexpr int ct_eval(long) { return 2; }
template <std::size_t B, bool V = ct_strings_etl<B>()>
constexpr int ct_eval_str(int) { return V ? 1 : 0; }
template <std::size_t B>
constexpr int ct_eval_str(long) { return 2; }

template <std::size_t B>
bool run_ct(std::string const& kind, unsigned w, Out& impl, Out& ref)
{
    if (kind == "bs" && w == 64) {
        constexpr int a = ct_eval<etl::bitset<B>, B>(0);
        constexpr int b = ct_eval_str<B>(0);
        impl.num(a).num(b);
        ref.b(ct_script<std::bitset<B>, B>()).b(ct_strings_std<B>());
        return true;
    }
    if (kind != "bb") { return false; }
    int r = 0;
    if (w == 8) { constexpr int a = ct_eval<etl::basic_bitset<B, std::uint8_t>, B>(0); r = a; }
    else if (w == 16) { constexpr int a = ct_eval<etl::basic_bitset<B, std::uint16_t>, B>(0); r = a; }
    else if (w == 32) { constexpr int a = ct_eval<etl::basic_bitset<B, std::uint32_t>, B>(0); r = a; }
    else if (w == 64) { constexpr int a = ct_eval<etl::basic_bitset<B, std::uint64_t>, B>(0); r = a; }
    else { return false; }
    impl.num(r);
    ref.b(ct_script<std::bitset<B>, B>());
    return true;
}

template <typename S>
void codes(Out& o, S const& s)
{
    o.num(static_cast<i64>(s.size()));
    for (auto c : s) { o.num(static_cast<unsigned char>(c)); }
}

template <std::size_t B>
void run_tostr(std::string const& s, char zero, char one, Out& impl, Out& ref)
{
    guarded(impl, [&](Out& o) {
        etl::bitset<B> b(etl::string_view(s.data(), s.size()));
        auto const t1 = b.template to_string<B>(zero, one);
        auto const t2 = b.template to_string<B + 3>(zero);   // larger capacity, default one
        codes(o, t1);
        codes(o, t2);
    });
    std::bitset<B> r(s);
    codes(ref, r.to_string(zero, one));
    codes(ref, r.to_string(zero));
}

// the string constructor and to_string instantiated with wchar_t (32-bit codes)
template <std::size_t B>
void run_wstr(std::wstring const& s, u64 pos, u64 n, wchar_t zero, wchar_t one, Out& impl, Out& ref)
{
    auto wcodes = [](Out& o, auto const& t) {
        o.num(static_cast<i64>(t.size()));
        for (auto c : t) { o.num(static_cast<i64>(static_cast<std::uint32_t>(c))); }
    };
    guarded(impl, [&](Out& o) {
        etl::bitset<B> b(etl::wstring_view(s.data(), s.size()), static_cast<std::size_t>(pos), static_cast<std::size_t>(n), zero, one);
        codes(o, b.template to_string<B>());
        wcodes(o, b.template to_string<B + 1, wchar_t>(zero, one));
        // the wchar_t const* constructor denotes the same string when there is no NUL in it
        if (pos == 0 && n == npos64 && s.find(L'\0') == std::wstring::npos) {
            etl::bitset<B> alt(s.c_str(), etl::wstring_view::npos, zero, one);
            if (!(alt == b)) { o.tok("routes-differ"); }
        }
    });
    bool ok = pos <= s.size();
    if (ok) {
        // [bitset.cons] validation of all rlen characters (libstdc++ stops after min(N, rlen))
        u64 rlen = std::min<u64>(n, s.size() - pos);
        for (u64 j = 0; j < rlen; ++j) {
            wchar_t c = s[static_cast<std::size_t>(pos + j)];
            if (c != zero && c != one) { ok = false; }
        }
    }
    if (!ok) { ref.tok("contract"); return; }
    try {
        std::bitset<B> r(s, static_cast<std::size_t>(pos), static_cast<std::size_t>(n), zero, one);
        codes(ref, r.to_string());
        wcodes(ref, r.template to_string<wchar_t>(zero, one));
    } catch (std::exception const&) {
        ref.tok("contract");
    }
}

// the string constructor with a character traits class whose eq() is coarser than ==: ASCII letters compare
// case-insensitively.  The case line carries the lower-case (canonical) codes, i.e. the eq-classes; the harness
// upper-cases the letters at odd indices, so that a constructor comparing with == instead of Traits::eq differs.
struct ci_etl_traits : etl::char_traits<char> {
    static constexpr char low(char c) noexcept { return (c >= 'A' && c <= 'Z') ? static_cast<char>(c - 'A' + 'a') : c; }
    static constexpr bool eq(char a, char b) noexcept { return low(a) == low(b); }
    static constexpr bool lt(char a, char b) noexcept { return low(a) < low(b); }
};
struct ci_std_traits : std::char_traits<char> {
    static constexpr bool eq(char a, char b) noexcept { return ci_etl_traits::low(a) == ci_etl_traits::low(b); }
    static constexpr bool lt(char a, char b) noexcept { return ci_etl_traits::low(a) < ci_etl_traits::low(b); }
};

template <std::size_t B>
void run_cistr(std::string const& canon, u64 pos, u64 n, char zero, char one, Out& impl, Out& ref)
{
    std::string s = canon;
    for (std::size_t i = 1; i < s.size(); i += 2) {
        if (s[i] >= 'a' && s[i] <= 'z') { s[i] = static_cast<char>(s[i] - 'a' + 'A'); }
    }
    guarded(impl, [&](Out& o) {
        etl::basic_string_view<char, ci_etl_traits> sv(s.data(), s.size());
        etl::bitset<B> b(sv, static_cast<std::size_t>(pos), static_cast<std::size_t>(n), zero, one);
        codes(o, b.template to_string<B>());
        codes(o, b.template to_string<B + 2, char, ci_etl_traits>(zero, one));
    });
    bool ok = pos <= s.size();
    if (ok) {
        u64 rlen = std::min<u64>(n, s.size() - pos);
        for (u64 j = 0; j < rlen; ++j) {
            char c = s[static_cast<std::size_t>(pos + j)];
            if (!ci_std_traits::eq(c, zero) && !ci_std_traits::eq(c, one)) { ok = false; }
        }
    }
    if (!ok) { ref.tok("contract"); return; }
    try {
        std::basic_string<char, ci_std_traits> str(s.data(), s.size());
        std::bitset<B> r(str, static_cast<std::size_t>(pos), static_cast<std::size_t>(n), zero, one);
        codes(ref, r.to_string());
        codes(ref, r.template to_string<char, ci_std_traits>(zero, one));
    } catch (std::exception const&) {
        ref.tok("contract");
    }
}

template <typename W>
void run_popfb(u64 x, Out& impl, Out& ref)
{
    auto v = static_cast<W>(x);
    impl.num(etl::detail::popcount_fallback(v)).num(etl::popcount(v));
    ref.num(std::popcount(v)).num(std::popcount(v));
}

} // namespace

bool vh::run_case(std::string const& op, Toks& in, Out& impl, Out& ref)
{
    if (op == "hist" || op == "words") {
        auto kind = in.str();
        auto w    = static_cast<unsigned>(in.num());
        auto bits = in.num();
        auto ops  = parse_ops(in);
        bool words = op == "words";
        switch (bits) {
#define X(Bv) case Bv: return dispatch_kind<Bv>(kind, w, ops, impl, ref, words);
            WIDTHS(X)
#undef X
        default: return false;
        }
    }
    if (op == "ct") {
        auto kind = in.str();
        auto w    = static_cast<unsigned>(in.num());
        auto bits = in.num();
        switch (bits) {
#define X(Bv) case Bv: return run_ct<Bv>(kind, w, impl, ref);
            WIDTHS(X)
#undef X
        default: return false;
        }
    }
    if (op == "tostr") {
        auto bits = in.num();
        std::string s;
        auto len = in.num();
        for (i64 c = 0; c < len; ++c) { s.push_back(static_cast<char>(in.num())); }
        char zero = static_cast<char>(in.num());
        char one  = static_cast<char>(in.num());
        switch (bits) {
#define X(Bv) case Bv: run_tostr<Bv>(s, zero, one, impl, ref); return true;
            WIDTHS(X)
#undef X
        default: return false;
        }
    }
    if (op == "wstr") {
        auto bits = in.num();
        std::wstring s;
        auto len = in.num();
        for (i64 c = 0; c < len; ++c) { s.push_back(static_cast<wchar_t>(in.num())); }
        auto pos  = in.unum();
        auto n    = in.unum();
        auto zero = static_cast<wchar_t>(in.num());
        auto one  = static_cast<wchar_t>(in.num());
        switch (bits) {
#define X(Bv) case Bv: run_wstr<Bv>(s, pos, n, zero, one, impl, ref); return true;
            WIDTHS(X)
#undef X
        default: return false;
        }
    }
    if (op == "cistr") {
        auto bits = in.num();
        std::string s;
        auto len = in.num();
        for (i64 c = 0; c < len; ++c) { s.push_back(static_cast<char>(in.num())); }
        auto pos  = in.unum();
        auto n    = in.unum();
        auto zero = static_cast<char>(in.num());
        auto one  = static_cast<char>(in.num());
        switch (bits) {
#define X(Bv) case Bv: run_cistr<Bv>(s, pos, n, zero, one, impl, ref); return true;
            WIDTHS(X)
#undef X
        default: return false;
        }
    }
    if (op == "popfb") {
        auto w = in.num();
        auto x = in.unum();
        switch (w) {
        case 8: run_popfb<std::uint8_t>(x, impl, ref); return true;
        case 16: run_popfb<std::uint16_t>(x, impl, ref); return true;
        case 32: run_popfb<std::uint32_t>(x, impl, ref); return true;
        case 64: run_popfb<std::uint64_t>(x, impl, ref); return true;
        default: return false;
        }
    }
    return false;
}

VERIF_MAIN()
