"""C17 — bitset / basic_bitset against std::bitset: case generators and configuration.

Case lines (see harness.cpp / driver.ml):
  hist  <kind> <w> <bits> <k> <op>*k     history on the two-register machine, observers after every step
  words <kind> <w> <bits> <k> <op>*k     same history, raw storage words after every step (impl = model only)
  tostr <bits> <len> <codes> <zero> <one>              to_string with custom characters, two capacities
  wstr <bits> <len> <codes> <pos> <n> <zero> <one>    string constructor and to_string with wchar_t
  cistr <bits> <len> <codes> <pos> <n> <zero> <one>   the same with a case-insensitive traits class (codes = lower case)
  popfb <w> <x>                                        popcount_fallback (constexpr path) and popcount
  ct <kind> <w> <bits>                                 two fixed scripts evaluated by the compiler (constant evaluation)
kind = bs (etl::bitset<bits>, w = 64) | bb (etl::basic_bitset<bits, uint<w>_t>)
ops: sa ra fa not | s p v | r p | f p | rs p v | rc p q | rf p | and or xor andf orf xorf | int v |
     str len codes pos n zero one | sw | t p |
     rcs p q (cur[p] = cur[q], one object) | ands ors xors (cur op= cur) |
     cstr len codes counted zero one (char const* constructor; the array is the codes + NUL; counted: n = len, else npos)
"""
ID = "C17"
LEVEL = "proof"
HARNESSES = [
    {"name": "main", "src": "harness.cpp", "flags": ["-O1", "-DTETL_ENABLE_CONTRACT_CHECKS=1"]},
    {"name": "san", "src": "harness.cpp", "thorough_only": True,
     "flags": ["-O1", "-g", "-DTETL_ENABLE_CONTRACT_CHECKS=1", "-fsanitize=address,undefined",
               "-fno-sanitize-recover=all"]},
]

WIDTHS = [1, 7, 8, 9, 31, 32, 33, 63, 64, 65, 127, 128, 129, 257]
SMALL = [1, 7, 8, 9]
KINDS = [("bs", 64), ("bb", 8), ("bb", 16), ("bb", 32), ("bb", 64)]
NPOS = 2**64 - 1

RULE = ("widths {1,7,8,9,31,32,33,63,64,65,127,128,129}, 257 (count() beyond an 8-bit counter) and 0 (every operation "
        "once, string constructors, to_string) x {etl::bitset, basic_bitset<uint8/16/32/64>}; "
        "widths <= 9: every value x every single operation (whole-set, every position incl. the padding "
        "positions and one past the storage, proxy ops, queries) for etl::bitset and basic_bitset<uint8> (every 5th "
        "value for uint16/32/64 in the quick tier, all in thorough); width 7: every pair of values under &=,|=,^= "
        "for etl::bitset (free operators on every 8th pair; basic_bitset pairs sampled in quick); all widths: "
        "seeded random histories (8-24 steps) mixing whole-set, "
        "single-bit, proxy, binary, integer- and string-constructor steps with positions biased to word and width "
        "boundaries, aliased operands (cur[p] = cur[q] inside one object incl. p = q - every pair at widths <= 9 -, "
        "x &= x, x |= x, x ^= x), every second one also replayed as a raw-storage (words) comparison; string constructors with "
        "lengths around the width, pos/n around the ends, custom and coinciding zero/one, foreign characters inside "
        "and outside the used range; the char const* constructors (counted and NUL-terminated, a NUL inside the array, NUL as "
        "zero/one character, all-default overload); the string constructor and to_string with wchar_t (codes above 8 and "
        "16 bits) and with a traits class whose eq() is case-insensitive; every mutator's returned reference is compared with the object, "
        "size(), != and copy == original are checked after every step; to_string with custom characters; "
        "popcount fallback exhaustively for 8 bit and on boundary/random values above. "
        "non-trivial = distinct case line with at least one non-contract step and a set bit somewhere")

TRUSTED_BASE = ["reference leg: libstdc++ 12 std::bitset<N> on the same history; std out_of_range / invalid_argument (and "
                "operator[] outside the set, UB in std) are identified with the etl contract outcome; libstdc++ validates "
                "only the first min(N, rlen) characters of a string, the harness applies [bitset.cons] to the rest",
                "raw-storage comparison reads the object representation of the etl object (memcpy), little endian"]
ASSUMPTIONS = ["LP64: size_t, unsigned long and unsigned long long are 64 bits"]


def nwords(bits, w):
    return (bits + w - 1) // w


def positions(bits, w, rng, k=3):
    """positions biased to word / width boundaries (valid ones)"""
    c = {0, bits - 1, bits - 2, bits // 2}
    for m in range(0, bits + w, w):
        c.update({m - 1, m, m + 1})
    c = sorted(p for p in c if 0 <= p < bits)
    return c


def bad_positions(bits, w, far=False):
    top = nwords(bits, w) * w
    # 256 / 65536 + a valid position: a position truncated to an 8 / 16 bit type would look valid again
    # (65536 + a valid position: own line per width and class in gen(), block C)
    c = {bits, bits + 1, top - 1, top, top + 1, bits + 64, bits + 200, 256, 256 + bits - 1}
    return sorted(c - set(range(bits)))


def int_values(bits, rng, k):
    base = [0, 1, 2, 2**63, 2**64 - 1, 2**64 - 2, 0x5555555555555555, 0xAAAAAAAAAAAAAAAA]
    for b in (bits - 1, bits, bits + 1, 31, 32, 33):
        if 0 <= b <= 64:
            base += [min(2**b, 2**64 - 1), max(2**b - 1, 0)]
    base = [v for v in base if 0 <= v < 2**64]
    return [rng.choice(base) if rng.random() < 0.4 else rng.getrandbits(64) for _ in range(k)]


def str_op(chars, pos, n, zero, one):
    return "str %d %s %d %d %d %d" % (len(chars), " ".join(map(str, chars)), pos, n, zero, one) if chars else \
           "str 0 %d %d %d %d" % (pos, n, zero, one)


def cstr_op(chars, counted, zero, one):
    return "cstr %d %s %d %d %d" % (len(chars), " ".join(map(str, chars)), int(counted), zero, one) if chars else \
           "cstr 0 %d %d %d" % (int(counted), zero, one)


def rand_cstr(rng, bits):
    """a char const* constructor step: lengths around the width, sometimes a NUL or a foreign character inside,
    sometimes NUL as the zero character"""
    ln = max(rng.choice([bits, bits - 1, bits + 1, bits + 3, rng.randint(0, bits + 3)]), 0)
    zero, one = rng.choice([(48, 49), (48, 49), (65, 66), (0, 49), (49, 48)])
    t = rand_str(rng, ln, zero, one)
    r = rng.random()
    if ln > 0 and r < 0.25:
        t[rng.randrange(ln)] = 0
    elif ln > 0 and r < 0.35:
        t[rng.randrange(ln)] = rng.choice([c for c in (50, 47, 255) if c not in (zero, one)])
    return cstr_op(t, rng.random() < 0.5, zero, one)


def rand_str(rng, length, zero=48, one=49, p_one=0.5):
    return [one if rng.random() < p_one else zero for _ in range(length)]


def single_ops(bits, w, full):
    """every single operation applicable to one value (valid and invalid positions)"""
    ops = ["sa", "ra", "fa", "not", "sw"]
    top = nwords(bits, w) * w
    allpos = list(range(bits)) + sorted({bits, top - 1, top, bits + 64} - set(range(bits)))
    for p in allpos:
        ops += [f"s {p} 0", f"s {p} 1", f"r {p}", f"f {p}", f"rs {p} 0", f"rs {p} 1", f"rf {p}", f"t {p}"]
    return ops


def hist(kind, w, bits, ops):
    return f"hist {kind} {w} {bits} {len(ops)} " + " ".join(ops)


def words(kind, w, bits, ops):
    return f"words {kind} {w} {bits} {len(ops)} " + " ".join(ops)


def random_history(rng, kind, w, bits, length):
    full = kind == "bs"
    pos = positions(bits, w, rng)
    bad = bad_positions(bits, w)
    ops = []
    # start from a non-trivial state in both registers
    for _ in range(2):
        r = rng.random()
        if full and r < 0.5:
            ops.append(str_op(rand_str(rng, bits, p_one=rng.choice([0.1, 0.5, 0.9])), 0, NPOS, 48, 49))
        elif r < 0.75:
            ops.append("int %d" % int_values(bits, rng, 1)[0])
            for _ in range(rng.randint(0, 4)):
                ops.append("s %d 1" % rng.choice(pos))
        else:
            ops.append("sa")
            for _ in range(rng.randint(0, 3)):
                ops.append("r %d" % rng.choice(pos))
        ops.append("sw")
    while len(ops) < length:
        r = rng.random()
        p = rng.choice(pos) if rng.random() < 0.7 else rng.randrange(bits)
        if rng.random() < 0.04:
            p = rng.choice(bad)
        # aliased operands and the char const* constructor (review additions)
        x = rng.random()
        if x < 0.05:
            q = rng.choice(pos) if rng.random() < 0.9 else rng.choice(bad + [p])
            ops.append("rcs %d %d" % (p, q))
            continue
        if x < 0.07:
            ops.append(rng.choice(["ands", "ors", "xors"]))
            continue
        if x < 0.09 and full:
            ops.append(rand_cstr(rng, bits))
            continue
        if r < 0.08:
            ops.append("sa")
        elif r < 0.12:
            ops.append("ra")
        elif r < 0.22:
            ops.append("fa")
        elif r < 0.27:
            ops.append("not")
        elif r < 0.37:
            ops.append("s %d %d" % (p, rng.randint(0, 1)))
        elif r < 0.43:
            ops.append("r %d" % p)
        elif r < 0.51:
            ops.append("f %d" % p)
        elif r < 0.57:
            ops.append("rs %d %d" % (p, rng.randint(0, 1)))
        elif r < 0.63:
            q = rng.choice(pos) if rng.random() < 0.95 else rng.choice(bad)
            ops.append("rc %d %d" % (p, q))
        elif r < 0.68:
            ops.append("rf %d" % p)
        elif r < 0.80:
            ops.append(rng.choice(["and", "or", "xor", "andf", "orf", "xorf"]))
        elif r < 0.84:
            ops.append("int %d" % int_values(bits, rng, 1)[0])
        elif r < 0.88 and full:
            ln = rng.choice([bits, bits, bits - 1, bits + 1, rng.randint(0, bits + 3)])
            ln = max(ln, 0)
            t = rand_str(rng, ln)
            if ln > 0 and rng.random() < 0.1:
                t[rng.randrange(ln)] = rng.choice([50, 47, 0])
            ops.append(str_op(t, 0, NPOS, 48, 49))
        elif r < 0.94:
            ops.append("sw")
        else:
            ops.append("t %d" % p)
    return ops


def string_cases(rng, bits, quick):
    out = []
    lens = sorted({0, 1, 2, bits - 1, bits, bits + 1, bits + 2, 2 * bits, bits + 64} - {-1})
    alph = [(48, 49), (65, 66), (49, 48), (120, 120), (200, 7), (32, 0), (0, 49)]
    for ln in lens:
        poss = sorted({0, 1, ln - 1, ln, ln + 1, ln + 5, ln // 2} - {-1})
        for pos in poss:
            rem = max(ln - pos, 0)
            ns = sorted({0, 1, bits - 1, bits, bits + 1, rem, rem + 1, max(rem - 1, 0), NPOS, NPOS - 1} - {-1})
            if quick and bits > 129:
                ns = sorted(set(rng.sample(ns, 4)) | {NPOS})
            for n in ns:
                reps = 1 if quick else 4
                for _ in range(reps):
                    zero, one = rng.choice(alph) if rng.random() < 0.5 else (48, 49)
                    s = rand_str(rng, ln, zero, one)
                    ops = [str_op(s, pos, n, zero, one)]
                    if bits > 1:
                        ops.append("t %d" % rng.randrange(bits))
                    out.append(hist("bs", 64, bits, ops))
                    if rng.random() < 0.3:
                        out.append(words("bs", 64, bits, ops))
                    # a foreign character somewhere (also beyond the first `bits` characters): std throws
                    # invalid_argument when it lies inside [pos, pos + rlen), etl's precondition fires
                    if ln > 0 and rng.random() < 0.5:
                        t = list(s)
                        k = rng.randrange(ln)
                        t[k] = rng.choice([c for c in (50, 47, 97, 0, 255) if c not in (zero, one)])
                        out.append(hist("bs", 64, bits, ["sa", str_op(t, pos, n, zero, one), "t 0"]))
    # char const* constructor: counted / NUL-terminated, NUL inside the array, NUL as zero or one, foreign characters
    for ln in lens:
        for counted in (0, 1):
            for zero, one in (((48, 49), (0, 49), (32, 0)) if quick else ((48, 49), (65, 66), (0, 49), (32, 0), (120, 120))):
                for variant in range((3 if bits <= 65 else 2) if quick else 8):
                    s = rand_str(rng, ln, zero, one)
                    what = variant % 3 if (not quick or bits <= 65 or variant == 0) else rng.choice([1, 2])
                    if ln > 0 and what == 1:
                        s[rng.randrange(ln)] = 0
                    if ln > 0 and what == 2:
                        s[rng.randrange(ln)] = rng.choice([c for c in (50, 47, 97, 255) if c not in (zero, one)])
                    ops = [cstr_op(s, counted, zero, one)]
                    if bits > 1:
                        ops.append("t %d" % rng.randrange(bits))
                    out.append(hist("bs", 64, bits, ["sa"] + ops))
                    if variant == 0:
                        out.append(words("bs", 64, bits, ops))
    # wchar_t: codes beyond 8 and 16 bits, zero/one differing only above bit 8 / bit 16
    walph = [(48, 49), (0x4E00, 0x4E01), (0x130, 0x30), (0x10041, 0x41), (0x7FFFFFFF, 0), (0x263A, 0x1F600)]
    for ln in lens:
        for pos, n in ((0, NPOS), (1, NPOS), (0, bits), (2, max(bits - 1, 1)), (ln, NPOS), (ln + 1, 0)):
            for zero, one in (walph if not quick else [walph[rng.randrange(len(walph))], walph[rng.randrange(len(walph))]]):
                s = rand_str(rng, ln, zero, one)
                out.append("wstr %d %s %d %d %d %d" % (bits, " ".join(map(str, [len(s)] + s)), pos, n, zero, one))
                if ln > 0:
                    t = list(s)
                    # a foreign character that only differs from zero / one in the high bits
                    t[rng.randrange(ln)] = rng.choice([zero ^ 0x100, one ^ 0x10000, 50])
                    out.append("wstr %d %s %d %d %d %d" % (bits, " ".join(map(str, [len(t)] + t)), pos, n, zero, one))
    # a traits class with a coarser eq (case-insensitive letters); the codes are the lower-case representatives
    for ln in lens:
        for pos, n in ((0, NPOS), (1, bits), (ln // 2, NPOS)):
            for zero, one in ((97, 98), (122, 48), (49, 120)):
                s = rand_str(rng, ln, zero, one)
                out.append("cistr %d %s %d %d %d %d" % (bits, " ".join(map(str, [len(s)] + s)), pos, n, zero, one))
                if ln > 0 and rng.random() < 0.5:
                    t = list(s)
                    t[rng.randrange(ln)] = rng.choice([99, 50, 64])
                    out.append("cistr %d %s %d %d %d %d" % (bits, " ".join(map(str, [len(t)] + t)), pos, n, zero, one))
    for _ in range(10 if quick else 100):
        zero, one = rng.choice(alph[:5])
        if zero == one:
            one = zero + 1
        s = rand_str(rng, rng.choice([bits, bits, bits - 1, bits + 1, rng.randint(0, bits)]))
        out.append("tostr %d %d %s %d %d" % (bits, len(s), " ".join(map(str, s)), zero, one) if s else
                   "tostr %d 0 %d %d" % (bits, zero, one))
    return out


def gen(tier, rng):
    quick = tier == "quick"
    out = []
    # --- A. widths <= 9: every value x every single operation, every class
    for bits in SMALL:
        for kind, w in KINDS:
            ops1 = single_ops(bits, w, kind == "bs")
            stride = 1 if (quick is False or kind == "bs" or w == 8) else 5
            for v in range(0, 2**bits, stride):
                ops = []
                for o in ops1:
                    ops += ["int %d" % v, o]
                out.append(hist(kind, w, bits, ops))
            # the same with the other register non-empty: rc from every source position
            for v in ([0, 2**bits - 1, 0x155 % 2**bits] if quick else range(2**bits)):
                ops = ["int %d" % v, "sw"]
                for p in range(bits):
                    for q in list(range(bits)) + bad_positions(bits, w)[:2]:
                        ops += ["ra" if (p + q) % 2 else "sa", "rc %d %d" % (p, q)]
                out.append(hist(kind, w, bits, ops))
            # proxy copy inside ONE object: cur[p] = cur[q] for every pair of positions (incl. p = q and failing ones)
            vals = sorted({0, 2**bits - 1, 0x155 % 2**bits, 0xAA % 2**bits} | {rng.randrange(2**bits) for _ in range(3)}) \
                if quick else range(2**bits)
            allq = list(range(bits)) + bad_positions(bits, w)[:2]
            for v in vals:
                ops = []
                for p in allq:
                    for q in allq:
                        ops += ["int %d" % v, "rcs %d %d" % (p, q)]
                out.append(hist(kind, w, bits, ops))
                if v == vals[-1]:
                    out.append(words(kind, w, bits, ops))
    # --- B. width 7 (and 1): every pair of values under the binary operations
    #     (one line per right operand b: the extracted model recomputes its constants per line)
    for bits in (1, 7):
        for kind, w in KINDS:
            full = kind == "bs" or not quick
            for b in range(2**bits):
                avals = range(2**bits) if full else [rng.randrange(2**bits) for _ in range(6)]
                ops = ["int %d" % b, "sw"]
                for a in avals:
                    free = (not quick) or not full or (a + b) % 8 == 0
                    for o in ("and", "or", "xor") + (("andf", "orf", "xorf") if free else ()):
                        ops += ["int %d" % a, o]
                out.append(hist(kind, w, bits, ops))
            # aliased operands: x op= x for every value
            ops = []
            for a in range(2**bits):
                for o in ("ands", "ors", "xors"):
                    ops += ["int %d" % a, o]
            out.append(hist(kind, w, bits, ops))
    # --- C. all widths: random histories (+ raw storage twins)
    for bits in WIDTHS:
        # the extracted model costs ~5 us per bit and step (unary positions): fewer, not shorter, histories
        # at the large widths in the quick tier
        nh = {"quick": 150 if bits <= 9 else (70 if bits <= 33 else (36 if bits <= 65 else (24 if bits <= 129 else 10))), "search": 300}.get(tier, 2500 if bits <= 129 else 600)
        for kind, w in KINDS:
            for k in range(nh):
                ops = random_history(rng, kind, w, bits, rng.randint(8, 24))
                out.append(hist(kind, w, bits, ops))
                if k % 2 == 0:
                    out.append(words(kind, w, bits, ops))
            # whole-set operations at every width, straight from the empty set
            ops = ["sa", "fa", "fa", "not", "sw", "sa", "sw", "xor", "or", "and", "fa", "sw", "ra"]
            ops += ["t %d" % p for p in positions(bits, w, rng)] + ["t %d" % p for p in bad_positions(bits, w)]
            for p in positions(bits, w, rng):
                ops += ["s %d 1" % p, "f %d" % p, "rf %d" % p, "rs %d 1" % p, "r %d" % p, "s %d 1" % p]
            for p in bad_positions(bits, w):
                ops += ["s %d 1" % p, "f %d" % p, "rf %d" % p, "rs %d 1" % p, "r %d" % p, "rc 0 %d" % p, "rc %d 0" % p,
                        "rcs 0 %d" % p, "rcs %d 0" % p]
            # aliased operands at every width: proxy copy between the boundary positions of one object, x op= x
            ops += ["ra"]
            bp = positions(bits, w, rng)
            if len(bp) > 24:   # many words: the two ends and a sample of the boundaries in between
                bp = sorted(set(bp[:8] + bp[-8:] + rng.sample(bp, 8)))
            for i, p in enumerate(bp):
                ops += ["s %d 1" % p, "rcs %d %d" % (bp[(i + 1) % len(bp)], p), "rcs %d %d" % (p, p),
                        "rcs %d %d" % (p, bp[(i + 2) % len(bp)])]
            ops += ["ors", "ands", "fa", "xors", "sa", "ands", "xors"]
            out.append(hist(kind, w, bits, ops))
            out.append(words(kind, w, bits, ops))
            # positions that look valid again after a truncation to 16 bits (own short line: a unary position of
            # that size is expensive for the extracted model)
            ops = ["sa"]
            for p in (65536, 65536 + bits // 2):
                ops += ["f %d" % p, "rs %d 0" % p, "t %d" % p, "r %d" % p]
            out.append(hist(kind, w, bits, ops))
            # integer constructor boundaries
            ops = []
            for v in sorted(set(int_values(bits, rng, 12 if quick else 200))):
                ops += ["int %d" % v]
            out.append(hist(kind, w, bits, ops))
            out.append(words(kind, w, bits, ops))
    # --- Z. the width 0: every operation once, every positional member with several (all failing) positions
    for kind, w in KINDS:
        ops = ["sa", "fa", "not", "ra", "sw", "and", "or", "xor", "andf", "orf", "xorf", "ands", "ors", "xors",
               "int 0", "int 5", "int %d" % (2**64 - 1), "sa", "sw"]
        for p in (0, 1, 7, 8, 63, 64, 256):
            ops += ["s %d 1" % p, "s %d 0" % p, "r %d" % p, "f %d" % p, "rs %d 1" % p, "rf %d" % p, "t %d" % p,
                    "rc %d 0" % p, "rc 0 %d" % p, "rcs %d %d" % (p, p)]
        out.append(hist(kind, w, 0, ops))
        out.append(words(kind, w, 0, ops))
    out += string_cases(rng, 0, quick)
    # --- D/E. string constructors and to_string
    for bits in WIDTHS:
        out += string_cases(rng, bits, quick)
    # --- constant evaluation: the two fixed scripts, every width and class
    for bits in WIDTHS:
        for kind, w in KINDS:
            out.append(f"ct {kind} {w} {bits}")
    # --- F. popcount fallback
    for x in range(256):
        out.append(f"popfb 8 {x}")
    for w in (16, 32, 64):
        vals = {0, 1, 2**w - 1, 2**(w - 1), 2**(w - 1) - 1, 0x5555555555555555 % 2**w}
        vals |= {2**k for k in range(w)} | {2**w - 1 - 2**k for k in range(w)}
        vals |= {rng.getrandbits(w) for _ in range(200 if quick else 20000)}
        for x in sorted(vals):
            out.append(f"popfb {w} {x}")
    return out


def nontrivial(case, impl):
    if impl.startswith("unknown") or impl.startswith("crash"):
        return False
    if case.startswith("ct "):
        return impl.replace(" ", "") in ("1", "11")   # 0 = script failed, 2 = not a constant expression
    if case.startswith("wstr") or case.startswith("cistr"):
        return impl != "contract" and " 49" in impl
    if case.startswith("popfb"):
        return not impl.startswith("0 ")
    return "1" in impl and impl.replace("contract", "").replace(";", "").strip() != ""
