"""Review tool (not part of the check): share of `na` in the spec/reference legs and number of distinct impl legs per op.
Usage (after ./check C18 has built the binaries): python3 props/C18/na_share.py [quick|thorough]"""
import sys, random, subprocess, importlib.util, collections, glob, os
tier = sys.argv[1] if len(sys.argv)>1 else "quick"
seed = int(os.environ.get("VERIF_SEED","0"))
spec = importlib.util.spec_from_file_location("p", "/verif/props/C18/prop.py")
p = importlib.util.module_from_spec(spec); spec.loader.exec_module(p)
rng = random.Random(seed*1000003+17)
cases = p.gen(tier, rng)
inp = ("\n".join(cases)+"\n").encode()
drv = sorted(glob.glob("/verif/build/C18/driver-*"), key=os.path.getmtime)[-1]
h = sorted(glob.glob("/verif/build/C18/h-main-*"), key=os.path.getmtime)[-1]
def run(exe):
    o = subprocess.run([exe], input=inp, capture_output=True).stdout.decode().split("\n")
    return o
ml = run(drv); il = run(h)
tot = collections.Counter(); nas = collections.Counter(); nar = collections.Counter(); outs = collections.defaultdict(set)
for c, m, i in zip(cases, ml, il):
    op = c.split()[0]
    if op == "ct": op = "ct:" + c.split()[2]
    tot[op]+=1
    mm, sp = (m.split(" | ")+["na"])[:2]
    ii, rf = (i.split(" | ")+["na"])[:2]
    if sp.strip()=="na": nas[op]+=1
    if rf.strip()=="na": nar[op]+=1
    outs[op].add(ii.strip())
print("cases", len(cases))
for op in sorted(tot):
    flag = ""
    if nas[op] or nar[op]: flag += " NA"
    if len(outs[op])<2 and not op.startswith("ct:"): flag += " CONSTANT"
    print(f"{op:12s} n={tot[op]:6d} spec_na={nas[op]:5d} ref_na={nar[op]:5d} distinct_impl={len(outs[op])}{flag}")
