(* C18 driver: model leg = extracted Model.v functions, spec leg = extracted Spec.v functions
   (printed only inside the domain ISO C defines for the call, otherwise "na").
   Parsing/printing only; the domain tests below decide nothing but whether the spec leg is shown. *)
let pr f = function
  | Ok a -> f a
  | Contract -> "contract"
  | UB _ -> "ub"
  | OutOfFuel -> "fuel"

let nat_s n = string_of_int (int_of_nat n)
let ok_nat n = join [ "ok"; nat_s n ]
let ok_sign z = join [ "ok"; str_of_z (sign_of z) ]
let ok_off = function Some n -> join [ "ok"; nat_s n ] | None -> "ok -1"
let ok_buf ret l = join [ "ok"; string_of_int ret; zlist_s l ]
let ok_bool b = join [ "ok"; b2s b ]
let zero = Z0
let is0 z = (z = Z0)
let len l = List.length l
let lnat l = nat_of_int (List.length l)

(* Spec.array_ok: the array holds a terminator within its first n elements, or at least n elements *)
let array_ok n l = array_ok (nat_of_int n) l
let rec take n l = if n <= 0 then [] else match l with [] -> [] | x :: t -> x :: take (n - 1) t

(* A count beyond the arrays (up to SIZE_MAX): C18_counts_beyond_arrays proves that neither the model nor the spec
   depends on it once it exceeds the lengths, so both are evaluated at min(count, longest array + 1).
   (Counts are unary nat in the extracted model; 2^64 - 1 successors cannot be built.) *)
let next_count t lens =
  let c = next_big t in
  let cap = 1 + List.fold_left max 0 lens in
  if Big.leq c (Big.of_int cap) then Big.to_int c else cap

let opt_list = function [] -> None | l -> Some l

let classes =
  [ "isalnum", (isalnum_m, isalnum_s); "isalpha", (isalpha_m, isalpha_s); "isblank", (isblank_m, isblank_s);
    "iscntrl", (iscntrl_m, iscntrl_s); "isdigit", (isdigit_m, isdigit_s); "isgraph", (isgraph_m, isgraph_s);
    "islower", (islower_m, islower_s); "isprint", (isprint_m, isprint_s); "ispunct", (ispunct_m, ispunct_s);
    "isspace", (isspace_m, isspace_s); "isupper", (isupper_m, isupper_s); "isxdigit", (isxdigit_m, isxdigit_s);
    "iswalnum", (iswalnum_m, isalnum_s); "iswalpha", (iswalpha_m, isalpha_s); "iswblank", (iswblank_m, isblank_s);
    "iswcntrl", (iswcntrl_m, iscntrl_s); "iswdigit", (iswdigit_m, isdigit_s); "iswgraph", (iswgraph_m, isgraph_s);
    "iswlower", (iswlower_m, islower_s); "iswprint", (iswprint_m, isprint_s); "iswpunct", (iswpunct_m, ispunct_s);
    "iswspace", (iswspace_m, isspace_s); "iswupper", (iswupper_m, isupper_s); "iswxdigit", (iswxdigit_m, isxdigit_s) ]

(* generic name -> (character type, generic op) *)
let family op =
  let n = String.length op in
  if n > 3 && String.sub op 0 3 = "str" then Some (Narrow, op)
  else if n > 3 && String.sub op 0 3 = "wcs" then Some (Wide, "str" ^ String.sub op 3 (n - 3))
  else if n > 4 && String.sub op 0 4 = "wmem" then Some (Wide, String.sub op 1 (n - 1))
  else if n > 3 && String.sub op 0 3 = "mem" then Some (Narrow, op)
  else None

let str_case ct g t =
  let wide = (ct = Wide) in
  match g with
  | "strlen" ->
      let s = next_zlist t in
      (pr ok_nat (strlen_m s), (match str_of s with Some a -> ok_nat (strlen_s a) | None -> "na"))
  | "strcmp" ->
      let a = next_zlist t in let b = next_zlist t in
      (pr ok_sign (strcmp_m ct a b),
       (match str_of a, str_of b with Some x, Some y -> ok_sign (strcmp_s x y) | _ -> "na"))
  | "strncmp" ->
      let a = next_zlist t in let b = next_zlist t in let n = next_count t [len a; len b] in
      (pr ok_sign (strncmp_m ct a b (nat_of_int n)),
       if array_ok n a && array_ok n b then ok_sign (strncmp_s a b (nat_of_int n)) else "na")
  | "memcmp" ->
      let a = next_zlist t in let b = next_zlist t in let n = next_int t in
      (pr ok_sign (memcmp_m ct a b (nat_of_int n)),
       if n <= len a && n <= len b then ok_sign (memcmp_s a b (nat_of_int n)) else "na")
  | "strchr" ->
      let s = next_zlist t in let ch = next_z t in
      (pr ok_off (strchr_m ct s ch), (match str_of s with Some a -> ok_off (strchr_s a (conv_char wide ch)) | None -> "na"))
  | "strrchr" ->
      let s = next_zlist t in let ch = next_z t in
      (pr ok_off (strrchr_m ct s ch), (match str_of s with Some a -> ok_off (strrchr_s a (conv_char wide ch)) | None -> "na"))
  | "memchr" ->
      let s = next_zlist t in let ch = next_z t in let n = next_count t [len s] in
      let sp = memchr_s s (conv_char wide ch) (nat_of_int n) in
      (* a count beyond the array is defined only for the narrow memchr (C11 7.24.5.1p2), not for wmemchr *)
      (pr ok_off (memchr_m ct s ch (nat_of_int n)), if n <= len s || (sp <> None && not wide) then ok_off sp else "na")
  | "strspn" | "strcspn" ->
      let a = next_zlist t in let b = next_zlist t in
      let incl = (g = "strspn") in
      (pr ok_nat (strspn_m incl a b),
       (match str_of a, str_of b with
        | Some x, Some y -> ok_nat (if incl then strspn_s x y else strcspn_s x y) | _ -> "na"))
  | "strpbrk" ->
      let a = next_zlist t in let b = next_zlist t in
      (pr ok_off (strpbrk_m a b),
       (match str_of a, str_of b with Some x, Some y -> ok_off (strpbrk_s x y) | _ -> "na"))
  | "strstr" ->
      let a = next_zlist t in let b = next_zlist t in
      (pr ok_off (strstr_m a b),
       (match str_of a, str_of b with Some x, Some y -> ok_off (strstr_s x y) | _ -> "na"))
  | "strcpy" ->
      let d = next_zlist t in let s = next_zlist t in
      (pr (ok_buf 0) (strcpy_m d s),
       (match str_of s with Some a when len a + 1 <= len d -> ok_buf 0 (strcpy_s d a) | _ -> "na"))
  | "strncpy" ->
      let d = next_zlist t in let s = next_zlist t in let n = next_int t in
      (pr (ok_buf 0) (strncpy_m d s (nat_of_int n)),
       if array_ok n s && n <= len d then ok_buf 0 (strncpy_s d s (nat_of_int n)) else "na")
  | "strcat" ->
      let d = next_zlist t in let s = next_zlist t in
      (pr (ok_buf 0) (strcat_m d s),
       (match str_of d, str_of s with
        | Some a, Some b when len a + len b + 1 <= len d -> ok_buf 0 (strcat_s d a b) | _ -> "na"))
  | "strncat" ->
      let d = next_zlist t in let s = next_zlist t in let n = next_count t [len s] in
      (pr (ok_buf 0) (strncat_m d s (nat_of_int n)),
       (match str_of d with
        | Some a when array_ok n s && len a + len (upto_nul_excl (nat_of_int n) s) + 1 <= len d ->
            ok_buf 0 (strncat_s d a s (nat_of_int n))
        | _ -> "na"))
  | "memcpy" ->
      let d = next_zlist t in let s = next_zlist t in let n = next_int t in
      (pr (ok_buf 0) (memcpy_m d s (nat_of_int n)),
       if n <= len s && n <= len d then ok_buf 0 (memcpy_s d s (nat_of_int n)) else "na")
  | "memset" ->
      let d = next_zlist t in let ch = next_z t in let n = next_int t in
      (pr (ok_buf 0) (memset_m ct d ch (nat_of_int n)),
       if n <= len d then ok_buf 0 (memset_s d (conv_char wide ch) (nat_of_int n)) else "na")
  | "memmove" ->
      let m = next_zlist t in let d = next_int t in let s = next_int t in let n = next_int t in
      (pr (ok_buf d) (memmove_m m (nat_of_int d) (nat_of_int s) (nat_of_int n)),
       if d + n <= len m && s + n <= len m then ok_buf d (memmove_s m (nat_of_int d) (nat_of_int s) (nat_of_int n)) else "na")
  (* ---- review round: paths of the front ends *)
  | "memmove2" ->
      (* <dst> <src> n <dst_first>: two different allocations inside one block; dst_first = 1 puts the destination at
         the lower address, so `ps < pd` is false (forward loop), 0 the other way round (backward loop) *)
      let d = next_zlist t in let s = next_zlist t in let n = next_int t in let dst_first = next_int t in
      (pr (ok_buf 0) (memmove2_m (dst_first = 0) d s (nat_of_int n)),
       if n <= len s && n <= len d then ok_buf 0 (memcpy_s d s (nat_of_int n)) else "na")
  | "strcpy_null" | "strncpy_null" | "memmove_null" ->
      (* <which>: 1 = destination null, 2 = source null, 3 = both; the other argument is a small valid buffer.
         Expected (reference leg of the harness and spec leg): the documented precondition fails -> contract.  ISO C: undefined *)
      let w = next_int t in
      let d = if w land 1 <> 0 then None else Some (List.map z_of_int [201; 202; 203]) in
      let src = if w land 2 <> 0 then None else Some (List.map z_of_int [97; 0]) in
      let n = nat_of_int 1 in
      ((match g with
        | "strcpy_null" -> pr (ok_buf 0) (strcpy_front_m d src)
        | "strncpy_null" -> pr (ok_buf 0) (strncpy_front_m d src n)
        | _ -> if wide then "na" else pr (ok_buf 0) (memmove_front_m false d src n)),
       (* spec leg: the library's documented entry contract (Spec.precondition_violated), not ISO C *)
       if precondition_violated [d = None; src = None] then "contract" else "na")
  | "strchr_null" ->
      let ch = next_z t in
      (pr ok_off (strchr_front_m None ch), if precondition_violated [true] then "contract" else "na")
  | "strrchr_null" -> let ch = next_z t in (pr ok_off (strrchr_front_m ct None ch), ok_off strrchr_null_s)
  | _ -> raise Not_found

let pow2 k = z_of_big (Big.shift_left Big.one k)
let in_range z lo hi = Big.leq lo (big_of_z z) && Big.leq (big_of_z z) hi

let rec run_case op t =
  match op with
  | "ct" -> let _ = next_int t in let op2 = next_str t in run_case op2 t
  | "tolower" | "toupper" ->
      let c = next_z t in
      let m = if op = "tolower" then tolower_m c else toupper_m c in
      ((match m with Some v -> join [ "ok"; str_of_z v ] | None -> "ub"),
       join [ "ok"; str_of_z (if op = "tolower" then tolower_s c else toupper_s c) ])
  | "towlower" | "towupper" ->
      let c = next_z t in
      (join [ "ok"; str_of_z (if op = "towlower" then towlower_m c else towupper_m c) ],
       join [ "ok"; str_of_z (if op = "towlower" then tolower_s c else toupper_s c) ])
  | "div" | "ldiv" | "div_l" | "lldiv" | "div_ll" | "imaxdiv" ->
      let x = next_z t in let y = next_z t in
      let ty = if op = "div" then i32 else i64 in
      let bits = if op = "div" then 31 else 63 in
      let lo = Big.neg (Big.shift_left Big.one bits) in
      ((match div_m ty x y with Some (q, r) -> join [ "ok"; str_of_z q; str_of_z r ] | None -> "ub"),
       if is0 y || (Big.equal (big_of_z x) lo && Big.equal (big_of_z y) Big.minus_one) then "na"
       else let (q, r) = div_s x y in join [ "ok"; str_of_z q; str_of_z r ])
  | "labs" | "llabs" ->
      let x = next_z t in
      let lo = Big.neg (Big.shift_left Big.one 63) in
      ((match abs_m i64 x with Some v -> join [ "ok"; str_of_z v ] | None -> "ub"),
       if Big.equal (big_of_z x) lo then "na" else join [ "ok"; Big.to_string (Big.abs (big_of_z x)) ])
  | _ ->
    (match List.assoc_opt op classes with
     | Some (m, s) -> let c = next_z t in (ok_bool (not (is0 (m c))), ok_bool (s c))
     | None ->
       (match family op with
        | Some (ct, g) -> str_case ct g t
        | None -> raise Not_found))

let () = main run_case
