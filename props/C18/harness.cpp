// C18 harness: etl <cstring>/<cwchar>/<cctype>/<cwctype>/<cstdlib> re-implementations (impl leg)
// versus the host C library (glibc, "C" locale) on the same inputs (reference leg).
//
// Every buffer handed to a function under test is an exact-size region inside a private heap block,
// flush against a guard zone on both sides.  The guards are filled with a pattern and checked after
// every call (token "guard-touched"); in the sanitizer build they are additionally poisoned while
// the call runs, so that a single out-of-extent READ aborts the child (-> "crash <sig>").
// All buffers on the wire are RAW element lists (a string argument carries its terminator explicitly,
// possibly followed by further elements that must be neither read nor compared).
// Pointer results are printed as offsets from the argument (-1 = null pointer), comparison results
// as signs, destination buffers in full (every element of the allocation, i.e. the C-defined extent
// and whatever lies behind it inside the allocation).
#include "common.hpp"

#include <cctype>
#include <clocale>
#include <cstdlib>
#include <cstring>
#include <cwchar>
#include <cwctype>
#include <cinttypes>

#include <etl/cctype.hpp>
// only the anchored <cstdlib> pieces: the umbrella header drags in <etl/type_traits>, whose __is_scalar
// builtin use does not survive libstdc++'s own __is_scalar when the compiler is clang
#include <etl/_cstdlib/div.hpp>
#include <etl/_cstdlib/labs.hpp>
#include <etl/_cstdlib/llabs.hpp>
#include <etl/cstring.hpp>
#include <etl/cwchar.hpp>
#include <etl/cwctype.hpp>

#if defined(__SANITIZE_ADDRESS__)
    #include <sanitizer/asan_interface.h>
    #define C18_POISON(p, n) ASAN_POISON_MEMORY_REGION((p), (n))
    #define C18_UNPOISON(p, n) ASAN_UNPOISON_MEMORY_REGION((p), (n))
#elif defined(__has_feature)
    #if __has_feature(address_sanitizer)
        #include <sanitizer/asan_interface.h>
        #define C18_POISON(p, n) ASAN_POISON_MEMORY_REGION((p), (n))
        #define C18_UNPOISON(p, n) ASAN_UNPOISON_MEMORY_REGION((p), (n))
    #endif
#endif
#ifndef C18_POISON
    #define C18_POISON(p, n) ((void)0)
    #define C18_UNPOISON(p, n) ((void)0)
#endif

using namespace vh;

namespace {

constexpr std::size_t GUARD = 64; // bytes on each side (multiple of 8 and of sizeof(wchar_t))
constexpr unsigned char PATTERN = 0xA5;

template <typename C>
C from_wire(i64 v)
{
    if constexpr (sizeof(C) == 1) {
        return static_cast<C>(static_cast<unsigned char>(v));
    } else {
        return static_cast<C>(v);
    }
}
template <typename C>
i64 to_wire(C c)
{
    if constexpr (sizeof(C) == 1) {
        return static_cast<i64>(static_cast<unsigned char>(c));
    } else {
        return static_cast<i64>(c);
    }
}

// exact-size buffer of n elements between two guard zones
template <typename C>
struct Buf {
    unsigned char* block;
    C* p;
    std::size_t n;

    explicit Buf(std::vector<i64> const& v) : n(v.size())
    {
        block = static_cast<unsigned char*>(std::malloc(2 * GUARD + n * sizeof(C)));
        std::memset(block, PATTERN, 2 * GUARD + n * sizeof(C));
        p = reinterpret_cast<C*>(block + GUARD);
        for (std::size_t i = 0; i < v.size(); ++i) { p[i] = from_wire<C>(v[i]); }
        C18_POISON(block, GUARD);
        C18_POISON(block + GUARD + n * sizeof(C), GUARD);
    }
    Buf(Buf const&)            = delete;
    Buf& operator=(Buf const&) = delete;
    ~Buf()
    {
        C18_UNPOISON(block, 2 * GUARD + n * sizeof(C));
        std::free(block);
    }
    bool guards_ok()
    {
        C18_UNPOISON(block, GUARD);
        C18_UNPOISON(block + GUARD + n * sizeof(C), GUARD);
        bool ok = true;
        for (std::size_t i = 0; i < GUARD; ++i) {
            if (block[i] != PATTERN) { ok = false; }
            if (block[GUARD + n * sizeof(C) + i] != PATTERN) { ok = false; }
        }
        return ok;
    }
    void dump(Out& o) const
    {
        o.num(static_cast<i64>(n));
        for (std::size_t i = 0; i < n; ++i) { o.num(to_wire<C>(p[i])); }
    }
};

template <typename C>
i64 off(C const* base, void const* r)
{
    return r == nullptr ? -1 : static_cast<i64>(static_cast<C const*>(r) - base);
}

template <typename... B>
void check_guards(Out& o, B&... b)
{
    bool ok = (b.guards_ok() && ...);
    if (!ok) { o.tok("guard-touched"); }
}

// ---- read-only, one string:  <s>
template <typename C, typename F>
void h_len(Toks& in, Out& o, F f)
{
    auto s = in.list();
    Buf<C> b(s);
    auto r = f(static_cast<C const*>(b.p));
    o.tok("ok").num(static_cast<i64>(r));
    check_guards(o, b);
}

// ---- two strings -> int sign:  <a> <b>
template <typename C, typename F>
void h_cmp(Toks& in, Out& o, F f)
{
    auto a = in.list();
    auto c = in.list();
    Buf<C> x(a);
    Buf<C> y(c);
    int r = f(static_cast<C const*>(x.p), static_cast<C const*>(y.p));
    o.tok("ok").num(sign(r));
    check_guards(o, x, y);
}

// ---- two strings + count -> int sign:  <a> <b> n
template <typename C, typename F>
void h_ncmp(Toks& in, Out& o, F f)
{
    auto a = in.list();
    auto c = in.list();
    auto n = static_cast<std::size_t>(in.unum());
    Buf<C> x(a);
    Buf<C> y(c);
    int r = f(static_cast<C const*>(x.p), static_cast<C const*>(y.p), n);
    o.tok("ok").num(sign(r));
    check_guards(o, x, y);
}

// ---- raw buffers + count -> int sign (memcmp):  <a> <b> n     (no terminators added)
template <typename C, typename F>
void h_memcmp(Toks& in, Out& o, F f)
{
    auto a = in.list();
    auto c = in.list();
    auto n = static_cast<std::size_t>(in.unum());
    Buf<C> x(a);
    Buf<C> y(c);
    int r = f(static_cast<C const*>(x.p), static_cast<C const*>(y.p), n);
    o.tok("ok").num(sign(r));
    check_guards(o, x, y);
}

// ---- string + character -> offset:  <s> ch      F(C*, ch) -> pointer, G(C const*, ch) -> pointer (both overloads)
template <typename C, typename F, typename G>
void h_chr(Toks& in, Out& o, F f, G g)
{
    auto s  = in.list();
    auto ch = in.num();
    Buf<C> b(s);
    auto r1 = off<C>(b.p, f(b.p, ch));
    auto r2 = off<C>(b.p, g(static_cast<C const*>(b.p), ch));
    if (r1 != r2) { o.tok("overloads-differ"); }
    o.tok("ok").num(r1);
    check_guards(o, b);
}

// ---- raw buffer + character + count -> offset (memchr):  <buf> ch n
template <typename C, typename F, typename G>
void h_memchr(Toks& in, Out& o, F f, G g)
{
    auto s  = in.list();
    auto ch = in.num();
    auto n  = static_cast<std::size_t>(in.unum());
    Buf<C> b(s);
    auto r1 = off<C>(b.p, f(b.p, ch, n));
    auto r2 = off<C>(b.p, g(static_cast<C const*>(b.p), ch, n));
    if (r1 != r2) { o.tok("overloads-differ"); }
    o.tok("ok").num(r1);
    check_guards(o, b);
}

// ---- two strings -> size:  <a> <b>
template <typename C, typename F>
void h_spn(Toks& in, Out& o, F f)
{
    auto a = in.list();
    auto c = in.list();
    Buf<C> x(a);
    Buf<C> y(c);
    auto r = f(static_cast<C const*>(x.p), static_cast<C const*>(y.p));
    o.tok("ok").num(static_cast<i64>(r));
    check_guards(o, x, y);
}

// ---- two strings -> offset into the first (strpbrk, strstr):  <a> <b>
template <typename C, typename F, typename G>
void h_find(Toks& in, Out& o, F f, G g)
{
    auto a = in.list();
    auto c = in.list();
    Buf<C> x(a);
    Buf<C> y(c);
    auto r1 = off<C>(x.p, f(x.p, y.p));
    auto r2 = off<C>(x.p, g(static_cast<C const*>(x.p), static_cast<C const*>(y.p)));
    if (r1 != r2) { o.tok("overloads-differ"); }
    o.tok("ok").num(r1);
    check_guards(o, x, y);
}

// ---- destination allocation (raw initial contents) + source string:  <dst> <src>
template <typename C, typename F>
void h_cpy(Toks& in, Out& o, F f)
{
    auto d = in.list();
    auto s = in.list();
    Buf<C> x(d);
    Buf<C> y(s);
    auto* r = f(x.p, static_cast<C const*>(y.p));
    o.tok("ok").num(off<C>(x.p, r));
    x.dump(o);
    check_guards(o, x, y);
}

// ---- destination allocation + source string + count:  <dst> <src> n
template <typename C, typename F>
void h_ncpy(Toks& in, Out& o, F f)
{
    auto d = in.list();
    auto s = in.list();
    auto n = static_cast<std::size_t>(in.unum());
    Buf<C> x(d);
    Buf<C> y(s);
    auto* r = f(x.p, static_cast<C const*>(y.p), n);
    o.tok("ok").num(off<C>(x.p, r));
    x.dump(o);
    check_guards(o, x, y);
}

// ---- destination allocation + raw source buffer + count (memcpy):  <dst> <src> n
template <typename C, typename F>
void h_memcpy(Toks& in, Out& o, F f)
{
    auto d = in.list();
    auto s = in.list();
    auto n = static_cast<std::size_t>(in.unum());
    Buf<C> x(d);
    Buf<C> y(s);
    auto* r = f(x.p, static_cast<C const*>(y.p), n);
    o.tok("ok").num(off<C>(x.p, r));
    x.dump(o);
    check_guards(o, x, y);
}

// ---- destination allocation + value + count (memset):  <dst> ch n
template <typename C, typename F>
void h_memset(Toks& in, Out& o, F f)
{
    auto d  = in.list();
    auto ch = in.num();
    auto n  = static_cast<std::size_t>(in.unum());
    Buf<C> x(d);
    auto* r = f(x.p, ch, n);
    o.tok("ok").num(off<C>(x.p, r));
    x.dump(o);
    check_guards(o, x);
}

// ---- one allocation, destination offset, source offset, count (memmove):  <mem> d s n
template <typename C, typename F>
void h_memmove(Toks& in, Out& o, F f)
{
    auto m = in.list();
    auto d = static_cast<std::size_t>(in.unum());
    auto s = static_cast<std::size_t>(in.unum());
    auto n = static_cast<std::size_t>(in.unum());
    Buf<C> x(m);
    auto* r = f(x.p + d, static_cast<C const*>(x.p + s), n);
    o.tok("ok").num(off<C>(x.p, r));
    x.dump(o);
    check_guards(o, x);
}

// ---- two DIFFERENT allocations inside one heap block (memmove between unrelated objects):  <dst> <src> n <dst_first>
// layout [guard][first][guard][second][guard]; dst_first = 1 puts the destination at the lower address (so the
// library's `ps < pd` is false and it copies forwards), 0 at the higher one (backwards).  Both must give memcpy's result.
template <typename C, typename F>
void h_memmove2(Toks& in, Out& o, F f)
{
    auto d        = in.list();
    auto s        = in.list();
    auto n        = static_cast<std::size_t>(in.unum());
    bool dstFirst = in.unum() != 0;
    auto const& a = dstFirst ? d : s;
    auto const& b = dstFirst ? s : d;
    std::size_t const na = a.size() * sizeof(C);
    std::size_t const nb = b.size() * sizeof(C);
    std::size_t const total = 3 * GUARD + na + nb;
    auto* block = static_cast<unsigned char*>(std::malloc(total));
    std::memset(block, PATTERN, total);
    auto* pa = reinterpret_cast<C*>(block + GUARD);
    auto* pb = reinterpret_cast<C*>(block + 2 * GUARD + na);
    for (std::size_t i = 0; i < a.size(); ++i) { pa[i] = from_wire<C>(a[i]); }
    for (std::size_t i = 0; i < b.size(); ++i) { pb[i] = from_wire<C>(b[i]); }
    C18_POISON(block, GUARD);
    C18_POISON(block + GUARD + na, GUARD);
    C18_POISON(block + 2 * GUARD + na + nb, GUARD);
    C* pd       = dstFirst ? pa : pb;
    C const* ps = dstFirst ? pb : pa;
    auto* r     = f(pd, ps, n);
    C18_UNPOISON(block, total);
    o.tok("ok").num(off<C>(pd, r));
    o.num(static_cast<i64>(d.size()));
    for (std::size_t i = 0; i < d.size(); ++i) { o.num(to_wire<C>(pd[i])); }
    bool ok = true;
    for (std::size_t i = 0; i < GUARD; ++i) {
        if (block[i] != PATTERN || block[GUARD + na + i] != PATTERN || block[2 * GUARD + na + nb + i] != PATTERN) { ok = false; }
    }
    for (std::size_t i = 0; i < s.size(); ++i) {
        if (to_wire<C>(ps[i]) != to_wire<C>(from_wire<C>(s[i]))) { ok = false; } // the source must not change
    }
    if (!ok) { o.tok("guard-touched"); }
    std::free(block);
}

// ---- null-pointer arguments of the front ends:  <which>   (1 = destination null, 2 = source null, 3 = both)
// impl leg: the call under the contract handler; the non-null argument is a small valid buffer.
// reference leg: what the header documents (TETL_PRECONDITION(ptr != nullptr)) -> "contract"; C itself: undefined.
template <typename C>
C* volatile g_null = nullptr; // volatile: the compiler must not fold the null pointer into the call

template <typename C, typename F>
void h_nullargs(Toks& in, Out& o, F f)
{
    auto w = in.unum();
    std::vector<i64> dv{201, 202, 203};
    std::vector<i64> sv{97, 0};
    Buf<C> x(dv);
    Buf<C> y(sv);
    C* d       = (w & 1U) != 0 ? g_null<C> : x.p;
    C const* s = (w & 2U) != 0 ? g_null<C> : y.p;
    auto* r    = f(d, s);
    o.tok("ok").num(off<C>(x.p, r));
    x.dump(o);
    check_guards(o, x, y);
}

template <typename F>
void h_class(Toks& in, Out& o, F f)
{
    auto c = in.num();
    o.tok("ok").b(f(c) != 0);
}
template <typename F>
void h_conv(Toks& in, Out& o, F f)
{
    auto c = in.num();
    o.tok("ok").num(static_cast<i64>(f(c)));
}

// both legs of one op: the same handler, once with the etl function(s) (guarded), once with libc's
#define BOTH(HANDLER, ETL, STD)                                                                                        \
    do {                                                                                                               \
        Toks in2 = in;                                                                                                 \
        guarded(impl, [&](Out& o) { HANDLER(in, o, ETL); });                                                           \
        HANDLER(in2, ref, STD);                                                                                        \
        return true;                                                                                                   \
    } while (false)
#define BOTH2(HANDLER, ETL1, ETL2, STD1, STD2)                                                                         \
    do {                                                                                                               \
        Toks in2 = in;                                                                                                 \
        guarded(impl, [&](Out& o) { HANDLER(in, o, ETL1, ETL2); });                                                    \
        HANDLER(in2, ref, STD1, STD2);                                                                                 \
        return true;                                                                                                   \
    } while (false)

using cc  = char const*;
using mc  = char*;
using wcc = wchar_t const*;
using wmc = wchar_t*;

#if defined(C18_CT)
// ---- constant-evaluation leg: the same portable templates evaluated by the compiler's constant
// evaluator (which rejects out-of-bounds accesses and signed overflow) on a fixed table of inputs.
// A table entry is the textual case plus the result computed at compile time.
struct CtEntry {
    char const* text;
    long long value;           // scalar result (offset / sign / length), or return offset for writers
    int nout;                  // number of destination elements (0 for read-only ops)
    long long out[8];
};

template <typename C, std::size_t N>
struct CtBuf {
    C d[N]{};
};

constexpr int sgn(int x) { return x < 0 ? -1 : (x > 0 ? 1 : 0); }
template <typename C>
constexpr long long ctoff(C const* base, C const* r)
{
    return r == nullptr ? -1 : static_cast<long long>(r - base);
}
constexpr long long ub(char c) { return static_cast<long long>(static_cast<unsigned char>(c)); }

// writers: run on a fixed 8-element destination prefilled with 'x' (120)
template <typename F>
constexpr CtEntry ct_write(char const* text, int nout, F f)
{
    CtBuf<char, 8> b{};
    for (auto& c : b.d) { c = 'x'; }
    auto* r = f(b.d);
    CtEntry e{text, ctoff<char>(b.d, r), nout, {}};
    for (int i = 0; i < nout; ++i) { e.out[i] = ub(b.d[i]); }
    return e;
}
template <typename F>
constexpr CtEntry ct_wwrite(char const* text, int nout, F f)
{
    CtBuf<wchar_t, 8> b{};
    for (auto& c : b.d) { c = L'x'; }
    auto* r = f(b.d);
    CtEntry e{text, ctoff<wchar_t>(b.d, r), nout, {}};
    for (int i = 0; i < nout; ++i) { e.out[i] = static_cast<long long>(b.d[i]); }
    return e;
}

constexpr char const kAbab[]  = "abab";
constexpr char const kHi[]    = {'a', static_cast<char>(0x80), 'b', 0};
constexpr wchar_t const kWab[] = L"abab";

constexpr CtEntry ct_table[] = {
    {"strlen 1 0", static_cast<long long>(etl::strlen("")), 0, {}},
    {"strlen 5 97 98 97 98 0", static_cast<long long>(etl::strlen(kAbab)), 0, {}},
    {"strcmp 2 128 0 2 97 0", sgn(etl::strcmp("\x80", "a")), 0, {}},
    {"strcmp 3 97 98 0 4 97 98 97 0", sgn(etl::strcmp("ab", "aba")), 0, {}},
    {"strcmp 3 97 98 0 3 97 98 0", sgn(etl::strcmp("ab", "ab")), 0, {}},
    {"strncmp 2 128 0 2 97 0 1", sgn(etl::strncmp("\x80", "a", 1)), 0, {}},
    {"strncmp 4 97 98 99 0 4 97 98 100 0 2", sgn(etl::strncmp("abc", "abd", 2)), 0, {}},
    {"strncmp 4 97 98 99 0 4 97 98 100 0 3", sgn(etl::strncmp("abc", "abd", 3)), 0, {}},
    {"strncmp 2 97 0 2 97 0 9", sgn(etl::strncmp("a", "a", 9)), 0, {}},
    {"strchr 5 97 98 97 98 0 98", ctoff<char>(kAbab, etl::strchr(kAbab, 'b')), 0, {}},
    {"strchr 5 97 98 97 98 0 0", ctoff<char>(kAbab, etl::strchr(kAbab, 0)), 0, {}},
    {"strchr 5 97 98 97 98 0 99", ctoff<char>(kAbab, etl::strchr(kAbab, 'c')), 0, {}},
    {"strchr 4 97 128 98 0 -128", ctoff<char>(kHi, etl::strchr(kHi, -128)), 0, {}},
    {"strrchr 5 97 98 97 98 0 97", ctoff<char>(kAbab, etl::strrchr(kAbab, 'a')), 0, {}},
    {"strrchr 5 97 98 97 98 0 0", ctoff<char>(kAbab, etl::strrchr(kAbab, 0)), 0, {}},
    {"strrchr 5 97 98 97 98 0 99", ctoff<char>(kAbab, etl::strrchr(kAbab, 'c')), 0, {}},
    {"strspn 5 97 98 97 98 0 2 97 0", static_cast<long long>(etl::strspn(kAbab, "a")), 0, {}},
    {"strspn 5 97 98 97 98 0 3 98 97 0", static_cast<long long>(etl::strspn(kAbab, "ba")), 0, {}},
    {"strcspn 5 97 98 97 98 0 2 98 0", static_cast<long long>(etl::strcspn(kAbab, "b")), 0, {}},
    {"strcspn 5 97 98 97 98 0 2 99 0", static_cast<long long>(etl::strcspn(kAbab, "c")), 0, {}},
    {"strpbrk 5 97 98 97 98 0 2 98 0", ctoff<char>(kAbab, etl::strpbrk(kAbab, "b")), 0, {}},
    {"strpbrk 5 97 98 97 98 0 2 99 0", ctoff<char>(kAbab, etl::strpbrk(kAbab, "c")), 0, {}},
    {"strpbrk 5 97 98 97 98 0 1 0", ctoff<char>(kAbab, etl::strpbrk(kAbab, "")), 0, {}},
    {"strstr 5 97 98 97 98 0 3 98 97 0", ctoff<char>(kAbab, etl::strstr(kAbab, "ba")), 0, {}},
    {"strstr 5 97 98 97 98 0 1 0", ctoff<char>(kAbab, etl::strstr(kAbab, "")), 0, {}},
    {"strstr 5 97 98 97 98 0 3 98 98 0", ctoff<char>(kAbab, etl::strstr(kAbab, "bb")), 0, {}},
    {"strstr 5 97 98 97 98 0 6 97 98 97 98 97 0", ctoff<char>(kAbab, etl::strstr(kAbab, "ababa")), 0, {}},
    ct_write("strcpy 8 120 120 120 120 120 120 120 120 3 97 98 0", 8, [](char* d) { return etl::strcpy(d, "ab"); }),
    ct_write("strncpy 8 120 120 120 120 120 120 120 120 3 97 98 0 5", 8, [](char* d) { return etl::strncpy(d, "ab", 5); }),
    ct_write("strncpy 8 120 120 120 120 120 120 120 120 4 97 98 99 0 2", 8, [](char* d) { return etl::strncpy(d, "abc", 2); }),
    ct_write("strncpy 8 120 120 120 120 120 120 120 120 3 97 98 0 0", 8, [](char* d) { return etl::strncpy(d, "ab", 0); }),
    ct_write("strcat 8 97 0 120 120 120 120 120 120 3 98 99 0", 8,
        [](char* d) {
            d[0] = 'a';
            d[1] = 0;
            return etl::strcat(d, "bc");
        }),
    ct_write("strncat 8 97 0 120 120 120 120 120 120 4 98 99 100 0 2", 8,
        [](char* d) {
            d[0] = 'a';
            d[1] = 0;
            return etl::strncat(d, "bcd", 2);
        }),
    ct_write("strncat 8 97 0 120 120 120 120 120 120 2 98 0 4", 8,
        [](char* d) {
            d[0] = 'a';
            d[1] = 0;
            return etl::strncat(d, "b", 4);
        }),
    {"wcslen 5 97 98 97 98 0", static_cast<long long>(etl::wcslen(kWab)), 0, {}},
    {"wcscmp 2 -5 0 2 97 0", sgn(etl::wcscmp(L"\xfffffffb", L"a")), 0, {}},
    {"wcscmp 2 2147483647 0 2 -2147483648 0", sgn(etl::wcscmp(L"\x7fffffff", L"\x80000000")), 0, {}},
    {"wcsncmp 2 -2147483648 0 2 2147483647 0 1", sgn(etl::wcsncmp(L"\x80000000", L"\x7fffffff", 1)), 0, {}},
    {"wcsstr 5 97 98 97 98 0 3 98 97 0", ctoff<wchar_t>(kWab, etl::wcsstr(kWab, L"ba")), 0, {}},
    {"wcspbrk 5 97 98 97 98 0 2 99 0", ctoff<wchar_t>(kWab, etl::wcspbrk(kWab, L"c")), 0, {}},
    {"wcschr 5 97 98 97 98 0 98", ctoff<wchar_t>(kWab, etl::wcschr(kWab, L'b')), 0, {}},
    {"wcsrchr 5 97 98 97 98 0 98", ctoff<wchar_t>(kWab, etl::wcsrchr(kWab, L'b')), 0, {}},
    {"wmemcmp 3 97 0 98 3 97 0 99 3", sgn(etl::wmemcmp(L"a\0b", L"a\0c", 3)), 0, {}},
    {"wmemchr 4 97 98 97 98 98 4", ctoff<wchar_t>(kWab, etl::wmemchr(kWab, L'b', 4)), 0, {}},
    {"wmemchr 4 97 98 97 98 99 4", ctoff<wchar_t>(kWab, etl::wmemchr(kWab, L'c', 4)), 0, {}},
    ct_wwrite("wcsncpy 8 120 120 120 120 120 120 120 120 3 97 98 0 5", 8, [](wchar_t* d) { return etl::wcsncpy(d, L"ab", 5); }),
    ct_wwrite("wmemcpy 8 120 120 120 120 120 120 120 120 3 97 0 98 3", 8, [](wchar_t* d) { return etl::wmemcpy(d, L"a\0b", 3); }),
    ct_wwrite("wmemset 8 120 120 120 120 120 120 120 120 7 3", 8, [](wchar_t* d) { return etl::wmemset(d, L'\x7', 3); }),
};
constexpr std::size_t ct_count = sizeof(ct_table) / sizeof(ct_table[0]);

#endif // C18_CT

} // namespace

static bool dispatch(std::string const& op, Toks& in, Out& impl, Out& ref);

// Crash budget: every crashing case costs a re-fork of the (sanitized) child.  A change that makes
// thousands of cases crash would otherwise take hours; after 40 crashed cases the remaining ones are
// skipped (the 40 crash outcomes already disagree with model and reference, so the run fails anyway).
// The counters live in a shared page created before main() and inherited by every child.
struct CrashBudget {
    volatile unsigned long started;
    volatile unsigned long finished;
};
static CrashBudget* const g_budget = [] {
    auto* p = static_cast<CrashBudget*>(mmap(nullptr, sizeof(CrashBudget), PROT_READ | PROT_WRITE, MAP_SHARED | MAP_ANONYMOUS, -1, 0));
    p->started  = 0;
    p->finished = 0;
    return p;
}();

bool vh::run_case(std::string const& op, Toks& in, Out& impl, Out& ref)
{
    static bool const once = (std::setlocale(LC_ALL, "C"), true);
    (void)once;
    if (g_budget->started - g_budget->finished > 40) {
        impl.tok("skip"); // the engine ignores a case whose impl leg is "skip"; the 40 crashes already fail the run
        return true;
    }
    g_budget->started = g_budget->started + 1;
    struct Done {
        ~Done() { g_budget->finished = g_budget->finished + 1; }
    } done;
    if (op == "ct") {
        // ct <index> <op> <args...>: in the variant built with -DC18_CT impl = compile-time result of table
        // entry <index> (cross-checked against the same call at run time), otherwise impl = the run-time call;
        // reference = glibc at run time on the same textual case
        auto idx = static_cast<std::size_t>(in.unum());
        std::string rest;
        for (std::size_t k = in.i; k < in.t.size(); ++k) {
            if (!rest.empty()) { rest += ' '; }
            rest += in.t[k];
        }
        std::string op2 = in.str();
#if defined(C18_CT)
        if (idx >= ct_count || rest != ct_table[idx].text) {
            impl.tok("ct-table-mismatch");
            return true;
        }
        auto const& e = ct_table[idx];
        impl.tok("ok").num(e.value);
        if (e.nout > 0) {
            impl.num(e.nout);
            for (int i = 0; i < e.nout; ++i) { impl.num(e.out[i]); }
        }
        Out rt; // the same call at run time must agree with the constant evaluator (C13)
        bool known = dispatch(op2, in, rt, ref);
        if (rt.s != impl.s) { impl.tok("runtime-differs:").tok(rt.s); }
        return known;
#else
        (void)idx;
        return dispatch(op2, in, impl, ref);
#endif
    }
    return dispatch(op, in, impl, ref);
}

static bool dispatch(std::string const& op, Toks& in, Out& impl, Out& ref)
{
    // ------------------------------------------------------------------ narrow strings
    if (op == "strlen") { BOTH((h_len<char>), [](cc s) { return etl::strlen(s); }, [](cc s) { return std::strlen(s); }); }
    if (op == "strcmp") { BOTH((h_cmp<char>), [](cc a, cc b) { return etl::strcmp(a, b); }, [](cc a, cc b) { return std::strcmp(a, b); }); }
    if (op == "strncmp") {
        BOTH((h_ncmp<char>), [](cc a, cc b, std::size_t n) { return etl::strncmp(a, b, n); },
            [](cc a, cc b, std::size_t n) { return std::strncmp(a, b, n); });
    }
    if (op == "memcmp") {
        BOTH((h_memcmp<char>), [](cc a, cc b, std::size_t n) { return etl::memcmp(a, b, n); },
            [](cc a, cc b, std::size_t n) { return std::memcmp(a, b, n); });
    }
    if (op == "strchr") {
        BOTH2((h_chr<char>), [](mc s, i64 c) { return etl::strchr(s, static_cast<int>(c)); },
            [](cc s, i64 c) { return etl::strchr(s, static_cast<int>(c)); },
            [](mc s, i64 c) { return std::strchr(s, static_cast<int>(c)); },
            [](cc s, i64 c) { return std::strchr(s, static_cast<int>(c)); });
    }
    if (op == "strrchr") {
        BOTH2((h_chr<char>), [](mc s, i64 c) { return etl::strrchr(s, static_cast<int>(c)); },
            [](cc s, i64 c) { return etl::strrchr(s, static_cast<int>(c)); },
            [](mc s, i64 c) { return std::strrchr(s, static_cast<int>(c)); },
            [](cc s, i64 c) { return std::strrchr(s, static_cast<int>(c)); });
    }
    if (op == "memchr") {
        BOTH2((h_memchr<char>), [](mc s, i64 c, std::size_t n) { return etl::memchr(static_cast<void*>(s), static_cast<int>(c), n); },
            [](cc s, i64 c, std::size_t n) { return etl::memchr(static_cast<void const*>(s), static_cast<int>(c), n); },
            [](mc s, i64 c, std::size_t n) { return std::memchr(static_cast<void*>(s), static_cast<int>(c), n); },
            [](cc s, i64 c, std::size_t n) { return std::memchr(static_cast<void const*>(s), static_cast<int>(c), n); });
    }
    if (op == "strspn") { BOTH((h_spn<char>), [](cc a, cc b) { return etl::strspn(a, b); }, [](cc a, cc b) { return std::strspn(a, b); }); }
    if (op == "strcspn") { BOTH((h_spn<char>), [](cc a, cc b) { return etl::strcspn(a, b); }, [](cc a, cc b) { return std::strcspn(a, b); }); }
    if (op == "strpbrk") {
        BOTH2((h_find<char>), [](mc a, mc b) { return etl::strpbrk(a, b); }, [](cc a, cc b) { return etl::strpbrk(a, b); },
            [](mc a, mc b) { return std::strpbrk(a, b); }, [](cc a, cc b) { return std::strpbrk(a, b); });
    }
    if (op == "strstr") {
        BOTH2((h_find<char>), [](mc a, mc b) { return etl::strstr(a, b); }, [](cc a, cc b) { return etl::strstr(a, b); },
            [](mc a, mc b) { return std::strstr(a, b); }, [](cc a, cc b) { return std::strstr(a, b); });
    }
    if (op == "strcpy") { BOTH((h_cpy<char>), [](mc d, cc s) { return etl::strcpy(d, s); }, [](mc d, cc s) { return std::strcpy(d, s); }); }
    if (op == "strcat") { BOTH((h_cpy<char>), [](mc d, cc s) { return etl::strcat(d, s); }, [](mc d, cc s) { return std::strcat(d, s); }); }
    if (op == "strncpy") {
        BOTH((h_ncpy<char>), [](mc d, cc s, std::size_t n) { return etl::strncpy(d, s, n); },
            [](mc d, cc s, std::size_t n) { return std::strncpy(d, s, n); });
    }
    if (op == "strncat") {
        BOTH((h_ncpy<char>), [](mc d, cc s, std::size_t n) { return etl::strncat(d, s, n); },
            [](mc d, cc s, std::size_t n) { return std::strncat(d, s, n); });
    }
    if (op == "memcpy") {
        BOTH((h_memcpy<char>), [](mc d, cc s, std::size_t n) { return static_cast<mc>(etl::memcpy(d, s, n)); },
            [](mc d, cc s, std::size_t n) { return static_cast<mc>(std::memcpy(d, s, n)); });
    }
    if (op == "memset") {
        BOTH((h_memset<char>), [](mc d, i64 c, std::size_t n) { return static_cast<mc>(etl::memset(d, static_cast<int>(c), n)); },
            [](mc d, i64 c, std::size_t n) { return static_cast<mc>(std::memset(d, static_cast<int>(c), n)); });
    }
    if (op == "memmove") {
        BOTH((h_memmove<char>), [](mc d, cc s, std::size_t n) { return static_cast<mc>(etl::memmove(d, s, n)); },
            [](mc d, cc s, std::size_t n) { return static_cast<mc>(std::memmove(d, s, n)); });
    }
    // ------------------------------------------------------------------ review round: paths of the front ends
    if (op == "memmove2") {
        BOTH((h_memmove2<char>), [](mc d, cc s, std::size_t n) { return static_cast<mc>(etl::memmove(d, s, n)); },
            [](mc d, cc s, std::size_t n) { return static_cast<mc>(std::memmove(d, s, n)); });
    }
    if (op == "wmemmove2") {
        BOTH((h_memmove2<wchar_t>), [](wmc d, wcc s, std::size_t n) { return etl::wmemmove(d, s, n); },
            [](wmc d, wcc s, std::size_t n) { return std::wmemmove(d, s, n); });
    }
    if (op == "strcpy_null") {
        guarded(impl, [&](Out& o) { h_nullargs<char>(in, o, [](mc d, cc s) { return etl::strcpy(d, s); }); });
        ref.tok("contract");
        return true;
    }
    if (op == "wcscpy_null") {
        guarded(impl, [&](Out& o) { h_nullargs<wchar_t>(in, o, [](wmc d, wcc s) { return etl::wcscpy(d, s); }); });
        ref.tok("contract");
        return true;
    }
    if (op == "strncpy_null") {
        guarded(impl, [&](Out& o) { h_nullargs<char>(in, o, [](mc d, cc s) { return etl::strncpy(d, s, 1); }); });
        ref.tok("contract");
        return true;
    }
    if (op == "wcsncpy_null") {
        guarded(impl, [&](Out& o) { h_nullargs<wchar_t>(in, o, [](wmc d, wcc s) { return etl::wcsncpy(d, s, 1); }); });
        ref.tok("contract");
        return true;
    }
    if (op == "memmove_null") {
        guarded(impl, [&](Out& o) { h_nullargs<char>(in, o, [](mc d, cc s) { return static_cast<mc>(etl::memmove(d, s, 1)); }); });
        ref.tok("contract");
        return true;
    }
    if (op == "strchr_null") {
        // both overloads; <ch>
        auto ch = static_cast<int>(in.num());
        guarded(impl, [&](Out& o) {
            char* r1       = etl::strchr(g_null<char>, ch);
            char const* r2 = etl::strchr(static_cast<char const*>(g_null<char>), ch);
            o.tok("ok").num(r1 == nullptr && r2 == nullptr ? -1 : 0);
        });
        ref.tok("contract");
        return true;
    }
    if (op == "strrchr_null" || op == "wcsrchr_null") {
        // detail::strrchr's extension: a null string gives a null result (all four overloads); C: undefined
        auto ch = static_cast<int>(in.num());
        guarded(impl, [&](Out& o) {
            bool allNull = false;
            if (op == "strrchr_null") {
                allNull = etl::strrchr(g_null<char>, ch) == nullptr && etl::strrchr(static_cast<char const*>(g_null<char>), ch) == nullptr;
            } else {
                allNull = etl::wcsrchr(g_null<wchar_t>, ch) == nullptr
                       && etl::wcsrchr(static_cast<wchar_t const*>(g_null<wchar_t>), ch) == nullptr;
            }
            o.tok("ok").num(allNull ? -1 : 0);
        });
        // reference: the library's own documented/tested extension (tests/cstring/cstring.str.t.cpp pins
        // strrchr(nullptr, c) == nullptr; wcsrchr runs the same template)
        ref.tok("ok").num(-1);
        return true;
    }
    // ------------------------------------------------------------------ wide strings
    if (op == "wcslen") { BOTH((h_len<wchar_t>), [](wcc s) { return etl::wcslen(s); }, [](wcc s) { return std::wcslen(s); }); }
    if (op == "wcscmp") { BOTH((h_cmp<wchar_t>), [](wcc a, wcc b) { return etl::wcscmp(a, b); }, [](wcc a, wcc b) { return std::wcscmp(a, b); }); }
    if (op == "wcsncmp") {
        BOTH((h_ncmp<wchar_t>), [](wcc a, wcc b, std::size_t n) { return etl::wcsncmp(a, b, n); },
            [](wcc a, wcc b, std::size_t n) { return std::wcsncmp(a, b, n); });
    }
    if (op == "wmemcmp") {
        BOTH((h_memcmp<wchar_t>), [](wcc a, wcc b, std::size_t n) { return etl::wmemcmp(a, b, n); },
            [](wcc a, wcc b, std::size_t n) { return std::wmemcmp(a, b, n); });
    }
    if (op == "wcschr") {
        BOTH2((h_chr<wchar_t>), [](wmc s, i64 c) { return etl::wcschr(s, static_cast<wchar_t>(c)); },
            [](wcc s, i64 c) { return etl::wcschr(s, static_cast<wchar_t>(c)); },
            [](wmc s, i64 c) { return std::wcschr(s, static_cast<wchar_t>(c)); },
            [](wcc s, i64 c) { return std::wcschr(s, static_cast<wchar_t>(c)); });
    }
    if (op == "wcsrchr") {
        BOTH2((h_chr<wchar_t>), [](wmc s, i64 c) { return etl::wcsrchr(s, static_cast<wchar_t>(c)); },
            [](wcc s, i64 c) { return etl::wcsrchr(s, static_cast<wchar_t>(c)); },
            [](wmc s, i64 c) { return std::wcsrchr(s, static_cast<wchar_t>(c)); },
            [](wcc s, i64 c) { return std::wcsrchr(s, static_cast<wchar_t>(c)); });
    }
    if (op == "wmemchr") {
        BOTH2((h_memchr<wchar_t>), [](wmc s, i64 c, std::size_t n) { return etl::wmemchr(s, static_cast<wchar_t>(c), n); },
            [](wcc s, i64 c, std::size_t n) { return etl::wmemchr(s, static_cast<wchar_t>(c), n); },
            [](wmc s, i64 c, std::size_t n) { return std::wmemchr(s, static_cast<wchar_t>(c), n); },
            [](wcc s, i64 c, std::size_t n) { return std::wmemchr(s, static_cast<wchar_t>(c), n); });
    }
    if (op == "wcsspn") { BOTH((h_spn<wchar_t>), [](wcc a, wcc b) { return etl::wcsspn(a, b); }, [](wcc a, wcc b) { return std::wcsspn(a, b); }); }
    if (op == "wcscspn") { BOTH((h_spn<wchar_t>), [](wcc a, wcc b) { return etl::wcscspn(a, b); }, [](wcc a, wcc b) { return std::wcscspn(a, b); }); }
    if (op == "wcspbrk") {
        BOTH2((h_find<wchar_t>), [](wmc a, wmc b) { return etl::wcspbrk(a, b); }, [](wcc a, wcc b) { return etl::wcspbrk(a, b); },
            [](wmc a, wmc b) { return std::wcspbrk(a, b); }, [](wcc a, wcc b) { return std::wcspbrk(a, b); });
    }
    if (op == "wcsstr") {
        BOTH2((h_find<wchar_t>), [](wmc a, wmc b) { return etl::wcsstr(a, b); }, [](wcc a, wcc b) { return etl::wcsstr(a, b); },
            [](wmc a, wmc b) { return std::wcsstr(a, b); }, [](wcc a, wcc b) { return std::wcsstr(a, b); });
    }
    if (op == "wcscpy") { BOTH((h_cpy<wchar_t>), [](wmc d, wcc s) { return etl::wcscpy(d, s); }, [](wmc d, wcc s) { return std::wcscpy(d, s); }); }
    if (op == "wcscat") { BOTH((h_cpy<wchar_t>), [](wmc d, wcc s) { return etl::wcscat(d, s); }, [](wmc d, wcc s) { return std::wcscat(d, s); }); }
    if (op == "wcsncpy") {
        BOTH((h_ncpy<wchar_t>), [](wmc d, wcc s, std::size_t n) { return etl::wcsncpy(d, s, n); },
            [](wmc d, wcc s, std::size_t n) { return std::wcsncpy(d, s, n); });
    }
    if (op == "wcsncat") {
        BOTH((h_ncpy<wchar_t>), [](wmc d, wcc s, std::size_t n) { return etl::wcsncat(d, s, n); },
            [](wmc d, wcc s, std::size_t n) { return std::wcsncat(d, s, n); });
    }
    if (op == "wmemcpy") {
        BOTH((h_memcpy<wchar_t>), [](wmc d, wcc s, std::size_t n) { return etl::wmemcpy(d, s, n); },
            [](wmc d, wcc s, std::size_t n) { return std::wmemcpy(d, s, n); });
    }
    if (op == "wmemset") {
        BOTH((h_memset<wchar_t>), [](wmc d, i64 c, std::size_t n) { return etl::wmemset(d, static_cast<wchar_t>(c), n); },
            [](wmc d, i64 c, std::size_t n) { return std::wmemset(d, static_cast<wchar_t>(c), n); });
    }
    if (op == "wmemmove") {
        BOTH((h_memmove<wchar_t>), [](wmc d, wcc s, std::size_t n) { return etl::wmemmove(d, s, n); },
            [](wmc d, wcc s, std::size_t n) { return std::wmemmove(d, s, n); });
    }
    // ------------------------------------------------------------------ <cctype>, argument in [-1, 255]
#define CLASS(NAME)                                                                                                    \
    if (op == #NAME) { BOTH(h_class, [](i64 c) { return etl::NAME(static_cast<int>(c)); }, [](i64 c) { return std::NAME(static_cast<int>(c)); }); }
    CLASS(isalnum)
    CLASS(isalpha)
    CLASS(isblank)
    CLASS(iscntrl)
    CLASS(isdigit)
    CLASS(isgraph)
    CLASS(islower)
    CLASS(isprint)
    CLASS(ispunct)
    CLASS(isspace)
    CLASS(isupper)
    CLASS(isxdigit)
#undef CLASS
    if (op == "tolower") { BOTH(h_conv, [](i64 c) { return etl::tolower(static_cast<int>(c)); }, [](i64 c) { return std::tolower(static_cast<int>(c)); }); }
    if (op == "toupper") { BOTH(h_conv, [](i64 c) { return etl::toupper(static_cast<int>(c)); }, [](i64 c) { return std::toupper(static_cast<int>(c)); }); }
    // ------------------------------------------------------------------ <cwctype>, argument a wint_t (unsigned 32 bit)
#define WCLASS(NAME)                                                                                                   \
    if (op == #NAME) {                                                                                                 \
        BOTH(h_class, [](i64 c) { return etl::NAME(static_cast<etl::wint_t>(c)); },                                   \
            [](i64 c) { return std::NAME(static_cast<std::wint_t>(c)); });                                            \
    }
    WCLASS(iswalnum)
    WCLASS(iswalpha)
    WCLASS(iswblank)
    WCLASS(iswcntrl)
    WCLASS(iswdigit)
    WCLASS(iswgraph)
    WCLASS(iswlower)
    WCLASS(iswprint)
    WCLASS(iswpunct)
    WCLASS(iswspace)
    WCLASS(iswupper)
    WCLASS(iswxdigit)
#undef WCLASS
    if (op == "towlower") {
        BOTH(h_conv, [](i64 c) { return etl::towlower(static_cast<etl::wint_t>(c)); }, [](i64 c) { return std::towlower(static_cast<std::wint_t>(c)); });
    }
    if (op == "towupper") {
        BOTH(h_conv, [](i64 c) { return etl::towupper(static_cast<etl::wint_t>(c)); }, [](i64 c) { return std::towupper(static_cast<std::wint_t>(c)); });
    }
    // ------------------------------------------------------------------ <cstdlib> integer division and absolute value
    if (op == "div") {
        auto x = static_cast<int>(in.num());
        auto y = static_cast<int>(in.num());
        guarded(impl, [&](Out& o) { auto r = etl::div(x, y); o.tok("ok").num(r.quot).num(r.rem); });
        auto r = std::div(x, y);
        ref.tok("ok").num(r.quot).num(r.rem);
        return true;
    }
    if (op == "ldiv" || op == "div_l") {
        auto x = static_cast<long>(in.num());
        auto y = static_cast<long>(in.num());
        bool viaDiv = op == "div_l";
        guarded(impl, [&](Out& o) { auto r = viaDiv ? etl::div(x, y) : etl::ldiv(x, y); o.tok("ok").num(r.quot).num(r.rem); });
        auto r = std::ldiv(x, y);
        ref.tok("ok").num(r.quot).num(r.rem);
        return true;
    }
    if (op == "lldiv" || op == "div_ll" || op == "imaxdiv") {
        auto x = static_cast<long long>(in.num());
        auto y = static_cast<long long>(in.num());
        guarded(impl, [&](Out& o) {
            if (op == "imaxdiv") {
                auto r = etl::imaxdiv(x, y);
                o.tok("ok").num(r.quot).num(r.rem);
            } else {
                auto r = op == "div_ll" ? etl::div(x, y) : etl::lldiv(x, y);
                o.tok("ok").num(r.quot).num(r.rem);
            }
        });
        auto r = std::lldiv(x, y);
        ref.tok("ok").num(r.quot).num(r.rem);
        return true;
    }
    if (op == "labs") {
        auto x = static_cast<long>(in.num());
        guarded(impl, [&](Out& o) { o.tok("ok").num(etl::labs(x)); });
        ref.tok("ok").num(std::labs(x));
        return true;
    }
    if (op == "llabs") {
        auto x = static_cast<long long>(in.num());
        guarded(impl, [&](Out& o) { o.tok("ok").num(etl::llabs(x)); });
        ref.tok("ok").num(std::llabs(x));
        return true;
    }
    return false;
}

VERIF_MAIN()
