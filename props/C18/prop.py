"""C18 — C-library re-implementations vs the host C library: case generators and configuration.

Wire format (see harness.cpp): every buffer is a RAW length-prefixed element list; narrow characters are
byte values 0..255, wide characters signed 32-bit values.  A string argument carries its terminator
explicitly and may be followed by further elements (which must be neither read nor compared).
"""
import itertools
import re
from pathlib import Path

ID = "C18"
LEVEL = "proof"
# translator tie: the cctype / cwctype kernels are REGENERATED from /repo's source on every run (coq/Gen/) and proved
# equal to the model in coq/C18/GenEquiv.v (Properties_gen.v)
TRANSLATE = [("translate/kernels_cctype.json", "coq/Gen/Gen_cctype.v"), ("translate/kernels_cwctype.json", "coq/Gen/Gen_cwctype.v")]
_COMMON = ["-DTETL_ENABLE_CONTRACT_CHECKS=1"]
HARNESSES = [
    {"name": "main", "src": "harness.cpp", "flags": ["-O1"] + _COMMON},
    {"name": "asan", "src": "harness.cpp",
     "flags": ["-O1", "-g0", "-fsanitize=address,undefined", "-fno-sanitize-recover=all", "-fno-omit-frame-pointer"] + _COMMON},
    # the fixed table of harness.cpp evaluated by GCC's constant evaluator (UB-exact: an out-of-bounds access or a
    # signed overflow in constant evaluation makes THIS variant fail to compile, the other two still run)
    {"name": "ct", "src": "harness.cpp", "flags": ["-O2", "-DC18_CT=1"] + _COMMON},
    # clang build: the front ends take their `#if defined(__clang__)` branch (compiler builtins = the C library for
    # strlen, strcmp, strncmp, strchr, memchr, memcmp, memcpy, memmove, wmemcpy, wmemmove); everything else is the
    # same templates seen by a second compiler
    {"name": "clang", "src": "harness.cpp", "compiler": "clang++-14", "flags": ["-O1"] + _COMMON},
]

RULE = ("cctype: every argument in [-1,255] x 14 functions; cwctype: 0..0x2FF, surrogate/BMP-end/plane-end windows, WEOF, ~450 Unicode "
        "characters other libcs/locales classify (white space, digits, letters, case pairs), ASCII class edges + k*2^8/2^16/.. aliases; "
        "cstring/cwchar: ALL strings of length <= L over {a, b, 0x80 (narrow) / -5 (wide)} (quick: L = 4, and 3 for the "
        "two-string ops that also take a count; thorough 5/4), all pairs, all counts 0..len+2, with exact-size and "
        "oversize destinations, elements after the terminator, unterminated arrays where C allows them; raw buffers over "
        "{0, a, 0x80} for the mem* family; memmove: every (dest, src, count) placement inside buffers of length <= 12 with count <= 6, i.e. every overlap offset -6..6 (thorough: 16/8); "
        "seeded random long strings; a fixed table evaluated by the constant evaluator; "
        "non-trivial = distinct case line whose impl outcome is ok")

TRUSTED_BASE = ["reference leg: glibc 2.36 <string.h>/<wchar.h>/<ctype.h>/<wctype.h>/<stdlib.h> in the \"C\" locale on the same inputs",
                "guard zones (64 pattern bytes each side, poisoned in the ASan variant) for out-of-extent accesses"]
ASSUMPTIONS = ["LP64, char is signed 8 bit, wchar_t is signed 32 bit, wint_t is unsigned 32 bit, two's complement",
               "GCC build: the portable templates of _strings/cstr.hpp are what runs (the __clang__ branches call compiler builtins and are not modelled)"]


def L(xs):
    xs = list(xs)
    return " ".join([str(len(xs))] + [str(x) for x in xs])


def strings(alpha, maxlen):
    out = []
    for n in range(maxlen + 1):
        out += [list(t) for t in itertools.product(alpha, repeat=n)]
    return out


def ct_cases():
    src = (Path(__file__).parent / "harness.cpp").read_text()
    a = src.index("constexpr CtEntry ct_table[]")
    b = src.index("constexpr std::size_t ct_count")
    texts = re.findall(r'"((?:str|wcs|wmem|mem)[a-z]* [0-9 -]+)"', src[a:b])
    return [f"ct {i} {t}" for i, t in enumerate(texts)]


CLASS = ["isalnum", "isalpha", "isblank", "iscntrl", "isdigit", "isgraph", "islower", "isprint", "ispunct", "isspace",
         "isupper", "isxdigit", "tolower", "toupper"]
WCLASS = ["iswalnum", "iswalpha", "iswblank", "iswcntrl", "iswdigit", "iswgraph", "iswlower", "iswprint", "iswpunct",
          "iswspace", "iswupper", "iswxdigit", "towlower", "towupper"]


def _ranges(*rs):
    out = []
    for r in rs:
        out += list(range(r[0], r[1] + 1)) if isinstance(r, tuple) else [r]
    return out


# Wide characters that a Unicode-aware or table-driven implementation (other libcs, other locales) puts into some class
# or maps to another case, while the "C" locale classifies nothing outside ASCII: Unicode white space, decimal digits of
# other scripts, Latin-1/Greek/Cyrillic/fullwidth letters and case pairs, compatibility forms, tag characters ...
UNICODE_CANDIDATES = _ranges(
    0x85, 0xA0, 0xAA, 0xAD, 0xB2, 0xB5, 0xBA, 0xC0, 0xD7, 0xDF, 0xE0, 0xE9, 0xF7, 0xFF, 0x100, 0x101, 0x130, 0x131, 0x149,
    0x178, 0x17F, (0x1C4, 0x1CC), 0x2B0, 0x300, 0x37E, 0x386, 0x391, 0x3A9, 0x3B1, 0x3C2, 0x3C9, 0x3F4, 0x410, 0x42F, 0x430,
    0x44F, 0x531, 0x561, 0x5D0, 0x627, (0x660, 0x669), (0x6F0, 0x6F9), (0x966, 0x96F), (0xE50, 0xE59), 0x10A0, 0x1680,
    0x180E, 0x1E9E, (0x2000, 0x200F), 0x2028, 0x2029, 0x202F, 0x205F, 0x2060, 0x2070, (0x2080, 0x2089), 0x20AC, 0x2122,
    0x2126, 0x212A, 0x212B, (0x2160, 0x217F), (0x24B6, 0x24E9), 0x2C00, 0x2C30, (0x3000, 0x3002), 0x3041, 0x30A1, 0x4E00,
    0xA640, 0xAC00, 0xFB00, 0xFB01, 0xFEFF, (0xFF01, 0xFF5E), 0xFFFD, (0x10400, 0x1044F), (0x1D7CE, 0x1D7FF), 0x1E900,
    0x1E922, 0x1F600, 0xE0001, (0xE0020, 0xE007F))
# ASCII class boundaries shifted by multiples of 2^8 / 2^16 / ...: an implementation that truncates the wint_t
# (to char, to 16 bits, to a signed type) classifies these like their ASCII alias
_EDGES = [0, 8, 9, 10, 13, 14, 31, 32, 33, 47, 48, 57, 58, 64, 65, 70, 71, 90, 91, 96, 97, 102, 103, 122, 123, 126, 127, 128]
ALIASES = [e + k for e in _EDGES for k in (0x100, 0x1000, 0x10000, 0x100000, 0x1000000, 0x80000000, 0xFFFFFF00)]


def gen_family(out, wide, tier, rng):
    quick = tier in ("quick", "search")
    hi = -5 if wide else 128
    alpha = [97, 98, hi]
    names = {k: k for k in ["strlen", "strcmp", "strncmp", "strchr", "strrchr", "strspn", "strcspn", "strpbrk", "strstr",
                            "strcpy", "strncpy", "strcat", "strncat", "memcmp", "memchr", "memcpy", "memset", "memmove"]}
    if wide:
        names = {k: ("wcs" + k[3:] if k.startswith("str") else "w" + k) for k in names}
    nm = names
    l1 = (4 if quick else 5)                       # one-string ops
    l2 = (4 if quick else 5)                       # two-string ops
    l2n = (3 if quick else 4)                      # two-string ops with a count
    S1 = strings(alpha, l1)
    S2 = strings(alpha, l2)
    S2n = strings(alpha, l2n)
    junk = [hi, 97]
    chars = [97, 98, hi, 0, 99] + ([] if wide else [353, -128, 256, 255, -1])

    # ---- one string
    for s in S1:
        out.append(f"{nm['strlen']} {L(s + [0])}")
        out.append(f"{nm['strlen']} {L(s + [0] + junk)}")
        for ch in chars:
            out.append(f"{nm['strchr']} {L(s + [0])} {ch}")
            out.append(f"{nm['strrchr']} {L(s + [0])} {ch}")
        out.append(f"{nm['strchr']} {L(s + [0, 97])} 97")
        out.append(f"{nm['strrchr']} {L(s + [0, 97])} 97")
        # strcpy: exact-size destination, and a larger one (frame after the extent)
        for extra in (0, 2):
            dst = [201 + k for k in range(len(s) + 1 + extra)]
            out.append(f"{nm['strcpy']} {L(dst)} {L(s + [0])}")
        out.append(f"{nm['strcpy']} {L([201 + k for k in range(len(s) + 1)])} {L(s + [0] + junk)}")
        for n in range(0, len(s) + 4):
            for extra in (0, 2):
                dst = [201 + k for k in range(n + extra)]
                out.append(f"{nm['strncpy']} {L(dst)} {L(s + [0])} {n}")
            if n <= len(s):
                # C allows an unterminated source array of at least n elements
                out.append(f"{nm['strncpy']} {L([201 + k for k in range(n)])} {L(s[:n])} {n}")
    # ---- two strings
    for a in S2:
        for b in S2:
            A, B = L(a + [0]), L(b + [0])
            out.append(f"{nm['strcmp']} {A} {B}")
            out.append(f"{nm['strspn']} {A} {B}")
            out.append(f"{nm['strcspn']} {A} {B}")
            out.append(f"{nm['strpbrk']} {A} {B}")
            out.append(f"{nm['strstr']} {A} {B}")
    for a in S2n:
        for b in S2n:
            A, B = L(a + [0]), L(b + [0])
            for n in range(0, max(len(a), len(b)) + 3):
                out.append(f"{nm['strncmp']} {A} {B} {n}")
                if n <= len(a) and n <= len(b):
                    out.append(f"{nm['strncmp']} {L(a[:n])} {L(b[:n])} {n}")   # unterminated arrays of n elements
            # strcat: dest holds string a (junk behind its terminator), exact-size and oversize allocation
            for extra in (0, 2):
                dst = a + [0] + [201 + k for k in range(len(b) + extra)]
                out.append(f"{nm['strcat']} {L(dst)} {B}")
            for n in range(0, len(b) + 3):
                k = min(n, len(b))
                for extra in (0, 2):
                    dst = a + [0] + [201 + j for j in range(k + extra)]
                    out.append(f"{nm['strncat']} {L(dst)} {B} {n}")
                if n <= len(b):
                    dst = a + [0] + [201 + j for j in range(n)]
                    out.append(f"{nm['strncat']} {L(dst)} {L(b[:n])} {n}")          # unterminated source of n elements
    # junk behind the terminators must not influence comparisons / searches
    for a in strings(alpha, 2):
        for b in strings(alpha, 2):
            A, B = L(a + [0, 97]), L(b + [0, 98, hi])
            for op in ("strcmp", "strspn", "strcspn", "strpbrk", "strstr"):
                out.append(f"{nm[op]} {A} {B}")
            out.append(f"{nm['strncmp']} {A} {B} 6")
    # ---- raw memory
    malpha = [0, 97, hi]
    lm = 3 if quick else 4
    M = strings(malpha, lm)
    for a in M:
        for ch in [0, 97, hi, 98] + ([] if wide else [353, 256, -128]):
            for n in range(0, len(a) + 1):
                out.append(f"{nm['memchr']} {L(a)} {ch} {n}")
            cc = ch % 256 if not wide else ch
            if cc in a and not wide:
                # the scan stops at the first match: a larger count is allowed (C11 7.24.5.1p2).  Narrow only: ISO C has
                # no such sentence for wmemchr, so a count beyond the array is outside the C domain there (review R-9)
                out.append(f"{nm['memchr']} {L(a)} {ch} {len(a) + 2}")
        for n in range(0, len(a) + 1):
            for extra in (0, 2):
                out.append(f"{nm['memcpy']} {L([201 + k for k in range(n + extra)])} {L(a)} {n}")
        for b in M:
            if len(a) == len(b):
                for n in range(0, len(a) + 1):
                    out.append(f"{nm['memcmp']} {L(a)} {L(b)} {n}")
    for size in range(0, 6):
        for n in range(0, size + 1):
            for ch in [0, 97, 255, 354, -1] if not wide else [0, 97, -5, 2147483647, -2147483648]:
                out.append(f"{nm['memset']} {L([201 + k for k in range(size)])} {ch} {n}")
    # ---- memmove: every destination/source/count placement (all overlaps) in buffers up to 8
    for size in ([0, 1, 2, 3, 5, 8, 12] if quick else range(0, 17)):
        buf = [1 + k for k in range(size)]
        for n in range(0, min(size, 6 if quick else 8) + 1):
            for d in range(0, size - n + 1):
                for s in range(0, size - n + 1):
                    out.append(f"{nm['memmove']} {L(buf)} {d} {s} {n}")
    # ---- review round -------------------------------------------------------------------------------------------
    # counts far beyond the arrays (legal C: strncmp/strncat on terminated strings, memchr when a match exists):
    # a count type narrower than size_t, a signed count or count arithmetic that wraps shows up only here
    BIG = [2**31, 2**32, 2**32 + 1, 2**63, 2**64 - 1]
    Sb = strings(alpha, 2)
    for a in Sb:
        for b in Sb:
            A, B = L(a + [0]), L(b + [0, hi])
            for n in BIG:
                out.append(f"{nm['strncmp']} {A} {B} {n}")
                dst = a + [0] + [201 + j for j in range(len(b) + (n % 2))]
                out.append(f"{nm['strncat']} {L(dst)} {L(b + [0])} {n}")
    if not wide:   # (wmemchr: ISO C has no "stops at the first match" sentence for it)
        for a in strings([0, 97, hi], 2):
            for ch in (0, 97, hi):
                if ch in a:
                    for n in BIG:
                        out.append(f"memchr {L(a)} {ch} {n}")
    if wide:
        # truncation aliases: wide characters that are equal modulo 2^8 / 2^16 must stay different (a comparison that
        # goes through char / unsigned char / char16_t would identify them)
        al3 = [97, 97 + 256, 97 + 65536]
        Sa = strings(al3, 2)
        for a in Sa:
            for b in Sa:
                A, B = L(a + [0]), L(b + [0])
                for op in ("strcmp", "strspn", "strcspn", "strpbrk", "strstr"):
                    out.append(f"{nm[op]} {A} {B}")
                out.append(f"{nm['strncmp']} {A} {B} 3")
                if len(a) == len(b):
                    out.append(f"{nm['memcmp']} {L(a)} {L(b)} {len(a)}")
            for ch in al3:
                out.append(f"{nm['strchr']} {L(a + [0])} {ch}")
                out.append(f"{nm['strrchr']} {L(a + [0])} {ch}")
                out.append(f"{nm['memchr']} {L(a)} {ch} {len(a)}")
    # memmove between two different allocations, destination at the lower / at the higher address
    for ld in range(0, 5):
        for ls in range(0, 5):
            for n in range(0, min(ld, ls) + 1):
                for first in (0, 1):
                    out.append(f"{nm['memmove']}2 {L([201 + k for k in range(ld)])} {L(([0, 97, hi, 98, 0])[:ls])} {n} {first}")
    # null-pointer arguments: contract checks of the front ends, strrchr's null extension
    pre = "wcs" if wide else "str"
    for w in (1, 2, 3):
        out.append(f"{pre}cpy_null {w}")
        out.append(f"{pre}ncpy_null {w}")
        if not wide:
            out.append(f"memmove_null {w}")
    for ch in (0, 97):
        out.append(f"{pre}rchr_null {ch}")
        if not wide:
            out.append(f"strchr_null {ch}")
    # ---- seeded random longer inputs
    R = 150 if tier == "quick" else (1500 if tier == "search" else 4000)

    def rstr(maxlen, al):
        return [rng.choice(al) for _ in range(rng.randint(0, maxlen))]

    wideal = [1, 97, 98, 99, -5, -2147483648, 2147483647, 128, 65536, 97 + 256, 97 + 65536]
    nal = [1, 97, 98, 99, 127, 128, 200, 255]
    al = wideal if wide else nal
    for _ in range(R):
        a = rstr(40, al)
        b = rstr(40, al)
        if rng.random() < 0.6:   # common prefix, difference late
            p = rstr(60, al)
            a, b = p + a, p + b
        A, B = L(a + [0]), L(b + [0])
        n = rng.choice([0, 1, len(a), len(b), len(a) + 1, len(b) + 1, rng.randint(0, 120), 300])
        out.append(f"{nm['strlen']} {A}")
        out.append(f"{nm['strcmp']} {A} {B}")
        out.append(f"{nm['strncmp']} {A} {B} {n}")
        ch = rng.choice(al + [0])
        out.append(f"{nm['strchr']} {A} {ch}")
        out.append(f"{nm['strrchr']} {A} {ch}")
        small = rstr(4, al)
        out.append(f"{nm['strspn']} {A} {L(small + [0])}")
        out.append(f"{nm['strcspn']} {A} {L(small + [0])}")
        out.append(f"{nm['strpbrk']} {A} {L(small + [0])}")
        # needle: a slice of the haystack (possibly perturbed)
        if a:
            i = rng.randrange(len(a))
            nd = a[i:i + rng.randint(0, 6)]
            if nd and rng.random() < 0.3:
                nd[-1] = rng.choice(al)
        else:
            nd = rstr(3, al)
        out.append(f"{nm['strstr']} {A} {L(nd + [0])}")
        out.append(f"{nm['strcpy']} {L([7] * (len(a) + 1 + rng.choice([0, 3])))} {A}")
        out.append(f"{nm['strncpy']} {L([7] * (n + rng.choice([0, 3])))} {A} {n}")
        out.append(f"{nm['strcat']} {L(b + [0] + [7] * (len(a) + rng.choice([0, 3])))} {A}")
        out.append(f"{nm['strncat']} {L(b + [0] + [7] * (min(n, len(a)) + rng.choice([0, 3])))} {A} {n}")
        ra = [rng.choice(al + [0, 0]) for _ in range(rng.randint(0, 40))]
        rb = list(ra)
        if rb and rng.random() < 0.7:
            rb[rng.randrange(len(rb))] = rng.choice(al + [0])
        m = rng.randint(0, len(ra))
        out.append(f"{nm['memcmp']} {L(ra)} {L(rb)} {m}")
        out.append(f"{nm['memchr']} {L(ra)} {rng.choice(al + [0])} {m}")
        out.append(f"{nm['memcpy']} {L([7] * (m + rng.choice([0, 3])))} {L(ra)} {m}")
        out.append(f"{nm['memset']} {L(ra)} {rng.choice(al + [0])} {m}")
        size = len(ra)
        if size:
            n2 = rng.randint(0, size)
            out.append(f"{nm['memmove']} {L(ra)} {rng.randint(0, size - n2)} {rng.randint(0, size - n2)} {n2}")
        out.append(f"{nm['memmove']}2 {L([7] * (m + rng.choice([0, 3])))} {L(ra)} {m} {rng.randint(0, 1)}")
        out.append(f"{nm['strncmp']} {A} {B} {rng.choice([2**32, 2**64 - 1, 2**63 + rng.randint(0, 2**62)])}")


# witnesses of the seven repaired defects and the inputs that exposed the hand-made mutations (NOTES.md); run first
REGRESSION = [
    "strstr 5 97 98 99 100 0 3 98 99 0", "strstr 3 97 98 0 1 0", "wcsstr 5 97 98 99 100 0 3 98 99 0",
    "strstr 5 97 97 97 98 0 4 97 97 98 0",
    "strncpy 5 9 9 9 9 9 3 97 98 0 4", "wcsncpy 5 9 9 9 9 9 3 97 98 0 4", "strncpy 1 201 1 0 1", "strncpy 0 0 0",
    "wmemcpy 4 9 9 9 9 3 1 0 2 3",
    "strcmp 2 128 0 2 97 0", "strncmp 2 128 0 2 97 0 1", "strcmp 1 0 2 128 0",
    "wcscmp 2 2147483647 0 2 -2147483648 0", "wcsncmp 2 -2147483648 0 2 2147483647 0 1", "wcscmp 1 0 2 -5 0",
    "memcmp 3 97 0 98 3 97 0 99 3", "wmemcmp 3 97 0 98 3 97 0 99 3", "memcmp 1 0 1 128 1",
    "strpbrk 4 97 98 99 0 2 100 0", "wcspbrk 4 97 98 99 0 2 100 0",
    "strncat 4 97 0 9 9 2 98 99 2", "wcsncat 4 97 0 9 9 2 98 99 2", "strncat 2 0 201 1 97 1",
    "strncmp 2 0 97 3 0 98 128 6", "strncmp 1 97 1 98 1", "memmove 3 1 2 3 1 0 2", "wmemmove 3 1 2 3 1 0 2",
    "strrchr 2 1 0 1", "strchr 1 0 0", "strspn 2 97 0 2 97 0", "memchr 1 0 128 1", "memset 1 201 -1 1",
    "isxdigit 103", "iswcntrl 31", "islower 122", "lldiv -7 2", "strlen 2 98 0",
    # review round (REVIEW.md): inputs that exposed the second engineer's changes R-A .. R-F and the UB of a
    # `ptr + n` rewrite of memchr
    "strncmp 1 0 3 97 0 128 4294967296", "wcsncmp 2 98 0 1 0 4294967296",
    "strncat 3 0 201 202 2 97 0 18446744073709551615", "wcsncat 3 0 201 202 2 97 0 18446744073709551615",
    "wcsncpy_null 2", "strcpy_null 1", "iswspace 8232", "iswspace 12288", "strrchr_null 0", "wcsrchr_null 97",
    "wmemchr 1 97 353 1", "wcsspn 2 97 0 2 65633 0", "wcspbrk 2 97 0 2 65633 0",
    "labs 2147483648", "memchr 1 0 0 9223372036854775808", "memmove2 3 201 202 203 2 97 98 2 0", "wmemmove2 3 201 202 203 2 97 98 2 1",
]


def gen(tier, rng):
    out = list(REGRESSION)
    quick = tier in ("quick", "search")
    # ---- <cctype>: the whole argument range
    for f in CLASS:
        for c in range(-1, 256):
            out.append(f"{f} {c}")
    wvals = list(range(0, 0x300 if quick else 0x3000)) + list(range(0xD7F0, 0xE010)) + list(range(0xFFF0, 0x10010)) + \
        [0x10FFFF, 0x110000, 0x7FFFFFFF, 0x80000000, 0xFFFFFFFE, 0xFFFFFFFF]
    wvals += UNICODE_CANDIDATES + ALIASES
    wvals += [rng.randint(0, 2**32 - 1) for _ in range(200 if quick else 20000)]
    for f in WCLASS:
        for c in wvals:
            out.append(f"{f} {c}")
    # ---- strings and memory, narrow then wide
    gen_family(out, False, tier, rng)
    gen_family(out, True, tier, rng)
    # ---- constant-evaluation table
    out += ct_cases()
    # ---- div / labs / llabs
    i32 = [-2**31, -2**31 + 1, -7, -2, -1, 0, 1, 2, 3, 7, 2**31 - 1]
    i64 = [-2**63, -2**63 + 1, -2**31, -7, -2, -1, 0, 1, 2, 3, 7, 2**31, 2**63 - 1]
    i32 += [rng.randint(-2**31, 2**31 - 1) for _ in range(10 if quick else 200)]
    i64 += [rng.randint(-2**63, 2**63 - 1) for _ in range(10 if quick else 200)]
    for x in i32:
        for y in i32:
            if y != 0 and not (x == -2**31 and y == -1):
                out.append(f"div {x} {y}")
    for x in i64:
        for y in i64:
            if y != 0 and not (x == -2**63 and y == -1):
                for op in ("ldiv", "div_l", "lldiv", "div_ll", "imaxdiv"):
                    out.append(f"{op} {x} {y}")
        if x != -2**63:
            out.append(f"labs {x}")
            out.append(f"llabs {x}")
    return out


def nontrivial(case, impl):
    return impl.startswith("ok")
