(* C10 driver: model leg = extracted Model.v functions, spec leg = extracted Spec.v *)
let ity_of = function
  | "c" | "sc" -> i8 | "uc" -> u8 | "s" -> i16 | "us" -> u16 | "i" -> i32 | "u" -> u32
  | "l" | "ll" -> i64 | "ul" | "ull" -> u64 | _ -> raise Not_found

let res_s (f : 'a -> string) = function
  | Ok a -> f a
  | Contract -> "contract"
  | UB _ -> "ub"
  | OutOfFuel -> "outoffuel"

let bytes_s (l : z list) = zlist_s l
let prefill n = List.init n (fun k -> z_of_int (65 + (k mod 26)))
let rec firstn_l n l = if n <= 0 then [] else match l with [] -> [] | x :: r -> x :: firstn_l (n - 1) r
let sentinel = z_of_int 7

let next_codes t = next_zlist t

let fc_name = function FcOk -> "ok" | FcInvalid -> "invalid" | FcRange -> "range"
let p_name = function POk -> "ok" | PInvalid -> "invalid" | PRange -> "range"
let dom_charconv b = b >= 2 && b <= 36
let dom_strto b = b = 0 || (b >= 2 && b <= 36)

let err_s = function TiNone -> "ok" | TiInvalid -> "invalid" | TiOverflow -> "overflow"
let ti_show ((e, err), v) = join [ err_s err; string_of_int (int_of_nat e); str_of_z v ]
let rec skipn_l n l = if n <= 0 then l else match l with [] -> [] | _ :: r -> skipn_l (n - 1) r

(* "<op>_d": the C++ call leaves out every defaulted argument; the model gets the documented defaults *)
let strip_d op =
  let n = String.length op in
  if n > 2 && String.sub op (n - 2) 2 = "_d" then (String.sub op 0 (n - 2), true) else (op, false)

let run_case op0 t =
  let (op, dflt) = strip_d op0 in
  match op with
  | ("stoi" | "stol" | "stoll" | "stoul" | "stoull") when dflt ->
      (* name(str) and name(str, &pos): base 10 *)
      let ty = (match op with "stoi" -> i32 | "stol" | "stoll" -> i64 | _ -> u64) in
      let s = next_codes t in
      let show (v, n) = join [ "v"; str_of_z v; str_of_z v; string_of_int (int_of_nat n) ] in
      let m = res_s show (strto_m ty s (z_of_int 10)) in
      (* where std throws, the documented etl behaviour is the strtol result (C10_sto_correct) *)
      (m, show (strto_spec ty (z_of_int 10) s))
  | "idiv" ->
      let ty = ity_of (next_str t) in
      let x = next_z t in let y = next_z t in
      let m = res_s (fun (q, r) -> join [ "ok"; str_of_z q; str_of_z r ]) (idiv_m ty x y) in
      let p =
        if y = Z0 then "na"
        else let q = Z.quot x y in
          if in_ty ty q then join [ "ok"; str_of_z q; str_of_z (Z.rem x y) ] else "na" in
      (m, p)
  | "to_chars" | "to_chars_buf" ->
      let full = op = "to_chars_buf" in
      let ty = ity_of (next_str t) in
      let base = if dflt then 10 else next_int t in let len = next_int t in let v = next_z t in
      let m = res_s (fun ((err, e), b) ->
          let e = int_of_nat e in
          if full then join [ (if err then "too_large" else "ok"); string_of_int e; bytes_s b ]
          else if err then join [ "too_large"; string_of_int e ]
          else join [ "ok"; string_of_int e; bytes_s (firstn_l e b) ])
          (to_chars_m ty v (z_of_int base) (prefill len)) in
      let p =
        if not (dom_charconv base) then "na"
        else match to_chars_spec (z_of_int base) v (nat_of_int len) with
          | Some s ->
              (* whole buffer: the text, then the previous contents untouched (C10_to_chars_correct) *)
              if full then join [ "ok"; string_of_int (List.length s); bytes_s (s @ skipn_l (List.length s) (prefill len)) ]
              else join [ "ok"; string_of_int (List.length s); bytes_s s ]
          | None -> if full then "na" (* contents unspecified *) else join [ "too_large"; string_of_int len ] in
      (m, p)
  | "from_integer" | "from_integer_buf" ->
      let full = op = "from_integer_buf" in
      let ty = ity_of (next_str t) in
      let term = next_bool t in
      let base = next_int t in let len = next_int t in let v = next_z t in
      let m = res_s (fun ((b, err), e) ->
          if full then
            join [ (if err then "overflow" else "ok");
                   (match e with None -> "null" | Some e -> string_of_int (int_of_nat e)); bytes_s b ]
          else if err then "overflow"
          else
            let n = (match e with None -> 0 | Some e -> int_of_nat e) in
            join ([ "ok"; bytes_s (firstn_l n b) ] @ (if term then [ str_of_z (List.nth b n) ] else [])))
          (from_integer_m ty term v (z_of_int base) (prefill len)) in
      (* spec: the text (and the terminator) when len has room for it, an error otherwise *)
      let p =
        if not (dom_charconv base) then "na"
        else
          let s = to_text (z_of_int base) v in
          let tl = if term then 1 else 0 in
          if List.length s + tl <= len
          then
            (if full then   (* fi_post: text, terminator, previous contents untouched, end behind the text *)
               join [ "ok"; string_of_int (List.length s);
                      bytes_s (s @ (if term then [ Z0 ] else []) @ skipn_l (List.length s + tl) (prefill len)) ]
             else join ([ "ok"; bytes_s s ] @ (if term then [ "0" ] else [])))
          else if full then "na" else "overflow" in
      (m, p)
  | "from_chars" | "from_chars_ovf" ->
      let ty = ity_of (next_str t) in
      let base = if dflt then 10 else next_int t in let s = next_codes t in
      let m = res_s (fun ((c, e), v) -> join [ fc_name c; string_of_int (int_of_nat e); str_of_z v ])
          (from_chars_m ty s (z_of_int base) sentinel) in
      let p =
        if not (dom_charconv base) then "na"
        else let ((c, n), v) = from_chars_spec ty (z_of_int base) s in
          join [ p_name c; string_of_int (int_of_nat n); str_of_z (match v with Some v -> v | None -> sentinel) ] in
      (m, p)
  | "roundtrip" ->
      let ty = ity_of (next_str t) in
      let base = next_int t in let v = next_z t in
      let m = match to_chars_m ty v (z_of_int base) (prefill 80) with
        | Ok ((false, e), b) ->
            let n = int_of_nat e in
            res_s (fun ((c, e2), w) -> join [ fc_name c; b2s (int_of_nat e2 = n); str_of_z w ])
              (from_chars_m ty (firstn_l n b) (z_of_int base) sentinel)
        | Ok ((true, _), _) -> "format-failed"
        | r -> res_s (fun _ -> "") r in
      (m, if dom_charconv base then join [ "ok"; "1"; str_of_z v ] else "na")
  | "roundtrip_strto" ->
      let ty = ity_of (next_str t) in
      let base = next_int t in let v = next_z t in
      let m = match to_chars_m ty v (z_of_int base) (prefill 80) with
        | Ok ((false, e), b) ->
            let n = int_of_nat e in
            res_s (fun ((e2, err), w) ->
                join [ (match err with TiNone -> "ok" | TiInvalid -> "invalid" | TiOverflow -> "overflow");
                       b2s (int_of_nat e2 = n); str_of_z w ])
              (strto_integer_m ty (firstn_l n b) (z_of_int base))
        | Ok ((true, _), _) -> "format-failed"
        | r -> res_s (fun _ -> "") r in
      (m, if dom_charconv base then join [ "ok"; "1"; str_of_z v ] else "na")
  | "to_integer" | "to_integer_nc" ->
      let checked = op = "to_integer" in
      let ty = ity_of (next_str t) in
      let ws = if dflt then true else next_bool t in let plus = if dflt then true else next_bool t in
      let base = if dflt then z_of_int 10 else next_z t in let s = next_codes t in
      let m = res_s ti_show ((if checked then to_integer_m else to_integer_nc_m) ty ws plus s (cast ty base)) in
      (* spec legs = the right-hand sides of C10_to_integer_correct / C10_to_integer_unchecked *)
      let bi = (try Big.to_int (big_of_z base) with _ -> 99) in
      let p =
        if not (dom_charconv bi) then "na"
        else if checked then ti_show (gparse ty ws plus s base)
        else if not ty.sgn then ti_show (nc_unsigned_spec ty ws plus s base)
        else if Big.to_int (big_of_z ty.bits) <= 16 then ti_show (nc_signed_narrow_spec ty ws plus s base)   (* C10_to_integer_unchecked_signed_narrow *)
        else (match gparse ty ws plus s base with ((_, TiNone), _) as r -> ti_show r | _ -> "na") in
      (m, p)
  | "to_string" ->
      let ty = ity_of (next_str t) in
      let cap = next_int t in let v = next_z t in
      let m = res_s (fun s -> join [ "ok"; bytes_s s; "0" ]) (to_string_m ty (nat_of_int cap) v) in
      let s = to_text (z_of_int 10) v in
      let p = if List.length s <= cap then join [ "ok"; bytes_s s; "0" ] else "contract" (* C10_to_string_correct *) in
      (m, p)
  | "strtol" | "strtoll" | "strtoul" | "strtoull" | "stoi" | "stol" | "stoll" | "stoul" | "stoull"
  | "strtol_n" | "strtoll_n" | "strtoul_n" | "strtoull_n"
  | "stoi_n" | "stol_n" | "stoll_n" | "stoul_n" | "stoull_n" ->
      (* "_n": the call with a null end pointer / pos: only the value is observed *)
      let (name, null_out) = match String.index_opt op '_' with
        | Some i -> (String.sub op 0 i, true) | None -> (op, false) in
      let ty = (match name with
          | "strtol" | "strtoll" | "stol" | "stoll" -> i64
          | "strtoul" | "strtoull" | "stoul" | "stoull" -> u64
          | "stoi" -> i32 | _ -> raise Not_found) in
      let is_sto = String.length name >= 3 && String.sub name 0 3 = "sto" in
      let base = next_int t in let s = next_codes t in
      let show (v, n) = join ([ "v"; str_of_z v ] @ (if null_out then [] else [ string_of_int (int_of_nat n) ])) in
      let m = res_s show (strto_m ty s (z_of_int base)) in
      let p =
        if not (dom_strto base) then "na"
        else if is_sto then
          (* where std throws (sto_spec = None) the documented etl behaviour is the strtol result (C10_sto_correct) *)
          (match sto_spec ty (z_of_int base) s with Some r -> show r | None -> show (strto_spec ty (z_of_int base) s))
        else show (strto_spec ty (z_of_int base) s) in
      (m, p)
  | "strto_integer" ->
      (* detail::strto_integer<T> called directly: end, error member, value *)
      let ty = ity_of (next_str t) in
      let base = next_int t in let s = next_codes t in
      let err_s = function TiNone -> "ok" | TiInvalid -> "invalid" | TiOverflow -> "overflow" in
      let m = res_s (fun ((e, err), v) -> join [ err_s err; string_of_int (int_of_nat e); str_of_z v ])
          (strto_integer_m ty s (z_of_int base)) in
      let p =
        if not (dom_strto base) then "na"
        else let (v, n) = strto_spec ty (z_of_int base) s in
          join [ (match strto_class ty (z_of_int base) s with SOk -> "ok" | SNoConv -> "invalid" | SRange -> "overflow"); string_of_int (int_of_nat n); str_of_z v ] in
      (m, p)
  | "atoi" | "atol" | "atoll" ->
      let ty = if op = "atoi" then i32 else i64 in
      let s = next_codes t in
      let m = res_s (fun v -> join [ "v"; str_of_z v ]) (ato_m ty s) in
      let p = match ato_spec ty s with Some v -> join [ "v"; str_of_z v ] | None -> "na" in
      (m, p)
  | _ -> raise Not_found

let () = main run_case
