"""C10 — integer <-> text conversion: case generators and configuration.

Case lines (integers in decimal, a string is a length-prefixed list of signed char codes):
  to_chars <ty> <base> <len> <value>        class, ptr-first, written characters        (ref: std::to_chars)
  to_chars_buf <ty> <base> <len> <value>    the same with the whole buffer (model tie only)
  from_integer <ty> <term> <base> <len> <value>   etl API: error class, written text + terminator (spec: to_text)
  from_integer_buf <ty> <term> <base> <len> <value>   the same with end and the whole buffer (model tie only)
  to_string <ty> <cap> <value>              characters + terminator | contract           (ref: std::to_string)
  from_chars[_ovf] <ty> <base> <str>        class, ptr-first, value left in the out arg  (ref: std::from_chars)
  roundtrip <ty> <base> <value>             from_chars(to_chars(v))                      (ref: v)
  roundtrip_strto <ty> <base> <value>       detail::strto_integer<T>(to_chars(v)): error member, all consumed, value  (ref: v)
  to_integer <ty> <skipws> <plus> <base> <str>    etl API: error, end, value             (model tie only)
  to_integer_nc <ty> <skipws> <plus> <base> <str>  the same with check_overflow = false (wraps / "ub")  (model tie only)
  strtol|strtoll|strtoul|strtoull[_n] <base> <str>   value, end-str                      (ref: glibc)
  stoi|stol|stoll|stoul|stoull[_n] <base> <str>      value, *pos                         (ref: std::sto*, na when it throws)
  strto_integer <ty> <base> <str>           detail::strto_integer<T>: error member, end, value  (ref: glibc + errno for 64-bit T; spec for all)
  atoi|atol|atoll <str>                     value                                        (ref: glibc strtol when representable)
  idiv <ty> <x> <y>                         etl::idiv<T>: quot, rem | ub                 (ref: 128-bit truncating division; spec: Z.quot / Z.rem)
  to_chars_d <ty> <len> <value> | from_chars_d <ty> <str> | to_integer_d <ty> <str> | stoi_d..stoull_d <str>
                                            the calls that leave out every defaulted argument (base 10, default
                                            options; sto*: name(str) and name(str, &pos))
The suffix _n = the call passes a null end pointer / pos (only the value is observed).  Bases
outside {0, 2..36} (1, 37, -1, ...) are generated too: impl and model must agree ("no conversion"),
reference and spec are na.  The suffix _ovf marks from_chars inputs that the generator's own
reference parser places inside the recorded known-finding region (known_findings.json); the
harness and the driver treat them like the plain operation.  Everything else must agree with the
reference exactly.
"""
ID = "C10"
LEVEL = "proof"
# translator tie: the cctype kernels and the overflow checkers' call operators are regenerated from the current headers on every run (coq/C10/GenEquiv.v)
TRANSLATE = [("translate/kernels_cctype.json", "coq/Gen/Gen_cctype.v"), ("translate/kernels_strconv.json", "coq/Gen/Gen_strconv.v")]
UBTRAP = ["-fsanitize=signed-integer-overflow,integer-divide-by-zero", "-fsanitize-undefined-trap-on-error"]
HARNESSES = [
    {"name": "main", "src": "harness.cpp", "flags": ["-O1", "-DTETL_ENABLE_CONTRACT_CHECKS=1"] + UBTRAP},
    {"name": "asan", "src": "harness.cpp",
     # -O0 without -g: a third of the compile time of -O1 -g (the variant is rebuilt whenever /repo/include changes)
     "flags": ["-O0", "-DVERIF_ASAN=1", "-DTETL_ENABLE_CONTRACT_CHECKS=1", "-fsanitize=address",
               "-fno-omit-frame-pointer"] + UBTRAP},
    # another compiler and optimiser (review round): clang++ 14 -O2, signed overflow trapped by -ftrapv, division
    # by zero / min / -1 by the hardware (SIGFPE); thorough tier only
    {"name": "clang", "src": "harness.cpp", "compiler": "clang++", "thorough_only": True,
     "flags": ["-O2", "-DTETL_ENABLE_CONTRACT_CHECKS=1", "-ftrapv"]},
]

RULE = ("8-bit types: every value x every base 2..36 x buffer lengths {0, digits-1, digits, digits+1} (all lengths "
        "0..digits+2 for bases 2,3,8,10,16,36), round trip for every value x base; 16-bit: all powers of each base +-1, "
        "limits, limits/base +-1, stride + seeded random (thorough: every value in base 10, one of 2/16/36 and base 2 + v mod 35); 32/64-bit: the same boundary tables + seeded "
        "random; to_string for every instantiated capacity around the digit count; parser inputs from the grammar "
        "ws* sign? prefix? digits tail with digits rendered from the boundary tables (random case, leading zeros, one "
        "extra digit, limit+-1), lone signs, empty strings and characters adjacent to the digit ranges, embedded NUL, runs of "
        "25-70 leading zeros, 40-100 digit runs, the high-bit aliases of digits / letters / signs / white space / x; the calls "
        "without the defaulted arguments; etl::idiv on limits x every sign combination, 0 and -1; bases outside 2..36 "
        "(0, 1, 37.., negative, >= 256) for the model tie only; "
        "non-trivial = distinct case line whose impl leg is not a bare error (ok / a parsed value / a written buffer)")

TRUSTED_BASE = ["reference leg: libstdc++ 12 std::to_chars/std::from_chars/std::to_string/std::sto*, glibc 2.36 strto*",
                "UB observation: -fsanitize=signed-integer-overflow,integer-divide-by-zero (trap) and, in the asan variant, AddressSanitizer"]
ASSUMPTIONS = ["LP64: int 32, long 64, long long 64 bits; plain char is signed; two's complement",
               "\"C\" locale (isspace set of 6 characters)"]

TYPES = {  # token -> (bits, signed)
    "c": (8, True), "sc": (8, True), "uc": (8, False), "s": (16, True), "us": (16, False),
    "i": (32, True), "u": (32, False), "l": (64, True), "ul": (64, False), "ll": (64, True), "ull": (64, False),
}
DIG = "0123456789abcdefghijklmnopqrstuvwxyz"
WS = [32, 9, 10, 11, 12, 13]


def lim(ty):
    b, s = TYPES[ty]
    return (-(1 << (b - 1)), (1 << (b - 1)) - 1) if s else (0, (1 << b) - 1)


def text(v, base):
    if v == 0:
        return "0"
    n, out = abs(v), ""
    while n:
        out = DIG[n % base] + out
        n //= base
    return ("-" if v < 0 else "") + out


def codes(s):
    return [ord(ch) if ord(ch) < 128 else ord(ch) - 256 for ch in s]


def enc(cs):
    return " ".join([str(len(cs))] + [str(c) for c in cs])


def digval(c):
    if 48 <= c <= 57:
        return c - 48
    if 97 <= c <= 122:
        return c - 87
    if 65 <= c <= 90:
        return c - 55
    return 99


def take_digits(base, cs):
    ds = []
    for c in cs:
        d = digval(c)
        if d >= base:
            break
        ds.append(d)
    return ds


def evald(base, ds):
    v = 0
    for d in ds:
        v = v * base + d
    return v


def from_chars_region(ty, base, cs):
    """'ovf' when std::from_chars reports result_out_of_range"""
    _, sg = TYPES[ty]
    neg = sg and cs[:1] == [45]
    ds = take_digits(base, cs[1:] if neg else cs)
    if not ds:
        return ""
    v = -evald(base, ds) if neg else evald(base, ds)
    lo, hi = lim(ty)
    return "" if lo <= v <= hi else "_ovf"


def boundary_values(ty, bases, rng, nrand):
    lo, hi = lim(ty)
    vals = {0, 1, -1, 2, 9, 10, 11, lo, lo + 1, hi, hi - 1, lo // 2, hi // 2}
    for b in bases:
        p = 1
        while p <= hi * b:
            for d in (-1, 0, 1):
                vals.add(p + d)
                vals.add(-(p + d))
            p *= b
        for q in (lo // b, hi // b, -(-lo // b)):
            for d in (-1, 0, 1):
                vals.add(q + d)
    for _ in range(nrand):
        k = rng.randint(1, TYPES[ty][0])
        vals.add(rng.randint(-(1 << k), 1 << k))
        vals.add(rng.randint(lo, hi))
    return sorted(v for v in vals if lo <= v <= hi)


def parse_inputs(ty, base, rng, quick):
    """strings for the parsers of type ty in base `base` (lists of codes)"""
    lo, hi = lim(ty)
    out = []
    nums = {0, 1, base - 1, base, hi, hi - 1, hi + 1, hi // base, hi // base + 1, hi * base, hi * base + base - 1,
            -lo, -lo + 1, -lo - 1, (-lo) // base, (-lo) // base + 1, (1 << 64), (1 << 64) - 1, (1 << 63)}
    for _ in range(2 if quick else 8):
        nums.add(rng.randint(0, hi))
        nums.add(rng.randint(0, 4 * hi))
    bodies = set()
    for n in nums:
        if n < 0:
            continue
        t = text(n, base)
        bodies.add(t)
        bodies.add(t.upper())
        bodies.add("00" + t)
        bodies.add(t + DIG[rng.randrange(base)])            # one more digit
        bodies.add("".join(ch.upper() if rng.random() < .5 else ch for ch in t))
    bodies |= {"", "0", "00", "0x", "0x1f", "0X1F", "0xg", "0x0", "x1", "08", "0779", "1_000"}
    tails = ["", " ", "x", "g", "z", "Z", "-", "+", "/", ":", "@", "[", "`", "{", "\x80", "\xff", "9", "0", "G"]
    signs = ["", "-", "+", "", "-", "--", "+-", "-+", "++", "- ", "+ "]
    wss = ["", " ", "\t\n", " \v\f\r ", "", ""]
    for b in sorted(bodies):
        for sg in (["", "-", "+"] if quick else signs):
            tl = tails[rng.randrange(len(tails))] if rng.random() < .6 else ""
            w = wss[rng.randrange(len(wss))]
            out.append(codes(w + sg + b + tl))
    for sg in signs:
        out.append(codes(sg))
        out.append(codes(" " + sg + "5"))
        out.append(codes(sg + " 5"))
    for tl in tails:
        out.append(codes(tl))
        out.append(codes("1" + tl))
        out.append(codes("-1" + tl))
    # embedded NUL (the string_view / [first,last) APIs; filtered out for the C-string functions), long runs of
    # leading zeros (the overflow checker must not count digits) and digit strings far beyond 64 bits (the
    # unchecked second pass of strto_integer wraps around many times)
    one = DIG[1]
    top = DIG[base - 1]
    for sg in ("", "-"):
        out.append(codes(sg + "12\x00" + "34"))
        out.append(codes(sg + "\x00" + "12"))
        out.append(codes(sg + "0" * 70 + text(hi, base)))
        out.append(codes(sg + "0" * 33 + text(hi + 1, base) + "z"))
        out.append(codes(" " + sg + "0" * 25 + top))
        out.append(codes(sg + one + "0" * (rng.randint(65, 90))))
        out.append(codes(sg + top * rng.randint(40, 100) + " "))
        out.append(codes(sg + text(rng.randint(1 << 100, 1 << 200), base) + "."))
    # the same characters with the high bit set (negative codes of plain char): never digits, signs, white space or x
    for ch in "0179azAZfF-+ \txX":
        hi_ch = chr(ord(ch) | 0x80)
        out.append(codes(hi_ch))
        out.append(codes(hi_ch + "1"))
        out.append(codes("1" + hi_ch + "1"))
        out.append(codes("0" + hi_ch + "1"))
        out.append(codes(" -" + hi_ch))
    out.append(codes("\x01" + "12"))
    out.append(codes("\x0e" + "12"))     # 14 is not white space
    out.append(codes("\x1f" + "12"))
    out.append(codes("\xa0" + "12"))
    return out


def gen(tier, rng):
    quick = tier in ("quick", "search")     # "search" = another seed of the quick distribution
    out = []
    allbases = list(range(2, 37))
    fullbases = [2, 3, 8, 10, 16, 36]

    def fmt_cases(ty, v, b, all_lens, lean=False):
        n = len(text(v, b))
        if lean:      # quick tier, 64-bit types: the extracted model needs ~0.2 ms per case there
            out.append(f"to_chars {ty} {b} {max(0, n - 1)} {v}")
            out.append(f"to_chars {ty} {b} {n} {v}")
            out.append(f"to_chars_buf {ty} {b} {rng.choice([0, max(0, n - 1), n + 2])} {v}")
            return
        if all_lens:
            lens = range(0, n + 3)
        elif quick:
            lens = sorted({max(0, n - 1), n} | ({0} if rng.random() < .15 else set()) | ({n + 1} if rng.random() < .15 else set()))
        else:
            lens = sorted({0, max(0, n - 1), n, n + 1})
        for ln in lens:
            out.append(f"to_chars {ty} {b} {ln} {v}")
        if not quick or rng.random() < .3:
            out.append(f"to_chars_buf {ty} {b} {n + 2} {v}")
        if not quick or rng.random() < .3:
            out.append(f"to_chars_buf {ty} {b} {max(0, n - 1)} {v}")

    # ---- formatting: 8-bit exhaustive
    for ty in ("c", "sc", "uc"):
        lo, hi = lim(ty)
        for v in range(lo, hi + 1):
            for b in allbases:
                if ty == "c" and quick and (b not in fullbases or v % 3):   # char == signed char here; sc is exhaustive
                    continue
                fmt_cases(ty, v, b, b in fullbases and (not quick or ty != "c"))
                out.append(f"roundtrip {ty} {b} {v}")
    # ---- 16-bit: thorough = every value; quick = stride sample here + the boundary pairs below
    for ty in ("s", "us"):
        lo, hi = lim(ty)
        vals = range(lo, hi + 1, 251) if quick else range(lo, hi + 1)
        for v in vals:
            if quick:
                bs = fullbases + [rng.choice(allbases)]
            else:   # every value: base 10, one of 2/16/36 and one base that walks through all 35 (v mod 35)
                bs = [10, (2, 16, 36)[v % 3], 2 + v % 35]
            for b in sorted(set(bs)):
                fmt_cases(ty, v, b, b in (2, 10, 36) and (v % (5 if quick else 97) == 0), lean=not quick)
                out.append(f"roundtrip {ty} {b} {v}")
    # ---- 32/64-bit: powers of each base +-1 and limits/base +-1 in that base (and base 10), random values
    for ty in ("s", "us", "i", "u", "l", "ul", "ll", "ull"):
        lo, hi = lim(ty)
        pairs = set()
        for b in allbases:
            vs = set()
            p = 1
            while p <= hi * b:
                for d in (-1, 0, 1):
                    vs.add(p + d)
                    vs.add(-(p + d))
                p *= b
            for q in (lo // b, hi // b, -(-lo // b)):
                for d in (-1, 0, 1):
                    vs.add(q + d)
            for v in vs:
                if lo <= v <= hi:
                    pairs.add((v, b))
                    if not quick or b in fullbases:
                        pairs.add((v, 10))
        for _ in range(150 if quick else 3000):
            k = rng.randint(1, TYPES[ty][0])
            for v in (rng.randint(-(1 << k), 1 << k), rng.randint(lo, hi)):
                if lo <= v <= hi:
                    for b in (10, 16, rng.choice(allbases)):
                        pairs.add((v, b))
        for (v, b) in sorted(pairs):
            wide = TYPES[ty][0] == 64
            if quick and wide and rng.random() < (.9 if ty in ("l", "ul") else .75):
                continue
            fmt_cases(ty, v, b, rng.random() < (.1 if quick else .3), lean=quick and wide and rng.random() < .8)
            out.append(f"roundtrip {ty} {b} {v}")
    # limits of every type in every base, every buffer length
    for ty in TYPES:
        lo, hi = lim(ty)
        for b in allbases:
            for v in (lo, lo + 1, -1, 0, 1, hi - 1, hi):
                if lo <= v <= hi:
                    wide = quick and TYPES[ty][0] == 64
                    if wide and ty in ("l", "ul") and b not in (2, 10, 16, 36):
                        continue
                    fmt_cases(ty, v, b, not (wide and b not in (10, 36)), lean=wide and b not in (10, 36))
                    out.append(f"roundtrip {ty} {b} {v}")
    # ---- the same round trip through strto_integer: every 4th (quick: 12th) formatting pair + the limits
    rts = [c for c in out if c.startswith("roundtrip ")]
    step = 12 if quick else 4
    for k, c in enumerate(rts):
        t = c.split()
        lo, hi = lim(t[1])
        if k % step == 0 or int(t[3]) in (lo, lo + 1, hi - 1, hi, 0, -1):
            out.append("roundtrip_strto " + " ".join(t[1:]))
    # ---- from_integer (etl API, with and without terminator)
    for ty in ("sc", "uc", "s", "i", "u", "ll", "ull"):
        lo, hi = lim(ty)
        for v in sorted({lo, lo + 1, -100, -10, -9, -1, 0, 1, 9, 10, 99, 100, hi - 1, hi} | {rng.randint(lo, hi) for _ in range(6)}):
            if not (lo <= v <= hi):
                continue
            wide = quick and TYPES[ty][0] == 64
            for b in ((10, rng.choice([2, 16, 36])) if wide else (2, 10, 16, 36, rng.choice(allbases))):
                n = len(text(v, b))
                for ln in (sorted({0, 1, n - 1, n, n + 1, n + 2}) if wide else range(0, n + 3)):
                    for term in (0, 1):
                        out.append(f"from_integer {ty} {term} {b} {ln} {v}")
                        out.append(f"from_integer_buf {ty} {term} {b} {ln} {v}")
    # ---- to_string
    caps = [1, 2, 3, 4, 5, 9, 10, 11, 12, 19, 20, 21, 24]
    for ty in ("i", "l", "ll", "u", "ul", "ull"):
        for v in boundary_values(ty, [10], rng, 30 if quick else 1000):
            n = len(text(v, 10))
            for cap in caps:
                if abs(cap - n) <= 2 or cap in (1, 24):
                    out.append(f"to_string {ty} {cap} {v}")
    # ---- parsing
    str_bases = allbases if not quick else [2, 3, 7, 8, 10, 11, 16, 17, 35, 36]
    for ty in TYPES:
        if quick and ty in ("c", "l", "ul"):
            bs = [10, 16, 36]
        else:
            bs = str_bases
        for b in bs:
            for cs in parse_inputs(ty, b, rng, quick):
                out.append(f"from_chars{from_chars_region(ty, b, cs)} {ty} {b} {enc(cs)}")
                if rng.random() < (.25 if quick else .5):
                    ws, plus = rng.randrange(2), rng.randrange(2)
                    out.append(f"to_integer {ty} {ws} {plus} {b} {enc(cs)}")
                if rng.random() < (.15 if quick else .5):
                    ws, plus = rng.randrange(2), rng.randrange(2)
                    out.append(f"to_integer_nc {ty} {ws} {plus} {b} {enc(cs)}")
    # 8-bit from_chars: every value +- overflow by one unit / one digit in every base
    for ty in ("sc", "uc", "c"):
        lo, hi = lim(ty)
        for b in allbases:
            for v in list(range(lo - 2, lo + 3)) + list(range(hi - 2, hi + 3)) + [lo * b, hi * b, hi * b + b - 1, lo * b - b + 1]:
                cs = codes(text(v, b))
                out.append(f"from_chars{from_chars_region(ty, b, cs)} {ty} {b} {enc(cs)}")
    fam = [("strtol", "l"), ("strtoll", "ll"), ("strtoul", "ul"), ("strtoull", "ull"),
           ("stoi", "i"), ("stol", "l"), ("stoll", "ll"), ("stoul", "ul"), ("stoull", "ull")]
    prefixed = ["0x", "0X", "0x0", "0xf", "0XF", "0x7fffffff", "0x80000000", "0xffffffff", "0x100000000",
                "0x7fffffffffffffff", "0x8000000000000000", "0xffffffffffffffff", "0x10000000000000000",
                "0xg", "0x 1", "0x-1", "0x+1", "0x0x1", "00x1", "0", "00", "07", "08", "017777777777", "020000000000",
                "0777777777777777777777", "01000000000000000000000", "01777777777777777777777",
                "02000000000000000000000", "0b1", "x1", "1x", "0x", "0xx", "0X0X"]

    def strto_inputs(ty, b):
        pb = b if 2 <= b <= 36 else rng.choice([8, 10, 16])
        ins = [cs for cs in parse_inputs(ty, pb, rng, quick) if 0 not in cs]
        for body in prefixed:                  # prefixes matter for base 0 and 16, must not for the others
            for sg in ("", "-", "+"):
                ins.append(codes(rng.choice(["", " ", "\t "]) + sg + body + rng.choice(["", "", "g", " ", "x"])))
        return ins

    bad_bases = [1, 37, -1, -16, 100, 255, 256, -2147483648, 2147483647]
    for name, ty in fam:
        for b in ([0] + str_bases if not quick else [0, 2, 8, 10, 16, 36]):
            for cs in strto_inputs(ty, b):
                out.append(f"{name} {b} {enc(cs)}")
                if rng.random() < .1:
                    out.append(f"{name}_n {b} {enc(cs)}")
        for b in bad_bases:
            for body in ("", "0", "12", "-12", " 0x1f", "zz"):
                out.append(f"{name} {b} {enc(codes(body))}")
    # detail::strto_integer<T> directly: the error member, and the instantiations without a wrapper
    for ty in ("i", "u", "l", "ul", "ll", "ull", "c", "sc", "uc", "s", "us"):
        narrow = TYPES[ty][0] < 32
        for b in ([0, 10, 16] if quick else [0] + str_bases):
            for cs in strto_inputs(ty, b):
                if quick and rng.random() < (.8 if narrow else .5):
                    continue
                out.append(f"strto_integer {ty} {b} {enc(cs)}")
        for b in bad_bases:
            out.append(f"strto_integer {ty} {b} {enc(codes('12'))}")
    for name, ty in (("atoi", "i"), ("atol", "l"), ("atoll", "ll")):
        for cs in parse_inputs(ty, 10, rng, quick):
            if 0 in cs:
                continue
            out.append(f"{name} {enc(cs)}")
    # ---- etl::idiv directly: every sign combination, the limits, min / -1, division by zero
    for ty in TYPES:
        lo, hi = lim(ty)
        xs = {lo, lo + 1, lo // 2, -37, -36, -10, -7, -1, 0, 1, 7, 10, 35, 36, 37, hi // 2, hi - 1, hi}
        ys = {lo, lo + 1, -37, -36, -10, -3, -2, -1, 0, 1, 2, 3, 10, 36, 37, hi - 1, hi}
        for _ in range(4 if quick else 40):
            xs.add(rng.randint(lo, hi))
            ys.add(rng.randint(lo, hi))
            ys.add(rng.randint(-100, 100))
        for x in sorted(xs):
            for y in sorted(ys):
                if lo <= x <= hi and lo <= y <= hi:
                    out.append(f"idiv {ty} {x} {y}")
    # ---- the calls without the defaulted arguments (base 10, default to_integer options, sto*(str) / sto*(str, &pos))
    for ty in TYPES:
        lo, hi = lim(ty)
        for v in boundary_values(ty, [10], rng, 3 if quick else 40):
            n = len(text(v, 10))
            for ln in sorted({0, max(0, n - 1), n, n + 1}):
                out.append(f"to_chars_d {ty} {ln} {v}")
        for cs in parse_inputs(ty, 10, rng, True):
            if from_chars_region(ty, 10, cs) == "" and rng.random() < (.5 if quick else 1):
                out.append(f"from_chars_d {ty} {enc(cs)}")
            if rng.random() < (.5 if quick else 1):
                out.append(f"to_integer_d {ty} {enc(cs)}")
    for name, ty in fam[4:]:
        for cs in strto_inputs(ty, 10):
            if rng.random() < (.5 if quick else 1):
                out.append(f"{name}_d {enc(cs)}")
    # ---- bases outside the documented domain (model tie only, reference / spec na): the conversions
    #      static_cast<Int>(base) of from_integer / from_chars, base 0 (division by zero in idiv and in the
    #      checker's constructor), base 1 (from_integer fills the buffer), negative bases, digits > 'z'
    odd_bases = [0, 1, 37, 64, 100, -1, -2, -10, -36, 127, 128, 255, 256, 258, 266, 65546, 65536 + 36, -2147483648, 2147483647]
    for ty in TYPES:
        lo, hi = lim(ty)
        for b in odd_bases:
            for v in sorted({lo, -37, -1, 0, 1, 9, 37, hi} | {rng.randint(lo, hi)}):
                if lo <= v <= hi:
                    for ln in (0, 1, 3, 6):
                        out.append(f"to_chars_buf {ty} {b} {ln} {v}")
            for body in ("", "0", "1", "12", "-12", "zz", "Z9", "-1", "+1", " 1", "99999999999999999999", "-99999999999999999999"):
                out.append(f"from_chars {ty} {b} {enc(codes(body))}")
                tb = b if lo <= b <= hi else None     # to_integer takes the base in the type itself
                if tb is not None:
                    out.append(f"to_integer {ty} {rng.randrange(2)} {rng.randrange(2)} {tb} {enc(codes(body))}")
                    out.append(f"to_integer_nc {ty} {rng.randrange(2)} {rng.randrange(2)} {tb} {enc(codes(body))}")
    return out


def nontrivial(case, impl):
    head = impl.split(" ", 1)[0]
    return head not in ("invalid", "too_large", "overflow", "contract", "ub", "range", "crash", "unknown-op")
