// C10 harness: etl integer <-> text conversions (impl leg) vs libstdc++ <charconv>/<string> and
// glibc strto* (reference leg).
//
// Observation:
//  * the output buffer of to_chars/from_integer is an exact-size heap block; in the plain build it
//    is surrounded by 16 guard bytes on both sides (token "guard" is appended to the impl leg when
//    one of them changed), in the ASan build (-DVERIF_ASAN) there are no guard bytes so that the
//    sanitizer's red zones start right at first-1 / last;
//  * the input of from_chars/to_integer/strto_integer/sto* is an exact-size, NOT terminated heap block, the input
//    of strto*/ato* an exact-size terminated one (an over-read is an ASan report);
//  * the builds use -fsanitize=signed-integer-overflow,integer-divide-by-zero with
//    -fsanitize-undefined-trap-on-error: executing such an operation raises SIGILL/SIGFPE, which is
//    caught here and reported as the impl leg "ub" (the model's UB outcome).
// Error classes are compared by name (ok / invalid / range / too_large), never by errc number.
#include "common.hpp"

#include <cerrno>
#include <charconv>
#include <climits>
#include <csignal>
#include <limits>
#include <stdexcept>
#include <string>
#include <type_traits>

#include <etl/charconv.hpp>
#include <etl/cstdlib.hpp>
#include <etl/string.hpp>
#include <etl/string_view.hpp>
#include <etl/strings.hpp>

using namespace vh;

namespace {

#if defined(VERIF_ASAN)
constexpr std::size_t G = 0;
#else
constexpr std::size_t G = 16;
#endif
constexpr unsigned char GUARD = 0xA5;

sigjmp_buf g_sigjmp;
volatile sig_atomic_t g_sig_armed = 0;

void on_trap(int sig)
{
    if (g_sig_armed != 0) {
        g_sig_armed = 0;
        siglongjmp(g_sigjmp, sig);
    }
    std::signal(sig, SIG_DFL);
    std::raise(sig);
}

void install_traps()
{
    static bool done = false;
    if (done) { return; }
    done = true;
    struct sigaction sa { };
    sa.sa_handler = on_trap;
    sigemptyset(&sa.sa_mask);
    sa.sa_flags = SA_NODEFER;
    sigaction(SIGILL, &sa, nullptr);
    sigaction(SIGFPE, &sa, nullptr);
}

// contract handler armed + UB traps caught
template <typename F>
void run_impl(Out& out, F&& f)
{
    install_traps();
    if (sigsetjmp(g_sigjmp, 1) == 0) {
        g_sig_armed = 1;
        guarded(out, f);
        g_sig_armed = 0;
    } else {
        g_armed = false;
        out.s.clear();
        out.tok("ub");
    }
}

// exact-size heap block with guard bytes (plain build) / without (ASan build)
struct Block {
    unsigned char* mem;
    std::size_t len;
    explicit Block(std::size_t n)
        : mem(static_cast<unsigned char*>(std::malloc(G + n + G)))
        , len(n)
    {
        for (std::size_t k = 0; k < G; ++k) {
            mem[k]         = GUARD;
            mem[G + n + k] = GUARD;
        }
    }
    Block(Block const&)            = delete;
    Block& operator=(Block const&) = delete;
    ~Block() { std::free(mem); }
    char* data() const { return reinterpret_cast<char*>(mem + G); }
    bool guards_ok() const
    {
        for (std::size_t k = 0; k < G; ++k) {
            if (mem[k] != GUARD || mem[G + len + k] != GUARD) { return false; }
        }
        return true;
    }
};

void prefill(char* p, std::size_t n)
{
    for (std::size_t k = 0; k < n; ++k) { p[k] = static_cast<char>('A' + static_cast<int>(k % 26)); }
}

void bytes(Out& o, char const* p, std::size_t n)
{
    o.num(static_cast<i64>(n));
    for (std::size_t k = 0; k < n; ++k) { o.num(static_cast<i64>(static_cast<signed char>(p[k]))); }
}

template <typename T>
T parse_val(std::string const& s)
{
    if constexpr (std::is_signed_v<T>) {
        return static_cast<T>(std::strtoll(s.c_str(), nullptr, 10));
    } else {
        return static_cast<T>(std::strtoull(s.c_str(), nullptr, 10));
    }
}

template <typename T>
struct tag {
    using type = T;
};

template <typename F>
bool with_type(std::string const& ty, F&& f)
{
    if (ty == "c") { f(tag<char>{}); return true; }
    if (ty == "sc") { f(tag<signed char>{}); return true; }
    if (ty == "uc") { f(tag<unsigned char>{}); return true; }
    if (ty == "s") { f(tag<short>{}); return true; }
    if (ty == "us") { f(tag<unsigned short>{}); return true; }
    if (ty == "i") { f(tag<int>{}); return true; }
    if (ty == "u") { f(tag<unsigned>{}); return true; }
    if (ty == "l") { f(tag<long>{}); return true; }
    if (ty == "ul") { f(tag<unsigned long>{}); return true; }
    if (ty == "ll") { f(tag<long long>{}); return true; }
    if (ty == "ull") { f(tag<unsigned long long>{}); return true; }
    return false;
}

// input text: exact-size heap copy, optionally terminated
struct Text {
    char* p;
    std::size_t n;
    Text(std::vector<i64> const& codes, bool terminate)
        : p(static_cast<char*>(std::malloc(codes.size() + (terminate ? 1 : 0))))
        , n(codes.size())
    {
        for (std::size_t k = 0; k < n; ++k) { p[k] = static_cast<char>(codes[k]); }
        if (terminate) { p[n] = '\0'; }
    }
    Text(Text const&)            = delete;
    Text& operator=(Text const&) = delete;
    ~Text() { std::free(p); }
};

char const* ec_name(etl::errc e)
{
    if (e == etl::errc{}) { return "ok"; }
    if (e == etl::errc::invalid_argument) { return "invalid"; }
    if (e == etl::errc::result_out_of_range) { return "range"; }
    if (e == etl::errc::value_too_large) { return "too_large"; }
    return "other";
}
char const* ec_name(std::errc e)
{
    if (e == std::errc{}) { return "ok"; }
    if (e == std::errc::invalid_argument) { return "invalid"; }
    if (e == std::errc::result_out_of_range) { return "range"; }
    if (e == std::errc::value_too_large) { return "too_large"; }
    return "other";
}

template <typename T>
void val(Out& o, T v)
{
    o.big(static_cast<i128>(v));
}

constexpr int SENTINEL = 7;

// the observers of to_chars_result / from_chars_result (explicit operator bool, defaulted operator==)
// must be consistent with the members; nothing is printed when they are
template <typename R>
void result_observers(Out& o, R const& r)
{
    bool good = static_cast<bool>(r) == (r.ec == etl::errc{});
    good      = good && (r == R{r.ptr, r.ec});
    good      = good && !(r == R{r.ptr + 1, r.ec});
    good      = good && !(r == R{r.ptr, r.ec == etl::errc{} ? etl::errc::invalid_argument : etl::errc{}});
    good      = good && static_cast<bool>(R{r.ptr, etl::errc{}}) && !static_cast<bool>(R{r.ptr, etl::errc::value_too_large})
        && !static_cast<bool>(R{r.ptr, etl::errc::result_out_of_range}) && !static_cast<bool>(R{r.ptr, etl::errc::invalid_argument});
    if (!good) { o.tok("result-observers-bad"); }
}

// set by run_case for the "<op>_d" operations: the call leaves out every defaulted argument
bool g_default_args = false;

// ---------------------------------------------------------------- to_chars
template <typename T>
void do_to_chars(Toks& in, Out& impl, Out& ref, bool full)
{
    bool dflt       = g_default_args;
    int base        = dflt ? 10 : static_cast<int>(in.num());
    std::size_t len = static_cast<std::size_t>(in.num());
    T v             = parse_val<T>(in.str());
    {
        Block b(len);
        prefill(b.data(), len);
        run_impl(impl, [&](Out& o) {
            auto r = dflt ? etl::to_chars(b.data(), b.data() + len, v) : etl::to_chars(b.data(), b.data() + len, v, base);
            o.tok(ec_name(r.ec));
            o.num(r.ptr - b.data());
            result_observers(o, r);
            if (full) {
                bytes(o, b.data(), len);
            } else if (r.ec == etl::errc{}) {
                bytes(o, b.data(), static_cast<std::size_t>(r.ptr - b.data()));
            }
        });
        if (!b.guards_ok()) { impl.tok("guard"); }
    }
    if (!full && base >= 2 && base <= 36) {
        Block b(len);
        prefill(b.data(), len);
        auto r = dflt ? std::to_chars(b.data(), b.data() + len, v) : std::to_chars(b.data(), b.data() + len, v, base);
        ref.tok(ec_name(r.ec));
        ref.num(r.ptr - b.data());
        if (r.ec == std::errc{}) { bytes(ref, b.data(), static_cast<std::size_t>(r.ptr - b.data())); }
    }
}

// ---------------------------------------------------------------- from_integer (etl specific API)
template <typename T>
void do_from_integer(Toks& in, Out& impl, Out& /*ref*/, bool full)
{
    bool term       = in.num() != 0;
    int base        = static_cast<int>(in.num());
    std::size_t len = static_cast<std::size_t>(in.num());
    T v             = parse_val<T>(in.str());
    Block b(len);
    prefill(b.data(), len);
    run_impl(impl, [&](Out& o) {
        etl::strings::from_integer_result r { };
        if (term) {
            r = etl::strings::from_integer<T>(v, b.data(), len, base);
        } else {
            constexpr auto opt = etl::strings::from_integer_options{.terminate_with_null = false};
            r                  = etl::strings::from_integer<T, opt>(v, b.data(), len, base);
        }
        bool ok = r.error == etl::strings::from_integer_error::none;
        o.tok(ok ? "ok" : "overflow");
        if (full) {
            if (r.end == nullptr) {
                o.tok("null");
            } else {
                o.num(r.end - b.data());
            }
            bytes(o, b.data(), len);
        } else if (ok) {
            // the characters written and, when requested, the terminator behind them
            auto n = static_cast<std::size_t>(r.end - b.data());
            bytes(o, b.data(), n);
            if (term) { o.num(static_cast<i64>(b.data()[n])); }
        }
    });
    if (!b.guards_ok()) { impl.tok("guard"); }
}

// ---------------------------------------------------------------- from_chars
template <typename T>
void do_from_chars(Toks& in, Out& impl, Out& ref)
{
    bool dflt  = g_default_args;
    int base   = dflt ? 10 : static_cast<int>(in.num());
    auto codes = in.list();
    Text t(codes, false);
    run_impl(impl, [&](Out& o) {
        T v    = static_cast<T>(SENTINEL);
        auto r = dflt ? etl::from_chars(t.p, t.p + t.n, v) : etl::from_chars(t.p, t.p + t.n, v, base);
        o.tok(ec_name(r.ec));
        o.num(r.ptr - t.p);
        val(o, v);
        result_observers(o, r);
    });
    if (base >= 2 && base <= 36) {
        T v    = static_cast<T>(SENTINEL);
        auto r = dflt ? std::from_chars(t.p, t.p + t.n, v) : std::from_chars(t.p, t.p + t.n, v, base);
        ref.tok(ec_name(r.ec));
        ref.num(r.ptr - t.p);
        val(ref, v);
    }
}

// ---------------------------------------------------------------- round trip
template <typename T>
void do_roundtrip(Toks& in, Out& impl, Out& ref)
{
    int base = static_cast<int>(in.num());
    T v      = parse_val<T>(in.str());
    run_impl(impl, [&](Out& o) {
        Block b(80);
        auto r = etl::to_chars(b.data(), b.data() + 80, v, base);
        if (r.ec != etl::errc{}) {
            o.tok("format-failed");
            return;
        }
        auto n = static_cast<std::size_t>(r.ptr - b.data());
        // parse from an exact-size copy
        std::vector<i64> codes;
        for (std::size_t k = 0; k < n; ++k) { codes.push_back(b.data()[k]); }
        Text t(codes, false);
        T w     = static_cast<T>(SENTINEL);
        auto r2 = etl::from_chars(t.p, t.p + t.n, w, base);
        o.tok(ec_name(r2.ec));
        o.b(static_cast<std::size_t>(r2.ptr - t.p) == n);
        val(o, w);
    });
    ref.tok("ok").b(true);
    val(ref, v);
}

// ---------------------------------------------------------------- round trip through strto_integer
template <typename T>
void do_roundtrip_strto(Toks& in, Out& impl, Out& ref)
{
    int base = static_cast<int>(in.num());
    T v      = parse_val<T>(in.str());
    run_impl(impl, [&](Out& o) {
        Block b(80);
        auto r = etl::to_chars(b.data(), b.data() + 80, v, base);
        if (r.ec != etl::errc{}) {
            o.tok("format-failed");
            return;
        }
        auto n = static_cast<std::size_t>(r.ptr - b.data());
        std::vector<i64> codes;
        for (std::size_t k = 0; k < n; ++k) { codes.push_back(b.data()[k]); }
        Text t(codes, false);
        auto r2 = etl::detail::strto_integer<T>(etl::string_view{t.p, t.n}, base);
        o.tok(r2.error == etl::strings::to_integer_error::none
                  ? "ok"
                  : (r2.error == etl::strings::to_integer_error::overflow ? "overflow" : "invalid"));
        o.b(static_cast<std::size_t>(r2.end - t.p) == n);
        val(o, r2.value);
    });
    ref.tok("ok").b(true);
    val(ref, v);
}

// ---------------------------------------------------------------- to_integer (etl specific API)
template <typename T, bool Check>
void do_to_integer(Toks& in, Out& impl, Out& /*ref*/)
{
    bool dflt  = g_default_args;      // to_integer<T>(str): default options (skip, check, plus) and base 10
    bool ws    = dflt ? true : in.num() != 0;
    bool plus  = dflt ? true : in.num() != 0;
    auto base  = dflt ? static_cast<T>(10) : static_cast<T>(in.num());
    auto codes = in.list();
    Text t(codes, false);
    run_impl(impl, [&](Out& o) {
        using opts = etl::strings::to_integer_options;
        etl::strings::to_integer_result<T> r { };
        auto sv = etl::string_view{t.p, t.n};
        if (dflt) {
            r = etl::strings::to_integer<T>(sv);
        } else if (ws && plus) {
            r = etl::strings::to_integer<T, opts{.skip_whitespace = true, .check_overflow = Check, .allow_plus_sign = true}>(sv, base);
        } else if (ws) {
            r = etl::strings::to_integer<T, opts{.skip_whitespace = true, .check_overflow = Check, .allow_plus_sign = false}>(sv, base);
        } else if (plus) {
            r = etl::strings::to_integer<T, opts{.skip_whitespace = false, .check_overflow = Check, .allow_plus_sign = true}>(sv, base);
        } else {
            r = etl::strings::to_integer<T, opts{.skip_whitespace = false, .check_overflow = Check, .allow_plus_sign = false}>(sv, base);
        }
        o.tok(r.error == etl::strings::to_integer_error::none
                  ? "ok"
                  : (r.error == etl::strings::to_integer_error::overflow ? "overflow" : "invalid"));
        o.num(r.end - t.p);
        val(o, r.value);
    });
}

// ---------------------------------------------------------------- to_string
template <typename T, std::size_t Cap>
void to_string_one(T v, Out& impl, Out& ref)
{
    run_impl(impl, [&](Out& o) {
        auto s = etl::to_string<Cap>(v);
        o.tok("ok");
        bytes(o, s.data(), s.size());
        o.num(static_cast<i64>(s.data()[s.size()])); // terminator
    });
    auto r = std::to_string(v);
    if (r.size() <= Cap) {
        ref.tok("ok");
        bytes(ref, r.data(), r.size());
        ref.num(0);
    }
}

template <typename T>
void do_to_string(Toks& in, Out& impl, Out& ref)
{
    auto cap = static_cast<std::size_t>(in.num());
    T v      = parse_val<T>(in.str());
    switch (cap) {
    case 1: to_string_one<T, 1>(v, impl, ref); break;
    case 2: to_string_one<T, 2>(v, impl, ref); break;
    case 3: to_string_one<T, 3>(v, impl, ref); break;
    case 4: to_string_one<T, 4>(v, impl, ref); break;
    case 5: to_string_one<T, 5>(v, impl, ref); break;
    case 9: to_string_one<T, 9>(v, impl, ref); break;
    case 10: to_string_one<T, 10>(v, impl, ref); break;
    case 11: to_string_one<T, 11>(v, impl, ref); break;
    case 12: to_string_one<T, 12>(v, impl, ref); break;
    case 19: to_string_one<T, 19>(v, impl, ref); break;
    case 20: to_string_one<T, 20>(v, impl, ref); break;
    case 21: to_string_one<T, 21>(v, impl, ref); break;
    case 24: to_string_one<T, 24>(v, impl, ref); break;
    default: impl.tok("unknown-capacity"); break;
    }
}

// ---------------------------------------------------------------- strto*, sto*, ato*
// set by run_case for the "<op>_n" operations: the call passes a null end pointer / pos
bool g_null_out = false;

template <typename R, typename EtlF, typename LibF>
void do_strto(Toks& in, Out& impl, Out& ref, EtlF etlf, LibF libf)
{
    int base   = static_cast<int>(in.num());
    auto codes = in.list();
    Text t(codes, true);
    bool null_out = g_null_out;
    run_impl(impl, [&](Out& o) {
        char const* e = nullptr;
        R v           = etlf(t.p, null_out ? nullptr : &e, base);
        o.tok("v");
        val(o, v);
        // an end pointer the call did not store is reported as such (never as an address difference)
        if (!null_out) {
            if (e == nullptr) {
                o.tok("end-not-stored");
            } else {
                o.num(e - t.p);
            }
        }
    });
    if (base == 0 || (base >= 2 && base <= 36)) {
        char* e = nullptr;
        errno   = 0;
        R v     = libf(t.p, &e, base);
        ref.tok("v");
        val(ref, v);
        if (!null_out) { ref.num(e - t.p); }
    }
}

// detail::strto_integer<T> called directly (not terminated input): error member, end, value.
// Reference: glibc strtoll/strtoull (errno ERANGE = overflow, end == str = no conversion); for the types
// narrower than 64 bits the 64-bit result is clamped to / the magnitude compared with the limits of the type.
template <typename T>
void do_strto_integer(Toks& in, Out& impl, Out& ref)
{
    int base   = static_cast<int>(in.num());
    auto codes = in.list();
    {
        Text t(codes, false);
        run_impl(impl, [&](Out& o) {
            auto r = etl::detail::strto_integer<T>(etl::string_view{t.p, t.n}, base);
            o.tok(r.error == etl::strings::to_integer_error::none
                      ? "ok"
                      : (r.error == etl::strings::to_integer_error::overflow ? "overflow" : "invalid"));
            o.num(r.end - t.p);
            val(o, r.value);
        });
    }
    bool has_nul = false;
    for (auto c : codes) { has_nul = has_nul || c == 0; }
    if (has_nul || !(base == 0 || (base >= 2 && base <= 36))) { return; }
    Text t(codes, true);
    char* e = nullptr;
    errno   = 0;
    if constexpr (sizeof(T) == 8) {
        T v { };
        if constexpr (std::is_signed_v<T>) {
            v = static_cast<T>(std::strtoll(t.p, &e, base));
        } else {
            v = static_cast<T>(std::strtoull(t.p, &e, base));
        }
        ref.tok(e == t.p ? "invalid" : (errno == ERANGE ? "overflow" : "ok"));
        ref.num(e - t.p);
        val(ref, v);
    } else if constexpr (std::is_signed_v<T>) {
        // narrower signed types: the 64-bit glibc result clamped to the type (C17 7.22.1.4 read for that type)
        long long v = std::strtoll(t.p, &e, base);
        if (e == t.p) {
            ref.tok("invalid").num(0);
            val(ref, T{});
        } else if (errno == ERANGE || v < static_cast<long long>(std::numeric_limits<T>::min())
                   || v > static_cast<long long>(std::numeric_limits<T>::max())) {
            ref.tok("overflow").num(e - t.p);
            val(ref, v < 0 ? std::numeric_limits<T>::min() : std::numeric_limits<T>::max());
        } else {
            ref.tok("ok").num(e - t.p);
            val(ref, static_cast<T>(v));
        }
    } else {
        // narrower unsigned types: magnitude from glibc's strtoull (which negates in 64 bits: undone here),
        // compared with the type's maximum, negated in the type
        char const* q = t.p;
        while (*q == ' ' || (*q >= '\t' && *q <= '\r')) { ++q; }
        bool neg             = *q == '-';
        unsigned long long u = std::strtoull(t.p, &e, base);
        if (e == t.p) {
            ref.tok("invalid").num(0);
            val(ref, T{});
        } else {
            unsigned long long m = neg ? 0ULL - u : u;
            if (errno == ERANGE || m > static_cast<unsigned long long>(std::numeric_limits<T>::max())) {
                ref.tok("overflow").num(e - t.p);
                val(ref, std::numeric_limits<T>::max());
            } else {
                ref.tok("ok").num(e - t.p);
                val(ref, static_cast<T>(neg ? static_cast<T>(0) - static_cast<T>(m) : static_cast<T>(m)));
            }
        }
    }
}

template <typename R, typename EtlF, typename StdF>
void do_sto(Toks& in, Out& impl, Out& ref, EtlF etlf, StdF stdf)
{
    int base   = static_cast<int>(in.num());
    auto codes = in.list();
    Text t(codes, false);
    bool null_out = g_null_out;
    run_impl(impl, [&](Out& o) {
        etl::size_t pos = 99;
        R v             = etlf(etl::string_view{t.p, t.n}, null_out ? nullptr : &pos, base);
        o.tok("v");
        val(o, v);
        if (!null_out) { o.num(static_cast<i64>(pos)); }
    });
    if (base == 0 || (base >= 2 && base <= 36)) {
        try {
            std::size_t pos = 99;
            R v             = stdf(std::string(t.p, t.n), &pos, base);
            Out r;
            r.tok("v");
            val(r, v);
            if (!null_out) { r.num(static_cast<i64>(pos)); }
            ref = r;
        } catch (std::exception const&) {
            // std reports an error by throwing: no defined (value, pos) -> na
        }
    }
}

// the defaulted forms name(str) and name(str, &pos): value of the first, pos and value of the second
template <typename R, typename Etl1, typename Etl2, typename Std1, typename Std2>
void do_sto_default(Toks& in, Out& impl, Out& ref, Etl1 etl1, Etl2 etl2, Std1 std1, Std2 std2)
{
    auto codes = in.list();
    Text t(codes, false);
    run_impl(impl, [&](Out& o) {
        etl::size_t pos = 99;
        R v1            = etl1(etl::string_view{t.p, t.n});
        R v2            = etl2(etl::string_view{t.p, t.n}, &pos);
        o.tok("v");
        val(o, v1);
        val(o, v2);
        o.num(static_cast<i64>(pos));
    });
    try {
        std::size_t pos = 99;
        R v1            = std1(std::string(t.p, t.n));
        R v2            = std2(std::string(t.p, t.n), &pos);
        Out r;
        r.tok("v");
        val(r, v1);
        val(r, v2);
        r.num(static_cast<i64>(pos));
        ref = r;
    } catch (std::exception const&) {
    }
}

// ---------------------------------------------------------------- idiv
// reference: truncating division in 128-bit arithmetic; min / -1 wraps for types narrower than int
// (the division happens in int, the conversion back is modular) and is undefined from int on
template <typename T>
void do_idiv(Toks& in, Out& impl, Out& ref)
{
    T x = parse_val<T>(in.str());
    T y = parse_val<T>(in.str());
    run_impl(impl, [&](Out& o) {
        // volatile: the operands must not be folded (a folded min / -1 would hide the trap)
        T volatile vx = x;
        T volatile vy = y;
        auto r        = etl::idiv<T>(vx, vy);
        o.tok("ok");
        val(o, r.quot);
        val(o, r.rem);
    });
    if (y != 0) {
        auto q = static_cast<i128>(x) / static_cast<i128>(y);
        auto r = static_cast<i128>(x) % static_cast<i128>(y);
        bool fits = q >= static_cast<i128>(std::numeric_limits<T>::min()) && q <= static_cast<i128>(std::numeric_limits<T>::max());
        if (fits) {
            ref.tok("ok");
            ref.big(q);
            ref.big(r);
        } else if (sizeof(T) < sizeof(int)) {
            ref.tok("ok");
            ref.big(static_cast<i128>(static_cast<T>(q)));
            ref.big(r);
        }
    }
}

template <typename R, typename EtlF, typename LibF>
void do_ato(Toks& in, Out& impl, Out& ref, EtlF etlf, LibF strto)
{
    auto codes = in.list();
    Text t(codes, true);
    run_impl(impl, [&](Out& o) {
        o.tok("v");
        val(o, etlf(t.p));
    });
    // C: ato*(s) == (R)strto*(s, NULL, 10) when representable, otherwise undefined
    errno  = 0;
    auto v = strto(t.p, nullptr, 10);
    if (errno == 0 && v >= static_cast<decltype(v)>(std::numeric_limits<R>::min())
        && v <= static_cast<decltype(v)>(std::numeric_limits<R>::max())) {
        ref.tok("v");
        val(ref, static_cast<R>(v));
    }
}

} // namespace

bool vh::run_case(std::string const& opname, Toks& in, Out& impl, Out& ref)
{
    // "<op>_ovf": the same operation on an input inside the recorded known-finding region;
    // "<op>_n": strto*/sto* called with a null end pointer / pos
    // "<op>_d": the call leaves out every defaulted argument (base 10, default options)
    auto op        = opname;
    g_null_out     = false;
    g_default_args = false;
    for (char const* suffix : {"_ovf", "_n", "_d"}) {
        auto n = std::strlen(suffix);
        if (op.size() > n && op.compare(op.size() - n, n, suffix) == 0) {
            op.resize(op.size() - n);
            if (std::strcmp(suffix, "_n") == 0) { g_null_out = true; }
            if (std::strcmp(suffix, "_d") == 0) { g_default_args = true; }
        }
    }
    if (op == "idiv") {
        auto ty = in.str();
        return with_type(ty, [&](auto tg) { do_idiv<typename decltype(tg)::type>(in, impl, ref); });
    }
    if (g_default_args) {
        using sv  = etl::string_view;
        using str = std::string const&;
        if (op == "stoi") {
            do_sto_default<int>(in, impl, ref, [](sv s) { return etl::stoi(s); }, [](sv s, etl::size_t* p) { return etl::stoi(s, p); },
                [](str s) { return std::stoi(s); }, [](str s, std::size_t* p) { return std::stoi(s, p); });
            return true;
        }
        if (op == "stol") {
            do_sto_default<long>(in, impl, ref, [](sv s) { return etl::stol(s); }, [](sv s, etl::size_t* p) { return etl::stol(s, p); },
                [](str s) { return std::stol(s); }, [](str s, std::size_t* p) { return std::stol(s, p); });
            return true;
        }
        if (op == "stoll") {
            do_sto_default<long long>(in, impl, ref, [](sv s) { return etl::stoll(s); }, [](sv s, etl::size_t* p) { return etl::stoll(s, p); },
                [](str s) { return std::stoll(s); }, [](str s, std::size_t* p) { return std::stoll(s, p); });
            return true;
        }
        if (op == "stoul") {
            do_sto_default<unsigned long>(in, impl, ref, [](sv s) { return etl::stoul(s); }, [](sv s, etl::size_t* p) { return etl::stoul(s, p); },
                [](str s) { return std::stoul(s); }, [](str s, std::size_t* p) { return std::stoul(s, p); });
            return true;
        }
        if (op == "stoull") {
            do_sto_default<unsigned long long>(in, impl, ref, [](sv s) { return etl::stoull(s); }, [](sv s, etl::size_t* p) { return etl::stoull(s, p); },
                [](str s) { return std::stoull(s); }, [](str s, std::size_t* p) { return std::stoull(s, p); });
            return true;
        }
        if (op != "to_chars" && op != "from_chars" && op != "to_integer") { return false; }
    }
    if (op == "strto_integer") {
        auto ty = in.str();
        return with_type(ty, [&](auto tg) { do_strto_integer<typename decltype(tg)::type>(in, impl, ref); });
    }
    if (op == "to_chars" || op == "to_chars_buf") {
        auto ty = in.str();
        return with_type(ty, [&](auto tg) { do_to_chars<typename decltype(tg)::type>(in, impl, ref, op == "to_chars_buf"); });
    }
    if (op == "from_integer" || op == "from_integer_buf") {
        auto ty = in.str();
        return with_type(ty, [&](auto tg) {
            do_from_integer<typename decltype(tg)::type>(in, impl, ref, op == "from_integer_buf");
        });
    }
    if (op == "from_chars") {
        auto ty = in.str();
        return with_type(ty, [&](auto tg) { do_from_chars<typename decltype(tg)::type>(in, impl, ref); });
    }
    if (op == "roundtrip") {
        auto ty = in.str();
        return with_type(ty, [&](auto tg) { do_roundtrip<typename decltype(tg)::type>(in, impl, ref); });
    }
    if (op == "roundtrip_strto") {
        auto ty = in.str();
        return with_type(ty, [&](auto tg) { do_roundtrip_strto<typename decltype(tg)::type>(in, impl, ref); });
    }
    if (op == "to_integer") {
        auto ty = in.str();
        return with_type(ty, [&](auto tg) { do_to_integer<typename decltype(tg)::type, true>(in, impl, ref); });
    }
    if (op == "to_integer_nc") { // check_overflow = false (signed overflow of int and wider types = "ub" via the trap)
        auto ty = in.str();
        return with_type(ty, [&](auto tg) { do_to_integer<typename decltype(tg)::type, false>(in, impl, ref); });
    }
    if (op == "to_string") {
        auto ty = in.str();
        if (ty == "i") { do_to_string<int>(in, impl, ref); return true; }
        if (ty == "l") { do_to_string<long>(in, impl, ref); return true; }
        if (ty == "ll") { do_to_string<long long>(in, impl, ref); return true; }
        if (ty == "u") { do_to_string<unsigned>(in, impl, ref); return true; }
        if (ty == "ul") { do_to_string<unsigned long>(in, impl, ref); return true; }
        if (ty == "ull") { do_to_string<unsigned long long>(in, impl, ref); return true; }
        return false;
    }
    if (op == "strtol") {
        do_strto<long>(in, impl, ref, [](char const* s, char const** e, int b) { return etl::strtol(s, e, b); },
            [](char const* s, char** e, int b) { return std::strtol(s, e, b); });
        return true;
    }
    if (op == "strtoll") {
        do_strto<long long>(in, impl, ref, [](char const* s, char const** e, int b) { return etl::strtoll(s, e, b); },
            [](char const* s, char** e, int b) { return std::strtoll(s, e, b); });
        return true;
    }
    if (op == "strtoul") {
        do_strto<unsigned long>(in, impl, ref,
            [](char const* s, char const** e, int b) { return etl::strtoul(s, e, b); },
            [](char const* s, char** e, int b) { return std::strtoul(s, e, b); });
        return true;
    }
    if (op == "strtoull") {
        do_strto<unsigned long long>(in, impl, ref,
            [](char const* s, char const** e, int b) { return etl::strtoull(s, e, b); },
            [](char const* s, char** e, int b) { return std::strtoull(s, e, b); });
        return true;
    }
    if (op == "stoi") {
        do_sto<int>(in, impl, ref, [](etl::string_view s, etl::size_t* p, int b) { return etl::stoi(s, p, b); },
            [](std::string const& s, std::size_t* p, int b) { return std::stoi(s, p, b); });
        return true;
    }
    if (op == "stol") {
        do_sto<long>(in, impl, ref, [](etl::string_view s, etl::size_t* p, int b) { return etl::stol(s, p, b); },
            [](std::string const& s, std::size_t* p, int b) { return std::stol(s, p, b); });
        return true;
    }
    if (op == "stoll") {
        do_sto<long long>(in, impl, ref,
            [](etl::string_view s, etl::size_t* p, int b) { return etl::stoll(s, p, b); },
            [](std::string const& s, std::size_t* p, int b) { return std::stoll(s, p, b); });
        return true;
    }
    if (op == "stoul") {
        do_sto<unsigned long>(in, impl, ref,
            [](etl::string_view s, etl::size_t* p, int b) { return etl::stoul(s, p, b); },
            [](std::string const& s, std::size_t* p, int b) { return std::stoul(s, p, b); });
        return true;
    }
    if (op == "stoull") {
        do_sto<unsigned long long>(in, impl, ref,
            [](etl::string_view s, etl::size_t* p, int b) { return etl::stoull(s, p, b); },
            [](std::string const& s, std::size_t* p, int b) { return std::stoull(s, p, b); });
        return true;
    }
    if (op == "atoi") {
        do_ato<int>(in, impl, ref, [](char const* s) { return etl::atoi(s); },
            [](char const* s, char** e, int b) { return std::strtol(s, e, b); });
        return true;
    }
    if (op == "atol") {
        do_ato<long>(in, impl, ref, [](char const* s) { return etl::atol(s); },
            [](char const* s, char** e, int b) { return std::strtol(s, e, b); });
        return true;
    }
    if (op == "atoll") {
        do_ato<long long>(in, impl, ref, [](char const* s) { return etl::atoll(s); },
            [](char const* s, char** e, int b) { return std::strtoll(s, e, b); });
        return true;
    }
    return false;
}

// Supervisor: like vh::supervise (a crashing case becomes the impl leg "crash <sig>" and the
// child is re-forked behind it), but after MAX_CRASHES crashed cases the remaining cases are
// not executed any more ("skip" legs, ignored by the engine): a change of the library that
// makes every second call abort under ASan would otherwise cost one process start per case.
// The crashes already reported are correspondence breaks / violations on their own.
int main(int argc, char** argv)
{
    constexpr std::size_t MAX_CRASHES = 40;
    for (int a = 1; a < argc; ++a) {
        if (std::strcmp(argv[a], "--nofork") == 0) { return vh::supervise(argc, argv); }
    }
    std::vector<std::string> cases;
    {
        static char buf[1 << 16];
        while (std::fgets(buf, sizeof buf, stdin) != nullptr) {
            std::string line = buf;
            while (!line.empty() && (line.back() == '\n' || line.back() == '\r')) { line.pop_back(); }
            cases.push_back(line);
        }
    }
    auto* done = static_cast<volatile std::size_t*>(
        mmap(nullptr, sizeof(std::size_t), PROT_READ | PROT_WRITE, MAP_SHARED | MAP_ANONYMOUS, -1, 0));
    *done = 0;
    auto run_from = [&](std::size_t start) {
        for (std::size_t k = start; k < cases.size(); ++k) {
            Toks in(cases[k]);
            Out impl;
            Out ref;
            std::string op = in.str();
            if (op.empty() || op[0] == '#') {
                std::fputs("skip | na\n", stdout);
            } else {
                if (!vh::run_case(op, in, impl, ref)) { impl.s = "unknown-op"; }
                if (impl.empty()) { impl.tok("void"); }
                if (ref.empty()) { ref.tok("na"); }
                std::fputs(impl.s.c_str(), stdout);
                std::fputs(" | ", stdout);
                std::fputs(ref.s.c_str(), stdout);
                std::fputc('\n', stdout);
            }
            std::fflush(stdout);
            *done = k + 1;
        }
    };
    std::size_t start   = 0;
    std::size_t crashes = 0;
    while (start < cases.size()) {
        std::fflush(stdout);
        if (crashes >= MAX_CRASHES) {
            for (std::size_t k = start; k < cases.size(); ++k) { std::fputs("skip | na\n", stdout); }
            break;
        }
        pid_t pid = fork();
        if (pid == 0) {
            run_from(start);
            std::_Exit(0);
        }
        int status = 0;
        waitpid(pid, &status, 0);
        if (WIFEXITED(status) && WEXITSTATUS(status) == 0 && *done == cases.size()) { break; }
        std::size_t bad = *done;
        if (bad >= cases.size()) { break; }
        int sig = WIFSIGNALED(status) ? WTERMSIG(status) : 1000 + WEXITSTATUS(status);
        std::printf("crash %d | na\n", sig);
        std::fflush(stdout);
        ++crashes;
        *done = bad + 1;
        start = bad + 1;
    }
    std::fflush(stdout);
    return 0;
}
