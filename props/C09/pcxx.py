#!/usr/bin/env python3
"""Parallel compile wrapper used as the 'compiler' of the C09 harness.

harness.cpp instantiates static_set / flat_set for 5 container families x 5 comparators x 4 capacities; as one
translation unit that is ~27 s of g++ -O1 (and /repo/include changes often, which invalidates the cached binary).
This wrapper compiles the SAME source six times (-DC09_PART=0..5: one comparator each for the int / tracked families,
two comparators each for the string-key / std-container families, see the end of harness.cpp),
at most C09_JOBS (default 4) at a time, and links the objects.  It accepts the g++ command line the engine builds:
    pcxx.py <flags...> <src>.cpp -o <exe>
"""
import os
import subprocess
import sys
import tempfile

NPARTS = 6


def main(argv):
    cxx = os.environ.get("C09_CXX", "g++")
    out = None
    src = None
    flags = []
    i = 0
    while i < len(argv):
        a = argv[i]
        if a == "-o":
            out = argv[i + 1]
            i += 2
            continue
        if a.endswith(".cpp") and not a.startswith("-"):
            src = a
        else:
            flags.append(a)
        i += 1
    if out is None or src is None:
        sys.stderr.write("pcxx.py: need <src>.cpp and -o <exe>\n")
        return 2
    tmp = tempfile.mkdtemp(prefix="c09-build-")
    objs = [os.path.join(tmp, "part%d.o" % k) for k in range(NPARTS)]
    cmds = [[cxx] + flags + ["-DC09_PART=%d" % k, "-c", src, "-o", objs[k]] for k in range(NPARTS)]
    jobs = max(1, int(os.environ.get("C09_JOBS", "4")))
    rc = 0
    running = []
    pending = list(cmds)
    while pending or running:
        while pending and len(running) < jobs:
            running.append(subprocess.Popen(pending.pop(0), stdout=subprocess.PIPE, stderr=subprocess.STDOUT))
        p = running.pop(0)
        o, _ = p.communicate()
        if p.returncode != 0:
            rc = p.returncode
            sys.stderr.write(o.decode("utf-8", "replace")[-6000:])
    if rc == 0:
        link = [cxx] + [f for f in flags if not f.startswith("-D") and not f.startswith("-I")] + objs + ["-o", out]
        p = subprocess.run(link, stdout=subprocess.PIPE, stderr=subprocess.STDOUT)
        rc = p.returncode
        if rc != 0:
            sys.stderr.write(p.stdout.decode("utf-8", "replace")[-6000:])
    for f in objs:
        if os.path.exists(f):
            os.unlink(f)
    os.rmdir(tmp)
    return rc


if __name__ == "__main__":
    sys.exit(main(sys.argv[1:]))
