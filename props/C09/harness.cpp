// C09 harness: etl::static_set / etl::flat_set / etl::flat_multiset (impl leg) vs std::set /
// std::multiset with the same comparator, bounded by the capacity (reference leg).
//
// A case is a whole history:   <config> <cap> <step> <step> ...
//   config = ss_<cmp>           etl::static_set<int, cap, Cmp>
//            fsv_<cmp>          etl::flat_set<int, etl::static_vector<int, cap>, Cmp>
//            fip_<cmp>          etl::flat_set<int, ipv_vector<int, cap>, Cmp>   (adaptor over etl::inplace_vector)
//            fsd_dyn            etl::flat_set<int, etl::static_vector<int, cap>, dyn_less>: a comparator with run-time
//                               state; s is constructed with dyn_less{ascending}, the swap partner t with
//                               dyn_less{descending} (reference: std::set<int, dyn_less> constructed the same way)
//            sst_<cmp>, fst_<cmp>  static_set / flat_set over static_vector with the TRACKED key type TK: a
//                               non-trivial element (user-provided copy/move/destructor) that counts live
//                               objects and flags every use of a moved-from or destroyed value; after every
//                               call live objects == size(s) + size(t), at the end of the history none is left
//            fbt_<cmp>          flat_set<TK, bvec<TK, cap>>: the tracked key over a STD container (std::vector behind an adaptor
//                               that adds the capacity / iterator preconditions): the control for the two above
//            sss_<cmp>, fss_<cmp>, fbs_<cmp>  static_set / flat_set over static_vector / flat_set over bvec with the key
//                               type SK = a std::string too long for the small-string buffer (defaulted copy / move: the
//                               library's own move assignment, which empties the source -- also on a self-move)
//            After every erase(key) / erase(pos) / erase(first, last) / erase_if that removed nothing the TK families print
//            "touched <n>": the number of element objects the call copied, moved or assigned to (the property: 0)
//            fms_<cmp>          etl::flat_multiset<int, etl::static_vector<int, 8>, Cmp>: "<config> <n> k1..kn"
//   cmp    = less | greater | tless (etl::less<>, heterogeneous lookups) | half (a/2 < b/2: equivalence != equality)
//            | tgreater (etl::greater<>: the second transparent comparator, descending; ss / fsv at capacity 3 and 8)
//   step   = i k | e k | ih h k | ir n k.. | as n k.. | asu n k.. | ek k | ep p | er a b | ef t m | cl | sw | x | rp n k..
//            asi n k..  construction from a forward-iterator range (no distance precondition) / flat_set(first, last)
//            asui n k.. flat_set(sorted_unique, first, last)        cp  copy assignment s = t (or copy-construct + move-assign)
//            im k / ic k        insert(value_type&&) / insert(value_type const&) named explicitly (i alternates)
//            ihm h k / ihc h k  insert(hint, value_type&&) / insert(hint, value_type const&) named explicitly (ih alternates)
//            eh h k             emplace_hint(hint, k) called directly
//            epc p              flat_set::erase(const_iterator) (ep calls erase(iterator))
//            iru n k..          flat_set::insert(sorted_unique, first, last) with a range sorted under the current comparator
//            asic d n k.. / asuic d n k..   fsd_dyn only: s = flat_set(first, last, dyn_less{d}) /
//                               s = flat_set(sorted_unique, first, last, dyn_less{d}): the constructors that TAKE the comparator
// Per step the leg prints "<code> <result> [ n e1..en ]"; a fired TETL_PRECONDITION prints
// "<code> contract [ contents ]" and ends the history.  After the history: size/empty/full/max_size,
// every lookup for every key 0..5 (and the heterogeneous ones for tless), the six relations against
// the swap partner, and the partner's contents.
#include "common.hpp"

#include <algorithm>
#include <set>
#include <string>
#include <vector>

#include <etl/algorithm.hpp>
#include <etl/flat_set.hpp>
#include <etl/functional.hpp>
#include <etl/inplace_vector.hpp>
#include <etl/set.hpp>
#include <etl/utility.hpp>
#include <etl/vector.hpp>

using namespace vh;

namespace {

// ---- the tracked key type ---------------------------------------------------------------
// state: 1 = alive, 2 = moved-from, 0 = destroyed.  `bad` counts every read of a value that is not alive,
// every assignment to / destruction of a destroyed object.  A moved-from object gets the value -777 so
// that a stale read also shows in the printed contents.  The move assignment TRANSFERS: it takes the source's value
// and then resets the source, without a self-assignment test (like libstdc++'s std::string with heap storage): an
// `x = etl::move(x)` leaves x moved-from.  `touched` counts every copy / move construction and every assignment.
struct TK {
    static inline long live    = 0;
    static inline long bad     = 0;
    static inline long touched = 0;
    int v;
    int state;
    TK(int x) noexcept : v(x), state(1) { ++live; } // NOLINT implicit: keys are written as ints in the cases
    TK(TK const& o) noexcept : v(o.v), state(1)
    {
        if (o.state != 1) { ++bad; }
        ++live;
        ++touched;
    }
    TK(TK&& o) noexcept : v(o.v), state(1)
    {
        if (o.state != 1) { ++bad; }
        o.state = 2;
        o.v     = -777;
        ++live;
        ++touched;
    }
    auto operator=(TK const& o) noexcept -> TK&
    {
        if (o.state != 1 || state == 0) { ++bad; }
        v     = o.v;
        state = 1;
        ++touched;
        return *this;
    }
    auto operator=(TK&& o) noexcept -> TK&
    {
        if (o.state != 1 || state == 0) { ++bad; }
        v       = o.v;
        state   = 1;
        o.state = 2; // take, then reset the source: on a self-move the reset wins
        o.v     = -777;
        ++touched;
        return *this;
    }
    ~TK()
    {
        if (state == 0) { ++bad; }
        state = 0;
        --live;
    }
    [[nodiscard]] auto get() const noexcept -> int
    {
        if (state != 1) { ++bad; }
        return v;
    }
    friend auto operator<(TK const& a, TK const& b) noexcept -> bool { return a.get() < b.get(); }
    friend auto operator>(TK const& a, TK const& b) noexcept -> bool { return a.get() > b.get(); }
    friend auto operator==(TK const& a, TK const& b) noexcept -> bool { return a.get() == b.get(); }
    friend auto operator!=(TK const& a, TK const& b) noexcept -> bool { return a.get() != b.get(); }
};

// ---- the string key type -------------------------------------------------------------------
// A std::string that does not fit the small-string buffer, so that copy / move really allocate and transfer; the
// special members are the library's (defaulted).  The encoding keeps the order of the ints (-16 .. 40); anything
// that is not an encoded key (an emptied, moved-from string) prints as -888.
struct SK {
    static constexpr char const* prefix = "a-key-that-is-longer-than-the-small-string-buffer-";
    static constexpr std::size_t plen   = 50;
    std::string s;
    SK(int x) : s(prefix) { s.push_back(static_cast<char>('A' + 16 + x)); } // NOLINT implicit, like TK
    [[nodiscard]] auto get() const -> int
    {
        if (s.size() != plen + 1 || s.compare(0, plen, prefix) != 0) { return -888; }
        return static_cast<int>(s.back()) - 'A' - 16;
    }
    friend auto operator<(SK const& a, SK const& b) -> bool { return a.s < b.s; }
    friend auto operator>(SK const& a, SK const& b) -> bool { return a.s > b.s; }
    friend auto operator==(SK const& a, SK const& b) -> bool { return a.s == b.s; }
    friend auto operator!=(SK const& a, SK const& b) -> bool { return a.s != b.s; }
};

inline auto as_int(int x) -> int { return x; }
inline auto as_int(TK const& x) -> int { return x.get(); }
inline auto as_int(SK const& x) -> int { return x.get(); }
template <typename T>
concept KeyLike = std::is_same_v<T, int> || std::is_same_v<T, TK> || std::is_same_v<T, SK>;

// ---- comparators ------------------------------------------------------------------------
struct half_less {
    template <KeyLike X, KeyLike Y>
    auto operator()(X const& a, Y const& b) const -> bool { return as_int(a) / 2 < as_int(b) / 2; }
};

// a comparator with run-time state: flat_set stores it (_compare), copies it on copy assignment and
// exchanges it on swap; the constructors without a comparator argument default-construct it (ascending)
// It is also TRANSPARENT (heterogeneous point / band keys, declared below): a heterogeneous overload that compared
// with Compare{} instead of the stored _compare is visible only with a comparator that is both.
struct dyn_less {
    using is_transparent = void;
    bool desc            = false;
    template <typename X, typename Y>
    auto operator()(X const& a, Y const& b) const -> bool
    {
        return desc ? b < a : a < b;
    }
};

// heterogeneous keys for the transparent comparator: a point and a band [lo, hi]
struct HK {
    int v;
};
template <KeyLike T> auto operator<(HK a, T const& b) -> bool { return a.v < as_int(b); }
template <KeyLike T> auto operator<(T const& a, HK b) -> bool { return as_int(a) < b.v; }
struct HB {
    int lo;
    int hi;
};
template <KeyLike T> auto operator<(HB a, T const& b) -> bool { return a.hi < as_int(b); }
template <KeyLike T> auto operator<(T const& a, HB b) -> bool { return as_int(a) < b.lo; }
// the same keys as the transparent greater<> sees them (descending order): e > band = e above the band, band > e = e below it
template <KeyLike T> auto operator>(HK a, T const& b) -> bool { return a.v > as_int(b); }
template <KeyLike T> auto operator>(T const& a, HK b) -> bool { return as_int(a) > b.v; }
template <KeyLike T> auto operator>(HB a, T const& b) -> bool { return a.lo > as_int(b); }
template <KeyLike T> auto operator>(T const& a, HB b) -> bool { return as_int(a) > b.hi; }

// a forward (not random-access) iterator over an int array: the iterator-range constructors and
// insert(first, last) take their `if constexpr (RandomAccessIterator)` = false branch with it
struct fwd_it {
    using iterator_category = etl::forward_iterator_tag;
    using value_type        = int;
    using difference_type   = std::ptrdiff_t;
    using pointer           = int const*;
    using reference         = int const&;
    int const* p;
    auto operator*() const -> reference { return *p; }
    auto operator++() -> fwd_it& { ++p; return *this; }
    auto operator++(int) -> fwd_it { auto c = *this; ++p; return c; }
    friend auto operator==(fwd_it a, fwd_it b) -> bool { return a.p == b.p; }
    friend auto operator!=(fwd_it a, fwd_it b) -> bool { return a.p != b.p; }
};

// ---- a minimal vector-like adaptor over etl::inplace_vector (it has no insert/erase of its own) ----
template <typename T, std::size_t N>
struct ipv_vector {
    using value_type             = T;
    using size_type              = std::size_t;
    using difference_type        = std::ptrdiff_t;
    using reference              = T&;
    using const_reference        = T const&;
    using iterator               = T*;
    using const_iterator         = T const*;
    using reverse_iterator       = etl::reverse_iterator<iterator>;
    using const_reverse_iterator = etl::reverse_iterator<const_iterator>;

    ipv_vector() = default;
    template <typename It>
    ipv_vector(It first, It last)
    {
        TETL_PRECONDITION(static_cast<size_type>(last - first) <= N);
        for (; first != last; ++first) { v.unchecked_push_back(*first); }
    }
    // etl::inplace_vector is copy/move constructible but not assignable: assignment is clear + refill
    ipv_vector(ipv_vector const& o) : v(o.v) { }
    ipv_vector(ipv_vector&& o) noexcept : v(o.v) { o.v.clear(); }
    auto operator=(ipv_vector const& o) -> ipv_vector&
    {
        if (this != &o) {
            v.clear();
            for (auto const& x : o.v) { v.unchecked_push_back(x); }
        }
        return *this;
    }
    auto operator=(ipv_vector&& o) noexcept -> ipv_vector&
    {
        if (this != &o) {
            v.clear();
            for (auto const& x : o.v) { v.unchecked_push_back(x); }
            o.v.clear();
        }
        return *this;
    }
    friend auto swap(ipv_vector& a, ipv_vector& b) noexcept -> void
    {
        ipv_vector tmp(etl::move(a));
        a = etl::move(b);
        b = etl::move(tmp);
    }

    auto begin() noexcept -> iterator { return v.begin(); }
    auto begin() const noexcept -> const_iterator { return v.begin(); }
    auto end() noexcept -> iterator { return v.end(); }
    auto end() const noexcept -> const_iterator { return v.end(); }
    auto rbegin() noexcept -> reverse_iterator { return reverse_iterator(end()); }
    auto rbegin() const noexcept -> const_reverse_iterator { return const_reverse_iterator(end()); }
    auto rend() noexcept -> reverse_iterator { return reverse_iterator(begin()); }
    auto rend() const noexcept -> const_reverse_iterator { return const_reverse_iterator(begin()); }
    auto crbegin() const noexcept -> const_reverse_iterator { return rbegin(); }
    auto crend() const noexcept -> const_reverse_iterator { return rend(); }
    [[nodiscard]] auto empty() const noexcept -> bool { return v.empty(); }
    [[nodiscard]] auto size() const noexcept -> size_type { return v.size(); }
    [[nodiscard]] auto max_size() const noexcept -> size_type { return N; }
    auto clear() noexcept -> void { v.clear(); }

    template <typename... Args>
    auto emplace(const_iterator pos, Args&&... args) -> iterator
    {
        auto const idx = pos - begin();
        v.unchecked_emplace_back(etl::forward<Args>(args)...); // TETL_PRECONDITION(size() != max_size())
        etl::rotate(begin() + idx, end() - 1, end());
        return begin() + idx;
    }
    auto erase(const_iterator first, const_iterator last) -> iterator
    {
        TETL_PRECONDITION(begin() <= first and first <= end());
        TETL_PRECONDITION(begin() <= last and last <= end());
        TETL_PRECONDITION(first <= last);
        auto* p = begin() + (first - begin());
        auto n  = last - first;
        etl::move(p + n, end(), p);
        for (; n > 0; --n) { v.pop_back(); }
        return p;
    }
    auto erase(const_iterator pos) -> iterator
    {
        TETL_PRECONDITION(begin() <= pos and pos <= end());
        return erase(pos, pos + 1);
    }

    etl::inplace_vector<T, N> v{};
};

// ---- the same adaptor over a STD container: std::vector plus the capacity / iterator preconditions the model has.
// The control for static_vector: erase(first, last) is std::vector's own ----
template <typename T, std::size_t N>
struct bvec {
    using value_type             = T;
    using size_type              = std::size_t;
    using difference_type        = std::ptrdiff_t;
    using reference              = T&;
    using const_reference        = T const&;
    using iterator               = T*;
    using const_iterator         = T const*;
    using reverse_iterator       = etl::reverse_iterator<iterator>;
    using const_reverse_iterator = etl::reverse_iterator<const_iterator>;

    bvec() { v.reserve(N); }
    template <typename It>
    bvec(It first, It last)
    {
        v.reserve(N);
        TETL_PRECONDITION(static_cast<size_type>(last - first) <= N);
        for (; first != last; ++first) { v.emplace_back(*first); }
    }
    bvec(bvec const& o) { v.reserve(N); v = o.v; }
    bvec(bvec&& o) noexcept : v(std::move(o.v)) { o.v.clear(); }
    auto operator=(bvec const& o) -> bvec&
    {
        if (this != &o) { v = o.v; }
        return *this;
    }
    auto operator=(bvec&& o) noexcept -> bvec&
    {
        if (this != &o) {
            v = std::move(o.v);
            o.v.clear();
        }
        return *this;
    }
    friend auto swap(bvec& a, bvec& b) noexcept -> void { a.v.swap(b.v); }

    auto begin() noexcept -> iterator { return v.data(); }
    auto begin() const noexcept -> const_iterator { return v.data(); }
    auto end() noexcept -> iterator { return v.data() + v.size(); }
    auto end() const noexcept -> const_iterator { return v.data() + v.size(); }
    auto rbegin() noexcept -> reverse_iterator { return reverse_iterator(end()); }
    auto rbegin() const noexcept -> const_reverse_iterator { return const_reverse_iterator(end()); }
    auto rend() noexcept -> reverse_iterator { return reverse_iterator(begin()); }
    auto rend() const noexcept -> const_reverse_iterator { return const_reverse_iterator(begin()); }
    auto crbegin() const noexcept -> const_reverse_iterator { return rbegin(); }
    auto crend() const noexcept -> const_reverse_iterator { return rend(); }
    [[nodiscard]] auto empty() const noexcept -> bool { return v.empty(); }
    [[nodiscard]] auto size() const noexcept -> size_type { return v.size(); }
    [[nodiscard]] auto max_size() const noexcept -> size_type { return N; }
    auto clear() noexcept -> void { v.clear(); }

    template <typename... Args>
    auto emplace(const_iterator pos, Args&&... args) -> iterator
    {
        TETL_PRECONDITION(size() != max_size());
        auto const idx = pos - begin();
        v.emplace(v.begin() + idx, etl::forward<Args>(args)...);
        return begin() + idx;
    }
    auto erase(const_iterator first, const_iterator last) -> iterator
    {
        TETL_PRECONDITION(begin() <= first and first <= end());
        TETL_PRECONDITION(begin() <= last and last <= end());
        TETL_PRECONDITION(first <= last);
        auto const idx = first - begin();
        v.erase(v.begin() + idx, v.begin() + (last - begin()));
        return begin() + idx;
    }
    auto erase(const_iterator pos) -> iterator
    {
        TETL_PRECONDITION(begin() <= pos and pos <= end());
        return erase(pos, pos + 1);
    }

    std::vector<T> v{};
};

// Runs f with the contract handler armed; true = a TETL_PRECONDITION fired (f was left by longjmp).
// Not inlined and without locals of its own, so that everything f touches lives in the caller's
// memory across the longjmp.
template <typename F>
__attribute__((noinline)) bool fires(F& f)
{
    g_armed = true;
    if (setjmp(g_jmp) == 0) {
        f();
        g_armed = false;
        return false;
    }
    g_armed = false;
    return true;
}

// ---- printing ---------------------------------------------------------------------------
template <typename It>
void plist(Out& o, It f, It l)
{
    std::size_t n = 0;
    for (auto i = f; i != l; ++i) { ++n; }
    o.num(static_cast<i64>(n));
    for (auto i = f; i != l; ++i) { o.num(static_cast<i64>(as_int(*i))); }
}

template <typename C>
void contents(Out& o, C const& c)
{
    o.tok("[");
    plist(o, c.begin(), c.end());
    o.tok("]");
}

template <typename S, typename It>
auto off(S const& s, It it) -> i64
{
    typename S::const_iterator b = s.begin();
    typename S::const_iterator e = it;
    return static_cast<i64>(std::distance(b, e));
}

template <typename Cmp>
bool sorted_unique_under(std::vector<int> const& v, Cmp cmp)
{
    for (std::size_t i = 1; i < v.size(); ++i) {
        if (!cmp(v[i - 1], v[i])) { return false; }
    }
    return true;
}

enum class Kind { static_set, flat_set };

// the erase calls: erase(key), erase(pos), erase(first, last), erase_if
inline auto is_erase_call(std::string const& code) -> bool
{
    return code == "ek" || code == "ep" || code == "epc" || code == "er" || code == "ef";
}

template <typename S, typename K>
void lookups(Out& o, S const& cs, S& s, K const& key)
{
    // const and non-const overloads must agree; the non-const answer is printed
    auto f = s.find(key);
    o.num(off(s, f));
    o.num(static_cast<i64>(cs.count(key)));
    o.b(cs.contains(key));
    o.num(off(s, s.lower_bound(key)));
    o.num(off(s, s.upper_bound(key)));
    auto r = s.equal_range(key);
    o.num(off(s, r.first)).num(off(s, r.second));
    auto cr = cs.equal_range(key);
    if (off(cs, cs.find(key)) != off(s, f) || off(cs, cs.lower_bound(key)) != off(s, s.lower_bound(key))
        || off(cs, cs.upper_bound(key)) != off(s, s.upper_bound(key)) || off(cs, cr.first) != off(s, r.first)
        || off(cs, cr.second) != off(s, r.second)) {
        o.tok("const-overload-differs");
    }
}

template <typename S>
void relations(Out& o, S const& a, S const& b)
{
    o.tok("R").b(a == b).b(a != b).b(a < b).b(a <= b).b(a > b).b(a >= b);
}

template <Kind K, typename S, bool Transparent, bool Impl>
void observers(Out& o, S& s, S& t, std::size_t cap)
{
    S const& cs = s;
    o.tok("S").num(static_cast<i64>(cs.size())).b(cs.empty());
    if constexpr (Impl) {
        if constexpr (K == Kind::static_set) { o.b(cs.full()); } else { o.b(cs.size() == cs.max_size()); }
        o.num(static_cast<i64>(cs.max_size()));
        // the other ways to walk the set must show the same sequence; key_comp/value_comp the same order
        std::vector<int> fw, w1, w2, w3, w4;
        for (auto it = cs.begin(); it != cs.end(); ++it) { fw.push_back(as_int(*it)); }
        for (auto it = s.begin(); it != s.end(); ++it) { w1.push_back(as_int(*it)); }
        for (auto it = cs.cbegin(); it != cs.cend(); ++it) { w2.push_back(as_int(*it)); }
        for (auto it = cs.rbegin(); it != cs.rend(); ++it) { w3.insert(w3.begin(), as_int(*it)); }
        for (auto it = s.rbegin(); it != s.rend(); ++it) { w4.insert(w4.begin(), as_int(*it)); }
        std::vector<int> w5;
        for (auto it = cs.crbegin(); it != cs.crend(); ++it) { w5.insert(w5.begin(), as_int(*it)); }
        if (w1 != fw || w2 != fw || w3 != fw || w4 != fw || w5 != fw) { o.tok("iteration-differs"); }
        auto kc = cs.key_comp();
        auto vc = cs.value_comp();
        if constexpr (std::is_same_v<typename S::key_compare, dyn_less>) {
            if (kc.desc != vc.desc) { o.tok("key-comp-differs"); }
        } else {
            typename S::key_compare fresh{};
            for (int a = 0; a <= 5; ++a) {
                for (int b = 0; b <= 5; ++b) {
                    using V = typename S::value_type;
                    if (kc(V(a), V(b)) != fresh(V(a), V(b)) || vc(V(a), V(b)) != fresh(V(a), V(b))) { o.tok("key-comp-differs"); }
                }
            }
        }
    } else {
        o.b(cs.size() == cap).num(static_cast<i64>(cap)); // std::set: the bound of the property
    }
    if constexpr (std::is_same_v<typename S::key_compare, dyn_less>) {
        o.tok("D").b(cs.key_comp().desc); // which order the current set holds now
    }
    // every key of the universe: 0..5 in the exhaustive part, -3..8 for the capacity-8 histories
    int const qlo = cap >= 8 ? -3 : 0;
    int const qhi = cap >= 8 ? 8 : 5;
    for (int q = qlo; q <= qhi; ++q) {
        o.tok("q");
        lookups(o, cs, s, typename S::value_type(q));
    }
    if constexpr (Transparent) {
        for (int q = qlo; q <= qhi; ++q) {
            o.tok("t");
            lookups(o, cs, s, HK{q});
        }
        for (int q = qlo; q < qhi; ++q) {
            o.tok("b");
            lookups(o, cs, s, HB{q, q + 1});
        }
    }
    relations(o, cs, static_cast<S const&>(t));
    o.tok("T");
    contents(o, t);
}

// ---- one history on the etl container -----------------------------------------------------
template <Kind K, typename S, typename Container, bool Transparent>
void run_impl(Toks in, Out& out, std::size_t cap)
{
    constexpr bool tracked = std::is_same_v<typename S::value_type, TK>;
    TK::live = 0;
    TK::bad  = 0;
    {
    auto mk = [](bool second) {
        if constexpr (std::is_same_v<typename S::key_compare, dyn_less>) {
            return S(dyn_less{second}); // flat_set(Compare const&)
        } else {
            (void)second;
            return S{};
        }
    };
    S s = mk(false);
    S t = mk(true);
    bool stopped = false;
    while (in.more() && !stopped) {
        std::string code = in.str();
        Out step;
        bool fired = false;
        // read the arguments first (no etl code involved)
        int k = 0, a = 0, b = 0;
        std::vector<int> ks;
        if (code == "i" || code == "e" || code == "ek" || code == "im" || code == "ic") { k = static_cast<int>(in.num()); }
        if (code == "ih" || code == "ihm" || code == "ihc" || code == "eh") { a = static_cast<int>(in.num()); k = static_cast<int>(in.num()); }
        if (code == "ep" || code == "epc") { a = static_cast<int>(in.num()); }
        if (code == "er" || code == "ef") { a = static_cast<int>(in.num()); b = static_cast<int>(in.num()); }
        if (code == "asic" || code == "asuic") { a = static_cast<int>(in.num()); }
        if (code == "ir" || code == "as" || code == "asu" || code == "rp" || code == "asi" || code == "asui" || code == "asic"
            || code == "asuic" || code == "iru") {
            for (auto x : in.list()) { ks.push_back(static_cast<int>(x)); }
        }
        bool const odd = (in.i & 1U) != 0U; // alternates between equivalent routes through the interface
        step.tok(code);
        auto const size_before = s.size();
        TK::touched            = 0;
        auto call = [&]() {
            if (code == "i" || code == "im" || code == "ic") {
                typename S::value_type kv(k);
                bool const lvalue = code == "ic" || (code == "i" && odd);
                auto r = lvalue ? s.insert(kv) : s.insert(typename S::value_type(k)); // const& and && overloads
                if (r.first == nullptr) { step.tok("null"); } else { step.num(off(s, r.first)); }
                step.b(r.second);
            } else if (code == "e") {
                auto r = s.emplace(k);
                if (r.first == nullptr) { step.tok("null"); } else { step.num(off(s, r.first)); }
                step.b(r.second);
            } else if (code == "ir") {
                if (odd) {
                    s.insert(ks.data(), ks.data() + ks.size());
                } else {
                    s.insert(fwd_it{ks.data()}, fwd_it{ks.data() + ks.size()});
                }
            } else if (code == "asi") {
                if (K == Kind::static_set || odd) {
                    s = S(fwd_it{ks.data()}, fwd_it{ks.data() + ks.size()});
                } else {
                    if constexpr (K == Kind::flat_set) { s = S(ks.data(), ks.data() + ks.size()); }
                }
            } else if (code == "cp") {
                if (odd) {
                    s = t;
                } else {
                    S u(t);
                    s = etl::move(u);
                }
            } else if (code == "ek") {
                step.num(static_cast<i64>(s.erase(typename S::value_type(k))));
            } else if (code == "ep") {
                step.num(off(s, s.erase(s.begin() + a)));
            } else if (code == "epc") {
                if constexpr (K == Kind::flat_set) {
                    step.num(off(s, s.erase(s.cbegin() + a))); // the const_iterator overload
                } else {
                    step.num(off(s, s.erase(s.begin() + a)));  // static_set has the iterator overload only
                }
            } else if (code == "er") {
                step.num(off(s, s.erase(s.begin() + a, s.begin() + b)));
            } else if (code == "cl") {
                s.clear();
            } else if (code == "sw") {
                if (odd) { s.swap(t); } else { swap(s, t); } // member and free function
            } else if (code == "as") {
                if constexpr (K == Kind::static_set) {
                    s = S(ks.data(), ks.data() + ks.size());
                } else {
                    s = S(Container(ks.data(), ks.data() + ks.size()));
                }
            } else {
                if constexpr (K == Kind::flat_set) {
                    if (code == "ih" || code == "ihm" || code == "ihc") {
                        auto h = std::min(static_cast<std::size_t>(a), static_cast<std::size_t>(s.size())); // a valid hint
                        typename S::value_type kv(k);
                        bool const lvalue = code == "ihc" || (code == "ih" && odd);
                        step.num(off(s, lvalue ? s.insert(s.cbegin() + h, kv) : s.insert(s.cbegin() + h, typename S::value_type(k))));
                    } else if (code == "eh") {
                        auto h = std::min(static_cast<std::size_t>(a), static_cast<std::size_t>(s.size())); // a valid hint
                        step.num(off(s, s.emplace_hint(s.cbegin() + h, k)));
                    } else if (code == "asu") {
                        s = S(etl::sorted_unique, Container(ks.data(), ks.data() + ks.size()));
                    } else if (code == "asui") {
                        s = S(etl::sorted_unique, ks.data(), ks.data() + ks.size());
                    } else if (code == "iru") {
                        if (odd) {
                            s.insert(etl::sorted_unique, ks.data(), ks.data() + ks.size());
                        } else {
                            s.insert(etl::sorted_unique, fwd_it{ks.data()}, fwd_it{ks.data() + ks.size()});
                        }
                    } else if (code == "asic" || code == "asuic") {
                        if constexpr (std::is_same_v<typename S::key_compare, dyn_less>) {
                            dyn_less const c{a != 0};
                            if (code == "asuic") {
                                s = S(etl::sorted_unique, ks.data(), ks.data() + ks.size(), c);
                            } else if (odd) {
                                s = S(fwd_it{ks.data()}, fwd_it{ks.data() + ks.size()}, c);
                            } else {
                                s = S(ks.data(), ks.data() + ks.size(), c);
                            }
                        } else {
                            step.tok("unknown-step");
                        }
                    } else if (code == "rp") {
                        s.replace(Container(ks.data(), ks.data() + ks.size()));
                    } else if (code == "x") {
                        auto c = etl::move(s).extract();
                        plist(step, c.begin(), c.end());
                    } else if (code == "ef") {
                        using V = typename S::value_type;
                        auto n  = (a == 0) ? etl::erase_if(s, [b](V const& x) { return as_int(x) % 2 == b; })
                                           : etl::erase_if(s, [b](V const& x) { return as_int(x) < b; });
                        step.num(static_cast<i64>(n));
                    } else {
                        step.tok("unknown-step");
                    }
                } else {
                    step.tok("nomember");
                }
            }
        };
        if (fires(call)) {
            step.s.clear();
            step.tok(code).tok("contract");
            fired = true;
        }
        contents(step, s);
        if constexpr (tracked) {
            // an erase that removed nothing: how many element objects did the call copy / move / assign to
            if (!fired && is_erase_call(code) && s.size() == size_before) { step.tok("touched").num(TK::touched); }
            // a longjmp out of a fired precondition skips destructors of temporaries: no accounting afterwards
            if (!fired && TK::live != static_cast<long>(s.size() + t.size())) { step.tok("live-objects-differ"); }
        }
        out.tok(step.s);
        if (fired) { stopped = true; }
    }
    observers<K, S, Transparent, true>(out, s, t, cap);
    if constexpr (tracked) {
        if (stopped) { TK::live = static_cast<long>(s.size() + t.size()); }
    }
    }
    if constexpr (tracked) {
        if (TK::live != 0) { out.tok("leaked-objects"); }
        if (TK::bad != 0) { out.tok("used-dead-or-moved-from-value"); }
    }
}

// ---- the same history on std::set, bounded by cap -----------------------------------------
template <Kind K, typename R, typename Cmp, bool Transparent>
void run_ref(Toks in, Out& out, std::size_t cap, bool counted = false)
{
    auto mk = [](bool second) {
        if constexpr (std::is_same_v<Cmp, dyn_less>) {
            return R(dyn_less{second});
        } else {
            (void)second;
            return R{};
        }
    };
    R s = mk(false);
    R t = mk(true);
    bool na      = false;
    bool stopped = false;
    // insert under the capacity rule of the property: 0 = done, 1 = full (failure reported, unchanged)
    auto bounded_insert = [&](int k, Out& step, bool print) -> int {
        auto it = s.find(k);
        if (it == s.end() && s.size() == cap) { return 1; }
        auto r = s.insert(k);
        if (print) { step.num(off(s, r.first)).b(r.second); }
        return 0;
    };
    while (in.more() && !stopped && !na) {
        std::string code = in.str();
        Out step;
        step.tok(code);
        bool fired = false;
        auto const size_before = s.size();
        if (code == "i" || code == "e" || code == "im" || code == "ic") {
            int k = static_cast<int>(in.num());
            if (bounded_insert(k, step, true) == 1) {
                if constexpr (K == Kind::static_set) { step.tok("null").b(false); } else { fired = true; }
            }
        } else if (code == "ih" || code == "ihm" || code == "ihc" || code == "eh") {
            if (K != Kind::flat_set) { na = true; break; }
            auto h = static_cast<std::size_t>(in.num());
            int k  = static_cast<int>(in.num());
            h = std::min(h, s.size()); // a valid hint
            auto it = s.find(k);
            if (it == s.end() && s.size() == cap) {
                fired = true;
            } else {
                step.num(off(s, s.insert(std::next(s.begin(), static_cast<long>(h)), k)));
            }
        } else if (code == "ir" || code == "iru") {
            auto ks = in.list();
            if (code == "iru") {
                // [flat.set.modifiers]: equivalent to insert(first, last) for a range sorted and unique under the comparator
                std::vector<int> v(ks.begin(), ks.end());
                if (K != Kind::flat_set || !sorted_unique_under(v, s.key_comp())) { na = true; break; }
            }
            for (auto k : ks) {
                Out dummy;
                if (bounded_insert(static_cast<int>(k), dummy, false) == 1) {
                    if constexpr (K == Kind::flat_set) { fired = true; break; }
                }
            }
        } else if (code == "as") {
            auto ks = in.list();
            if (ks.size() > cap) { na = true; break; }
            s = R(ks.begin(), ks.end());
        } else if (code == "asi") {
            auto ks = in.list();
            R tmp{};
            for (auto k : ks) {
                if (tmp.find(static_cast<int>(k)) == tmp.end() && tmp.size() == cap) {
                    if constexpr (K == Kind::flat_set) { na = true; break; } // capacity exceeded: outside the property
                    continue;                                                // static_set: the key is refused
                }
                tmp.insert(static_cast<int>(k));
            }
            if (na) { break; }
            s = tmp;
        } else if (code == "asic" || code == "asuic") {
            if constexpr (std::is_same_v<Cmp, dyn_less>) {
                dyn_less const c{in.num() != 0};
                auto ks = in.list();
                std::vector<int> v(ks.begin(), ks.end());
                if (code == "asuic") {
                    if (v.size() > cap || !sorted_unique_under(v, c)) { na = true; break; }
                    s = R(v.begin(), v.end(), c);
                } else {
                    R tmp(c);
                    for (auto k : v) {
                        if (tmp.find(k) == tmp.end() && tmp.size() == cap) { na = true; break; } // capacity exceeded: outside the property
                        tmp.insert(k);
                    }
                    if (na) { break; }
                    s = tmp; // the assignment copies the comparator
                }
            } else {
                na = true;
                break;
            }
        } else if (code == "cp") {
            s = t;
        } else if (code == "asu" || code == "asui") {
            auto ks = in.list();
            std::vector<int> v(ks.begin(), ks.end());
            if (K != Kind::flat_set || v.size() > cap || !sorted_unique_under(v, Cmp{})) { na = true; break; }
            s = R(v.begin(), v.end()); // a new set: default-constructed comparator
        } else if (code == "rp") {
            auto ks = in.list();
            std::vector<int> v(ks.begin(), ks.end());
            if (K != Kind::flat_set || v.size() > cap || !sorted_unique_under(v, s.key_comp())) { na = true; break; }
            s.clear(); // the set keeps its comparator
            s.insert(v.begin(), v.end());
        } else if (code == "ek") {
            step.num(static_cast<i64>(s.erase(static_cast<int>(in.num()))));
        } else if (code == "ep" || code == "epc") {
            auto p = static_cast<std::size_t>(in.num());
            if (p >= s.size()) { na = true; break; }
            step.num(off(s, s.erase(std::next(s.begin(), static_cast<long>(p)))));
        } else if (code == "er") {
            auto a = static_cast<std::size_t>(in.num());
            auto b = static_cast<std::size_t>(in.num());
            if (!(a <= b && b <= s.size())) { na = true; break; }
            step.num(off(s, s.erase(std::next(s.begin(), static_cast<long>(a)), std::next(s.begin(), static_cast<long>(b)))));
        } else if (code == "ef") {
            int a = static_cast<int>(in.num());
            int b = static_cast<int>(in.num());
            if (K != Kind::flat_set) { na = true; break; }
            auto n = (a == 0) ? std::erase_if(s, [b](int x) { return x % 2 == b; })
                              : std::erase_if(s, [b](int x) { return x < b; });
            step.num(static_cast<i64>(n));
        } else if (code == "cl") {
            s.clear();
        } else if (code == "sw") {
            s.swap(t);
        } else if (code == "x") {
            if (K != Kind::flat_set) { na = true; break; }
            step.list(s.begin(), s.end());
            s.clear();
        } else {
            na = true;
            break;
        }
        if (fired) {
            step.s.clear();
            step.tok(code).tok("contract");
            stopped = true;
        }
        contents(step, s);
        // [associative.reqmts]: an erase that removes nothing has no effect; std::set (node based) never assigns to
        // an element at all
        if (counted && !fired && is_erase_call(code) && s.size() == size_before) { step.tok("touched").num(0); }
        out.tok(step.s);
    }
    if (na) {
        out.s.clear();
        out.tok("na");
        return;
    }
    observers<K, R, Transparent, false>(out, s, t, cap);
}

template <typename EtlCmp, typename TkCmp, typename StdCmp, bool Transparent, std::size_t Cap>
bool dispatch_cap(std::string const& fam, Toks& in, Out& impl, Out& ref)
{
    using R = std::set<int, StdCmp>;
    if (fam == "ss") {
        using S = etl::static_set<int, Cap, EtlCmp>;
        run_impl<Kind::static_set, S, void, Transparent>(in, impl, Cap);
        run_ref<Kind::static_set, R, StdCmp, Transparent>(in, ref, Cap);
        return true;
    }
    if (fam == "fsv") {
        using C = etl::static_vector<int, Cap>;
        using S = etl::flat_set<int, C, EtlCmp>;
        run_impl<Kind::flat_set, S, C, Transparent>(in, impl, Cap);
        run_ref<Kind::flat_set, R, StdCmp, Transparent>(in, ref, Cap);
        return true;
    }
    if (fam == "fip") {
        using C = ipv_vector<int, Cap>;
        using S = etl::flat_set<int, C, EtlCmp>;
        run_impl<Kind::flat_set, S, C, Transparent>(in, impl, Cap);
        run_ref<Kind::flat_set, R, StdCmp, Transparent>(in, ref, Cap);
        return true;
    }
    if constexpr (Cap == 3 || Cap == 4 || Cap == 8) {
    if (fam == "sst") {
        using S = etl::static_set<TK, Cap, TkCmp>;
        run_impl<Kind::static_set, S, void, Transparent>(in, impl, Cap);
        run_ref<Kind::static_set, R, StdCmp, Transparent>(in, ref, Cap, true);
        return true;
    }
    if (fam == "fst") {
        using C = etl::static_vector<TK, Cap>;
        using S = etl::flat_set<TK, C, TkCmp>;
        run_impl<Kind::flat_set, S, C, Transparent>(in, impl, Cap);
        run_ref<Kind::flat_set, R, StdCmp, Transparent>(in, ref, Cap, true);
        return true;
    }
    }
    return false;
}

template <typename EtlCmp, typename TkCmp, typename StdCmp, bool Transparent>
bool dispatch(std::string const& fam, Toks& in, Out& impl, Out& ref)
{
    auto cap = in.num();
    switch (cap) {
    case 0: return dispatch_cap<EtlCmp, TkCmp, StdCmp, Transparent, 0>(fam, in, impl, ref); // zero-size storage
    case 1: return dispatch_cap<EtlCmp, TkCmp, StdCmp, Transparent, 1>(fam, in, impl, ref);
    case 3: return dispatch_cap<EtlCmp, TkCmp, StdCmp, Transparent, 3>(fam, in, impl, ref);
    case 4: return dispatch_cap<EtlCmp, TkCmp, StdCmp, Transparent, 4>(fam, in, impl, ref);
    case 8: return dispatch_cap<EtlCmp, TkCmp, StdCmp, Transparent, 8>(fam, in, impl, ref);

    default: return false;
    }
}

// ---- the families added for key types whose move assignment transfers state (parts 4 and 5) ----
template <typename SkCmp, typename TkCmp, typename StdCmp, bool Transparent>
bool dispatch_keys(std::string const& fam, Toks& in, Out& impl, Out& ref)
{
    using R = std::set<int, StdCmp>;
    auto go = [&]<std::size_t Cap>() {
        if (fam == "sss") {
            using S = etl::static_set<SK, Cap, SkCmp>;
            run_impl<Kind::static_set, S, void, Transparent>(in, impl, Cap);
            run_ref<Kind::static_set, R, StdCmp, Transparent>(in, ref, Cap);
            return true;
        }
        if (fam == "fss") {
            using C = etl::static_vector<SK, Cap>;
            using S = etl::flat_set<SK, C, SkCmp>;
            run_impl<Kind::flat_set, S, C, Transparent>(in, impl, Cap);
            run_ref<Kind::flat_set, R, StdCmp, Transparent>(in, ref, Cap);
            return true;
        }
        if (fam == "fbs") {
            using C = bvec<SK, Cap>;
            using S = etl::flat_set<SK, C, SkCmp>;
            run_impl<Kind::flat_set, S, C, Transparent>(in, impl, Cap);
            run_ref<Kind::flat_set, R, StdCmp, Transparent>(in, ref, Cap);
            return true;
        }
        if (fam == "fbt") {
            using C = bvec<TK, Cap>;
            using S = etl::flat_set<TK, C, TkCmp>;
            run_impl<Kind::flat_set, S, C, Transparent>(in, impl, Cap);
            run_ref<Kind::flat_set, R, StdCmp, Transparent>(in, ref, Cap, true);
            return true;
        }
        return false;
    };
    switch (in.num()) {
    case 3: return go.template operator()<3>();
    case 8: return go.template operator()<8>();
    default: return false;
    }
}

template <typename EtlCmp, typename StdCmp>
void multiset_case(Toks& in, Out& impl, Out& ref)
{
    auto ks = in.list();
    std::vector<int> v(ks.begin(), ks.end());
    using C = etl::static_vector<int, 8>;
    guarded(impl, [&](Out& o) {
        auto ms = etl::flat_multiset<int, C, EtlCmp>(C(v.data(), v.data() + v.size()));
        o.tok("ok");
        o.list(ms.begin(), ms.end());
        o.num(static_cast<i64>(ms.size())).b(ms.empty());
        // the other constructors and iterator flavours: sorted_equivalent takes the container as it is,
        // the default / comparator constructors give an empty multiset
        auto walk = [](auto f, auto l) {
            std::vector<int> r;
            for (; f != l; ++f) { r.push_back(*f); }
            return r;
        };
        auto fw         = walk(ms.begin(), ms.end());
        auto const& cms = ms;
        auto w1 = walk(cms.begin(), cms.end()), w2 = walk(cms.cbegin(), cms.cend()), w3 = walk(ms.rbegin(), ms.rend()),
             w4 = walk(cms.rbegin(), cms.rend()), w5 = walk(cms.crbegin(), cms.crend());
        std::reverse(w3.begin(), w3.end());
        std::reverse(w4.begin(), w4.end());
        std::reverse(w5.begin(), w5.end());
        if (w1 != fw || w2 != fw || w3 != fw || w4 != fw || w5 != fw) { o.tok("iteration-differs"); }
        auto se = etl::flat_multiset<int, C, EtlCmp>(etl::sorted_equivalent, C(fw.data(), fw.data() + fw.size()));
        if (walk(se.begin(), se.end()) != fw || se.size() != ms.size()) { o.tok("sorted-equivalent-differs"); }
        auto raw = etl::flat_multiset<int, C, EtlCmp>(etl::sorted_equivalent, C(v.data(), v.data() + v.size()));
        if (walk(raw.begin(), raw.end()) != v) { o.tok("sorted-equivalent-differs"); }
        etl::flat_multiset<int, C, EtlCmp> e1{};
        etl::flat_multiset<int, C, EtlCmp> e2{EtlCmp{}};
        if (!e1.empty() || e1.size() != 0 || !e2.empty() || e1.max_size() != 8 || ms.max_size() != 8) { o.tok("empty-differs"); }
    });
    if (v.size() > 8) { return; }
    // std::multiset inserts at the upper bound: the stable arrangement
    auto ms = std::multiset<int, StdCmp>(v.begin(), v.end());
    ref.tok("ok");
    ref.list(ms.begin(), ms.end());
    ref.num(static_cast<i64>(ms.size())).b(ms.empty());
}

} // namespace

// ---- entry points, one per comparator, so that props/C09/pcxx.py can compile them as separate
// translation units in parallel (-DC09_PART=k); without C09_PART this file is one ordinary program ----
#ifndef C09_PART
#define C09_PART (-1)
#endif
#define C09_HAS(k) (C09_PART == -1 || C09_PART == (k))

namespace c09 {
bool part_less(std::string const& fam, Toks& in, Out& impl, Out& ref);
bool part_greater(std::string const& fam, Toks& in, Out& impl, Out& ref);
bool part_tless(std::string const& fam, Toks& in, Out& impl, Out& ref);
bool part_half(std::string const& fam, Toks& in, Out& impl, Out& ref);
bool part_dyn(std::string const& fam, Toks& in, Out& impl, Out& ref);
bool part_tgreater(std::string const& fam, Toks& in, Out& impl, Out& ref);
bool keys_less(std::string const& fam, Toks& in, Out& impl, Out& ref);
bool keys_greater(std::string const& fam, Toks& in, Out& impl, Out& ref);
bool keys_tless(std::string const& fam, Toks& in, Out& impl, Out& ref);
bool keys_half(std::string const& fam, Toks& in, Out& impl, Out& ref);
} // namespace c09

#if C09_HAS(0)
bool c09::part_less(std::string const& fam, Toks& in, Out& impl, Out& ref)
{
    if (fam == "fms") { multiset_case<etl::less<int>, std::less<int>>(in, impl, ref); return true; }
    return dispatch<etl::less<int>, etl::less<TK>, std::less<int>, false>(fam, in, impl, ref);
}
bool c09::part_dyn(std::string const& fam, Toks& in, Out& impl, Out& ref)
{
    if (fam != "fsd") { return false; }
    auto go = [&]<std::size_t Cap>() {
        using C = etl::static_vector<int, Cap>;
        using S = etl::flat_set<int, C, dyn_less>;
        using R = std::set<int, dyn_less>;
        run_impl<Kind::flat_set, S, C, true>(in, impl, Cap);
        run_ref<Kind::flat_set, R, dyn_less, true>(in, ref, Cap);
        return true;
    };
    switch (in.num()) {
    case 2: return go.template operator()<2>();
    case 3: return go.template operator()<3>();
    case 4: return go.template operator()<4>();
    case 8: return go.template operator()<8>();
    default: return false;
    }
}
#endif
#if C09_HAS(1)
bool c09::part_greater(std::string const& fam, Toks& in, Out& impl, Out& ref)
{
    if (fam == "fms") { multiset_case<etl::greater<int>, std::greater<int>>(in, impl, ref); return true; }
    return dispatch<etl::greater<int>, etl::greater<TK>, std::greater<int>, false>(fam, in, impl, ref);
}
// the second transparent comparator: a heterogeneous overload that hard-coded less<> instead of key_compare would be
// invisible with less<> alone.  Fewer instantiations than the other comparators (compile time): static_set and flat_set
// over static_vector<int>, capacity 3 and 8.
bool c09::part_tgreater(std::string const& fam, Toks& in, Out& impl, Out& ref)
{
    using R = std::set<int, std::greater<>>;
    auto go = [&]<std::size_t Cap>() {
        if (fam == "ss") {
            using S = etl::static_set<int, Cap, etl::greater<>>;
            run_impl<Kind::static_set, S, void, true>(in, impl, Cap);
            run_ref<Kind::static_set, R, std::greater<>, true>(in, ref, Cap);
            return true;
        }
        if (fam == "fsv") {
            using C = etl::static_vector<int, Cap>;
            using S = etl::flat_set<int, C, etl::greater<>>;
            run_impl<Kind::flat_set, S, C, true>(in, impl, Cap);
            run_ref<Kind::flat_set, R, std::greater<>, true>(in, ref, Cap);
            return true;
        }
        return false;
    };
    switch (in.num()) {
    case 3: return go.template operator()<3>();
    case 8: return go.template operator()<8>();
    default: return false;
    }
}
#endif
#if C09_HAS(2)
bool c09::part_tless(std::string const& fam, Toks& in, Out& impl, Out& ref)
{
    if (fam == "fms") { multiset_case<etl::less<>, std::less<>>(in, impl, ref); return true; }
    return dispatch<etl::less<>, etl::less<>, std::less<>, true>(fam, in, impl, ref);
}
#endif
#if C09_HAS(3)
bool c09::part_half(std::string const& fam, Toks& in, Out& impl, Out& ref)
{
    if (fam == "fms") { multiset_case<half_less, half_less>(in, impl, ref); return true; }
    return dispatch<half_less, half_less, half_less, false>(fam, in, impl, ref);
}
#endif

#if C09_HAS(4)
bool c09::keys_less(std::string const& fam, Toks& in, Out& impl, Out& ref)
{
    return dispatch_keys<etl::less<SK>, etl::less<TK>, std::less<int>, false>(fam, in, impl, ref);
}
bool c09::keys_greater(std::string const& fam, Toks& in, Out& impl, Out& ref)
{
    return dispatch_keys<etl::greater<SK>, etl::greater<TK>, std::greater<int>, false>(fam, in, impl, ref);
}
#endif
#if C09_HAS(5)
bool c09::keys_tless(std::string const& fam, Toks& in, Out& impl, Out& ref)
{
    return dispatch_keys<etl::less<>, etl::less<>, std::less<>, true>(fam, in, impl, ref);
}
bool c09::keys_half(std::string const& fam, Toks& in, Out& impl, Out& ref)
{
    return dispatch_keys<half_less, half_less, half_less, false>(fam, in, impl, ref);
}
#endif

#if C09_HAS(0)
bool vh::run_case(std::string const& op, Toks& in, Out& impl, Out& ref)
{
    auto us = op.find('_');
    if (us == std::string::npos) { return false; }
    auto fam = op.substr(0, us);
    auto cmp = op.substr(us + 1);
    if (fam == "sss" || fam == "fss" || fam == "fbs" || fam == "fbt") {
        if (cmp == "less") { return c09::keys_less(fam, in, impl, ref); }
        if (cmp == "greater") { return c09::keys_greater(fam, in, impl, ref); }
        if (cmp == "tless") { return c09::keys_tless(fam, in, impl, ref); }
        if (cmp == "half") { return c09::keys_half(fam, in, impl, ref); }
        return false;
    }
    if (cmp == "less") { return c09::part_less(fam, in, impl, ref); }
    if (cmp == "greater") { return c09::part_greater(fam, in, impl, ref); }
    if (cmp == "tless") { return c09::part_tless(fam, in, impl, ref); }
    if (cmp == "half") { return c09::part_half(fam, in, impl, ref); }
    if (cmp == "dyn") { return c09::part_dyn(fam, in, impl, ref); }
    if (cmp == "tgreater") { return c09::part_tgreater(fam, in, impl, ref); }
    return false;
}

VERIF_MAIN()
#endif
