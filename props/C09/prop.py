"""C09 — sets stay sorted and unique and answer like std::set: case generators and configuration.

A case is a whole history on one container configuration (see harness.cpp for the format)."""
import itertools

ID = "C09"
LEVEL = "proof"
HARNESSES = [{"name": "main", "src": "harness.cpp", "flags": ["-O1", "-DTETL_ENABLE_CONTRACT_CHECKS=1"]}]

RULE = ("a case = one history on one configuration (static_set / flat_set over static_vector / flat_set over an "
        "inplace_vector adaptor, element int; static_set / flat_set over static_vector with a tracked non-trivial "
        "element type that counts live objects and flags uses of moved-from or destroyed values; comparators less, "
        "greater, transparent less<> with heterogeneous point and band keys, half (equivalence coarser than equality); "
        "capacity 1, 2, 3, 4, 5, 8), keys 0..5 (-3..8 in the random part). Exhaustive part: from every set "
        "reachable at capacity 3 and 4 (every subset of the key universe of size <= capacity, built by inserting its "
        "elements in ascending and in descending order) every sequence of <= 2 further calls (quick; <= 3 thorough) from "
        "the full call alphabet (insert/emplace/hinted insert of every key, erase of every key, every position incl. "
        "end and one past, every index pair, clear, swap, copy assignment, extract, replace, range insert, assignment "
        "from a container / a random-access range / a forward-iterator range / sorted_unique container and iterator "
        "pair, erase_if), followed by every lookup for every key, a walk through every iterator flavour and a "
        "key_comp/value_comp table; all histories of depth <= 4 (quick; 5 thorough) from the empty set over insert/"
        "erase-key/clear/swap; seeded random histories up to length 14 at capacity 1, 2, 5, 8; flat_multiset "
        "construction from every sequence of length <= 4 over 0..3 plus random longer ones. non-trivial = distinct "
        "case line whose history reaches a non-empty set")

TRUSTED_BASE = ["reference leg: libstdc++ 12 std::set / std::multiset with the same comparator, bounded by the capacity "
                "in the harness (a new key into a full set: failure reported, set unchanged)"]
ASSUMPTIONS = ["keys are int; the comparator is a strict weak order", "LP64"]

KEYS = list(range(6))
CMPS = ["less", "greater", "tless", "half"]
FAMS = ["ss", "fsv", "fip"]
TRACKED = ["sst", "fst"]   # the same containers over the tracked key type
STATIC = ("ss", "sst")


def lst(ks):
    return " ".join([str(len(ks))] + [str(k) for k in ks])


def alphabet(fam, cap, full=True):
    """every call of the model's vocabulary with small arguments"""
    ops = []
    for k in KEYS:
        ops.append(f"i {k}")
        ops.append(f"ek {k}")
    if not full:
        return ops + ["cl", "sw"]
    for k in (0, 3, 5):
        ops.append(f"e {k}")
    for p in range(cap + 1):
        ops.append(f"ep {p}")
    for a in range(cap + 1):
        for b in range(cap + 1):
            if a <= b or (a, b) in ((1, 0), (2, 1)):
                ops.append(f"er {a} {b}")
    ops += ["cl", "sw"]
    ops.append("ir " + lst([4, 1, 4]))
    ops.append("ir " + lst([5, 3, 2, 0]))
    ops.append("as " + lst([3, 1, 3]))
    ops.append("as " + lst([0, 5, 2, 4][:cap]))
    ops.append("asi " + lst([4, 1, 4]))
    ops.append("asi " + lst([5, 3, 2, 0, 1]))   # more distinct keys than any exhaustive capacity
    ops.append("cp")
    if fam not in STATIC:
        ops.append("asui " + lst([0, 2, 4][:cap]))
        ops.append("asui " + lst([1, 2, 3, 4, 5]))
        for k in (1, 4):
            ops.append(f"ih 0 {k}")
            ops.append(f"ih {min(cap, 2)} {k}")
        ops.append("x")
        ops.append("rp " + lst([1, 3]))
        ops.append("rp " + lst([]))
        ops.append("asu " + lst([0, 2, 4][:cap]))
        ops.append("ef 0 0")
        ops.append("ef 0 1")
        ops.append("ef 1 3")
    return ops


def order_for(cmp, ks):
    if cmp == "greater":
        return sorted(ks, reverse=True)
    return sorted(ks)


def gen(tier, rng):
    quick = tier == "quick"
    out = []
    # --- 1. flat_multiset construction
    for cmp in CMPS:
        for n in range(0, 5 if quick else 6):
            for ks in itertools.product(range(4), repeat=n):
                out.append(f"fms_{cmp} " + lst(list(ks)))
        for _ in range(60 if quick else 2000):
            n = rng.randint(5, 9)
            out.append(f"fms_{cmp} " + lst([rng.randint(0, 5) for _ in range(n)]))
    # --- 2. from every reachable set, every short continuation
    #     second level: complete for FULL2 configurations, a seeded sample of the pairs elsewhere
    full2 = {("ss", "less", 3), ("ss", "half", 3), ("fsv", "less", 3)}
    for fam in FAMS:
        for cmp in CMPS:
            for cap in (3, 4):
                alpha = alphabet(fam, cap)
                small = alphabet(fam, cap, full=False)
                frac = 1.0 if (not quick or (fam, cmp, cap) in full2) else 0.04
                for size in range(0, cap + 1):
                    for sub in itertools.combinations(KEYS, size):
                        asc = " ".join(f"i {k}" for k in sub)
                        desc = " ".join(f"i {k}" for k in reversed(sub))
                        prefixes = [asc] if size < 2 else [asc, desc]
                        for pi, pre in enumerate(prefixes):
                            head = f"{fam}_{cmp} {cap} {pre}".rstrip()
                            out.append(head)
                            for o1 in alpha:
                                out.append(f"{head} {o1}")
                            if pi != 0:
                                continue
                            for o1 in alpha:
                                for o2 in alpha:
                                    if frac >= 1.0 or rng.random() < frac:
                                        out.append(f"{head} {o1} {o2}")
                            if not quick and size >= cap - 1 and cmp in ("less", "half"):
                                for seq in itertools.product(small, repeat=3):
                                    out.append(f"{head} " + " ".join(seq))
    # --- 2b. the tracked element type: from every reachable set every single call (and a sample of the pairs)
    for fam in TRACKED:
        for cmp in CMPS:
            for cap in (3, 4):
                if quick and cap == 4 and cmp != "less":
                    continue
                alpha = alphabet(fam, cap)
                frac = 0.01 if quick else 1.0
                for size in range(0, cap + 1):
                    for sub in itertools.combinations(KEYS, size):
                        asc = " ".join(f"i {k}" for k in sub)
                        desc = " ".join(f"i {k}" for k in reversed(sub))
                        for pi, pre in enumerate([asc] if size < 2 else [asc, desc]):
                            head = f"{fam}_{cmp} {cap} {pre}".rstrip()
                            out.append(head)
                            for o1 in alpha:
                                out.append(f"{head} {o1}")
                            if pi != 0:
                                continue
                            for o1 in alpha:
                                for o2 in alpha:
                                    if frac >= 1.0 or rng.random() < frac:
                                        out.append(f"{head} {o1} {o2}")
    # --- 3. all histories from the empty set over the core alphabet
    for fam in FAMS + TRACKED:
        for cmp in CMPS:
            if quick and not (fam == "ss" or cmp == "less"):
                continue
            cap = 3
            small = alphabet(fam, cap, full=False)
            maxd = 4 if quick else 5
            if quick and not (fam == "ss" and cmp in ("less", "half")):
                maxd = 3
            for d in range(1, maxd + 1):
                for seq in itertools.product(small, repeat=d):
                    out.append(f"{fam}_{cmp} {cap} " + " ".join(seq))
    # --- 4. seeded random longer histories, capacities 1, 2, 5 and 8, keys -3..8
    for fam in FAMS + TRACKED:
        for cmp in CMPS:
            for cap in (1, 2, 5, 8):
                alpha = alphabet(fam, cap)
                for k in list(range(-3, 0)) + [6, 7, 8]:
                    alpha += [f"i {k}", f"ek {k}", f"e {k}"]
                alpha += ["asi " + lst([8, -1, 3, -1, 0, 7, 2, 6, 5, -3]), "ir " + lst([7, -2, 7, 1, 6])]
                ins = [a for a in alpha if a.startswith(("i ", "e ", "ih "))]
                for _ in range(100 if quick else 4000):
                    n = rng.randint(3, 14)
                    seq = []
                    for _ in range(n):
                        seq.append(rng.choice(ins) if rng.random() < 0.55 else rng.choice(alpha))
                    out.append(f"{fam}_{cmp} {cap} " + " ".join(seq))
    return out


def nontrivial(case, impl):
    # the history reached a non-empty set at some point
    return "[ 1 " in impl or "[ 2 " in impl or "[ 3 " in impl or "[ 4 " in impl or "[ 5 " in impl or "[ 6 " in impl \
        or "[ 7 " in impl or "[ 8 " in impl or impl.startswith("ok")
