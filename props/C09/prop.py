"""C09 — sets stay sorted and unique and answer like std::set: case generators and configuration.

A case is a whole history on one container configuration (see harness.cpp for the format)."""
import itertools
import os

ID = "C09"
LEVEL = "proof"
# pcxx.py compiles harness.cpp as four translation units in parallel (one comparator each) and links them
HARNESSES = [{"name": "main", "src": "harness.cpp", "compiler": os.path.join(os.path.dirname(os.path.abspath(__file__)), "pcxx.py"),
              "flags": ["-O1", "-DTETL_ENABLE_CONTRACT_CHECKS=1"]}]

RULE = ("a case = one history on one configuration (static_set / flat_set over static_vector / flat_set over an "
        "inplace_vector adaptor, element int; static_set / flat_set over static_vector with a tracked non-trivial "
        "element type that counts live objects and flags uses of moved-from or destroyed values; comparators less, "
        "greater, transparent less<> and greater<> with heterogeneous point and band keys, half (equivalence coarser than equality); "
        "capacity 0, 1, 2, 3, 4, 8), keys 0..5 (-3..8 in the random part). Exhaustive part: from every set "
        "reachable at capacity 3 and 4 (every subset of the key universe of size <= capacity, built by inserting its "
        "elements in ascending and in descending order) every sequence of <= 2 further calls (<= 3 for the nearly full static_set in thorough) from "
        "the full call alphabet (pairs sampled in quick, see the end) (insert/emplace/hinted insert of every key, erase of every key, every position incl. "
        "end and one past, every index pair, clear, swap, copy assignment, extract, replace, range insert, assignment "
        "from a container / a random-access range / a forward-iterator range / sorted_unique container and iterator "
        "pair, erase_if), followed by every lookup for every key, a walk through every iterator flavour and a "
        "key_comp/value_comp table; all histories of depth <= 3 (quick; 4 thorough) from the empty set over insert/"
        "erase-key/clear/swap; at capacity 0 (empty and full at once; zero-size storage) every call and pair of calls; "
        "seeded random histories up to length 14 at capacity 1 and 8 (2 and 8 with the stored comparator); flat_multiset "
        "construction from every sequence of length <= 4 over 0..3 plus random longer ones; flat_set with a STORED "
        "run-time comparator (s constructed ascending, t descending; swap / copy assignment / assigning constructors "
        "change the order of the current set): from every reachable set, after five swap/copy preambles, every call. "
        "QUICK tier = the boundary-aimed core (about 277k cases): every reachable set x every single call for the "
        "configurations of QUICK_PLAN, a seeded sample of the call pairs (15% for static_set<less>, 5% for "
        "static_set<half> and flat_set<less>, 0.5% elsewhere), depth <= 3 histories (+10% of depth 4), 100 random "
        "histories per configuration; THOROUGH tier (about 1.84M cases) = all configurations x capacity 3 and 4, both build orders, all pairs for "
        "static_set<less/half> and flat_set<less> at capacity 3 and 3% of the pairs elsewhere, triples from the nearly full "
        "static_set<less>, depth <= 4 histories (+10% of depth 5), 2000 random histories per configuration. "
        "Added by the review (both tiers): from every reachable set at capacity 3 EVERY hint position begin..end x every key "
        "(equal / equivalent to the first, last, a middle element; absent in every gap) through emplace_hint and both "
        "insert(hint, x) overloads named explicitly, plus a later insert of the same key; insert(const&) / insert(&&) named "
        "explicitly for every key; flat_set::erase(const_iterator) beside erase(iterator); every valid position / index "
        "pair erased and then a later insertion at the front and at the back; insert(sorted_unique, first, last); the "
        "stored-comparator family also assigns sets constructed WITH a comparator argument (flat_set(first, last, comp), "
        "flat_set(sorted_unique, first, last, comp)); containers handed to replace / sorted_unique are sorted under the "
        "comparator that applies (so the reference leg is defined for greater and for a descending stored comparator too); "
        "capacity-aware random histories whose every call is inside its domain (reference leg never na; capacity 8 over "
        "keys -3..8 with 60% starting from 5..8 keys, capacity 4 over 0..5; 120+60 per configuration quick, 1500 thorough); "
        "at capacity 8 every lookup is asked for every key -3..8; a second transparent comparator, etl::greater<> with the "
        "heterogeneous point and band keys (static_set / flat_set over static_vector<int>, capacity 3 and 8). "
        "Added by fix-miss round 4 (both tiers): key types whose move assignment TRANSFERS state - the tracked key (take, then "
        "reset the source, no self-assignment test; counts the element objects a call copies / moves / assigns: after every "
        "erase(key) / erase(pos) / erase(first, last) / erase_if that removed nothing all four legs print `touched n`, n = 0) and a "
        "std::string key beyond the small-string buffer; families static_set / flat_set over static_vector with the string key "
        "(sss, fss) and flat_set over a std container (std::vector behind an adaptor with the model's preconditions) with the "
        "string / the tracked key (fbs, fbt) as control: from every reachable set at capacity 3 every call (erase of every "
        "absent key, every empty index pair at begin / middle / end included) with the full contents after every call, every "
        "hint position (less), random histories at capacity 8 (and domain-respecting ones). non-trivial = distinct case line "
        "whose history reaches a non-empty set")

TRUSTED_BASE = ["reference leg: libstdc++ 12 std::set / std::multiset with the same comparator, bounded by the capacity "
                "in the harness (a new key into a full set: failure reported, set unchanged)"]
ASSUMPTIONS = ["keys are int; the comparator is a strict weak order", "LP64"]

KEYS = list(range(6))
CMPS = ["less", "greater", "tless", "half"]
FAMS = ["ss", "fsv", "fip"]
TRACKED = ["sst", "fst"]   # the same containers over the tracked key type
# key types whose move assignment TRANSFERS state: sss / fss = static_set / flat_set over static_vector with a std::string
# key beyond the small-string buffer; fbs / fbt = flat_set over a STD container (std::vector behind an adaptor with the
# capacity / iterator preconditions) with the string / the tracked key: the control.  Capacities 3 and 8.
KEYFAMS = ["sss", "fss", "fbs", "fbt"]
STATIC = ("ss", "sst", "sss")


def lst(ks):
    return " ".join([str(len(ks))] + [str(k) for k in ks])


def order_for(cmp, ks):
    if cmp in ("greater", "tgreater"):
        return sorted(ks, reverse=True)
    return sorted(ks)


def alphabet(fam, cap, full=True, cmp="less", cur_desc=False):
    """every call of the model's vocabulary with small arguments.  The containers handed to replace and to the
    sorted_unique constructors ARE sorted and unique under the comparator that applies (the current one for replace:
    cmp, or descending when cur_desc; Compare() = cmp for the constructors): what these members do with other
    input is not part of the property (and not of any theorem), so it is not compared.  cur_desc=None: the current
    order is not known to the generator (random stored-comparator histories): no replace."""
    cur = "greater" if (cmp in ("greater", "tgreater") or cur_desc) else cmp
    ops = []
    for k in KEYS:
        ops.append(f"i {k}")
        ops.append(f"ek {k}")
    if not full:
        return ops + ["cl", "sw"]
    for k in (0, 3, 5):
        ops.append(f"e {k}")
    for p in range(cap + 1):
        ops.append(f"ep {p}")
    for a in range(cap + 1):
        for b in range(cap + 1):
            if a <= b or (a, b) in ((1, 0), (2, 1)):
                ops.append(f"er {a} {b}")
    ops += ["cl", "sw"]
    ops.append("ir " + lst([4, 1, 4]))
    ops.append("ir " + lst([5, 3, 2, 0]))
    ops.append("as " + lst([3, 1, 3]))
    ops.append("as " + lst([0, 5, 2, 4][:cap]))
    ops.append("asi " + lst([4, 1, 4]))
    ops.append("asi " + lst([5, 3, 2, 0, 1]))   # more distinct keys than any exhaustive capacity
    ops.append("cp")
    if fam not in STATIC:
        for p in range(cap + 1):
            ops.append(f"epc {p}")   # flat_set::erase(const_iterator); ep calls erase(iterator)
        ops.append("asui " + lst(order_for(cmp, [0, 2, 4])[:cap]))
        ops.append("asui " + lst(order_for(cmp, [0, 2, 4, 6, 8])))   # longer than any exhaustive capacity
        for k in (1, 4):
            ops.append(f"ih 0 {k}")
            ops.append(f"ih {min(cap, 2)} {k}")
        ops.append("x")
        if cur_desc is not None:
            ops.append("iru " + lst(order_for(cur, [1, 4])))
            ops.append("iru " + lst(order_for(cur, [0, 2, 4, 6])))   # pairwise inequivalent under half too; overflows capacity 3
            ops.append("iru " + lst([]))
            ops.append("rp " + lst(order_for(cur, [1, 3])[:cap]))
            ops.append("rp " + lst(order_for(cur, [0, 2, 5, 7])[:cap]))   # a full container
            ops.append("rp " + lst([]))
        ops.append("asu " + lst(order_for(cmp, [0, 2, 4])[:cap]))
        ops.append("ef 0 0")
        ops.append("ef 0 1")
        ops.append("ef 1 3")
    if fam == "fsd":
        # the constructors that take the comparator (d = 1: descending), from a range / a sorted_unique range
        ops.append("asic 1 " + lst([4, 1, 4]))
        ops.append("asic 0 " + lst([5, 3, 2, 0][:cap]))
        ops.append("asic 1 " + lst([0, 5, 2, 4][:cap]))
        ops.append("asic 1 " + lst([5, 3, 2, 0, 1]))
        ops.append("asuic 1 " + lst([4, 2, 0][:cap]))
        ops.append("asuic 0 " + lst([0, 2, 4][:cap]))
        ops.append("asuic 1 " + lst([5, 4, 3, 1, 0]))   # longer than any exhaustive capacity
    return ops


def reach_prefixes(cap, with_desc):
    """every set reachable at this capacity as the insert sequence that builds it (ascending; and
    descending, which drives every insert through the rotate-to-front path)"""
    res = []
    for size in range(0, cap + 1):
        for sub in itertools.combinations(KEYS, size):
            asc = " ".join(f"i {k}" for k in sub)
            res.append((asc, True))
            if with_desc and size >= 2:
                res.append((" ".join(f"i {k}" for k in reversed(sub)), False))
    return res


# quick tier: which (family, comparator, capacity) get the every-reachable-set x every-call enumeration,
# whether the descending build order is included, and the sampled fraction of the call PAIRS.
# thorough tier: every family x comparator x capacity 3 and 4, both build orders, all pairs.
QUICK_PLAN = {
    ("ss", "less", 3): (True, 0.15), ("ss", "half", 3): (True, 0.05), ("ss", "greater", 3): (True, 0.005),
    ("ss", "tless", 3): (True, 0.005), ("ss", "less", 4): (False, 0.005), ("ss", "half", 4): (False, 0.005),
    ("fsv", "less", 3): (True, 0.05), ("fsv", "half", 3): (True, 0.005), ("fsv", "greater", 3): (True, 0.005),
    ("fsv", "tless", 3): (True, 0.005), ("fsv", "less", 4): (False, 0.005),
    ("fip", "less", 3): (True, 0.005), ("fip", "half", 3): (True, 0.005), ("fip", "greater", 3): (False, 0.005),
    ("fip", "tless", 3): (False, 0.005),
    ("sst", "less", 3): (True, 0.005), ("sst", "half", 3): (True, 0.005), ("sst", "tless", 3): (True, 0.005),
    ("fst", "less", 3): (True, 0.005), ("fst", "half", 3): (True, 0.005), ("fst", "tless", 3): (True, 0.005),
    ("fss", "less", 3): (False, 0.005), ("fss", "half", 3): (False, 0.005), ("fss", "tless", 3): (False, 0.005),
    ("fss", "greater", 3): (False, 0.005), ("sss", "less", 3): (False, 0.005), ("sss", "half", 3): (False, 0.005),
    ("fbs", "less", 3): (False, 0.005), ("fbt", "less", 3): (False, 0.005), ("fbt", "half", 3): (False, 0.005),
}


def ckey(cmp, k):
    """position of key k in the order of comparator cmp (equal value = equivalent key)"""
    if cmp in ("greater", "desc", "tgreater"):
        return -k
    if cmp == "half":
        return int(k / 2)   # C++ int division truncates towards zero
    return k


class Sim:
    """the two sets of a history, simulated only to pick VALID arguments for the random histories (a wrong
    simulation would merely produce calls outside their domain, which the legs report as such)"""

    def __init__(self, fam, cmp, cap):
        self.flat = fam not in STATIC
        self.dyn = fam == "fsd"
        self.cap = cap
        self.cs, self.ct = (("less", "desc") if self.dyn else (cmp, cmp))
        self.dflt = "less" if self.dyn else cmp
        self.s, self.t = [], []

    def has(self, k):
        return any(ckey(self.cs, e) == ckey(self.cs, k) for e in self.s)

    def insert(self, k):
        if not self.has(k) and len(self.s) < self.cap:
            self.s.append(k)
            self.s.sort(key=lambda e: ckey(self.cs, e))

    def build(self, ks, cmp):
        r = []
        for k in ks:
            if not any(ckey(cmp, e) == ckey(cmp, k) for e in r) and len(r) < self.cap:
                r.append(k)
        return sorted(r, key=lambda e: ckey(cmp, e))


def valid_history(fam, cmp, cap, n, rng, universe):
    """a random history of n calls that stays inside the domain of every call (capacity-aware): positions and
    index pairs inside the set, hints in [begin, end], containers that fit and are sorted where they must be; a
    new key into a full flat_set (the fatal case) only as the last call"""
    m = Sim(fam, cmp, cap)
    seq = []
    if cap >= 8 and rng.random() < 0.6:
        # start from a well-filled set (5 .. cap keys, pairwise inequivalent, in random order)
        classes = sorted(set(ckey(m.cs, x) for x in universe))
        chosen = rng.sample(classes, rng.randint(min(5, len(classes)), min(cap, len(classes))))
        ks = [rng.choice([x for x in universe if ckey(m.cs, x) == c]) for c in chosen]
        seq.append("ir " + lst(ks))
        for x in ks:
            m.insert(x)
    for step in range(n):
        size = len(m.s)
        r = rng.random()
        k = rng.choice(universe)
        full_new = size == cap and not m.has(k)
        if r < 0.42:
            if full_new and m.flat and step != n - 1:
                k = rng.choice(m.s) if m.s else k
                if size == cap and not m.has(k):
                    continue
            if m.flat and rng.random() < 0.4:
                code = rng.choice(["ih", "ihc", "ihm", "eh"])
                seq.append(f"{code} {rng.randint(0, size)} {k}")
            else:
                seq.append(f"{rng.choice(['i', 'e', 'im', 'ic'])} {k}")
            m.insert(k)
        elif r < 0.54:
            seq.append(f"ek {k}")
            m.s = [e for e in m.s if ckey(m.cs, e) != ckey(m.cs, k)]
        elif r < 0.62:
            if size == 0:
                continue
            p = rng.randint(0, size - 1)
            seq.append(f"{'epc' if m.flat and rng.random() < 0.5 else 'ep'} {p}")
            del m.s[p]
        elif r < 0.72:
            a = rng.randint(0, size)
            b = rng.randint(a, min(size, a + 3))
            seq.append(f"er {a} {b}")
            del m.s[a:b]
        elif r < 0.78:
            seq.append("sw")
            m.s, m.t = m.t, m.s
            m.cs, m.ct = m.ct, m.cs
        elif r < 0.81:
            seq.append("cp")
            m.s, m.cs = list(m.t), m.ct
        elif r < 0.86:
            ks = [rng.choice(universe) for _ in range(rng.randint(0, 4))]
            room = cap - size
            fresh = []
            for x in ks:
                if not m.has(x) and not any(ckey(m.cs, x) == ckey(m.cs, y) for y in fresh):
                    fresh.append(x)
            if m.flat and len(fresh) > room:
                continue
            if m.flat and rng.random() < 0.5:
                # insert(sorted_unique, first, last): the range sorted and unique under the current comparator
                cls = {}
                for x in ks:
                    cls.setdefault(ckey(m.cs, x), x)
                ks = [cls[c] for c in sorted(cls)]
                seq.append("iru " + lst(ks))
            else:
                seq.append("ir " + lst(ks))
            for x in ks:
                m.insert(x)
        elif r < 0.90:
            ks = [rng.choice(universe) for _ in range(rng.randint(0, cap))]
            code = rng.choice(["as", "asi", "asic"] if m.dyn else ["as", "asi"])
            order = m.dflt
            if code == "asic":
                d = rng.randint(0, 1)
                order = "desc" if d else "less"
                code = f"asic {d}"
            seq.append(f"{code} " + lst(ks))   # at most cap keys: always fits
            m.cs = order
            m.s = m.build(ks, order)
        elif r < 0.94 and m.flat:
            which = rng.choice(["rp", "asu", "asui", "x", "ef"] + (["asuic"] if m.dyn else []))
            if which == "x":
                seq.append("x")
                m.s = []
            elif which == "ef":
                t, v = rng.choice([(0, 0), (0, 1), (1, rng.choice(universe))])
                seq.append(f"ef {t} {v}")
                # C++ %: the sign follows the dividend (-3 % 2 == -1)
                m.s = [e for e in m.s if not (((abs(e) % 2) * (1 if e >= 0 else -1) == v) if t == 0 else e < v)]
            else:
                order = m.cs if which == "rp" else m.dflt
                if which == "asuic":
                    d = rng.randint(0, 1)
                    order = "desc" if d else "less"
                    which = f"asuic {d}"
                pool = sorted(set(ckey(order, x) for x in universe))
                cnt = rng.randint(0, min(cap, len(pool)))
                chosen = sorted(rng.sample(pool, cnt))
                ks = []
                for c in chosen:
                    ks.append(rng.choice([x for x in universe if ckey(order, x) == c]))
                seq.append(f"{which} " + lst(ks))
                m.s = ks
                if which != "rp":
                    m.cs = order
        elif r < 0.96:
            seq.append("cl")
            m.s = []
    return seq


def targeted(fam, cmp, cap, quick):
    """hinted inserts with EVERY hint position of the set (begin .. end) and every key (equal / equivalent to the
    first, the last, a middle element; absent in every gap) through every overload; the insert overloads by name;
    every valid position / index pair erased and then a later insertion at the front and at the back"""
    out = []
    flat = fam not in STATIC
    for pre, _ in reach_prefixes(cap, False):
        n = 0 if not pre else len(pre.split()) // 2
        head = f"{fam}_{cmp} {cap} {pre}".rstrip()
        for k in KEYS:
            out.append(f"{head} im {k}")
            out.append(f"{head} ic {k}")
        if flat:
            for h in range(n + 1):
                for k in KEYS:
                    # quick: all three overloads + a later insert of the same key for flat_set over static_vector<int>,
                    # emplace_hint and insert(hint, const&) for the other containers / the tracked key type
                    lean = quick and not fam.startswith("fsv")
                    for code in (("eh", "ihc") if lean else ("eh", "ihc", "ihm")):
                        out.append(f"{head} {code} {h} {k}")
                    if not lean:
                        out.append(f"{head} eh {h} {k} i {k}")
                    if not quick:
                        out.append(f"{head} ih {h} {k} ek {k}")
        for a in range(n + 1):
            for b in range(a, n + 1):
                for k in (0, 5):
                    out.append(f"{head} er {a} {b} i {k}")
        for p in range(n):
            for code in (("ep", "epc") if flat else ("ep",)):
                for k in (0, 5):
                    out.append(f"{head} {code} {p} i {k}")
    return out


def gen(tier, rng):
    quick = tier == "quick"
    out = []
    # --- 1. flat_multiset construction
    for cmp in CMPS:
        for n in range(0, 5 if quick else 6):
            for ks in itertools.product(range(4), repeat=n):
                out.append(f"fms_{cmp} " + lst(list(ks)))
        for _ in range(60 if quick else 2000):
            n = rng.randint(5, 9)
            out.append(f"fms_{cmp} " + lst([rng.randint(0, 5) for _ in range(n)]))
    # --- 2. from every reachable set every call of the alphabet, then (sampled in quick) every pair of calls
    for fam in FAMS + TRACKED + KEYFAMS:
        for cmp in CMPS:
            for cap in (3, 4):
                if fam in KEYFAMS and cap != 3:
                    continue
                if quick:
                    if (fam, cmp, cap) not in QUICK_PLAN:
                        continue
                    with_desc, frac = QUICK_PLAN[(fam, cmp, cap)]
                else:
                    # thorough: all pairs where the quick tier samples 5% or more, 10% elsewhere
                    with_desc = True
                    frac = 1.0 if QUICK_PLAN.get((fam, cmp, cap), (True, 0.0))[1] >= 0.05 else 0.03
                alpha = alphabet(fam, cap, cmp=cmp)
                small = alphabet(fam, cap, full=False)
                for pre, first in reach_prefixes(cap, with_desc):
                    head = f"{fam}_{cmp} {cap} {pre}".rstrip()
                    out.append(head)
                    for o1 in alpha:
                        out.append(f"{head} {o1}")
                    if not first:
                        continue
                    for o1 in alpha:
                        for o2 in alpha:
                            if frac >= 1.0 or rng.random() < frac:
                                out.append(f"{head} {o1} {o2}")
                    size = 0 if not pre else len(pre.split()) // 2
                    if not quick and fam == "ss" and cap == 3 and size >= cap - 1 and cmp == "less":
                        for seq in itertools.product(small, repeat=3):
                            out.append(f"{head} " + " ".join(seq))
    # --- 2c. capacity 0 (static_vector's zero-size storage class): the set is empty AND full
    for fam in FAMS:
        for cmp in CMPS:
            alpha = alphabet(fam, 0, cmp=cmp)
            head = f"{fam}_{cmp} 0"
            out.append(head)
            for o1 in alpha:
                out.append(f"{head} {o1}")
                if cmp == "less" or not quick:
                    for o2 in alpha:
                        out.append(f"{head} {o1} {o2}")
    # --- 2d. every hint position x every key x every overload; named insert overloads; erase + later insertion
    for fam in FAMS + TRACKED + KEYFAMS:
        for cmp in CMPS:
            for cap in (3, 4):
                if fam in KEYFAMS and (cap != 3 or (quick and cmp != "less")):
                    continue
                if quick and ((fam, cmp, cap) not in QUICK_PLAN or cap == 4):
                    continue
                if not quick and cap == 4 and not (cmp == "less" and fam in ("ss", "fsv")):
                    continue
                out += targeted(fam, cmp, cap, quick)
    for cap in (3,):
        out += [c for c in targeted("fsd", "dyn", cap, quick)]
    # --- 2e. seeded random histories that stay inside the domain of every call (so the reference leg is defined
    #         and the sets grow: capacity 8 over keys -3..8, capacity 3/4 over 0..5)
    for fam in FAMS + TRACKED + KEYFAMS + ["fsd"]:
        for cmp in (CMPS if fam != "fsd" else ["dyn"]):
            for cap, universe in ((8, list(range(-3, 9))), (3 if fam in KEYFAMS + ["fsd"] else 4, KEYS)):
                if cap == 4 and fam in TRACKED and quick:
                    continue
                if cap == 3 and fam in KEYFAMS and quick:
                    continue
                for _ in range((120 if cap == 8 else 60) if quick else 1500):
                    seq = valid_history(fam, cmp, cap, rng.randint(4, 16 if cap == 8 else 10), rng, universe)
                    out.append(f"{fam}_{cmp} {cap} " + " ".join(seq))
    # --- 2f. the SECOND transparent comparator, etl::greater<> (descending) with heterogeneous point and band keys: with
    #         less<> alone a heterogeneous overload that hard-codes less<> instead of key_compare cannot be seen.
    #         From every reachable set at capacity 3 every call (then every lookup for every key, point and band);
    #         domain-respecting random histories at capacity 3 and 8
    for fam in ("ss", "fsv"):
        cmp = "tgreater"
        if True:
            alpha = alphabet(fam, 3, cmp=cmp)
            for pre, first in reach_prefixes(3, not quick):
                head = f"{fam}_{cmp} 3 {pre}".rstrip()
                out.append(head)
                for o1 in alpha:
                    out.append(f"{head} {o1}")
                    if first and rng.random() < (0.005 if quick else 0.03):
                        for o2 in alpha:
                            out.append(f"{head} {o1} {o2}")
        for cap, universe in ((8, list(range(-3, 9))), (3, KEYS)):
            for _ in range((100 if cap == 8 else 50) if quick else 1500):
                seq = valid_history(fam, cmp, cap, rng.randint(4, 16 if cap == 8 else 10), rng, universe)
                out.append(f"{fam}_{cmp} {cap} " + " ".join(seq))
    # --- 3. all histories from the empty set over the core alphabet (insert / erase of every key, clear, swap)
    for fam in FAMS + TRACKED:
        for cmp in CMPS:
            if not (fam == "ss" or cmp == "less"):
                continue
            cap = 3
            small = alphabet(fam, cap, full=False)
            maxd = 3 if quick else 4
            for d in range(1, maxd + 1):
                for seq in itertools.product(small, repeat=d):
                    out.append(f"{fam}_{cmp} {cap} " + " ".join(seq))
            if fam == "ss" and cmp in ("less", "half"):
                # one level deeper, sampled: depth 4 at 10% (quick), depth 5 at 10% (thorough)
                for seq in itertools.product(small, repeat=maxd + 1):
                    if rng.random() < 0.1:
                        out.append(f"{fam}_{cmp} {cap} " + " ".join(seq))
    # --- 4. seeded random longer histories, capacities 1 and 8, keys -3..8
    for fam in FAMS + TRACKED + KEYFAMS:
        for cmp in CMPS:
            for cap in ((1, 8) if fam in FAMS else (8,)):
                alpha = alphabet(fam, cap, cmp=cmp)
                for k in list(range(-3, 0)) + [6, 7, 8]:
                    alpha += [f"i {k}", f"ek {k}", f"e {k}"]
                alpha += ["asi " + lst([8, -1, 3, -1, 0, 7, 2, 6, 5, -3]), "ir " + lst([7, -2, 7, 1, 6])]
                ins = [a for a in alpha if a.startswith(("i ", "e ", "ih "))]
                for _ in range(100 if quick else 2000):
                    n = rng.randint(3, 14)
                    seq = []
                    for _ in range(n):
                        seq.append(rng.choice(ins) if rng.random() < 0.55 else rng.choice(alpha))
                    out.append(f"{fam}_{cmp} {cap} " + " ".join(seq))
    # --- 5. flat_set with a STORED comparator: s is constructed ascending, t descending; swap, copy assignment
    #        and the assigning constructors change which comparator orders the current set
    # which order the current set holds after each preamble (s starts ascending, t descending)
    mids = {"": False, "sw": True, "sw i 4 i 1 sw": False, "sw i 2 i 5 i 0 sw cp": True, "sw i 3 cp": False}
    for cap in (3, 4):
        for pre, first in reach_prefixes(cap, cap == 3):
            for mid, desc_now in mids.items():
                if quick and mid not in (("sw", "sw i 2 i 5 i 0 sw cp", "sw i 3 cp") if cap == 3 else ("sw",)):
                    continue
                alpha = alphabet("fsd", cap, cur_desc=desc_now)
                head = f"fsd_dyn {cap} {pre} {mid}".replace("  ", " ").rstrip()
                out.append(head)
                for o1 in alpha:
                    if quick and not first and rng.random() < 0.5:
                        continue
                    out.append(f"{head} {o1}")
    for cap in (2, 8):
        alpha = alphabet("fsd", cap, cur_desc=None)
        for k in list(range(-3, 0)) + [6, 7, 8]:
            alpha += [f"i {k}", f"ek {k}"]
        ins = [a for a in alpha if a.startswith(("i ", "e ", "ih "))]
        for _ in range(150 if quick else 4000):
            n = rng.randint(3, 14)
            seq = []
            for _ in range(n):
                r = rng.random()
                seq.append(rng.choice(ins) if r < 0.45 else ("sw" if r < 0.55 else ("cp" if r < 0.6 else rng.choice(alpha))))
            out.append(f"fsd_dyn {cap} " + " ".join(seq))
    return out


def nontrivial(case, impl):
    # the history reached a non-empty set at some point
    return "[ 1 " in impl or "[ 2 " in impl or "[ 3 " in impl or "[ 4 " in impl or "[ 5 " in impl or "[ 6 " in impl \
        or "[ 7 " in impl or "[ 8 " in impl or impl.startswith("ok")
