(* C09 driver: model leg = extracted Model.v (run / ask / relations), spec leg = extracted Spec.v
   (s_run / s_ask / s_relations).  Same case format and the same printing as harness.cpp. *)
let ns n = string_of_int (int_of_nat n)
let contents (l : z list) = join [ "["; zlist_s l; "]" ]

let cmp_of = function
  | "less" | "tless" -> cmp_less
  | "greater" | "tgreater" -> cmp_greater
  | "half" -> cmp_half
  | _ -> raise Not_found

(* sst / fst: the same containers over the tracked (non-trivial) key type of the harness; sss / fss: over the
   std::string key; fbt / fbs: flat_set over the std::vector adaptor with the tracked / the string key *)
let kind_of = function
  | "ss" | "sst" | "sss" -> StaticSet
  | "fsv" | "fip" | "fst" | "fss" | "fbs" | "fbt" -> FlatSet
  | _ -> raise Not_found

(* the families whose key type counts the element objects a call touches: after an erase(key) / erase(pos) /
   erase(first, last) / erase_if that removed nothing every leg prints "touched <n>" (model: ModelMove.erase_touched on the
   contents before the call; spec: SpecMove.s_erase_nothing_touched) *)
let counted = function "sst" | "fst" | "fbt" -> true | _ -> false
let is_erase_call (o : z op) = match o with EraseKey _ | ErasePos _ | EraseRange (_, _) | EraseIf _ -> true | _ -> false

(* step parser: (code, op) list *)
let parse_one t =
    let code = next_str t in
    let o =
      match code with
      | "i" | "im" | "ic" -> Insert (next_z t)   (* const& / && overloads: one model *)
      | "e" -> Emplace (next_z t)
      | "ih" | "ihm" | "ihc" | "eh" -> let h = next_nat t in let k = next_z t in InsertHint (h, k)
      | "ir" | "iru" -> InsertRange (next_zlist t)   (* iru: insert(sorted_unique, first, last) = insert(first, last) *)
      | "as" -> Assign (next_zlist t)
      | "asu" | "asui" -> AssignSorted (next_zlist t)   (* container / iterator-pair overload *)
      | "asi" -> AssignIter (next_zlist t)
      | "cp" -> CopyFrom
      | "rp" -> Replace (next_zlist t)
      | "ek" -> EraseKey (next_z t)
      | "ep" | "epc" -> ErasePos (next_nat t)   (* erase(iterator) / erase(const_iterator) *)
      | "er" -> let a = next_nat t in let b = next_nat t in EraseRange (a, b)
      | "ef" -> let a = next_z t in let b = next_z t in EraseIf (pred_of a b)
      | "cl" -> Clear
      | "sw" -> Swap
      | "x" -> Extract
      | _ -> raise Not_found
    in
    (code, o)

let rec parse_steps t acc =
  if not (more t) then List.rev acc else parse_steps t (parse_one t :: acc)

let supported kind (o : z op) =
  match kind, o with
  | StaticSet, (InsertHint _ | AssignSorted _ | EraseIf _ | Extract | Replace _) -> false
  | _ -> true

(* model results *)
let out_s kind (o : z out) =
  match o with
  | OIns (None, b) -> join [ "null"; b2s b ]
  | OIns (Some p, b) -> join [ ns p; b2s b ]
  | OPos p -> ns p
  | OCount n -> ns n
  | OUnit -> ""
  | OElems l -> zlist_s l
  | OContract -> "contract"

(* spec results: the failure of a full set is reported the way the container documents it *)
let sout_s kind (o : z sout) =
  match o with
  | SIns (p, b) -> join [ ns p; b2s b ]
  | SFull -> (match kind with StaticSet -> "null 0" | FlatSet -> "contract")
  | SPos p -> ns p
  | SCount n -> ns n
  | SUnit -> ""
  | SElems l -> zlist_s l

let tokjoin l = join (List.filter (fun s -> s <> "") l)

let answers_s (a : answers) =
  join [ ns a.a_find; ns a.a_count; b2s a.a_contains; ns a.a_lower; ns a.a_upper;
         ns (fst a.a_range); ns (snd a.a_range) ]

exception Bad of string

let unres = function
  | Ok x -> x
  | Contract -> raise (Bad "contract")
  | UB _ -> raise (Bad "ub")
  | OutOfFuel -> raise (Bad "fuel")

let touched_model fam lt kind (prev : z list) (o : z op) (r : z out) (l : z list) =
  if counted fam && is_erase_call o && r <> OContract && List.length l = List.length prev then
    (match unres (erase_touched lt kind prev o) with
     | Some m -> join [ "touched"; ns m ]
     | None -> "touched none")
  else ""

let touched_spec fam (prev : z list) (o : z op) (l : z list) =
  if counted fam && is_erase_call o && List.length l = List.length prev then
    join [ "touched"; ns s_erase_nothing_touched ]
  else ""

let header cap (l : z list) =
  let n = List.length l in
  join [ "S"; string_of_int n; b2s (n = 0); b2s (n = cap); string_of_int cap ]

(* every key of the universe: 0..5 in the exhaustive part, -3..8 for the capacity-8 histories *)
let rec range a b = if a > b then [] else a :: range (a + 1) b
let qs_of cap = if cap >= 8 then range (-3) 8 else range 0 5
let bands_of cap = if cap >= 8 then range (-3) 7 else range 0 4

let model_leg fam cmpname cap steps =
  let qs = qs_of cap and bands = bands_of cap in
  let kind = kind_of fam in
  let lt = cmp_of cmpname in
  let transparent = cmpname = "tless" || cmpname = "tgreater" in
  (* the heterogeneous point / band keys as the transparent comparator sees them *)
  let point_cut = if cmpname = "tgreater" then point_cut_g else point_cut in
  let band_cut = if cmpname = "tgreater" then band_cut_g else band_cut in
  try
    if List.exists (fun (_, o) -> not (supported kind o)) steps then raise (Bad "nomember");
    let (s, trace) = unres (run lt kind (nat_of_int cap) init (List.map snd steps)) in
    let rec zip prev codes tr =
      match codes, tr with
      | (c, op) :: cs, (o, l) :: ts ->
          tokjoin [ c; out_s kind o; contents l; touched_model fam lt kind prev op o l ] :: zip l cs ts
      | _, _ -> []
    in
    let steps_s = zip [] steps trace in
    let l = s.cur in
    let ask1 tr c = answers_s (unres (ask kind tr c l)) in
    let q_s = List.map (fun q -> join [ "q"; ask1 false (key_cut lt (z_of_int q)) ]) qs in
    let t_s =
      if transparent then
        List.map (fun q -> join [ "t"; ask1 true (point_cut (z_of_int q)) ]) qs
        @ List.map (fun q -> join [ "b"; ask1 true (band_cut (z_of_int q) (z_of_int (q + 1))) ]) bands
      else []
    in
    let rel = unres (relations key_ltb (set_eq key_eqb kind) l s.oth) in
    tokjoin (steps_s @ [ header cap l ] @ q_s @ t_s
             @ [ join ("R" :: List.map b2s rel); "T"; contents s.oth ])
  with Bad m -> m

let spec_leg fam cmpname cap steps =
  let qs = qs_of cap and bands = bands_of cap in
  let kind = kind_of fam in
  let lt = cmp_of cmpname in
  let transparent = cmpname = "tless" || cmpname = "tgreater" in
  (* the heterogeneous point / band keys as the transparent comparator sees them *)
  let point_cut = if cmpname = "tgreater" then point_cut_g else point_cut in
  let band_cut = if cmpname = "tgreater" then band_cut_g else band_cut in
  match s_run lt kind (nat_of_int cap) init (List.map snd steps) with
  | None -> "na"
  | Some (s, trace) ->
      let rec zip prev codes tr =
        match codes, tr with
        | (c, op) :: cs, (o, l) :: ts ->
            tokjoin [ c; sout_s kind o; contents l; touched_spec fam prev op l ] :: zip l cs ts
        | _, _ -> []
      in
      let steps_s = zip [] steps trace in
      let l = s.cur in
      let ask1 c = answers_s (s_ask c l) in
      let q_s = List.map (fun q -> join [ "q"; ask1 (key_cut lt (z_of_int q)) ]) qs in
      let t_s =
        if transparent then
          List.map (fun q -> join [ "t"; ask1 (point_cut (z_of_int q)) ]) qs
          @ List.map (fun q -> join [ "b"; ask1 (band_cut (z_of_int q) (z_of_int (q + 1))) ]) bands
        else []
      in
      let rel = s_relations key_eqb key_ltb l s.oth in
      tokjoin (steps_s @ [ header cap l ] @ q_s @ t_s
               @ [ join ("R" :: List.map b2s rel); "T"; contents s.oth ])

(* the stored-comparator family also assigns sets constructed with an explicit comparator:
   asic d n k..  = flat_set(first, last, dyn_less{d});  asuic d n k.. = flat_set(sorted_unique, first, last, dyn_less{d}) *)
let rec parse_steps2 t acc =
  if not (more t) then List.rev acc
  else begin
    let code = (match t.rest with [] -> "" | x :: _ -> x) in
    match code with
    | "asic" | "asuic" ->
        let _ = next_str t in
        let d = next_int t in
        let c = if d <> 0 then cmp_greater else cmp_less in
        let ks = next_zlist t in
        let o = if code = "asic" then AssignIterCmp (c, ks) else AssignSortedIterCmp (c, ks) in
        parse_steps2 t ((code, o) :: acc)
    | _ ->
        (match parse_one t with
         | (c, o) -> parse_steps2 t ((c, Plain o) :: acc))
  end

(* flat_set with a stored comparator: s starts ascending, t descending, Compare() is ascending *)
let dyn_legs cap steps =
  let qs = qs_of cap in
  let ops = List.map snd steps in
  let start = init2 cmp_less cmp_greater in
  let finish (cur : z cset) (oth : z cset) steps_s ask1 rel =
    let lt = cur.cmp in
    let desc = lt (z_of_int 1) (z_of_int 0) in
    let q_s = List.map (fun q -> join [ "q"; ask1 false (key_cut lt (z_of_int q)) ]) qs in
    (* dyn_less is transparent: the heterogeneous point / band keys as the order the set holds NOW sees them *)
    let pc = if desc then point_cut_g else point_cut and bc = if desc then band_cut_g else band_cut in
    let t_s = List.map (fun q -> join [ "t"; ask1 true (pc (z_of_int q)) ]) qs
              @ List.map (fun q -> join [ "b"; ask1 true (bc (z_of_int q) (z_of_int (q + 1))) ]) (bands_of cap) in
    tokjoin (steps_s @ [ header cap cur.elems; join [ "D"; b2s desc ] ] @ q_s @ t_s
             @ [ join ("R" :: List.map b2s rel); "T"; contents oth.elems ]) in
  let m =
    try
      let (s, trace) = unres (run3 cmp_less (nat_of_int cap) start ops) in
      let rec zip codes tr =
        match codes, tr with
        | (c, _) :: cs, (o, l) :: ts -> tokjoin [ c; out_s FlatSet o; contents l ] :: zip cs ts
        | _, _ -> [] in
      let l = s.cur2.elems in
      finish s.cur2 s.oth2 (zip steps trace)
        (fun tr c -> answers_s (unres (ask FlatSet tr c l)))
        (unres (relations key_ltb (set_eq key_eqb FlatSet) l s.oth2.elems))
    with Bad m -> m in
  let p =
    match s_run3 cmp_less (nat_of_int cap) start ops with
    | None -> "na"
    | Some (s, trace) ->
        let rec zip codes tr =
          match codes, tr with
          | (c, _) :: cs, (o, l) :: ts -> tokjoin [ c; sout_s FlatSet o; contents l ] :: zip cs ts
          | _, _ -> [] in
        let l = s.cur2.elems in
        finish s.cur2 s.oth2 (zip steps trace) (fun _ c -> answers_s (s_ask c l))
          (s_relations key_eqb key_ltb l s.oth2.elems) in
  (m, p)

let run_case op t =
  let us = try String.index op '_' with Not_found -> raise Not_found in
  let fam = String.sub op 0 us in
  let cmpname = String.sub op (us + 1) (String.length op - us - 1) in
  if fam = "fms" then begin
    let lt = cmp_of cmpname in
    let ks = next_zlist t in
    let n = List.length ks in
    let m =
      if n > 8 then "contract"   (* the backing static_vector<int, 8> cannot be built *)
      else match fms_construct lt ks with
        | Ok l -> join [ "ok"; zlist_s l; string_of_int (List.length l); b2s (l = []) ]
        | Contract -> "contract" | UB _ -> "ub" | OutOfFuel -> "fuel" in
    let p =
      if n > 8 then "na"
      else let l = s_multiset_of_range lt ks in   (* Spec.v: std::multiset(first, last), the object of C09_flat_multiset_is_std_multiset *)
        join [ "ok"; zlist_s l; string_of_int (List.length l); b2s (l = []) ] in
    (m, p)
  end else if fam = "fsd" then begin
    let cap = next_int t in
    dyn_legs cap (parse_steps2 t [])
  end else begin
    let cap = next_int t in
    let steps = parse_steps t [] in
    (model_leg fam cmpname cap steps, spec_leg fam cmpname cap steps)
  end

let () = main run_case
