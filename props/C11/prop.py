"""C11 — calendar conversions: case generators and configuration."""
ID = "C11"
LEVEL = "proof"
# translator tie: these kernels are regenerated from /repo on every run and re-proved equal to the model (coq/C11/GenEquiv.v)
TRANSLATE = [("translate/kernels_chrono.json", "coq/Gen/Gen_chrono.v")]
HARNESSES = [{"name": "main", "src": "harness.cpp", "flags": ["-O1", "-DTETL_ENABLE_CONTRACT_CHECKS=1"]}]

DAY_LO, DAY_HI = -12687428, 11248737
ERA = 146097

RULE = ("exhaustive windows around every 400-year era boundary, around year ends of boundary years, "
        "the first/last supported days, a stride sweep of the whole range, every (y,m,d in 0..32) for boundary years, "
        "every month x delta in [-40,40], every weekday x delta in [-20,20], plus seeded random days/dates; "
        "non-trivial = distinct case line whose impl outcome is ok (all are, inside the domain)")

TRUSTED_BASE = ["reference leg: libstdc++ 12 std::chrono calendar types on the same inputs"]
ASSUMPTIONS = ["LP64, int is 32 bits, two's complement", "sys_days::rep is int32 (etl::chrono::days)"]


def dfc(y, m, d):
    y -= m <= 2
    era = y // 400
    yoe = y - era * 400
    doy = (153 * (m - 3 if m > 2 else m + 9) + 2) // 5 + d - 1
    doe = yoe * 365 + yoe // 4 - yoe // 100 + doy
    return era * ERA + doe - 719468


def gen(tier, rng):
    out = []
    quick = tier == "quick"
    # --- days
    days = set()
    w = 3 if quick else 400
    for era in range(-88, 86):
        b = era * ERA - 719468
        for k in range(-w, w + 1):
            days.add(b + k)
    for k in range(0, 800 if quick else 4000):
        days.add(DAY_LO + k)
        days.add(DAY_HI - k)
    for y in ([-32767, -1, 0, 1, 1899, 1900, 1970, 2000, 2024, 2100, 32767] if quick else list(range(-5, 5)) + list(range(1895, 2105)) + [-32767, 32767]):
        a = dfc(y, 1, 1)
        for k in range(0, 366):
            days.add(a + k)
    stride = 9973 if quick else 97
    for z in range(DAY_LO, DAY_HI, stride):
        days.add(z)
    for _ in range(3000 if quick else 200000):
        days.add(rng.randint(DAY_LO, DAY_HI))
    days = sorted(z for z in days if DAY_LO <= z <= DAY_HI)
    for z in days:
        out.append(f"civil {z}")
        out.append(f"roundtrip {z}")
        out.append(f"weekday {z}")
        if z < DAY_HI:
            out.append(f"next_day {z}")
    # weekday over a wider int range
    for z in [-2147483648, -2147483647, 2147483643, 2147483642, -5, -4, -3, 0] + [rng.randint(-2**31, 2**31 - 5) for _ in range(500)]:
        out.append(f"weekday {z}")
    # --- dates
    years = [-32767, -32766, -400, -100, -4, -1, 0, 1, 4, 100, 400, 1600, 1900, 1970, 2000, 2023, 2024, 2100, 32766, 32767]
    if not quick:
        years += list(range(-32767, 32768, 37))
    years += [rng.randint(-32767, 32767) for _ in range(30 if quick else 600)]
    for y in years:
        out.append(f"is_leap {y}")
        for m in range(0, 14):
            if 1 <= m <= 12:
                out.append(f"last_day {y} {m}")
            for d in range(0, 33):
                out.append(f"ymd_ok {y} {m} {d}")
                if 1 <= m <= 12 and 1 <= d <= 28:
                    out.append(f"days {y} {m} {d}")
        for (m, d) in [(1, 31), (2, 29), (3, 31), (4, 30), (12, 31), (2, 28)]:
            out.append(f"days {y} {m} {d}")
    for y in range(-32767, 32768, 1 if not quick else 61):
        out.append(f"is_leap {y}")
    # --- modular arithmetic
    for m in range(1, 13):
        for dm in list(range(-40, 41)) + [-2147483647, 2147483647, 1000003, -1000003]:
            out.append(f"month_plus {m} {dm}")
        for m2 in range(1, 13):
            out.append(f"month_minus {m} {m2}")
    for y in [-32767, -1, 0, 1, 1999, 2020, 32767] + [rng.randint(-32000, 32000) for _ in range(10 if quick else 200)]:
        for m in range(1, 13):
            for dm in list(range(-40, 41)) + [rng.randint(-5000, 5000) for _ in range(4)]:
                ny = y + (m - 1 + dm) // 12
                if -32767 <= ny <= 32767:
                    out.append(f"ym_plus {y} {m} {dm}")
        for dy in [-3, -1, 0, 1, 5, 100]:
            if -32767 <= y + dy <= 32767:
                out.append(f"year_plus {y} {dy}")
    for w in range(0, 7):
        out.append(f"wd_incdec {w}")
        for dd in list(range(-20, 21)) + [-2147483647, 2147483647, 255, 256, -255, -256, 1000, -1000] + [rng.randint(-10**6, 10**6) for _ in range(5)]:
            out.append(f"wd_plus {w} {dd}")
            out.append(f"wd_minus {w} {dd}")
        for w2 in range(0, 7):
            out.append(f"wd_diff {w} {w2}")
    return out


def nontrivial(case, impl):
    return impl.startswith("ok")
