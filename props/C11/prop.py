"""C11 — calendar conversions: case generators and configuration."""
import os

ID = "C11"
LEVEL = "proof"
# translator tie: these kernels are regenerated from /repo on every run and re-proved equal to the model (coq/C11/GenEquiv.v)
TRANSLATE = [("translate/kernels_chrono.json", "coq/Gen/Gen_chrono.v"),
             # the calendar TYPES (constructors, conversions, ok(), + months / years): coq/C11/GenEquiv2.v
             ("translate/kernels_calendar.json", "coq/Gen/Gen_calendar.v")]
HARNESSES = [
    {"name": "main", "src": "harness.cpp", "flags": ["-O1", "-DTETL_ENABLE_CONTRACT_CHECKS=1"]},
    # the same cases under ASan + UBSan: a signed overflow or an out-of-bounds table read inside the documented domain
    # kills the child ("crash <sig>" != model) instead of passing unnoticed (this is how 5f4dacf's defect shows up)
    {"name": "san", "src": "harness.cpp",
     "flags": ["-O1", "-DTETL_ENABLE_CONTRACT_CHECKS=1", "-fsanitize=address,undefined", "-fno-sanitize-recover=all"]},
    # a second compiler at -O2
    {"name": "clang", "src": "harness.cpp", "compiler": "clang++-14", "flags": ["-O2", "-DTETL_ENABLE_CONTRACT_CHECKS=1"],
     "thorough_only": True},
    # the RELEASE build: TETL_PRECONDITION compiled out, the day / month constructors only narrow; the driver gets the
    # same environment variable and answers with the release model (coq/C11/ModelRev.v, C11_rev_release_build)
    {"name": "nochk", "src": "harness.cpp", "flags": ["-O2"], "env": {"C11_NOCHK": "1"}, "thorough_only": True},
]

DAY_LO, DAY_HI = -12687428, 11248737
ERA = 146097

RULE = ("kernels: exhaustive windows around every 400-year era boundary, around year ends of boundary years, "
        "the first/last supported days, a stride sweep of the whole range, every (y,m,d in 0..32) for boundary years, "
        "every month x delta in [-40,40], every weekday x delta in [-20,20], seeded random days/dates, int32 day counts up to the "
        "overflow boundary and every stored (y,m,d) class for totality; calendar types: year/month/day arithmetic and comparisons "
        "on boundary + random values (incl. stored values 0..255 and deltas up to int32 limits), ok() of every partial date over "
        "m 0..14/254/255 x d 0..33/254/255 x weekday 0..8 x index 0..7/200, year_month_day +/- months/years over boundary years with "
        "end-of-month days, year_month_day_last / year_month_weekday(_last) for every month x weekday x index 0..7 of boundary + random "
        "years, year_month_weekday <-> sys_days on a stride sweep + era boundaries + whole years, ==/!= of every type on near-equal "
        "tuples, every operator/ spelling; review round: stored values that are not ok() everywhere (weekday 7..255 in + / - / ++ / -- "
        "with the reference on, month - month / weekday - weekday / year_month(+day,_last,_weekday) + months / operator sys_days of the "
        "_weekday and _last types on months 0,13..255, weekdays 7..255, year -32768: reference off, model tie in the sanitizer build), "
        "year_month + months over the whole +-786000 range that keeps the year representable and up to the int32 limits, weekday of the "
        "last four int32 day counts, year_month_weekday{sys_days} outside the supported years; four harness builds (g++ -O1, "
        "g++ ASan+UBSan, clang++ -O2, release build without contract checks); "
        "non-trivial = distinct case line whose impl outcome is ok")

TRUSTED_BASE = ["reference leg: libstdc++ 12 std::chrono calendar types on the same inputs"]
ASSUMPTIONS = ["LP64, int is 32 bits, two's complement", "sys_days::rep is int32 (etl::chrono::days)"]


def dfc(y, m, d):
    y -= m <= 2
    era = y // 400
    yoe = y - era * 400
    doy = (153 * (m - 3 if m > 2 else m + 9) + 2) // 5 + d - 1
    doe = yoe * 365 + yoe // 4 - yoe // 100 + doy
    return era * ERA + doe - 719468


def gen(tier, rng):
    out = []
    # "search" (the engine's targeted search after a broken correspondence, up to 5 rounds with fresh seeds inside a
    # 90 s budget) uses the quick sizes: a thorough-sized round would take minutes per harness variant
    quick = tier in ("quick", "search")
    # --- days
    days = set()
    w = 3 if quick else 400
    for era in range(-88, 86):
        b = era * ERA - 719468
        for k in range(-w, w + 1):
            days.add(b + k)
    for k in range(0, 800 if quick else 4000):
        days.add(DAY_LO + k)
        days.add(DAY_HI - k)
    for y in ([-32767, -1, 0, 1, 1899, 1900, 1970, 2000, 2024, 2100, 32767] if quick else list(range(-5, 5)) + list(range(1895, 2105)) + [-32767, 32767]):
        a = dfc(y, 1, 1)
        for k in range(0, 366):
            days.add(a + k)
    stride = 9973 if quick else 97
    for z in range(DAY_LO, DAY_HI, stride):
        days.add(z)
    for _ in range(3000 if quick else 200000):
        days.add(rng.randint(DAY_LO, DAY_HI))
    days = sorted(z for z in days if DAY_LO <= z <= DAY_HI)
    for z in days:
        out.append(f"civil {z}")
        out.append(f"roundtrip {z}")
        out.append(f"weekday {z}")
        if z < DAY_HI:
            out.append(f"next_day {z}")
    # weekday over a wider int range
    for z in [-2147483648, -2147483647, 2147483647, 2147483646, 2147483645, 2147483644, 2147483643, 2147483642, -5, -4, -3, 0] + [rng.randint(-2**31, 2**31 - 1) for _ in range(500)]:
        out.append(f"weekday {z}")
    # --- dates
    years = [-32768, -32767, -32766, -400, -100, -4, -1, 0, 1, 4, 100, 400, 1600, 1900, 1970, 2000, 2023, 2024, 2100, 32766, 32767]
    if not quick:
        years += list(range(-32767, 32768, 37))
    years += [rng.randint(-32767, 32767) for _ in range(30 if quick else 600)]
    for y in years:
        out.append(f"is_leap {y}")
        for m in range(0, 14):
            if 1 <= m <= 12:
                out.append(f"last_day {y} {m}")
            for d in range(0, 33):
                out.append(f"ymd_ok {y} {m} {d}")
                if 1 <= m <= 12 and 1 <= d <= 28:
                    out.append(f"days {y} {m} {d}")
        for (m, d) in [(1, 31), (2, 29), (3, 31), (4, 30), (12, 31), (2, 28)]:
            out.append(f"days {y} {m} {d}")
    for y in range(-32767, 32768, 1 if not quick else 61):
        out.append(f"is_leap {y}")
    # --- modular arithmetic
    for m in range(1, 13):
        for dm in list(range(-40, 41)) + [-2147483647, 2147483647, 1000003, -1000003]:
            out.append(f"month_plus {m} {dm}")
        for m2 in range(1, 13):
            out.append(f"month_minus {m} {m2}")
    # month - month on stored values that are not ok(): unspecified value (no reference), defined, model tie
    for a in [0, 1, 12, 13, 14, 127, 128, 254, 255]:
        for b in [0, 1, 12, 13, 200, 255]:
            out.append(f"month_minus {a} {b}")
    for y in [-32767, -1, 0, 1, 1999, 2020, 32767] + [rng.randint(-32000, 32000) for _ in range(10 if quick else 200)]:
        for m in range(1, 13):
            for dm in list(range(-40, 41)) + [rng.randint(-5000, 5000) for _ in range(4)]:
                ny = y + (m - 1 + dm) // 12
                if -32767 <= ny <= 32767:
                    out.append(f"ym_plus {y} {m} {dm}")
        for dy in [-3, -1, 0, 1, 5, 100]:
            if -32767 <= y + dy <= 32767:
                out.append(f"year_plus {y} {dy}")
        # the whole months range that keeps the year representable (+-786 000), results outside it (int16 wrap: no
        # reference), month values that are not ok() (unspecified, no reference) and the int32 limits of the delta
        for m in [0, 1, 2, 11, 12, 13, 14, 100, 254, 255]:
            for dm in [0, 1, -1, 11, -11, 12, -12, 13, -13, 786000, -786000, 393215, -393217, 2**31 - 1, -(2**31 - 1),
                       rng.randint(-800000, 800000), rng.randint(-800000, 800000), rng.randint(-2**31 + 1, 2**31 - 1)]:
                out.append(f"ym_plus {y} {m} {dm}")
    for _ in range(400 if quick else 40000):
        y = rng.randint(-32767, 32767)
        out.append(f"ym_plus {y} {rng.randint(1, 12)} {rng.randint(-(32767 + y) * 12 - 11, (32767 - y) * 12 + 11)}")
    for y in [-32768, 32767, 0]:
        for dm in [0, 1, -1, 12, -12]:
            out.append(f"ym_plus {y} {rng.randint(1, 12)} {dm}")
    # every stored weekday value: [time.cal.wd.nonmembers] defines + / - / ++ / -- through the stored value, ok() or not;
    # weekday - weekday is unspecified unless both are ok() (no reference there, model tie only)
    for w in list(range(7, 13)) + [127, 128, 200, 254, 255]:
        out.append(f"wd_incdec {w}")
        for dd in list(range(-8, 9)) + [-2147483648, -2147483647, 2147483647, 255, 256, -255, -256, rng.randint(-10**6, 10**6)]:
            out.append(f"wd_plus {w} {dd}")
            out.append(f"wd_minus {w} {dd}")
        for w2 in [0, 1, 6, 7, 8, 200, 255]:
            out.append(f"wd_diff {w} {w2}")
            out.append(f"wd_diff {w2} {w}")
    for w in range(0, 7):
        out.append(f"wd_plus {w} -2147483648")
        out.append(f"wd_incdec {w}")
        for dd in list(range(-20, 21)) + [-2147483647, 2147483647, 255, 256, -255, -256, 1000, -1000] + [rng.randint(-10**6, 10**6) for _ in range(5)]:
            out.append(f"wd_plus {w} {dd}")
            out.append(f"wd_minus {w} {dd}")
        for w2 in range(0, 7):
            out.append(f"wd_diff {w} {w2}")

    out += gen_cal(tier, rng, quick)
    return out


def fl(a, b):
    return a // b


def gen_cal(tier, rng, quick):
    """part 2: the calendar types around the kernels"""
    out = []
    R = rng.randint
    I32 = 2**31
    by = [-32767, -32766, -401, -400, -100, -5, -4, -1, 0, 1, 4, 100, 400, 1600, 1900, 1970, 2000, 2023, 2024, 2100, 32766, 32767]
    ys = by + [R(-32767, 32767) for _ in range(20 if quick else 400)]
    # --- year
    for y in ys + [-32768, 32768, -40000, 40000, 65536 + 5, -65536 - 7]:
        for dy in [0, 1, -1, 2, -3, 100, -400, 65535, 65536, -65537, R(-70000, 70000), R(-70000, 70000), I32 - 50000, -(I32 - 50000)]:
            out.append(f"year_arith {y} {dy}")
    for a in by + [-32768]:
        for b in by + [-32768, R(-32768, 32767)]:
            out.append(f"year_cmp {a} {b}")
    # --- month
    for m in list(range(0, 20)) + [100, 127, 128, 200, 253, 254, 255] + [R(0, 255) for _ in range(5)]:
        for dm in list(range(-26, 27)) + [I32 - 1, -(I32 - 1), 1000003, -1000003, R(-10**6, 10**6), R(-I32 + 1, I32 - 1)]:
            out.append(f"month_arith {m} {dm}")
    for a in list(range(0, 15)) + [254, 255]:
        for b in list(range(0, 15)) + [254, 255]:
            out.append(f"month_cmp {a} {b}")
            out.append(f"day_cmp {min(a + 20, 255)} {min(b + 20, 255)}")
            out.append(f"day_cmp {a} {b}")
    for v in list(range(0, 40)) + [127, 128, 253, 254, 255, 256, 257, 300, 511, 512, 65535, 65536, 2**32 - 1, R(256, 2**32 - 1)]:
        out.append(f"mctor {v}")
        out.append(f"dctor {v}")
    # --- day
    for d in list(range(0, 36)) + [100, 127, 128, 200, 250, 253, 254, 255]:
        for dd in list(range(-40, 41)) + [255 - d, 254 - d, 256 - d, -d, -d - 1, 255, 256, -255, -256, 2**31 - 1, -2**31, 2**31 - 256, R(-10**6, 10**6), R(-300, 300)]:
            out.append(f"day_assign {d} {dd}")
            out.append(f"day_plus {d} {dd}")
            out.append(f"day_minus {d} {dd}")
    # --- weekday, weekday_indexed, weekday_last, month_day, month_weekday
    for w in list(range(0, 12)) + [127, 128, 254, 255]:
        for idx in range(0, 8):
            out.append(f"wd_misc {w} {idx}")
    out.append("constants")
    for w in range(0, 8):
        for idx in [8, 9, 100, 255, 256, 261, 511, 65536 + 3]:
            out.append(f"wd_misc {w} {idx}")
    for m in list(range(0, 15)) + [254, 255]:
        for d in list(range(0, 34)) + [254, 255]:
            out.append(f"md_ok {m} {d}")
        for w in range(0, 9):
            for idx in list(range(0, 8)) + [200]:
                out.append(f"mwd_ok {m} {w} {idx}")
    # --- year_month +/- years, year_month_day +/- months / years (no clamping of the day)
    dms = list(range(-14, 15)) + [24, -24, 25, -25, 1200, -1200]
    for y in ys:
        for m in [0, 1, 2, 6, 12, 13, 254, 255]:
            for dy in [0, 1, -1, 4, -100, R(-300, 300)]:
                out.append(f"ym_years {y} {m} {dy}")
        for _ in range(6 if quick else 30):
            m = R(1, 12)
            d = rng.choice([0, 1, 28, 29, 30, 31, 32, 255, R(1, 31), R(0, 255)])
            out.append(f"ymd_arith {y} {m} {d} {rng.choice(dms + [R(-5000, 5000)])} {rng.choice([0, 1, -1, 4, -4, 100, R(-500, 500)])}")
        for (m, d) in [(1, 31), (2, 29), (3, 31), (12, 31), (1, 29), (1, 30)]:
            for dm in [1, -1, 11, 12, -12, 13, 25, -23]:
                out.append(f"ymd_arith {y} {m} {d} {dm} {rng.choice([1, -1, 4, 3])}")
        # month values that are not ok(): unspecified (no reference), the day must still be kept
        for m in [0, 13, 255]:
            out.append(f"ymd_arith {y} {m} {R(0, 255)} {rng.choice(dms)} {rng.choice([0, 1, -1, 4])}")
    # --- year_month_day_last, year_month_weekday(_last)
    yall = ys if quick else ys + list(range(-32767, 32768, 41))
    for y in yall:
        for m in range(1, 13):
            out.append(f"ymdl {y} {m}")
            for d in [0, 1, 31, 32, 60, 254, 255, R(0, 255)]:
                out.append(f"days_any {y} {m} {d}")
            for w in range(0, 7):
                out.append(f"ymwdl {y} {m} {w}")
                for idx in range(0, 8):
                    out.append(f"ymwd_ok {y} {m} {w} {idx}")
                for idx in range(0, 7):
                    out.append(f"ymwd_to {y} {m} {w} {idx}")
            out.append(f"ymwd_ok {y} {m} {R(0, 8)} {R(6, 255)}")
            out.append(f"ymwd_to {y} {m} {R(0, 6)} {R(7, 255)}")
        for m in [0, 13, 14, 254, 255]:
            out.append(f"ymdl_bad {y} {m}")
            out.append(f"ymdl_badv {y} {m}")
            out.append(f"ymdl_ok {y} {m}")
            out.append(f"ymwd_ok {y} {m} {R(0, 6)} {R(1, 5)}")
            out.append(f"ymwdl_ok {y} {m} {R(0, 6)}")
        # operator sys_days on fields that are not ok(): defined (no overflow, no table overrun: sanitizer build),
        # value unspecified (no reference), model tie
        for m in [0, 13, 254, 255, R(1, 12)]:
            w = rng.choice([7, 8, 9, 127, 128, 254, 255])
            out.append(f"ymwd_to {y} {m} {w} {R(0, 255)}")
            out.append(f"ymwd_to {y} {m} {R(0, 6)} {R(0, 255)}")
            out.append(f"ymwdl {y} {m} {w}")
            out.append(f"ymwdl {y} {m} {R(0, 6)}")
            out.append(f"ymdl_arith {y} {m} {rng.choice(dms)} {rng.choice([0, 1, -1])}")
            out.append(f"ymwd_arith {y} {m} {w} {R(0, 255)} {rng.choice(dms)} {rng.choice([0, 1, -1])}")
            out.append(f"ymwdl_arith {y} {m} {w} {rng.choice(dms)} {rng.choice([0, 1, -1])}")
        out.append(f"ymwd_ok {y} {R(1, 12)} {R(7, 8)} {R(1, 5)}")
        out.append(f"ymwdl_ok {y} {R(1, 12)} {R(7, 255)}")
        out.append(f"ymdl_ok {y} {R(1, 12)}")
        for _ in range(8):
            m, w, idx = R(1, 12), R(0, 6), R(1, 5)
            dm = rng.choice(dms + [R(-5000, 5000)])
            dy = rng.choice([0, 1, -1, 4, -4, 100, R(-500, 500)])
            out.append(f"ymdl_arith {y} {m} {dm} {dy}")
            out.append(f"ymwd_arith {y} {m} {w} {idx} {dm} {dy}")
            out.append(f"ymwdl_arith {y} {m} {w} {dm} {dy}")
    for m in [0, 1, 12, 13]:
        for w in [0, 6, 7, 8]:
            out.append(f"ymwd_to -32768 {m} {w} {R(0, 255)}")
            out.append(f"ymwdl -32768 {m} {w}")
            out.append(f"ymwd_ok -32768 {m} {w} 1")
            out.append(f"ymwdl_ok -32768 {m} {w}")
        out.append(f"ymdl_ok -32768 {m}")
    # year_month_weekday <-> sys_days: a stride sweep, era boundaries, month ends, range ends
    zs = set()
    for era in range(-88, 86):
        b = era * ERA - 719468
        for k in range(-2, 3):
            zs.add(b + k)
    for k in range(0, 40 if quick else 800):
        zs.add(DAY_LO + k)
        zs.add(DAY_HI - k)
    for y in [-1, 0, 1900, 2000, 2024, 2100]:
        a = dfc(y, 1, 1)
        for k in range(0, 366):
            zs.add(a + k)
    for z in range(DAY_LO, DAY_HI, 19997 if quick else 193):
        zs.add(z)
    for _ in range(1500 if quick else 100000):
        zs.add(R(DAY_LO, DAY_HI))
    for z in sorted(z for z in zs if DAY_LO <= z <= DAY_HI):
        out.append(f"ymwd_from {z}")
    # ... and outside the supported years, up to the last day count civil_from_days accepts: defined, model tie only
    ZMAX0 = 2**31 - 1 - 719468
    for z in [ZMAX0, ZMAX0 - 1, -2**31, -2**31 + 1, DAY_HI + 1, DAY_LO - 1, DAY_HI + 400, DAY_LO - 400] \
            + [R(-2**31, ZMAX0) for _ in range(100 if quick else 5000)]:
        out.append(f"ymwd_from {z}")
    # --- the kernels on their whole argument types (totality: defined, impl = model; no reference)
    ZMAX = 2**31 - 1 - 719468
    for z in [ZMAX, ZMAX - 1, -2**31, -2**31 + 1, DAY_HI + 1, DAY_HI + 2, DAY_LO - 1, DAY_LO - 2, DAY_HI + 366, DAY_LO - 366,
              -2**31 + 146096, -2147337552, -2147337553] + [R(-2**31, ZMAX) for _ in range(300 if quick else 20000)]:
        out.append(f"civil_any {z}")
    for k in range(-3, 4):
        for era in [-14695, -14000, -100, 90, 5000, 14699]:
            z = era * ERA - 719468 + k
            if -2**31 <= z <= ZMAX:
                out.append(f"civil_any {z}")
    for y in [-32768, -32767, -1, 0, 1, 2024, 32767]:
        for m in [0, 1, 2, 3, 12, 13, 14, 100, 254, 255]:
            for d in [0, 1, 31, 32, 254, 255]:
                out.append(f"days_raw {y} {m} {d}")
    for _ in range(300 if quick else 20000):
        out.append(f"days_raw {R(-32768, 32767)} {R(0, 255)} {R(0, 255)}")
    # --- == / != of every calendar type; operator/ spellings
    for _ in range(600 if quick else 6000):
        a = [rng.choice(by + [-32768]), R(0, 14), R(0, 9), R(0, 7)]
        b = list(a)
        k = R(0, 5)
        if k < 4:
            b[k] = rng.choice([b[k] + 1, b[k] - 1 if b[k] > 0 else b[k] + 2, R(0, 7)])
        if R(0, 9) == 0:
            a[2], b[2] = 7, 0      # weekday{7} == weekday{0}, day{7} != day{0}
        out.append("eq_all " + " ".join(map(str, a + b)))
    for y in by + [-32768, 40000, -40000]:
        for (m, d) in [(1, 1), (2, 29), (12, 31), (0, 0), (13, 32), (254, 254), (255, 255), (256, 1), (1, 256), (R(0, 255), R(0, 255))]:
            out.append(f"slash {y} {m} {d}")
    return out


def nontrivial(case, impl):
    return impl.startswith("ok")


def _probe(repo, compiler):
    import subprocess
    src = os.path.join(os.path.dirname(os.path.abspath(__file__)), "consteval.cpp")
    try:
        r = subprocess.run([compiler, "-std=c++20", f"-I{repo}/include", "-fsyntax-only", src],
                           capture_output=True, text=True, timeout=300)
    except Exception as e:  # noqa
        return False, str(e)
    lines = [l for l in (r.stdout + r.stderr).splitlines() if "error" in l]
    return r.returncode == 0, "\n".join(lines[:6])


def extra_checks(ctx):
    """compile-only leg: the static_asserts of consteval.cpp under g++ and clang++"""
    from concurrent.futures import ThreadPoolExecutor
    repo = os.environ.get("VERIF_REPO", "/repo")
    compilers = ("g++", "clang++-14")
    with ThreadPoolExecutor(max_workers=2) as ex:
        res = list(ex.map(lambda c: _probe(repo, c), compilers))
    items, ok_n = [], 0
    for c, (ok, err) in zip(compilers, res):
        if ok:
            ok_n += 1
        else:
            items.append({"kind": "violation", "found_input": True,
                          "payload": {"property": "C11", "kind": "a calendar operation is not a constant expression or has the wrong value "
                                      "in constant evaluation (props/C11/consteval.cpp)", "compiler": c, "compiler_output": err}})
    n = sum(1 for l in open(os.path.join(os.path.dirname(os.path.abspath(__file__)), "consteval.cpp")) if l.startswith("static_assert"))
    items.append({"kind": "note", "text": f"consteval.cpp: {n} static_asserts compile under {ok_n}/{len(compilers)} compilers"})
    ctx.evidence = {"compile_only_probes": {"file": "props/C11/consteval.cpp", "static_asserts": n, "compilers_ok": ok_n}}
    return items
