(* C11 driver: model leg = extracted Model.v functions, spec leg = extracted Spec.v *)
let opt3 = function
  | Some ((y, m), d) -> join [ "ok"; str_of_z y; str_of_z m; str_of_z d ]
  | None -> "ub"
let optz = function Some z -> join [ "ok"; str_of_z z ] | None -> "ub"
let okz z = join [ "ok"; str_of_z z ]
let okb b = join [ "ok"; b2s b ]

(* ---- part 2: the calendar types (ModelCal.v / SpecCal.v) ---- *)
let zi i = z_of_int i
let zadd = Z.add and zsub = Z.sub
let zs l = List.map str_of_z l
let bs l = List.map b2s l
let okl l = join ("ok" :: l)
let in_yr y = Big.leq (Big.of_int (-32767)) (big_of_z y) && Big.leq (big_of_z y) (Big.of_int 32767)
let in_u8 v = Big.leq Big.zero (big_of_z v) && Big.leq (big_of_z v) (Big.of_int 255)
let le a b = Big.leq (big_of_z a) (big_of_z b)
let zeq a b = Big.equal (big_of_z a) (big_of_z b)
(* a result in the res monad: Some tokens, or the token contract / ub *)
let rs f = function Ok a -> f a | Contract -> [ "contract" ] | UB _ -> [ "ub" ] | OutOfFuel -> [ "fuel" ]
let rz = rs (fun z -> [ str_of_z z ])
let rpair = rs (fun (y, m) -> zs [ y; m ])
let rtriple = rs (fun ((y, m), d) -> zs [ y; m; d ])
(* whole leg: if any part is ub the leg is ub (the C++ side cannot show it) *)
let leg parts = let l = List.concat parts in if List.mem "ub" l then "ub" else okl l
let legc parts = let l = List.concat parts in if List.mem "ub" l then "ub" else if List.mem "contract" l then "contract" else okl l

(* harness variant `nochk` (release build: TETL_PRECONDITION compiled out) sets C11_NOCHK=1 for the driver too:
   the constructors only narrow (ModelRev.v) *)
let nochk = (try Sys.getenv "C11_NOCHK" = "1" with Not_found -> false)
let rzc checked released = if nochk then [ str_of_z released ] else rz checked

let run_case2 op t =
  match op with
  | "year_arith" ->
      let y = next_z t in let dy = next_z t in
      let c = year_ctor_m y in
      let i = year_inc_m c and d = year_dec_m c in
      let m = leg [ zs [ c ]; bs [ year_ok_m c ]; zs [ i; i; c; i; d; d; c; d ]; rz (year_add_assign_m c dy);
                    rz (year_sub_assign_m c dy); zs [ year_neg_m c; c ]; rz (year_plus_r c dy); rz (year_plus_r c dy);
                    rz (year_minus_years_m c dy) ] in
      let one = zi 1 in
      let all_in = List.for_all in_yr [ y; zadd y one; zsub y one; zadd y dy; zsub y dy ] in
      let p = if all_in then
          okl (zs [ y ] @ bs [ year_ok_spec y ] @ zs [ zadd y one; zadd y one; y; zadd y one; zsub y one; zsub y one; y; zsub y one;
                     zadd y dy; zsub y dy; Z.opp y; y; zadd y dy; zadd y dy; zsub y dy ])
        else "na" in
      (m, p)
  | "year_cmp" ->
      let a = next_z t in let b = next_z t in
      (leg [ bs (cmp6_m a b); rz (year_diff_m a b) ], okl (bs (cmp6_spec a b) @ zs [ zsub a b ]))
  | "month_arith" ->
      let m0 = next_z t in let dm = next_z t in
      let m = match month_ctor_m m0 with Ok v -> v | _ -> m0 in
      let p = rz (month_plus_r m dm) and q = rz (month_minus_months_m m dm) in
      let ml = leg [ bs [ month_ok_m m ]; p; p; q; p; q; rs zs (month_incdec_m m) ] in
      let one = zi 1 in
      let sp = month_plus_spec m dm and sq = month_minus_months_spec m dm in
      let s1 = month_plus_spec m one and s2 = month_minus_months_spec m one in
      (ml, okl (bs [ month_ok_spec m ] @ zs [ sp; sp; sq; sp; sq; s1; s1; m; s1; s2; s2; m; s2 ]))
  | "month_cmp" | "day_cmp" ->
      let a = next_z t in let b = next_z t in
      if op = "month_cmp" then (okl (bs (cmp6_m a b)), okl (bs (cmp6_spec a b)))
      else (okl (bs (cmp6_m a b) @ zs [ day_diff_m a b ]), okl (bs (cmp6_spec a b) @ zs [ zsub a b ]))
  | "mctor" | "dctor" ->
      let v = next_z t in
      let r = if op = "mctor" then rzc (month_ctor_m v) (month_ctor_nc v) else rzc (day_ctor_m v) (day_ctor_nc v) in
      (legc [ r ], if in_u8 v then okl (zs [ v ]) else "na")
  | "day_plus" ->
      let d = next_z t in let dd = next_z t in
      let r = rzc (day_plus_m d dd) (day_plus_nc d dd) in
      (leg [ r; r ], if in_u8 (zadd d dd) then okl (zs [ zadd d dd; zadd d dd ]) else "na")
  | "day_minus" ->
      let d = next_z t in let dd = next_z t in
      (leg [ rzc (day_minus_days_m d dd) (day_minus_days_nc d dd) ], if in_u8 (zsub d dd) then okl (zs [ zsub d dd ]) else "na")
  | "day_assign" ->
      let d = next_z t in let dd = next_z t in
      let one = zi 1 in
      let m = okl (zs ([ day_add_assign_m d dd; day_sub_assign_m d dd ] @ day_incdec_m d) @ bs [ day_ok_m d ]) in
      let p = if List.for_all in_u8 [ zadd d dd; zsub d dd; zadd d one; zsub d one ] then
          let i = zadd d one and k = zsub d one in
          okl (zs [ zadd d dd; zsub d dd; i; i; d; i; k; k; d; k ] @ bs [ day_ok_spec d ])
        else "na" in
      (m, p)
  | "wd_misc" ->
      let w = next_z t in let idx = next_z t in
      let c = weekday_ctor_m w in
      let (cw, ci) = wdi_ctor_m c idx in
      let m = okl (zs [ c; weekday_iso_m c ] @ bs [ weekday_ok_m c ] @ zs [ cw; ci ] @ bs [ wdi_ok_m cw ci ] @ zs [ c ] @ bs [ wdl_ok_m c ]) in
      let sc_ = if zeq w (zi 7) then zi 0 else w in
      let p = if not (in_u8 idx) then "na" (* the index held is unspecified outside the stored range *) else
               okl (zs [ sc_; (if zeq sc_ (zi 0) then zi 7 else sc_) ] @ bs [ weekday_ok_spec sc_ ] @ zs [ sc_; idx ]
                   @ bs [ wdi_ok_spec sc_ idx ] @ zs [ sc_ ] @ bs [ weekday_ok_spec sc_ ]) in
      (m, p)
  | "md_ok" ->
      let m = next_z t in let d = next_z t in
      (okl (bs [ md_ok_m m d; mdl_ok_m m ]), okl (bs [ md_exists m d; month_ok_spec m ]))
  | "mwd_ok" ->
      let m = next_z t in let w = next_z t in let idx = next_z t in
      let c = weekday_ctor_m w in
      (okl (bs [ mwd_ok_m m c idx; mwdl_ok_m m c ]),
       okl (bs [ month_ok_spec m && wdi_ok_spec c idx; month_ok_spec m && weekday_ok_spec c ]))
  | "ym_years" ->
      let y = next_z t in let m = next_z t in let dy = next_z t in
      let ml = leg [ bs [ ym_ok_m y m ]; rpair (ym_plus_years_m y m dy); rpair (ym_minus_years_m y m dy) ] in
      let p = if List.for_all in_yr [ y; zadd y dy; zsub y dy ] then
          okl (bs [ year_ok_spec y && month_ok_spec m ] @ zs [ zadd y dy; m; zsub y dy; m ]) else "na" in
      (ml, p)
  | "ymd_arith" ->
      let y = next_z t in let m = next_z t in let d = next_z t in let dm = next_z t in let dy = next_z t in
      let show r = match r with
        | Ok ((y', m'), d') -> zs [ y'; m'; d' ] @ bs [ ymd_ok_m y' m' d' ]
        | Contract -> [ "contract" ] | _ -> [ "ub" ] in
      let ml = leg [ show (ymd_plus_months_m y m d dm); show (ymd_minus_months_m y m d dm);
                     show (ymd_plus_years_m y m d dy); show (ymd_minus_years_m y m d dy) ] in
      let sp = [ ymd_plus_months_spec y m d dm; ymd_plus_months_spec y m d (Z.opp dm);
                 ymd_plus_years_spec y m d dy; ymd_plus_years_spec y m d (Z.opp dy) ] in
      let p = if in_yr y && month_ok_spec m && List.for_all (fun ((y', _), _) -> in_yr y') sp then
          okl (List.concat_map (fun ((y', m'), d') -> zs [ y'; m'; d' ] @ bs [ date_exists y' m' d' ]) sp) else "na" in
      (ml, p)
  | "ymdl_bad" ->
      let y = next_z t in let m = next_z t in
      (* the calls are made (the model has no undefined outcome for them); only ok() is printed *)
      let defined = match ymdl_to_days_m y m, ymdl_to_ymd_m y m with Ok _, Ok _ -> true | _ -> false in
      ((if defined then okl (bs [ ymdl_ok_m y m ]) else "ub"), okl (bs [ year_ok_spec y && month_ok_spec m ]))
  | "ymdl" | "ymdl_badv" ->
      let y = next_z t in let m = next_z t in
      let ml = leg [ bs [ ymdl_ok_m y m ]; rz (ymdl_day_m y m); rtriple (ymdl_to_ymd_m y m); rz (ymdl_to_days_m y m); rz (ymdl_to_days_m y m) ] in
      let ld = dim y m in
      let z = days_spec y m ld in
      (ml, if in_yr y && month_ok_spec m then okl (bs [ true ] @ zs [ ld; y; m; ld; z; z ]) else "na")
  | "ymdl_ok" ->
      let y = next_z t in let m = next_z t in
      (okl (bs [ ymdl_ok_m y m ]), okl (bs [ year_ok_spec y && month_ok_spec m ]))
  | "ymdl_arith" | "ymwd_arith" | "ymwdl_arith" ->
      let y = next_z t in let m = next_z t in
      let w = if op <> "ymdl_arith" then next_z t else zi 0 in
      let idx = if op = "ymwd_arith" then next_z t else zi 1 in
      let dm = next_z t in let dy = next_z t in
      let (f1, f2, f3, f4) =
        if op = "ymdl_arith" then (ymdl_plus_months_m, ymdl_minus_months_m, ymdl_plus_years_m, ymdl_minus_years_m)
        else (ymwd_plus_months_m, ymwd_minus_months_m, ymwd_plus_years_m, ymwd_minus_years_m) in
      let ml = leg [ rpair (f1 y m dm); rpair (f2 y m dm); rpair (f3 y m dy); rpair (f4 y m dy) ] in
      let (a1, b1) = year_month_plus_spec y m dm and (a2, b2) = year_month_plus_spec y m (Z.opp dm) in
      let p = if month_ok_spec m && le w (zi 7) && le idx (zi 7) && List.for_all in_yr [ y; a1; a2; zadd y dy; zsub y dy ]
              then okl (zs [ a1; b1; a2; b2; zadd y dy; m; zsub y dy; m ]) else "na" in
      (ml, p)
  | "ymwd_ok" ->
      let y = next_z t in let m = next_z t in let w = next_z t in let idx = next_z t in
      let c = weekday_ctor_m w in
      let (_, ci) = wdi_ctor_m c idx in
      (leg [ rs (fun b -> bs [ b ]) (ymwd_ok_m y m c ci) ], okl (bs [ ymwd_exists y m c ci ]))
  | "ymwd_from" ->
      let z = next_z t in
      let ml = match ymwd_from_days_m z with
        | Ok (((y, m), w), i) ->
            leg [ zs [ y; m; w; i ]; rs (fun b -> bs [ b ]) (ymwd_ok_m y m w i); rz (ymwd_to_days_m y m w i) ]
        | _ -> "ub" in
      (* spec, checker style (the walker is unary): inside the supported years the model's year / month are accepted
         only if z is the day number (textbook count) of an existing day d of that month; the expected leg is then
         (y, m, weekday of z, (d-1)/7+1), ok() true, and the conversion back gives z *)
      let p = if not (le (zi (-12687428)) z && le z (zi 11248737)) then "na" else
        match ymwd_from_days_m z with
        | Ok (((y, m), _), _) ->
            let d = zadd (zsub z (days_spec y m (zi 1))) (zi 1) in
            if date_exists y m d && zeq (days_spec y m d) z then
              okl (zs [ y; m; weekday_of z; zadd (Z.div (zsub d (zi 1)) (zi 7)) (zi 1) ] @ bs [ true ] @ zs [ z ])
            else "spec-rejects"
        | _ -> "na" in
      (ml, p)
  | "ymwd_to" ->
      let y = next_z t in let m = next_z t in let w = next_z t in let idx = next_z t in
      let c = weekday_ctor_m w in
      let (_, ci) = wdi_ctor_m c idx in
      let r = rz (ymwd_to_days_m y m c ci) in
      let s = ymwd_days_spec y m c ci in
      (leg [ r; r ], if in_yr y && month_ok_spec m && weekday_ok_spec c then okl (zs [ s; s ]) else "na")
  | "ymwdl" ->
      let y = next_z t in let m = next_z t in let w = next_z t in
      let c = weekday_ctor_m w in
      let r = rz (ymwdl_to_days_m y m c) in
      let s = ymwdl_days_spec y m c in
      (leg [ bs [ ymwdl_ok_m y m c ]; r; r ],
       if in_yr y && month_ok_spec m && weekday_ok_spec c then okl (bs [ true ] @ zs [ s; s ]) else "na")
  | "ymwdl_ok" ->
      let y = next_z t in let m = next_z t in let w = next_z t in
      let c = weekday_ctor_m w in
      (okl (bs [ ymwdl_ok_m y m c ]), okl (bs [ year_ok_spec y && month_ok_spec m && weekday_ok_spec c ]))
  | "days_any" ->
      let y = next_z t in let m = next_z t in let d = next_z t in
      let r = rz (ymd_to_days_m y m d) in
      let s = zsub (zadd (days_spec y m (zi 1)) d) (zi 1) in
      (leg [ r; r ], if in_yr y && month_ok_spec m then okl (zs [ s; s ]) else "na")
  | "civil_any" ->
      let z = next_z t in
      (* spec, checker style, on the whole int32 domain: the stored year is the Gregorian year reduced to int16, so the
         answer (y', m, d) is accepted iff for the one year Y = y' (mod 65536) next to the estimate 1970 + 400 z / 146097
         the date Y-m-d exists and its textbook day number is z *)
      let r = civil_from_days_m z in
      let p = match r with
        | Some ((y', m), d) ->
            let est = zadd (zi 1970) (Z.div (Z.mul z (zi 400)) (zi 146097)) in
            let k = Z.div (zadd (zsub est y') (zi 32768)) (zi 65536) in
            let yy = zadd y' (Z.mul k (zi 65536)) in
            if date_exists yy m d && zeq (days_spec yy m d) z then opt3 r else "spec-rejects"
        | None -> "na" in
      (opt3 r, p)
  | "days_raw" ->
      let y = next_z t in let m = next_z t in let d = next_z t in
      (leg [ rz (ymd_to_days_m y m d) ], "na")
  | "eq_all" ->
      let rd () = let a = next_z t in let b = next_z t in let c = next_z t in let d = next_z t in (a, b, c, weekday_ctor_m c, d) in
      let (y1, m1, d1, w1, i1) = rd () in
      let (y2, m2, d2, w2, i2) = rd () in
      let pr b = bs [ b; not b ] in
      let ml = okl (List.concat [
        pr (eq2_m (y1, m1) (y2, m2)); pr (eq3_m ((y1, m1), d1) ((y2, m2), d2)); pr (eq2_m (m1, d1) (m2, d2));
        pr (zeq m1 m2 && eq2_m (m1, m1) (m2, m2)); pr (eq2_m (y1, m1) (y2, m2)); pr (eq2_m (w1, w1) (w2, w2));
        pr (eq2_m (w1, i1) (w2, i2)); pr (eq2_m (w1, w1) (w2, w2)); pr (eq3_m ((m1, w1), i1) ((m2, w2), i2));
        pr (eq2_m (m1, w1) (m2, w2)); pr (eq4_m (((y1, m1), w1), i1) (((y2, m2), w2), i2));
        pr (eq3_m ((y1, m1), w1) ((y2, m2), w2)) ]) in
      let e l1 l2 = List.for_all2 zeq l1 l2 in
      let p = okl (List.concat [
        pr (e [ y1; m1 ] [ y2; m2 ]); pr (e [ y1; m1; d1 ] [ y2; m2; d2 ]); pr (e [ m1; d1 ] [ m2; d2 ]); pr (e [ m1 ] [ m2 ]);
        pr (e [ y1; m1 ] [ y2; m2 ]); pr (e [ w1 ] [ w2 ]); pr (e [ w1; i1 ] [ w2; i2 ]); pr (e [ w1 ] [ w2 ]);
        pr (e [ m1; w1; i1 ] [ m2; w2; i2 ]); pr (e [ m1; w1 ] [ m2; w2 ]); pr (e [ y1; m1; w1; i1 ] [ y2; m2; w2; i2 ]);
        pr (e [ y1; m1; w1 ] [ y2; m2; w2 ]) ]) in
      (ml, p)
  | "constants" ->
      let l = List.init 12 (fun i -> zi (i + 1)) @ List.init 7 (fun i -> weekday_ctor_m (zi i))
              @ [ year_ctor_m (zi (-32767)); year_ctor_m (zi 32767); year_ctor_m (zi 2024) ] in
      let d31 = rz (day_ctor_m (zi 31)) in
      let s = okl (zs l @ d31 @ zs [ year_ctor_m (zi 40000) ]) in
      (* spec: January..December = 1..12, Sunday..Saturday = 0..6, year::min / max, the literals; 40000_y is unspecified *)
      (s, "na")
  | "slash" ->
      let y = next_z t in let m = next_z t in let d = next_z t in
      let c = year_ctor_m y in
      let mm = if nochk then month_ctor_nc m else m in
      (legc [ zs [ c ]; rzc (month_ctor_m m) (month_ctor_nc m); rzc (day_ctor_m d) (day_ctor_nc d); zs [ c; mm; mm; mm ] ],
       (* every operator/ spelling builds the object with exactly these fields *)
       if in_yr y && in_u8 m && in_u8 d then okl (zs [ y; m; d; y; m; m; m ]) else "na")
  | _ -> raise Not_found

let run_case op t =
  match op with
  | "civil" ->
      let z = next_z t in
      let m = opt3 (civil_from_days_m z) in
      (* spec, checker style: the walker is unary (too slow to run on 24 M days), so the answer is VALIDATED against
         the independent textbook day count: it must be an existing date whose day number is z *)
      let p = match civil_from_days_m z with
        | Some ((y, mo), d) -> if date_exists y mo d && zeq (days_spec y mo d) z then m else "spec-rejects"
        | None -> "na" in
      (m, p)
  | "days" ->
      let y = next_z t in let m = next_z t in let d = next_z t in
      (optz (days_from_civil_m y m d), if in_yr y && month_ok_spec m then okz (days_spec y m d) else "na")
  | "roundtrip" ->
      let z = next_z t in
      let r = match civil_from_days_m z with
        | Some ((y, m), d) -> optz (days_from_civil_m y m d)
        | None -> "ub" in
      (r, okz z)
  | "weekday" ->
      let z = next_z t in (optz (weekday_from_days_m z), okz (weekday_of z))
  | "is_leap" -> let y = next_z t in (okb (is_leap_m y), okb (leap y))
  | "ymd_ok" ->
      let y = next_z t in let m = next_z t in let d = next_z t in
      (okb (ymd_ok_m y m d), okb (year_ok_spec y && date_exists y m d))
  | "last_day" ->
      let y = next_z t in let m = next_z t in
      (* ymdl.day() runs the table-based detail::last_day_of_month (last_day_r); last_day_of_month_m is the helper of
         ymd_ok_m and agrees with it for ok() months (C11_rev_every_stored_value) *)
      ((match last_day_r y m with Ok v when zeq v (last_day_of_month_m y m) || not (month_ok_m m) -> okz v | Ok _ -> "model-helpers-differ" | _ -> "ub"),
       if month_ok_spec m then okz (dim y m) else "na")
  | "month_plus" ->
      let m = next_z t in let dm = next_z t in (okz (month_plus_m m dm), okz (month_plus_spec m dm))
  | "month_minus" ->
      let a = next_z t in let b = next_z t in
      (okz (month_minus_m a b), if month_ok_spec a && month_ok_spec b then okz (month_minus_spec a b) else "na")
  | "ym_plus" ->
      let y = next_z t in let m = next_z t in let dm = next_z t in
      let r = match year_month_plus_months_m y m dm with
        | Some (y', m') -> join [ "ok"; str_of_z y'; str_of_z m' ] | None -> "ub" in
      let (sy, sm) = year_month_plus_spec y m dm in
      (r, if in_yr y && month_ok_spec m && in_yr sy then join [ "ok"; str_of_z sy; str_of_z sm ] else "na")
  | "year_plus" ->
      let y = next_z t in let dy = next_z t in
      (optz (year_plus_m y dy), okz (Z.add y dy))
  | "wd_plus" ->
      let w = weekday_ctor_m (next_z t) in let d = next_z t in (okz (weekday_plus_m w d), okz (weekday_plus_spec w d))
  | "wd_minus" ->
      let w = weekday_ctor_m (next_z t) in let d = next_z t in
      (okz (weekday_minus_days_m w d), okz (weekday_plus_spec w (Z.opp d)))
  | "wd_incdec" ->
      let w = weekday_ctor_m (next_z t) in
      let p = weekday_plus_spec w (Zpos XH) in let q = weekday_plus_spec w (Zneg XH) in
      (join ("ok" :: List.map str_of_z (weekday_incdec_m w)),
       join ("ok" :: List.map str_of_z [p; p; w; p; q; q; w; q]))
  | "wd_diff" ->
      let a = weekday_ctor_m (next_z t) in let b = weekday_ctor_m (next_z t) in
      (okz (weekday_diff_m a b), if weekday_ok_spec a && weekday_ok_spec b then okz (weekday_diff_spec a b) else "na")
  | "next_day" ->
      (* spec validation: civil(z+1) must be next_day(civil z) *)
      let z = next_z t in
      let r = match civil_from_days_m z with
        | Some t3 -> let ((y, m), d) = next_day t3 in join [ "ok"; str_of_z y; str_of_z m; str_of_z d ]
        | None -> "ub" in
      (opt3 (civil_from_days_m (Z.add z (Zpos XH))), r)
  | _ -> run_case2 op t

let () = main run_case
