(* C11 driver: model leg = extracted Model.v functions, spec leg = extracted Spec.v *)
let opt3 = function
  | Some ((y, m), d) -> join [ "ok"; str_of_z y; str_of_z m; str_of_z d ]
  | None -> "ub"
let optz = function Some z -> join [ "ok"; str_of_z z ] | None -> "ub"
let okz z = join [ "ok"; str_of_z z ]
let okb b = join [ "ok"; b2s b ]

let run_case op t =
  match op with
  | "civil" ->
      let z = next_z t in
      let m = opt3 (civil_from_days_m z) in
      (* spec: walk from the first supported day; only evaluated near the start of the range
         (the walker is unary); elsewhere the reference is the theorem + std::chrono *)
      (m, "na")
  | "days" ->
      let y = next_z t in let m = next_z t in let d = next_z t in
      (optz (days_from_civil_m y m d), "na")
  | "roundtrip" ->
      let z = next_z t in
      let r = match civil_from_days_m z with
        | Some ((y, m), d) -> optz (days_from_civil_m y m d)
        | None -> "ub" in
      (r, okz z)
  | "weekday" ->
      let z = next_z t in (optz (weekday_from_days_m z), okz (weekday_of z))
  | "is_leap" -> let y = next_z t in (okb (is_leap_m y), okb (leap y))
  | "ymd_ok" ->
      let y = next_z t in let m = next_z t in let d = next_z t in
      (okb (ymd_ok_m y m d), okb (date_exists y m d))
  | "last_day" ->
      let y = next_z t in let m = next_z t in
      (okz (last_day_of_month_m y m), okz (dim y m))
  | "month_plus" ->
      let m = next_z t in let dm = next_z t in (okz (month_plus_m m dm), okz (month_plus_spec m dm))
  | "month_minus" ->
      let a = next_z t in let b = next_z t in (okz (month_minus_m a b), okz (month_minus_spec a b))
  | "ym_plus" ->
      let y = next_z t in let m = next_z t in let dm = next_z t in
      let r = match year_month_plus_months_m y m dm with
        | Some (y', m') -> join [ "ok"; str_of_z y'; str_of_z m' ] | None -> "ub" in
      let (sy, sm) = year_month_plus_spec y m dm in
      (r, join [ "ok"; str_of_z sy; str_of_z sm ])
  | "year_plus" ->
      let y = next_z t in let dy = next_z t in
      (optz (year_plus_m y dy), okz (Z.add y dy))
  | "wd_plus" ->
      let w = next_z t in let d = next_z t in (okz (weekday_plus_m w d), okz (weekday_plus_spec w d))
  | "wd_minus" ->
      let w = next_z t in let d = next_z t in
      (okz (weekday_minus_days_m w d), okz (weekday_plus_spec w (Z.opp d)))
  | "wd_incdec" ->
      let w = next_z t in
      let p = weekday_plus_spec w (Zpos XH) in let q = weekday_plus_spec w (Zneg XH) in
      (join ("ok" :: List.map str_of_z (weekday_incdec_m w)),
       join ("ok" :: List.map str_of_z [p; p; w; p; q; q; w; q]))
  | "wd_diff" ->
      let a = next_z t in let b = next_z t in (okz (weekday_diff_m a b), okz (weekday_diff_spec a b))
  | "next_day" ->
      (* spec validation: civil(z+1) must be next_day(civil z) *)
      let z = next_z t in
      let r = match civil_from_days_m z with
        | Some t3 -> let ((y, m), d) = next_day t3 in join [ "ok"; str_of_z y; str_of_z m; str_of_z d ]
        | None -> "ub" in
      (opt3 (civil_from_days_m (Z.add z (Zpos XH))), r)
  | _ -> raise Not_found

let () = main run_case
