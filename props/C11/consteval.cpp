// C11 compile-only probes: every calendar operation, incl. the conversions supplied by eb2e657 / 5d366a0 /
// c102980 and the operators of a4201b8 / 5f4dacf / 34b6a34, is usable in a constant expression and gives the
// expected value there.  The constant evaluator rejects signed overflow and out-of-bounds reads, so a probe that
// stops compiling is either a wrong value or undefined behaviour on that input.  Compiled with -fsyntax-only by
// g++ and clang++ on every ./check C11 (props/C11/prop.py: extra_checks).
#include <etl/chrono.hpp>
namespace ec = etl::chrono;
using namespace etl::literals::chrono_literals;
constexpr auto Y = ec::year{2024}; constexpr auto M = ec::month{2}; constexpr auto D = ec::day{29};
static_assert(ec::year_month_day{ec::sys_days{ec::days{19782}}} == ec::year_month_day{Y, M, D});
static_assert(ec::year_month_day{ec::local_days{ec::days{19782}}} == ec::year_month_day{Y, M, D});
static_assert(ec::sys_days{ec::year_month_day{Y, M, D}}.time_since_epoch().count() == 19782);
static_assert(ec::local_days{ec::year_month_day{Y, M, D}}.time_since_epoch().count() == 19782);
static_assert((ec::year_month_day{Y, ec::month{1}, ec::day{31}} + ec::months{1}) == ec::year_month_day{Y, M, ec::day{31}});
static_assert(!(ec::year_month_day{Y, ec::month{1}, ec::day{31}} + ec::months{1}).ok());
static_assert((ec::year_month_day{Y, M, D} - ec::years{1}).ok() == false);
static_assert((ec::year_month_day{Y, M, D} - ec::months{12}) == ec::year_month_day{ec::year{2023}, M, D});
static_assert(ec::weekday{ec::sys_days{ec::days{19782}}} == ec::Thursday);
static_assert((ec::Sunday - ec::days{1}) == ec::Saturday);
static_assert((ec::Sunday - ec::Monday).count() == 6);
static_assert((ec::January - ec::months{1}) == ec::December);
static_assert((ec::January - ec::February).count() == 11);
static_assert((Y / M / ec::last).day() == ec::day{29});
static_assert(ec::sys_days{Y / M / ec::last}.time_since_epoch().count() == 19782);
static_assert(ec::year_month_day{Y / M / ec::last} == ec::year_month_day{Y, M, D});
static_assert((Y / ec::month{13} / ec::last).day() == ec::day{0});
static_assert(!(Y / ec::month{13} / ec::last).ok());
static_assert((Y / ec::month{13} / ec::last) == (Y / ec::month{13} / ec::last));
static_assert(ec::year_month_weekday{ec::sys_days{ec::days{19782}}}.index() == 5);
static_assert(ec::year_month_weekday{Y, M, ec::Thursday[5]}.ok());
static_assert(!ec::year_month_weekday{Y, M, ec::Friday[5]}.ok());
static_assert(ec::sys_days{ec::year_month_weekday{Y, M, ec::Thursday[5]}}.time_since_epoch().count() == 19782);
static_assert(ec::sys_days{ec::year_month_weekday_last{Y, M, ec::Thursday[ec::last]}}.time_since_epoch().count() == 19782);
static_assert(ec::year_month_weekday_last{Y, M, ec::Thursday[ec::last]}.ok());
static_assert((ec::year_month_weekday_last{Y, M, ec::Thursday[ec::last]} + ec::months{11}).year() == ec::year{2025});
static_assert((ec::month_day{M, D}).ok() && !(ec::month_day{M, ec::day{30}}).ok());
static_assert((ec::month_weekday{M, ec::Thursday[5]}).ok() && (ec::month_weekday_last{M, ec::Thursday[ec::last]}).ok());
static_assert(ec::day{255}.ok() == false && ec::month{255}.ok() == false);
static_assert((ec::day{254} + ec::days{1}) == ec::day{255});
static_assert((ec::day{5} - ec::day{7}).count() == -2 && (ec::year{5} - ec::year{7}).count() == -2);
static_assert(ec::year{-32768}.ok() == false && ec::year::min().ok() && ec::year::max().ok());
static_assert((-ec::year{5}) == ec::year{-5} && (+ec::year{5}) == ec::year{5});
static_assert(ec::year{2000}.is_leap() && !ec::year{1900}.is_leap() && ec::year{-400}.is_leap());
static_assert(ec::Sunday.iso_encoding() == 7 && ec::weekday{7} == ec::Sunday);
static_assert((2024_y / 2 / 29).ok() && (29_d).ok());
constexpr auto f() { auto d = 30_d; ++d; d++; --d; d--; d += ec::days{2}; d -= ec::days{1}; return d; }
static_assert(f() == 31_d);
constexpr auto g() { auto m = ec::December; ++m; m++; --m; m--; m += ec::months{14}; m -= ec::months{1}; return m; }
static_assert(g() == ec::January);
constexpr auto h() { auto y = 2024_y; ++y; y++; --y; y--; y += ec::years{2}; y -= ec::years{1}; return y; }
static_assert(h() == 2025_y);
constexpr auto k() { auto w = ec::Saturday; ++w; w++; --w; w--; w += ec::days{9}; w -= ec::days{1}; return w; }
static_assert(k() == ec::Sunday);
constexpr auto ym() { auto x = 2024_y / 12; x += ec::months{1}; x -= ec::months{2}; x += ec::years{1}; x -= ec::years{2}; return x; }
static_assert(ym() == ec::year_month{ec::year{2023}, ec::November});
constexpr auto ymwd() { auto x = ec::year_month_weekday{Y, M, ec::Thursday[5]}; x += ec::months{1}; x -= ec::years{1}; return x; }
static_assert(ymwd().year() == ec::year{2023} && ymwd().month() == ec::March);
// review round: inputs on which the constant evaluator is the judge of undefined behaviour
// 075a3cf: the last four int32 day counts (tp + 4 overflowed int: these lines did not compile before the fix)
static_assert(ec::weekday{ec::sys_days{ec::days{2147483647}}}.c_encoding() == 5);
static_assert(ec::weekday{ec::sys_days{ec::days{2147483644}}}.c_encoding() == 2);
static_assert(ec::weekday{ec::local_days{ec::days{-2147483647 - 1}}}.c_encoding() == 2);
// conversions on fields that are not ok(): defined (no overflow, no read past the last-day table), values unspecified
static_assert(ec::sys_days{ec::year_month_weekday{ec::year{-32768}, ec::month{255}, ec::weekday{255}[255]}}.time_since_epoch().count() == -12677995);
static_assert(ec::sys_days{ec::year_month_weekday_last{Y, ec::month{0}, ec::weekday{9}[ec::last]}}.time_since_epoch().count() == 19689);
static_assert(!ec::year_month_day{ec::year{-32768}, ec::month{1}, ec::day{1}}.ok());
static_assert((ec::weekday{8} + ec::days{0}) == ec::Monday && (ec::weekday{255} - ec::days{-2147483647 - 1}).ok());
static_assert((ec::year_month{ec::year{0}, ec::month{1}} + ec::months{393215}) == ec::year_month{ec::year{32767}, ec::December});
static_assert(ec::year_month_weekday{ec::sys_days{ec::days{2146764179}}}.weekday() == ec::weekday{ec::sys_days{ec::days{2146764179}}});
int main() {}
