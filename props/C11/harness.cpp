// C11 harness: etl::chrono calendar code (impl leg) vs std::chrono (reference leg)
#include "common.hpp"

#include <chrono>
#include <etl/chrono.hpp>

namespace ec = etl::chrono;
namespace sc = std::chrono;
using namespace vh;

static void ymd_out(Out& o, ec::year_month_day const& x)
{
    o.tok("ok").num(static_cast<int>(x.year())).num(static_cast<unsigned>(x.month())).num(static_cast<unsigned>(x.day()));
}
static void ymd_out(Out& o, sc::year_month_day const& x)
{
    o.tok("ok").num(static_cast<int>(x.year())).num(static_cast<unsigned>(x.month())).num(static_cast<unsigned>(x.day()));
}

bool vh::run_case(std::string const& op, Toks& in, Out& impl, Out& ref)
{
    if (op == "civil" || op == "next_day") {
        auto z = static_cast<int>(in.num());
        if (op == "next_day") { z += 1; }
        guarded(impl, [&](Out& o) { ymd_out(o, ec::year_month_day{ec::sys_days{ec::days{z}}}); });
        ymd_out(ref, sc::year_month_day{sc::sys_days{sc::days{z}}});
        return true;
    }
    if (op == "days") {
        auto y = static_cast<int>(in.num());
        auto m = static_cast<unsigned>(in.num());
        auto d = static_cast<unsigned>(in.num());
        guarded(impl, [&](Out& o) {
            auto x = ec::year_month_day{ec::year{y}, ec::month{m}, ec::day{d}};
            o.tok("ok").num(static_cast<ec::sys_days>(x).time_since_epoch().count());
        });
        auto sx = sc::year_month_day{sc::year{y}, sc::month{m}, sc::day{d}};
        if (sx.ok()) { ref.tok("ok").num(static_cast<sc::sys_days>(sx).time_since_epoch().count()); }
        return true;
    }
    if (op == "roundtrip") {
        auto z = static_cast<int>(in.num());
        guarded(impl, [&](Out& o) {
            auto x = ec::year_month_day{ec::sys_days{ec::days{z}}};
            o.tok("ok").num(static_cast<ec::sys_days>(x).time_since_epoch().count());
        });
        ref.tok("ok").num(static_cast<sc::sys_days>(sc::year_month_day{sc::sys_days{sc::days{z}}}).time_since_epoch().count());
        return true;
    }
    if (op == "weekday") {
        auto z = static_cast<int>(in.num());
        guarded(impl, [&](Out& o) { o.tok("ok").num(ec::weekday{ec::sys_days{ec::days{z}}}.c_encoding()); });
        ref.tok("ok").num(sc::weekday{sc::sys_days{sc::days{z}}}.c_encoding());
        return true;
    }
    if (op == "is_leap") {
        auto y = static_cast<int>(in.num());
        guarded(impl, [&](Out& o) { o.tok("ok").b(ec::year{y}.is_leap()); });
        ref.tok("ok").b(sc::year{y}.is_leap());
        return true;
    }
    if (op == "ymd_ok") {
        auto y = static_cast<int>(in.num());
        auto m = static_cast<unsigned>(in.num());
        auto d = static_cast<unsigned>(in.num());
        guarded(impl, [&](Out& o) { o.tok("ok").b(ec::year_month_day{ec::year{y}, ec::month{m}, ec::day{d}}.ok()); });
        ref.tok("ok").b(sc::year_month_day{sc::year{y}, sc::month{m}, sc::day{d}}.ok());
        return true;
    }
    if (op == "last_day") {
        auto y = static_cast<int>(in.num());
        auto m = static_cast<unsigned>(in.num());
        guarded(impl, [&](Out& o) {
            auto x = ec::year_month_day_last{ec::year{y}, ec::month_day_last{ec::month{m}}};
            o.tok("ok").num(static_cast<unsigned>(x.day()));
        });
        ref.tok("ok").num(static_cast<unsigned>(sc::year_month_day_last{sc::year{y}, sc::month_day_last{sc::month{m}}}.day()));
        return true;
    }
    if (op == "month_plus") {
        auto m  = static_cast<unsigned>(in.num());
        auto dm = static_cast<int>(in.num());
        guarded(impl, [&](Out& o) { o.tok("ok").num(static_cast<unsigned>(ec::month{m} + ec::months{dm})); });
        ref.tok("ok").num(static_cast<unsigned>(sc::month{m} + sc::months{dm}));
        return true;
    }
    if (op == "month_minus") {
        auto a = static_cast<unsigned>(in.num());
        auto b = static_cast<unsigned>(in.num());
        guarded(impl, [&](Out& o) { o.tok("ok").num((ec::month{a} - ec::month{b}).count()); });
        ref.tok("ok").num((sc::month{a} - sc::month{b}).count());
        return true;
    }
    if (op == "ym_plus") {
        auto y  = static_cast<int>(in.num());
        auto m  = static_cast<unsigned>(in.num());
        auto dm = static_cast<int>(in.num());
        guarded(impl, [&](Out& o) {
            // all routes into year_month + months must agree: free +, commuted +, -, +=, and the
            // year_month_day / year_month_day_last operators that are built on it
            auto ym = ec::year_month{ec::year{y}, ec::month{m}};
            auto r  = ym + ec::months{dm};
            auto r2 = ec::months{dm} + ym;
            auto r3 = ym - ec::months{-dm};
            auto r4 = ym;
            r4 += ec::months{dm};
            auto r5 = ec::year_month_day{ec::year{y}, ec::month{m}, ec::day{1}} + ec::months{dm};
            auto r6 = ec::year_month_day_last{ec::year{y}, ec::month_day_last{ec::month{m}}} + ec::months{dm};
            bool same = (r == r2) && (r == r3) && (r == r4) && r5.year() == r.year() && r5.month() == r.month()
                     && r6.year() == r.year() && r6.month() == r.month();
            if (!same) { o.tok("routes-differ"); }
            o.tok("ok").num(static_cast<int>(r.year())).num(static_cast<unsigned>(r.month()));
        });
        auto sr = sc::year_month{sc::year{y}, sc::month{m}} + sc::months{dm};
        ref.tok("ok").num(static_cast<int>(sr.year())).num(static_cast<unsigned>(sr.month()));
        return true;
    }
    if (op == "year_plus") {
        auto y  = static_cast<int>(in.num());
        auto dy = static_cast<int>(in.num());
        guarded(impl, [&](Out& o) { o.tok("ok").num(static_cast<int>(ec::year{y} + ec::years{dy})); });
        ref.tok("ok").num(static_cast<int>(sc::year{y} + sc::years{dy}));
        return true;
    }
    if (op == "wd_plus" || op == "wd_minus") {
        auto w = static_cast<unsigned>(in.num());
        auto d = static_cast<int>(in.num());
        bool plus = op == "wd_plus";
        guarded(impl, [&](Out& o) {
            auto x  = ec::weekday{w};
            auto r  = plus ? x + ec::days{d} : x - ec::days{d};
            auto r2 = x;
            if (plus) { r2 += ec::days{d}; } else { r2 -= ec::days{d}; }
            if (!(r == r2)) { o.tok("routes-differ"); }
            o.tok("ok").num(r.c_encoding());
        });
        auto sx = sc::weekday{w};
        ref.tok("ok").num((plus ? sx + sc::days{d} : sx - sc::days{d}).c_encoding());
        return true;
    }
    if (op == "wd_incdec") {
        // ++x, x++, --x, x-- : value returned and value left behind
        auto w = static_cast<unsigned>(in.num());
        guarded(impl, [&](Out& o) {
            auto a = ec::weekday{w}; auto ra = ++a;
            auto b = ec::weekday{w}; auto rb = b++;
            auto c = ec::weekday{w}; auto rc = --c;
            auto d = ec::weekday{w}; auto rd = d--;
            o.tok("ok").num(ra.c_encoding()).num(a.c_encoding()).num(rb.c_encoding()).num(b.c_encoding())
                .num(rc.c_encoding()).num(c.c_encoding()).num(rd.c_encoding()).num(d.c_encoding());
        });
        {
            auto a = sc::weekday{w}; auto ra = ++a;
            auto b = sc::weekday{w}; auto rb = b++;
            auto c = sc::weekday{w}; auto rc = --c;
            auto d = sc::weekday{w}; auto rd = d--;
            ref.tok("ok").num(ra.c_encoding()).num(a.c_encoding()).num(rb.c_encoding()).num(b.c_encoding())
                .num(rc.c_encoding()).num(c.c_encoding()).num(rd.c_encoding()).num(d.c_encoding());
        }
        return true;
    }
    if (op == "wd_diff") {
        auto a = static_cast<unsigned>(in.num());
        auto b = static_cast<unsigned>(in.num());
        guarded(impl, [&](Out& o) { o.tok("ok").num((ec::weekday{a} - ec::weekday{b}).count()); });
        ref.tok("ok").num((sc::weekday{a} - sc::weekday{b}).count());
        return true;
    }
    return false;
}

VERIF_MAIN()
