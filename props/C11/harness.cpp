// C11 harness: etl::chrono calendar code (impl leg) vs std::chrono (reference leg)
#include "common.hpp"

#include <chrono>
#include <tuple>
#include <etl/chrono.hpp>

namespace ec = etl::chrono;
namespace sc = std::chrono;
using namespace vh;

static void ymd_out(Out& o, ec::year_month_day const& x)
{
    o.tok("ok").num(static_cast<int>(x.year())).num(static_cast<unsigned>(x.month())).num(static_cast<unsigned>(x.day()));
}
static void ymd_out(Out& o, sc::year_month_day const& x)
{
    o.tok("ok").num(static_cast<int>(x.year())).num(static_cast<unsigned>(x.month())).num(static_cast<unsigned>(x.day()));
}


// ---- the calendar types, once for etl::chrono (impl) and once for std::chrono (reference) ----
#define CAL_TRAITS(NAME, NS)                                                                                           \
    struct NAME {                                                                                                      \
        using year = NS::year; using month = NS::month; using day = NS::day; using weekday = NS::weekday;              \
        using years = NS::years; using months = NS::months; using days = NS::days;                                     \
        using sys_days = NS::sys_days; using local_days = NS::local_days;                                              \
        using year_month = NS::year_month; using year_month_day = NS::year_month_day;                                  \
        using year_month_day_last = NS::year_month_day_last; using month_day = NS::month_day;                          \
        using month_day_last = NS::month_day_last; using weekday_indexed = NS::weekday_indexed;                        \
        using weekday_last = NS::weekday_last; using month_weekday = NS::month_weekday;                                \
        using month_weekday_last = NS::month_weekday_last; using year_month_weekday = NS::year_month_weekday;          \
        using year_month_weekday_last = NS::year_month_weekday_last;                                                   \
        static constexpr auto last = NS::last;                                                                         \
    }
CAL_TRAITS(E, ec);
CAL_TRAITS(S, sc);

// one sub-result with its own contract guard: value tokens or the single token "contract"
template <typename F>
static void part(Out& o, F&& f)
{
    Out t;
    guarded(t, f);
    o.tok(t.s);
}
static bool yr_in(i64 y) { return y >= -32767 && y <= 32767; }
template <typename T> static i64 cnt(T const& tp) { return static_cast<i64>(tp.time_since_epoch().count()); }
template <typename Y> static Out& yo(Out& o, Y const& y) { return o.num(static_cast<int>(y)); }
template <typename M> static Out& uo(Out& o, M const& m) { return o.num(static_cast<unsigned>(m)); }

template <typename C>
static void year_arith(Out& o, int y0, int dy)
{
    using year = typename C::year; using years = typename C::years;
    auto const c = year{y0};
    o.tok("ok"); yo(o, c); o.b(c.ok());
    { auto a = c; auto r = ++a; yo(o, r); yo(o, a); }
    { auto a = c; auto r = a++; yo(o, r); yo(o, a); }
    { auto a = c; auto r = --a; yo(o, r); yo(o, a); }
    { auto a = c; auto r = a--; yo(o, r); yo(o, a); }
    { auto a = c; a += years{dy}; yo(o, a); }
    { auto a = c; a -= years{dy}; yo(o, a); }
    yo(o, -c); yo(o, +c); yo(o, c + years{dy}); yo(o, years{dy} + c); yo(o, c - years{dy});
}
template <typename T>
static void cmp6(Out& o, T const& a, T const& b)
{
    o.b(a == b).b(a != b).b(a < b).b(a <= b).b(a > b).b(a >= b);
}
template <typename C>
static void month_arith(Out& o, unsigned m0, int dm)
{
    using month = typename C::month; using months = typename C::months;
    auto const m = month{m0};
    o.tok("ok").b(m.ok());
    uo(o, m + months{dm}); uo(o, months{dm} + m); uo(o, m - months{dm});
    { auto a = m; a += months{dm}; uo(o, a); }
    { auto a = m; a -= months{dm}; uo(o, a); }
    { auto a = m; auto r = ++a; uo(o, r); uo(o, a); }
    { auto a = m; auto r = a++; uo(o, r); uo(o, a); }
    { auto a = m; auto r = --a; uo(o, r); uo(o, a); }
    { auto a = m; auto r = a--; uo(o, r); uo(o, a); }
}
template <typename C>
static void day_assign(Out& o, unsigned d0, int dd)
{
    using day = typename C::day; using days = typename C::days;
    auto const d = day{d0};
    o.tok("ok");
    { auto a = d; a += days{dd}; uo(o, a); }
    { auto a = d; a -= days{dd}; uo(o, a); }
    { auto a = d; auto r = ++a; uo(o, r); uo(o, a); }
    { auto a = d; auto r = a++; uo(o, r); uo(o, a); }
    { auto a = d; auto r = --a; uo(o, r); uo(o, a); }
    { auto a = d; auto r = a--; uo(o, r); uo(o, a); }
    o.b(d.ok());
}
template <typename C>
static void wd_misc(Out& o, unsigned w, unsigned idx)
{
    using weekday = typename C::weekday;
    auto const x = weekday{w};
    o.tok("ok").num(x.c_encoding()).num(x.iso_encoding()).b(x.ok());
    auto const wi = x[idx];
    o.num(wi.weekday().c_encoding()).num(wi.index()).b(wi.ok());
    auto const wl = x[C::last];
    o.num(wl.weekday().c_encoding()).b(wl.ok());
}
// x + months, months + x, x - months, x += , x -= (and the same with years): every route must agree
template <typename C, typename X, typename Same>
static void ym_routes(Out& o, X const& x, int dm, int dy, bool with_months, Same same)
{
    using months = typename C::months; using years = typename C::years;
    auto show = [&](X const& r) { yo(o, r.year()); uo(o, r.month()); if (!same(r, x)) { o.tok("payload-changed"); } };
    auto eqym = [](X const& a, X const& b) { return a.year() == b.year() && a.month() == b.month(); };
    if (with_months) {
        auto r = x + months{dm}; auto r2 = months{dm} + x; auto r3 = x; r3 += months{dm};
        if (!eqym(r, r2) || !eqym(r, r3)) { o.tok("routes-differ"); }
        show(r);
        auto s = x - months{dm}; auto s2 = x; s2 -= months{dm};
        if (!eqym(s, s2)) { o.tok("routes-differ"); }
        show(s);
    }
    auto r = x + years{dy}; auto r2 = years{dy} + x; auto r3 = x; r3 += years{dy};
    if (!eqym(r, r2) || !eqym(r, r3)) { o.tok("routes-differ"); }
    show(r);
    auto s = x - years{dy}; auto s2 = x; s2 -= years{dy};
    if (!eqym(s, s2)) { o.tok("routes-differ"); }
    show(s);
}
template <typename C>
static void ymd_arith(Out& o, int y, unsigned m, unsigned d, int dm, int dy)
{
    using months = typename C::months; using years = typename C::years;
    auto const x = typename C::year_month_day{typename C::year{y}, typename C::month{m}, typename C::day{d}};
    auto show = [&](typename C::year_month_day const& r) { yo(o, r.year()); uo(o, r.month()); uo(o, r.day()); o.b(r.ok()); };
    o.tok("ok");
    { auto r = x + months{dm}; auto r2 = months{dm} + x; auto r3 = x; r3 += months{dm};
      if (!(r == r2) || !(r == r3)) { o.tok("routes-differ"); } show(r); }
    { auto r = x - months{dm}; auto r3 = x; r3 -= months{dm};
      if (!(r == r3)) { o.tok("routes-differ"); } show(r); }
    { auto r = x + years{dy}; auto r2 = years{dy} + x; auto r3 = x; r3 += years{dy};
      if (!(r == r2) || !(r == r3)) { o.tok("routes-differ"); } show(r); }
    { auto r = x - years{dy}; auto r3 = x; r3 -= years{dy};
      if (!(r == r3)) { o.tok("routes-differ"); } show(r); }
}
template <typename C>
static void eq_all(Out& o, int const* a, int const* b)
{
    using year = typename C::year; using month = typename C::month; using day = typename C::day; using weekday = typename C::weekday;
    auto mk = [](int const* v) {
        return std::make_tuple(year{v[0]}, month{static_cast<unsigned>(v[1])}, day{static_cast<unsigned>(v[2])},
            weekday{static_cast<unsigned>(v[2])}, static_cast<unsigned>(v[3]));
    };
    auto [y1, m1, d1, w1, i1] = mk(a);
    auto [y2, m2, d2, w2, i2] = mk(b);
    auto pr = [&](auto const& l, auto const& r) { o.b(l == r).b(l != r); };
    o.tok("ok");
    pr(typename C::year_month{y1, m1}, typename C::year_month{y2, m2});
    pr(typename C::year_month_day{y1, m1, d1}, typename C::year_month_day{y2, m2, d2});
    pr(typename C::month_day{m1, d1}, typename C::month_day{m2, d2});
    pr(typename C::month_day_last{m1}, typename C::month_day_last{m2});
    pr(typename C::year_month_day_last{y1, typename C::month_day_last{m1}}, typename C::year_month_day_last{y2, typename C::month_day_last{m2}});
    pr(w1, w2);
    pr(w1[i1], w2[i2]);
    pr(w1[C::last], w2[C::last]);
    pr(typename C::month_weekday{m1, w1[i1]}, typename C::month_weekday{m2, w2[i2]});
    pr(typename C::month_weekday_last{m1, w1[C::last]}, typename C::month_weekday_last{m2, w2[C::last]});
    pr(typename C::year_month_weekday{y1, m1, w1[i1]}, typename C::year_month_weekday{y2, m2, w2[i2]});
    pr(typename C::year_month_weekday_last{y1, m1, w1[C::last]}, typename C::year_month_weekday_last{y2, m2, w2[C::last]});
}
// every operator/ spelling of the same date / partial date must build the same object
template <typename C>
static void slash(Out& o, int yi, unsigned mu, unsigned du)
{
    using year = typename C::year; using month = typename C::month; using day = typename C::day;
    auto const y = year{yi}; auto const m = month{mu}; auto const d = day{du};
    auto const mi = static_cast<int>(mu); auto const di = static_cast<int>(du);
    auto const last = C::last;
    bool same = true;
    auto const ym = y / m;
    same = same && ym == y / mi && ym == typename C::year_month{y, m};
    auto const md = m / d;
    same = same && md == m / di && md == mi / d && md == d / m && md == d / mi;
    auto const mdl = m / last;
    same = same && mdl == mi / last && mdl == last / m && mdl == last / mi;
    auto const ymd = ym / d;
    same = same && ymd == ym / di && ymd == y / md && ymd == yi / md && ymd == md / y && ymd == md / yi;
    auto const ymdl = ym / last;
    same = same && ymdl == y / mdl && ymdl == yi / mdl && ymdl == mdl / y && ymdl == mdl / yi;
    auto const wdi = typename C::weekday{du}[2];
    auto const mwd = m / wdi;
    same = same && mwd == mi / wdi && mwd == wdi / m && mwd == wdi / mi;
    auto const wdl = typename C::weekday{du}[last];
    auto const mwdl = m / wdl;
    same = same && mwdl == mi / wdl && mwdl == wdl / m && mwdl == wdl / mi;
    if (!same) { o.tok("routes-differ"); }
    o.tok("ok"); yo(o, ymd.year()); uo(o, ymd.month()); uo(o, ymd.day());
    yo(o, ymdl.year()); uo(o, ymdl.month()); uo(o, mwd.month()); uo(o, mwdl.month());
}

static bool run_case2(std::string const& op, Toks& in, Out& impl, Out& ref);

bool vh::run_case(std::string const& op, Toks& in, Out& impl, Out& ref)
{
    if (op == "civil" || op == "next_day") {
        auto z = static_cast<int>(in.num());
        if (op == "next_day") { z += 1; }
        guarded(impl, [&](Out& o) {
            auto const a = ec::year_month_day{ec::sys_days{ec::days{z}}};
            auto const b = ec::year_month_day{ec::local_days{ec::days{z}}};
            if (!(a == b) || a != b) { o.tok("routes-differ"); }
            ymd_out(o, a);
        });
        ymd_out(ref, sc::year_month_day{sc::sys_days{sc::days{z}}});
        return true;
    }
    if (op == "days") {
        auto y = static_cast<int>(in.num());
        auto m = static_cast<unsigned>(in.num());
        auto d = static_cast<unsigned>(in.num());
        guarded(impl, [&](Out& o) {
            auto x = ec::year_month_day{ec::year{y}, ec::month{m}, ec::day{d}};
            o.tok("ok").num(static_cast<ec::sys_days>(x).time_since_epoch().count());
        });
        auto sx = sc::year_month_day{sc::year{y}, sc::month{m}, sc::day{d}};
        if (sx.ok()) { ref.tok("ok").num(static_cast<sc::sys_days>(sx).time_since_epoch().count()); }
        return true;
    }
    if (op == "roundtrip") {
        auto z = static_cast<int>(in.num());
        guarded(impl, [&](Out& o) {
            auto x = ec::year_month_day{ec::sys_days{ec::days{z}}};
            if (static_cast<ec::local_days>(x).time_since_epoch().count() != static_cast<ec::sys_days>(x).time_since_epoch().count()) { o.tok("routes-differ"); }
            o.tok("ok").num(static_cast<ec::sys_days>(x).time_since_epoch().count());
        });
        ref.tok("ok").num(static_cast<sc::sys_days>(sc::year_month_day{sc::sys_days{sc::days{z}}}).time_since_epoch().count());
        return true;
    }
    if (op == "weekday") {
        auto z = static_cast<int>(in.num());
        guarded(impl, [&](Out& o) {
            if (!(ec::weekday{ec::local_days{ec::days{z}}} == ec::weekday{ec::sys_days{ec::days{z}}})) { o.tok("routes-differ"); }
            o.tok("ok").num(ec::weekday{ec::sys_days{ec::days{z}}}.c_encoding());
        });
        ref.tok("ok").num(sc::weekday{sc::sys_days{sc::days{z}}}.c_encoding());
        return true;
    }
    if (op == "is_leap") {
        auto y = static_cast<int>(in.num());
        guarded(impl, [&](Out& o) { o.tok("ok").b(ec::year{y}.is_leap()); });
        ref.tok("ok").b(sc::year{y}.is_leap());
        return true;
    }
    if (op == "ymd_ok") {
        auto y = static_cast<int>(in.num());
        auto m = static_cast<unsigned>(in.num());
        auto d = static_cast<unsigned>(in.num());
        guarded(impl, [&](Out& o) { o.tok("ok").b(ec::year_month_day{ec::year{y}, ec::month{m}, ec::day{d}}.ok()); });
        ref.tok("ok").b(sc::year_month_day{sc::year{y}, sc::month{m}, sc::day{d}}.ok());
        return true;
    }
    if (op == "last_day") {
        auto y = static_cast<int>(in.num());
        auto m = static_cast<unsigned>(in.num());
        guarded(impl, [&](Out& o) {
            auto x = ec::year_month_day_last{ec::year{y}, ec::month_day_last{ec::month{m}}};
            o.tok("ok").num(static_cast<unsigned>(x.day()));
        });
        ref.tok("ok").num(static_cast<unsigned>(sc::year_month_day_last{sc::year{y}, sc::month_day_last{sc::month{m}}}.day()));
        return true;
    }
    if (op == "month_plus") {
        auto m  = static_cast<unsigned>(in.num());
        auto dm = static_cast<int>(in.num());
        guarded(impl, [&](Out& o) { o.tok("ok").num(static_cast<unsigned>(ec::month{m} + ec::months{dm})); });
        ref.tok("ok").num(static_cast<unsigned>(sc::month{m} + sc::months{dm}));
        return true;
    }
    if (op == "month_minus") {
        auto a = static_cast<unsigned>(in.num());
        auto b = static_cast<unsigned>(in.num());
        guarded(impl, [&](Out& o) { o.tok("ok").num((ec::month{a} - ec::month{b}).count()); });
        // [time.cal.month.nonmembers]: unspecified unless both months are ok()
        if (a >= 1 && a <= 12 && b >= 1 && b <= 12) { ref.tok("ok").num((sc::month{a} - sc::month{b}).count()); }
        return true;
    }
    if (op == "ym_plus") {
        auto y  = static_cast<int>(in.num());
        auto m  = static_cast<unsigned>(in.num());
        auto dm = static_cast<int>(in.num());
        guarded(impl, [&](Out& o) {
            // all routes into year_month + months must agree: free +, commuted +, -, +=, and the
            // year_month_day / year_month_day_last operators that are built on it
            auto ym = ec::year_month{ec::year{y}, ec::month{m}};
            auto r  = ym + ec::months{dm};
            auto r2 = ec::months{dm} + ym;
            auto r3 = ym - ec::months{-dm};
            auto r4 = ym;
            r4 += ec::months{dm};
            auto r7 = ym;
            r7 -= ec::months{-dm};
            auto r5 = ec::year_month_day{ec::year{y}, ec::month{m}, ec::day{1}} + ec::months{dm};
            auto r6 = ec::year_month_day_last{ec::year{y}, ec::month_day_last{ec::month{m}}} + ec::months{dm};
            bool same = (r == r2) && (r == r3) && (r == r4) && (r == r7) && r5.year() == r.year() && r5.month() == r.month()
                     && r6.year() == r.year() && r6.month() == r.month();
            if (!same) { o.tok("routes-differ"); }
            o.tok("ok").num(static_cast<int>(r.year())).num(static_cast<unsigned>(r.month()));
        });
        // reference only inside [time.cal.ym.nonmembers]' domain: ok() operand, result year representable
        i64 const ry = i64{y} + ((i64{m} - 1 + dm) >= 0 ? (i64{m} - 1 + dm) / 12 : ((i64{m} - 1 + dm) - 11) / 12);
        if (yr_in(y) && m >= 1 && m <= 12 && yr_in(ry)) {
            auto sr = sc::year_month{sc::year{y}, sc::month{m}} + sc::months{dm};
            ref.tok("ok").num(static_cast<int>(sr.year())).num(static_cast<unsigned>(sr.month()));
        }
        return true;
    }
    if (op == "year_plus") {
        auto y  = static_cast<int>(in.num());
        auto dy = static_cast<int>(in.num());
        guarded(impl, [&](Out& o) { o.tok("ok").num(static_cast<int>(ec::year{y} + ec::years{dy})); });
        ref.tok("ok").num(static_cast<int>(sc::year{y} + sc::years{dy}));
        return true;
    }
    if (op == "wd_plus" || op == "wd_minus") {
        auto w = static_cast<unsigned>(in.num());
        auto d = static_cast<int>(in.num());
        bool plus = op == "wd_plus";
        guarded(impl, [&](Out& o) {
            auto x  = ec::weekday{w};
            auto r  = plus ? x + ec::days{d} : x - ec::days{d};
            auto r2 = x;
            if (plus) { r2 += ec::days{d}; } else { r2 -= ec::days{d}; }
            if (!(r == r2)) { o.tok("routes-differ"); }
            if (plus && !(ec::days{d} + x == r)) { o.tok("routes-differ"); }
            o.tok("ok").num(r.c_encoding());
        });
        auto sx = sc::weekday{w};
        ref.tok("ok").num((plus ? sx + sc::days{d} : sx - sc::days{d}).c_encoding());
        return true;
    }
    if (op == "wd_incdec") {
        // ++x, x++, --x, x-- : value returned and value left behind
        auto w = static_cast<unsigned>(in.num());
        guarded(impl, [&](Out& o) {
            auto a = ec::weekday{w}; auto ra = ++a;
            auto b = ec::weekday{w}; auto rb = b++;
            auto c = ec::weekday{w}; auto rc = --c;
            auto d = ec::weekday{w}; auto rd = d--;
            o.tok("ok").num(ra.c_encoding()).num(a.c_encoding()).num(rb.c_encoding()).num(b.c_encoding())
                .num(rc.c_encoding()).num(c.c_encoding()).num(rd.c_encoding()).num(d.c_encoding());
        });
        {
            auto a = sc::weekday{w}; auto ra = ++a;
            auto b = sc::weekday{w}; auto rb = b++;
            auto c = sc::weekday{w}; auto rc = --c;
            auto d = sc::weekday{w}; auto rd = d--;
            ref.tok("ok").num(ra.c_encoding()).num(a.c_encoding()).num(rb.c_encoding()).num(b.c_encoding())
                .num(rc.c_encoding()).num(c.c_encoding()).num(rd.c_encoding()).num(d.c_encoding());
        }
        return true;
    }
    if (op == "wd_diff") {
        auto a = static_cast<unsigned>(in.num());
        auto b = static_cast<unsigned>(in.num());
        guarded(impl, [&](Out& o) { o.tok("ok").num((ec::weekday{a} - ec::weekday{b}).count()); });
        // [time.cal.wd.nonmembers]: unspecified unless both weekdays are ok() (7 is stored as 0)
        if (a <= 7 && b <= 7) { ref.tok("ok").num((sc::weekday{a} - sc::weekday{b}).count()); }
        return true;
    }
    return run_case2(op, in, impl, ref);
}

static bool run_case2(std::string const& op, Toks& in, Out& impl, Out& ref)
{
    if (op == "year_arith") {
        auto y = static_cast<int>(in.num()); auto dy = static_cast<int>(in.num());
        guarded(impl, [&](Out& o) { year_arith<E>(o, y, dy); });
        i64 Y = y, D = dy;
        if (yr_in(Y) && yr_in(Y + 1) && yr_in(Y - 1) && yr_in(Y + D) && yr_in(Y - D)) { year_arith<S>(ref, y, dy); }
        return true;
    }
    if (op == "year_cmp") {
        auto a = static_cast<int>(in.num()); auto b = static_cast<int>(in.num());
        guarded(impl, [&](Out& o) { o.tok("ok"); cmp6(o, ec::year{a}, ec::year{b}); o.num((ec::year{a} - ec::year{b}).count()); });
        ref.tok("ok"); cmp6(ref, sc::year{a}, sc::year{b}); ref.num((sc::year{a} - sc::year{b}).count());
        return true;
    }
    if (op == "month_arith") {
        auto m = static_cast<unsigned>(in.num()); auto dm = static_cast<int>(in.num());
        guarded(impl, [&](Out& o) { month_arith<E>(o, m, dm); });
        month_arith<S>(ref, m, dm);
        return true;
    }
    if (op == "month_cmp") {
        auto a = static_cast<unsigned>(in.num()); auto b = static_cast<unsigned>(in.num());
        guarded(impl, [&](Out& o) { o.tok("ok"); cmp6(o, ec::month{a}, ec::month{b}); });
        ref.tok("ok"); cmp6(ref, sc::month{a}, sc::month{b});
        return true;
    }
    if (op == "mctor") {
        auto m = static_cast<unsigned>(in.num());
        guarded(impl, [&](Out& o) { o.tok("ok"); uo(o, ec::month{m}); });
        if (m <= 255) { ref.tok("ok"); uo(ref, sc::month{m}); }
        return true;
    }
    if (op == "dctor") {
        auto d = static_cast<unsigned>(in.num());
        guarded(impl, [&](Out& o) { o.tok("ok"); uo(o, ec::day{d}); });
        if (d <= 255) { ref.tok("ok"); uo(ref, sc::day{d}); }
        return true;
    }
    if (op == "day_plus") {
        auto d = static_cast<unsigned>(in.num()); auto dd = static_cast<int>(in.num());
        impl.tok("ok");
        part(impl, [&](Out& o) { uo(o, ec::day{d} + ec::days{dd}); });
        part(impl, [&](Out& o) { uo(o, ec::days{dd} + ec::day{d}); });
        i64 r = static_cast<i64>(d) + dd;
        if (r >= 0 && r <= 255) { ref.tok("ok"); uo(ref, sc::day{d} + sc::days{dd}); uo(ref, sc::days{dd} + sc::day{d}); }
        return true;
    }
    if (op == "day_minus") {
        auto d = static_cast<unsigned>(in.num()); auto dd = static_cast<int>(in.num());
        impl.tok("ok");
        part(impl, [&](Out& o) { uo(o, ec::day{d} - ec::days{dd}); });
        i64 r = static_cast<i64>(d) - dd;
        if (r >= 0 && r <= 255) { ref.tok("ok"); uo(ref, sc::day{d} - sc::days{dd}); }
        return true;
    }
    if (op == "day_assign") {
        auto d = static_cast<unsigned>(in.num()); auto dd = static_cast<int>(in.num());
        guarded(impl, [&](Out& o) { day_assign<E>(o, d, dd); });
        i64 D = d, X = dd;
        auto in8 = [](i64 v) { return v >= 0 && v <= 255; };
        if (in8(D + X) && in8(D - X) && in8(D + 1) && in8(D - 1)) { day_assign<S>(ref, d, dd); }
        return true;
    }
    if (op == "day_cmp") {
        auto a = static_cast<unsigned>(in.num()); auto b = static_cast<unsigned>(in.num());
        guarded(impl, [&](Out& o) { o.tok("ok"); cmp6(o, ec::day{a}, ec::day{b}); o.num((ec::day{a} - ec::day{b}).count()); });
        ref.tok("ok"); cmp6(ref, sc::day{a}, sc::day{b}); ref.num((sc::day{a} - sc::day{b}).count());
        return true;
    }
    if (op == "wd_misc") {
        auto w = static_cast<unsigned>(in.num()); auto idx = static_cast<unsigned>(in.num());
        guarded(impl, [&](Out& o) { wd_misc<E>(o, w, idx); });
        if (idx <= 7) { wd_misc<S>(ref, w, idx); }
        return true;
    }
    if (op == "md_ok") {
        auto m = static_cast<unsigned>(in.num()); auto d = static_cast<unsigned>(in.num());
        guarded(impl, [&](Out& o) {
            o.tok("ok").b(ec::month_day{ec::month{m}, ec::day{d}}.ok()).b(ec::month_day_last{ec::month{m}}.ok());
        });
        ref.tok("ok").b(sc::month_day{sc::month{m}, sc::day{d}}.ok()).b(sc::month_day_last{sc::month{m}}.ok());
        return true;
    }
    if (op == "mwd_ok") {
        auto m = static_cast<unsigned>(in.num()); auto w = static_cast<unsigned>(in.num()); auto idx = static_cast<unsigned>(in.num());
        guarded(impl, [&](Out& o) {
            o.tok("ok").b(ec::month_weekday{ec::month{m}, ec::weekday{w}[idx]}.ok())
                .b(ec::month_weekday_last{ec::month{m}, ec::weekday{w}[ec::last]}.ok());
        });
        if (idx <= 7) {
            ref.tok("ok").b(sc::month_weekday{sc::month{m}, sc::weekday{w}[idx]}.ok())
                .b(sc::month_weekday_last{sc::month{m}, sc::weekday{w}[sc::last]}.ok());
        }
        return true;
    }
    if (op == "ym_years") {
        auto y = static_cast<int>(in.num()); auto m = static_cast<unsigned>(in.num()); auto dy = static_cast<int>(in.num());
        auto same = [](auto const&, auto const&) { return true; };
        guarded(impl, [&](Out& o) {
            auto x = ec::year_month{ec::year{y}, ec::month{m}};
            o.tok("ok").b(x.ok());
            ym_routes<E>(o, x, 0, dy, false, same);
        });
        if (yr_in(y) && yr_in(i64{y} + dy) && yr_in(i64{y} - dy)) {
            auto x = sc::year_month{sc::year{y}, sc::month{m}};
            ref.tok("ok").b(x.ok());
            ym_routes<S>(ref, x, 0, dy, false, same);
        }
        return true;
    }
    if (op == "ymd_arith") {
        auto y = static_cast<int>(in.num()); auto m = static_cast<unsigned>(in.num()); auto d = static_cast<unsigned>(in.num());
        auto dm = static_cast<int>(in.num()); auto dy = static_cast<int>(in.num());
        guarded(impl, [&](Out& o) { ymd_arith<E>(o, y, m, d, dm, dy); });
        auto fl = [](i64 a, i64 b) { return (a >= 0 ? a : a - (b - 1)) / b; };
        i64 M = i64{m} - 1;
        if (m >= 1 && m <= 12 && yr_in(y) && yr_in(y + fl(M + dm, 12)) && yr_in(y + fl(M - dm, 12)) && yr_in(i64{y} + dy) && yr_in(i64{y} - dy)) {
            ymd_arith<S>(ref, y, m, d, dm, dy);
        }
        return true;
    }
    if (op == "ymdl") {
        auto y = static_cast<int>(in.num()); auto m = static_cast<unsigned>(in.num());
        guarded(impl, [&](Out& o) {
            auto x = ec::year_month_day_last{ec::year{y}, ec::month_day_last{ec::month{m}}};
            auto v = ec::year_month_day{x};
            o.tok("ok").b(x.ok()); uo(o, x.day()); yo(o, v.year()); uo(o, v.month()); uo(o, v.day());
            o.num(cnt(static_cast<ec::sys_days>(x))).num(cnt(static_cast<ec::local_days>(x)));
        });
        {
            auto x = sc::year_month_day_last{sc::year{y}, sc::month_day_last{sc::month{m}}};
            auto v = sc::year_month_day{x};
            ref.tok("ok").b(x.ok()); uo(ref, x.day()); yo(ref, v.year()); uo(ref, v.month()); uo(ref, v.day());
            ref.num(cnt(static_cast<sc::sys_days>(x))).num(cnt(static_cast<sc::local_days>(x)));
        }
        return true;
    }
    if (op == "ymdl_bad") {
        // month outside 1..12: ok() is false, and day(), year_month_day{ymdl}, the sys_days / local_days conversions
        // must be DEFINED (their values are unspecified and not printed here: see ymdl_badv). Under ASan/UBSan a read
        // past the last-day table kills the child, so the case fails against the reference with this input.
        auto y = static_cast<int>(in.num()); auto m = static_cast<unsigned>(in.num());
        guarded(impl, [&](Out& o) {
            auto x = ec::year_month_day_last{ec::year{y}, ec::month_day_last{ec::month{m}}};
            auto v = ec::year_month_day{x};
            volatile i64 sink = static_cast<unsigned>(x.day()) + static_cast<unsigned>(v.day())
                              + cnt(static_cast<ec::sys_days>(x)) + cnt(static_cast<ec::local_days>(x));
            (void)sink;
            o.tok("ok").b(x.ok());
        });
        ref.tok("ok").b(sc::year_month_day_last{sc::year{y}, sc::month_day_last{sc::month{m}}}.ok());
        return true;
    }
    if (op == "ymdl_badv") {
        // the same calls, values printed: unspecified by the standard (no reference), must match the model
        auto y = static_cast<int>(in.num()); auto m = static_cast<unsigned>(in.num());
        guarded(impl, [&](Out& o) {
            auto x = ec::year_month_day_last{ec::year{y}, ec::month_day_last{ec::month{m}}};
            auto v = ec::year_month_day{x};
            o.tok("ok").b(x.ok()); uo(o, x.day()); yo(o, v.year()); uo(o, v.month()); uo(o, v.day());
            o.num(cnt(static_cast<ec::sys_days>(x))).num(cnt(static_cast<ec::local_days>(x)));
        });
        return true;
    }
    if (op == "ymdl_ok") {
        auto y = static_cast<int>(in.num()); auto m = static_cast<unsigned>(in.num());
        guarded(impl, [&](Out& o) { o.tok("ok").b(ec::year_month_day_last{ec::year{y}, ec::month_day_last{ec::month{m}}}.ok()); });
        ref.tok("ok").b(sc::year_month_day_last{sc::year{y}, sc::month_day_last{sc::month{m}}}.ok());
        return true;
    }
    if (op == "ymdl_arith" || op == "ymwd_arith" || op == "ymwdl_arith") {
        auto y = static_cast<int>(in.num()); auto m = static_cast<unsigned>(in.num());
        unsigned w = 0; unsigned idx = 1;
        if (op != "ymdl_arith") { w = static_cast<unsigned>(in.num()); }
        if (op == "ymwd_arith") { idx = static_cast<unsigned>(in.num()); }
        auto dm = static_cast<int>(in.num()); auto dy = static_cast<int>(in.num());
        auto fl = [](i64 a, i64 b) { return (a >= 0 ? a : a - (b - 1)) / b; };
        i64 M = i64{m} - 1;
        bool inr = m >= 1 && m <= 12 && w <= 7 && idx <= 7 && yr_in(y) && yr_in(y + fl(M + dm, 12)) && yr_in(y + fl(M - dm, 12)) && yr_in(i64{y} + dy) && yr_in(i64{y} - dy);
        if (op == "ymdl_arith") {
            auto same = [](auto const& a, auto const& b) { return a.month_day_last() == b.month_day_last() || true; };
            guarded(impl, [&](Out& o) { o.tok("ok"); ym_routes<E>(o, ec::year_month_day_last{ec::year{y}, ec::month_day_last{ec::month{m}}}, dm, dy, true, same); });
            if (inr) { ref.tok("ok"); ym_routes<S>(ref, sc::year_month_day_last{sc::year{y}, sc::month_day_last{sc::month{m}}}, dm, dy, true, same); }
        } else if (op == "ymwd_arith") {
            auto same = [](auto const& a, auto const& b) { return a.weekday_indexed() == b.weekday_indexed(); };
            guarded(impl, [&](Out& o) { o.tok("ok"); ym_routes<E>(o, ec::year_month_weekday{ec::year{y}, ec::month{m}, ec::weekday{w}[idx]}, dm, dy, true, same); });
            if (inr) { ref.tok("ok"); ym_routes<S>(ref, sc::year_month_weekday{sc::year{y}, sc::month{m}, sc::weekday{w}[idx]}, dm, dy, true, same); }
        } else {
            auto same = [](auto const& a, auto const& b) { return a.weekday_last() == b.weekday_last(); };
            guarded(impl, [&](Out& o) { o.tok("ok"); ym_routes<E>(o, ec::year_month_weekday_last{ec::year{y}, ec::month{m}, ec::weekday{w}[ec::last]}, dm, dy, true, same); });
            if (inr) { ref.tok("ok"); ym_routes<S>(ref, sc::year_month_weekday_last{sc::year{y}, sc::month{m}, sc::weekday{w}[sc::last]}, dm, dy, true, same); }
        }
        return true;
    }
    if (op == "ymwd_ok") {
        auto y = static_cast<int>(in.num()); auto m = static_cast<unsigned>(in.num());
        auto w = static_cast<unsigned>(in.num()); auto idx = static_cast<unsigned>(in.num());
        guarded(impl, [&](Out& o) { o.tok("ok").b(ec::year_month_weekday{ec::year{y}, ec::month{m}, ec::weekday{w}[idx]}.ok()); });
        if (idx <= 7) { ref.tok("ok").b(sc::year_month_weekday{sc::year{y}, sc::month{m}, sc::weekday{w}[idx]}.ok()); }
        return true;
    }
    if (op == "ymwd_from") {
        auto z = static_cast<int>(in.num());
        guarded(impl, [&](Out& o) {
            auto x = ec::year_month_weekday{ec::sys_days{ec::days{z}}};
            auto x2 = ec::year_month_weekday{ec::local_days{ec::days{z}}};
            if (!(x == x2) || cnt(static_cast<ec::local_days>(x)) != cnt(static_cast<ec::sys_days>(x))) { o.tok("routes-differ"); }
            o.tok("ok"); yo(o, x.year()); uo(o, x.month()); o.num(x.weekday().c_encoding()).num(x.index()).b(x.ok());
            o.num(cnt(static_cast<ec::sys_days>(x)));
        });
        if (z >= -12687428 && z <= 11248737) {   // the supported years; outside: defined, model tie only
            auto x = sc::year_month_weekday{sc::sys_days{sc::days{z}}};
            ref.tok("ok"); yo(ref, x.year()); uo(ref, x.month()); ref.num(x.weekday().c_encoding()).num(x.index()).b(x.ok());
            ref.num(cnt(static_cast<sc::sys_days>(x)));
        }
        return true;
    }
    if (op == "ymwd_to") {
        auto y = static_cast<int>(in.num()); auto m = static_cast<unsigned>(in.num());
        auto w = static_cast<unsigned>(in.num()); auto idx = static_cast<unsigned>(in.num());
        guarded(impl, [&](Out& o) {
            auto x = ec::year_month_weekday{ec::year{y}, ec::month{m}, ec::weekday{w}[idx]};
            o.tok("ok").num(cnt(static_cast<ec::sys_days>(x))).num(cnt(static_cast<ec::local_days>(x)));
        });
        // outside the ok() fields the value is unspecified: defined (sanitizer build), model tie only
        if (idx <= 7 && yr_in(y) && m >= 1 && m <= 12 && w <= 7) {
            auto x = sc::year_month_weekday{sc::year{y}, sc::month{m}, sc::weekday{w}[idx]};
            ref.tok("ok").num(cnt(static_cast<sc::sys_days>(x))).num(cnt(static_cast<sc::local_days>(x)));
        }
        return true;
    }
    if (op == "ymwdl") {
        auto y = static_cast<int>(in.num()); auto m = static_cast<unsigned>(in.num()); auto w = static_cast<unsigned>(in.num());
        guarded(impl, [&](Out& o) {
            auto x = ec::year_month_weekday_last{ec::year{y}, ec::month{m}, ec::weekday{w}[ec::last]};
            o.tok("ok").b(x.ok()).num(cnt(static_cast<ec::sys_days>(x))).num(cnt(static_cast<ec::local_days>(x)));
            if (!(x.year() == ec::year{y}) || !(x.month() == ec::month{m}) || !(x.weekday() == ec::weekday{w}) || !(x.weekday_last() == ec::weekday{w}[ec::last])) { o.tok("accessor-wrong"); }
        });
        if (yr_in(y) && m >= 1 && m <= 12 && w <= 7) {
            auto x = sc::year_month_weekday_last{sc::year{y}, sc::month{m}, sc::weekday{w}[sc::last]};
            ref.tok("ok").b(x.ok()).num(cnt(static_cast<sc::sys_days>(x))).num(cnt(static_cast<sc::local_days>(x)));
        }
        return true;
    }
    if (op == "ymwdl_ok") {
        auto y = static_cast<int>(in.num()); auto m = static_cast<unsigned>(in.num()); auto w = static_cast<unsigned>(in.num());
        guarded(impl, [&](Out& o) { o.tok("ok").b(ec::year_month_weekday_last{ec::year{y}, ec::month{m}, ec::weekday{w}[ec::last]}.ok()); });
        ref.tok("ok").b(sc::year_month_weekday_last{sc::year{y}, sc::month{m}, sc::weekday{w}[sc::last]}.ok());
        return true;
    }
    if (op == "days_any") {
        auto y = static_cast<int>(in.num()); auto m = static_cast<unsigned>(in.num()); auto d = static_cast<unsigned>(in.num());
        guarded(impl, [&](Out& o) {
            auto x = ec::year_month_day{ec::year{y}, ec::month{m}, ec::day{d}};
            o.tok("ok").num(cnt(static_cast<ec::sys_days>(x))).num(cnt(static_cast<ec::local_days>(x)));
        });
        {
            auto x = sc::year_month_day{sc::year{y}, sc::month{m}, sc::day{d}};
            ref.tok("ok").num(cnt(static_cast<sc::sys_days>(x))).num(cnt(static_cast<sc::local_days>(x)));
        }
        return true;
    }
    if (op == "civil_any") {
        // any int32 day count for which z + 719468 does not overflow; outside the supported years the
        // values are unspecified (no reference), but the call is defined and must match the model
        auto z = static_cast<int>(in.num());
        guarded(impl, [&](Out& o) { ymd_out(o, ec::year_month_day{ec::sys_days{ec::days{z}}}); });
        return true;
    }
    if (op == "days_raw") {
        // any stored year / month / day value: defined (no overflow), value unspecified unless year and month are ok
        auto y = static_cast<int>(in.num()); auto m = static_cast<unsigned>(in.num()); auto d = static_cast<unsigned>(in.num());
        guarded(impl, [&](Out& o) {
            auto x = ec::year_month_day{ec::year{y}, ec::month{m}, ec::day{d}};
            o.tok("ok").num(cnt(static_cast<ec::sys_days>(x)));
        });
        return true;
    }
    if (op == "eq_all") {
        int a[4]; int b[4];
        for (auto& v : a) { v = static_cast<int>(in.num()); }
        for (auto& v : b) { v = static_cast<int>(in.num()); }
        guarded(impl, [&](Out& o) { eq_all<E>(o, a, b); });
        eq_all<S>(ref, a, b);
        return true;
    }
    if (op == "constants") {
        // named constants, literals, year::min/max
        using namespace etl::literals::chrono_literals;
        guarded(impl, [&](Out& o) {
            o.tok("ok");
            for (auto m : {ec::January, ec::February, ec::March, ec::April, ec::May, ec::June, ec::July, ec::August,
                     ec::September, ec::October, ec::November, ec::December}) { uo(o, m); }
            for (auto w : {ec::Sunday, ec::Monday, ec::Tuesday, ec::Wednesday, ec::Thursday, ec::Friday, ec::Saturday}) { o.num(w.c_encoding()); }
            yo(o, ec::year::min()); yo(o, ec::year::max()); yo(o, 2024_y); uo(o, 31_d); yo(o, 40000_y);
        });
        {
            using namespace std::chrono;
            ref.tok("ok");
            for (auto m : {sc::January, sc::February, sc::March, sc::April, sc::May, sc::June, sc::July, sc::August,
                     sc::September, sc::October, sc::November, sc::December}) { uo(ref, m); }
            for (auto w : {sc::Sunday, sc::Monday, sc::Tuesday, sc::Wednesday, sc::Thursday, sc::Friday, sc::Saturday}) { ref.num(w.c_encoding()); }
            yo(ref, sc::year::min()); yo(ref, sc::year::max()); yo(ref, 2024y); uo(ref, 31d); yo(ref, sc::year{40000});
        }
        return true;
    }
    if (op == "slash") {
        auto y = static_cast<int>(in.num()); auto m = static_cast<unsigned>(in.num()); auto d = static_cast<unsigned>(in.num());
        guarded(impl, [&](Out& o) { slash<E>(o, y, m, d); });
        if (m <= 255 && d <= 255) { slash<S>(ref, y, m, d); }   // larger values: unspecified in std, contract in etl
        return true;
    }
    return false;
}

VERIF_MAIN()
