"""C08 — string_view searches and comparisons: case generators and configuration."""
import itertools
import os

# Sanitizer reports are not symbolized: symbolizing costs ~100 ms per report, and a defect that
# over-reads produces thousands of crashing cases (each one is a re-forked child of the harness).
os.environ.setdefault("ASAN_OPTIONS", "detect_leaks=0:halt_on_error=0:suppress_equal_pcs=0:abort_on_error=1:"
                      "handle_abort=0:print_summary=0:allocator_may_return_null=1:symbolize=0:print_legend=0:"
                      "fast_unwind_on_fatal=1")

ID = "C08"
LEVEL = "proof"
# ASan in recover mode (see harness.cpp): a faulty case is reported as "crash asan" without killing the process;
# UBSan errors still abort
SAN = ["-fsanitize=address,undefined", "-fno-sanitize-recover=undefined", "-fsanitize-recover=address",
       "-fno-omit-frame-pointer"]
HARNESSES = [
    # plain build: guard zones readable and filled with the other argument's characters
    {"name": "main", "src": "harness.cpp", "flags": ["-O1", "-DTETL_ENABLE_CONTRACT_CHECKS=1"]},
    # sanitizer build: guard zones poisoned, a read one character outside a view is a crash
    # (char, wchar_t, char32_t only: halves its compile time; the thorough tier adds all five types)
    {"name": "asan", "src": "harness.cpp",
     "flags": ["-O1", "-g0", "-DTETL_ENABLE_CONTRACT_CHECKS=1", "-DVH_FEWER_TYPES"] + SAN},
    {"name": "asan5", "src": "harness.cpp", "thorough_only": True,
     "flags": ["-O1", "-g0", "-DTETL_ENABLE_CONTRACT_CHECKS=1"] + SAN},
]

NPOS = 2**64 - 1
FAMS = ["find", "rfind", "ffo", "ffno", "flo", "flno"]
# per character type: the exhaustive alphabet {a, b, 0x80-ish} and extra letters for random strings
# The third letter of every wide alphabet equals the first one in its low 8 and low 16 bits (so an equality or
# order that looks only at the low byte / a narrowed value confuses them) and lies on the other side of the sign
# boundary of its type.
ALPHA = {
    "c": [97, 98, -128],            # char: 0x80 is negative as a char, larger than 'a' as unsigned char
    "w": [97, 98, 97 - 65536],      # wchar_t is a signed 32-bit type here: negative, < 'a' also for std; low 16 bits = 'a'
    "u": [97, 98, 0x80000061],      # char32_t: unsigned, value above INT32_MAX; low 16 bits = 'a'
    "s": [97, 98, 0x8061],          # char16_t: above INT16_MAX; low 8 bits = 'a'
    "b": [97, 98, 0x80],
}
EXTRA = {
    "c": [0, 127, -1, 99],
    "w": [0, 0x7FFFFFFF, -0x80000000, 128, 99, -128, 98 + 256],
    "u": [0, 0xFFFFFFFF, 128, 99, 0x80000005, 98 + 65536],
    "s": [0, 0xFFFF, 128, 99, 0x8000, 98 + 256],
    "b": [0, 0xFF, 127, 99],
}

RULE = ("exhaustive: every (haystack, needle) over a 3-letter alphabet {a, b, 0x80-like} up to the stated lengths x "
        "every pos in [0,|h|+2] and npos (x every count in [0,|s|] for the (s,pos,count) overloads, every (pos,count) "
        "pair in {0..|a|+1, npos}^2 for compare/substr/copy) for all six search families and their Char / Char const* "
        "overloads, compare (6 overloads), the six relational operators, starts_with/ends_with/contains (3 overloads "
        "each), substr, copy, remove_prefix, remove_suffix; char with |h|<=4,|n|<=3 and wchar_t/char32_t with smaller "
        "bounds in the quick tier; plus seeded random longer strings with embedded NULs and type-limit characters. "
        "Review additions: every search family also called WITHOUT pos (default argument; view/Char/C-string forms), "
        "substr()/substr(pos)/copy(dest,n); the heterogeneous operators `C string OP view` and `view OP C string` "
        "(type_identity overloads) for all six operators; operator[]/front/back/swap, the (first, last) iterator-pair constructor; every call with an empty haystack "
        "or needle is repeated with default-constructed (nullptr) views; copy writes into a destination of exactly "
        "rlen cells whose surroundings are checked; char8_t/char16_t get a small exhaustive enumeration also in the "
        "quick tier; random LONG strings (up to 300 characters, common prefixes of 30+ characters, needles of 20+). "
        "char_traits members as operations (tr_*): move/copy over every (dest, source, count) inside small buffers (all "
        "overlaps), assign(s,n,c), compare over n characters, find, length, eq/lt/assign, the int_type members at the "
        "type limits (all 256 values for char/char8_t); every comparison-like operation on all pairs over {a, b, NUL}; "
        "substr/copy/compare counts for which pos + count wraps around 2^64. "
        "Fix-miss round 4: HUGE views (ops big*) - views of 2^31-1 .. 2^33+3 characters over an untouched zero-filled "
        "MAP_NORESERVE mapping with an explicit 'abc'-like prefix, against short views, in both argument orders: compare "
        "(6 overloads), the six relational operators (also with a C string operand), starts_with/ends_with (view and "
        "C string), substr/copy/remove_prefix/remove_suffix/operator[]/back with positions and counts at 0..3, n-3..n+1, "
        "2^31-1..2^31+1, 2^32-1..2^32+2, n-2^31, n-2^32, 2^63, npos; the six search families forwards from n-3..n+1 / "
        "backwards from 0..5 and with a huge needle; plus (gen_narrow) every pos/count operation on short views with "
        "positions/counts 2^31+-1, 2^32+k, 2^63+1, 2^64-2^32+k, 2^64-2^31+k (in-range positions in their low 32 bits). "
        "Each case runs in a plain build (adversarial readable guard zones) and an ASan+UBSan build (poisoned guard "
        "zones flush against both ends of every view). non-trivial = distinct case whose impl outcome is ok on a "
        "non-empty haystack")

TRUSTED_BASE = ["reference leg: libstdc++ 12 std::basic_string_view / std::char_traits on the same character data",
                "AddressSanitizer manual poisoning (granule-exact on both sides of each argument block) for the "
                "'only characters inside the views are read' observation on the compiled code"]
ASSUMPTIONS = ["LP64: size_t is 64 bits, npos = 2^64-1", "char is signed 8-bit, wchar_t is signed 32-bit (x86-64 Linux)",
               "view lengths < 2^63 (theorem hypothesis)",
               "big* ops: an anonymous MAP_NORESERVE mapping of (2^33+16) * sizeof(Char) bytes is available and reads as zeros "
               "(op bigprobe reports a correspondence failure if it is not)"]


def L(xs):
    return " ".join([str(len(xs))] + [str(x) for x in xs])


def strings(alpha, maxlen):
    out = []
    for n in range(0, maxlen + 1):
        out += [list(t) for t in itertools.product(alpha, repeat=n)]
    return out


def positions(n):
    return list(range(0, n + 3)) + [NPOS]


def gen_exhaustive(ck, hmax, nmax, out, rng, light=False, full=False):
    al = ALPHA[ck]
    H = strings(al, hmax)
    N = strings(al, nmax)
    for h in H:
        hs = L(h)
        ps = positions(len(h))
        for n in N:
            ns = L(n)
            for p in ps:
                for fam in FAMS:
                    out.append(f"{fam} {ck} {hs} {ns} {p}")
            for fam in FAMS:
                out.append(f"{fam}_d {ck} {hs} {ns}")
            out.append(f"contains {ck} {hs} {ns}")
            out.append(f"starts {ck} {hs} {ns}")
            out.append(f"ends {ck} {hs} {ns}")
        for c in al:
            for p in ps:
                for fam in FAMS:
                    out.append(f"{fam}_c {ck} {hs} {c} {p}")
            for fam in FAMS:
                out.append(f"{fam}_cd {ck} {hs} {c}")
            out.append(f"contains_c {ck} {hs} {c}")
            out.append(f"starts_c {ck} {hs} {c}")
            out.append(f"ends_c {ck} {hs} {c}")
        pcs = list(range(0, len(h) + 2)) + [NPOS, NPOS - 1]
        for p in pcs:
            # counts for which pos + count wraps around 2^64 (to 0, 1, size()) or just does not (npos, npos - 1)
            wrap = sorted({(2**64 - p + e) % 2**64 for e in (-2, -1, 0, 1, len(h))} - set(pcs)) if 1 <= p <= len(h) + 1 else []
            for k in pcs + wrap:
                out.append(f"substr {ck} {hs} {p} {k}")
                out.append(f"copy {ck} {hs} {k} {p}")
            out.append(f"rmpre {ck} {hs} {p}")
            out.append(f"rmsuf {ck} {hs} {p}")
            out.append(f"substr_d1 {ck} {hs} {p}")
            out.append(f"copy_d {ck} {hs} {p}")
            out.append(f"at {ck} {hs} {p}")
        out.append(f"substr_d0 {ck} {hs}")
        out.append(f"ctor_it {ck} {hs}")
        out.append(f"front {ck} {hs}")
        out.append(f"back {ck} {hs}")
    # pointer overloads: C strings may contain an embedded zero (the C string then stops there)
    HS = strings(al, 2 if light else min(hmax, 3))
    SP = strings(al + [0], min(nmax, 2))
    for h in HS:
        hs = L(h)
        for s in SP:
            ss = L(s)
            for p in positions(len(h)):
                for fam in FAMS:
                    out.append(f"{fam}_p {ck} {hs} {ss} {p}")
                    if full or (p in (0, len(h), NPOS) and (light or rng.random() < 0.5)):
                        for k in range(0, len(s) + 1):
                            out.append(f"{fam}_pc {ck} {hs} {ss} {p} {k}")
            for fam in FAMS:
                out.append(f"{fam}_pd {ck} {hs} {ss}")
            # heterogeneous relational operators: C string OP view, view OP C string
            out.append(f"rel_pl {ck} {ss} {hs}")
            out.append(f"rel_pr {ck} {hs} {ss}")
            out.append(f"contains_p {ck} {hs} {ss}")
            out.append(f"starts_p {ck} {hs} {ss}")
            out.append(f"ends_p {ck} {hs} {ss}")
            out.append(f"compare_p {ck} {hs} {ss}")
    # compare family and relational operators
    A = strings(al, min(hmax, 3) if light else hmax)
    for a in A:
        for b in A:
            out.append(f"compare {ck} {L(a)} {L(b)}")
            if full or len(a) <= 3:
                out.append(f"rel {ck} {L(a)} {L(b)}")
    for a in strings(al, 2):
        for b in strings(al, 2):
            out.append(f"swap {ck} {L(a)} {L(b)}")
    A3 = strings(al, 2 if light else 3)
    B3 = strings(al, 2)
    for a in A3:
        pcs = list(range(0, len(a) + 2)) + [NPOS]
        for b in B3:
            for p1 in pcs:
                wrap = [(2**64 - p1) % 2**64, (2**64 - p1 + 1) % 2**64] if 1 <= p1 <= len(a) and len(b) <= 1 else []
                for k1 in pcs + wrap:
                    out.append(f"compare_3 {ck} {L(a)} {p1} {k1} {L(b)}")
                    if len(b) <= 1 or p1 in (0, len(a)):
                        out.append(f"compare_3p {ck} {L(a)} {p1} {k1} {L(b)}")
                        for k2 in range(0, len(b) + 1) if (full or p1 == 0) else ():
                            out.append(f"compare_4p {ck} {L(a)} {p1} {k1} {L(b)} {k2}")
    A5 = strings(al[:2] if light else al, 2)
    for a in A5:
        pa = list(range(0, len(a) + 2)) + [NPOS]
        for b in A5:
            pb = list(range(0, len(b) + 2)) + [NPOS]
            for p1 in pa:
                for k1 in pa:
                    for p2 in pb:
                        for k2 in pb:
                            valid = p1 <= len(a) and p2 <= len(b)
                            if not full and rng.random() < ((0.75 if valid else 0.95) if light else (0.55 if valid else 0.88)):
                                continue
                            out.append(f"compare_5 {ck} {L(a)} {p1} {k1} {L(b)} {p2} {k2}")


def rstr(rng, ck, maxlen, small=False):
    al = ALPHA[ck][:2] if small else ALPHA[ck] + EXTRA[ck]
    n = rng.randint(0, maxlen)
    # strings with repetitions so that partial matches and matches at the very end are frequent
    return [rng.choice(al if rng.random() < 0.25 else ALPHA[ck][:2]) for _ in range(n)]


def rpos(rng, n):
    r = rng.random()
    if r < 0.6:
        return rng.randint(0, n + 1)
    if r < 0.75:
        return n
    if r < 0.9:
        return rng.choice([NPOS, NPOS - 1, NPOS - 2, NPOS - rng.randint(0, n + 2), 2**63, 2**63 - 1, 2**32])
    return rng.randint(0, NPOS)


def gen_random(ck, count, out, rng):
    for _ in range(count):
        h = rstr(rng, ck, 24)
        if rng.random() < 0.5 and h:
            # needle cut out of the haystack (often its tail), sometimes perturbed / extended past the end
            i = rng.randint(0, len(h))
            j = len(h) if rng.random() < 0.5 else rng.randint(i, len(h))
            n = h[i:j]
            r = rng.random()
            if r < 0.2 and n:
                n[rng.randrange(len(n))] = rng.choice(ALPHA[ck])
            elif r < 0.4:
                n = n + [rng.choice(ALPHA[ck])]
        else:
            n = rstr(rng, ck, 5)
        p = rpos(rng, len(h))
        hs, ns = L(h), L(n)
        fam = rng.choice(FAMS)
        out.append(f"{fam} {ck} {hs} {ns} {p}")
        out.append(f"{rng.choice(FAMS)} {ck} {hs} {ns} {p}")
        v = rng.random()
        if v < 0.25:
            out.append(f"{fam}_p {ck} {hs} {ns} {p}")
        elif v < 0.5:
            out.append(f"{fam}_pc {ck} {hs} {ns} {p} {rng.randint(0, len(n))}")
        elif v < 0.65:
            c = rng.choice(h) if h and rng.random() < 0.7 else rng.choice(ALPHA[ck] + EXTRA[ck])
            out.append(f"{fam}_c {ck} {hs} {c} {p}")
        elif v < 0.8:
            out.append(f"{rng.choice(['contains', 'starts', 'ends'])}{rng.choice(['', '_p'])} {ck} {hs} {ns}")
        elif v < 0.9:
            out.append(f"{fam}{rng.choice(['_d', '_pd'])} {ck} {hs} {ns}")
        else:
            p1 = rng.randint(0, len(h)) if rng.random() < 0.8 else rpos(rng, len(h))
            p2 = rng.randint(0, len(n)) if rng.random() < 0.8 else rpos(rng, len(n))
            out.append(f"compare_5 {ck} {hs} {p1} {rpos(rng, len(h))} {ns} {p2} {rpos(rng, len(n))}")
        # comparisons of strings with a long common prefix
        a = rstr(rng, ck, 12)
        b = list(a)
        r = rng.random()
        if r < 0.3 and b:
            b[rng.randrange(len(b))] = rng.choice(ALPHA[ck] + EXTRA[ck])
        elif r < 0.5:
            b = b[:rng.randint(0, len(b))]
        elif r < 0.7:
            b = b + rstr(rng, ck, 3)
        out.append(f"rel {ck} {L(a)} {L(b)}")
        out.append(f"{rng.choice(['rel_pl', 'rel_pr'])} {ck} {L(a)} {L(b)}")
        out.append(f"compare {ck} {L(a)} {L(b)}")
        out.append(f"compare_3 {ck} {L(a)} {rpos(rng, len(a))} {rpos(rng, len(a))} {L(b)}")
        out.append(f"substr {ck} {hs} {p} {rpos(rng, len(h))}")
        out.append(f"copy {ck} {hs} {rpos(rng, len(h))} {p}")
        out.append(f"{rng.choice(['rmpre', 'rmsuf'])} {ck} {hs} {p}")


def gen_nul(ck, maxlen, out):
    """embedded zero characters: every comparison-like operation on all pairs of strings over {a, b, NUL} - a zero
    followed by differing characters must not end the comparison (views are not C strings)"""
    Z = strings(ALPHA[ck][:2] + [0], maxlen)
    for a in Z:
        for b in Z:
            if 0 not in a and 0 not in b:
                continue
            out.append(f"compare {ck} {L(a)} {L(b)}")
            out.append(f"rel {ck} {L(a)} {L(b)}")
            out.append(f"starts {ck} {L(a)} {L(b)}")
            out.append(f"ends {ck} {L(a)} {L(b)}")
            for fam in ("find", "rfind"):
                out.append(f"{fam}_d {ck} {L(a)} {L(b)}")
            for k in range(0, min(len(a), len(b)) + 1):
                out.append(f"tr_cmp {ck} {L(a)} {L(b)} {k}")


INT_VALUES = {   # values of int_type: int / wint_t / unsigned / uint_least16_t / uint_least32_t
    "c": [-1, 0, 97, 127, 128, 255, 256, -128, 2**31 - 1, -2**31],
    "w": [2**32 - 1, 2**32 - 2, 0, 97, 2**31, 2**31 - 1],
    "b": [2**32 - 1, 2**32 - 2, 0, 97, 255, 256],
    "s": [65535, 65534, 0, 97, 0x8000],
    "u": [2**32 - 1, 2**32 - 2, 0, 97, 2**31],
}
CHAR_LIMITS = {"c": (-128, 127), "w": (-2**31, 2**31 - 1), "b": (0, 255), "s": (0, 65535), "u": (0, 2**32 - 1)}


def to_int(ck, c):
    return c % 256 if ck == "c" else c % 2**32 if ck == "w" else c


def gen_traits(ck, out, rng, nmax):
    """etl::char_traits<Char> members as operations: move/copy over EVERY (dest, source, count) inside buffers of up to
    nmax distinct characters (all overlaps), assign(s,n,c), compare over n characters incl. embedded zeros (gen_nul),
    find, length, eq/lt/assign, to_int_type/to_char_type/eq_int_type/not_eof/eof at the limits of the types"""
    al = ALPHA[ck]
    for n in range(0, nmax + 1):
        buf = L([100 + i for i in range(n)])
        for cnt in range(0, n + 1):
            for d in range(0, n - cnt + 1):
                for s_ in range(0, n - cnt + 1):
                    out.append(f"tr_move {ck} {buf} {d} {s_} {cnt}")
                    out.append(f"tr_copy {ck} {buf} {d} {s_} {cnt}")
                if n <= 4:
                    out.append(f"tr_fill {ck} {buf} {d} {cnt} {al[2]}")
    for _ in range(40):
        n = rng.randint(8, 90)
        buf = [rng.choice(al + EXTRA[ck]) if rng.random() < 0.2 else 100 + i % 23 for i in range(n)]
        cnt = rng.randint(0, n)
        s_ = rng.randint(0, n - cnt)
        d = min(n - cnt, max(0, s_ + rng.randint(-3, 3))) if rng.random() < 0.6 else rng.randint(0, n - cnt)
        out.append(f"tr_move {ck} {L(buf)} {d} {s_} {cnt}")
        out.append(f"tr_copy {ck} {L(buf)} {d} {s_} {cnt}")
        out.append(f"tr_fill {ck} {L(buf)} {d} {cnt} {rng.choice(al)}")
    for sl in strings(al + [0], 2) + strings(al[:2] + [0], 3):
        out.append(f"tr_len {ck} {L(sl)}")
        for k in range(0, len(sl) + 1):
            for c in (al[0], al[2], 0):
                out.append(f"tr_find {ck} {L(sl)} {k} {c}")
    lo, hi = CHAR_LIMITS[ck]
    chars = sorted(set(al + EXTRA[ck] + [lo, hi, lo + 1, hi - 1]))
    if ck in ("c", "b"):
        chars = list(range(lo, hi + 1))     # every value of the 8-bit types
    for a in (chars if len(chars) <= 16 else chars[::17] + al):
        for b in (chars if len(chars) <= 16 else chars[::13] + al):
            out.append(f"tr_chr {ck} {a} {b}")
    for c in chars:
        out.append(f"tr_toint {ck} {c}")
        out.append(f"tr_tochar {ck} {to_int(ck, c)}")
    iv = INT_VALUES[ck] + [to_int(ck, al[2])]
    for i in iv:
        for j in iv:
            out.append(f"tr_eqint {ck} {i} {j}")


def gen_long(ck, count, out, rng):
    """long strings: the generators above stop at 24 characters, so a loop that treats blocks of 8/16/32/64
    characters, or a narrow (8-bit) counter, would never see its second block / its wrap-around.  Haystacks of 30-300
    characters over 2-3 letters; comparisons of strings that agree on a long prefix and differ at one (any) position
    or only in length; needles of 20+ characters cut out of the haystack (matching at the very end, in the middle,
    perturbed in one position)."""
    al = ALPHA[ck]
    for _ in range(count):
        n = rng.choice([rng.randint(30, 70), rng.randint(30, 70), rng.randint(120, 140), rng.randint(250, 300)])
        two = [rng.choice(al[:2]) for _ in range(2)]
        h = [rng.choice(two if rng.random() < 0.9 else al) for _ in range(n)]
        # comparisons: a copy that differs at exactly one position / is shorter / is longer
        b = list(h)
        r = rng.random()
        if r < 0.6:
            i = rng.randrange(n)
            if rng.random() < 0.5:
                # at, just before or just after a multiple of a plausible block size
                edges = [k * B + d for B in (8, 16, 32, 64) for k in range(1, n // B + 1) for d in (-1, 0, 1)
                         if 0 <= k * B + d < n]
                i = rng.choice(edges)
            b[i] = rng.choice([c for c in al + EXTRA[ck][:2] if c != b[i]])
        elif r < 0.75:
            b = b[:rng.randint(n - 3, n)]
        elif r < 0.9:
            b = b + [rng.choice(al)]
        a, bb = (h, b) if rng.random() < 0.5 else (b, h)
        out.append(f"compare {ck} {L(a)} {L(bb)}")
        out.append(f"rel {ck} {L(a)} {L(bb)}")
        out.append(f"{rng.choice(['rel_pl', 'rel_pr'])} {ck} {L(a)} {L(bb)}")
        out.append(f"compare_p {ck} {L(a)} {L(bb)}")
        p1 = rng.randint(0, 3)
        out.append(f"compare_5 {ck} {L(a)} {p1} {rpos(rng, n)} {L(bb)} {p1} {rpos(rng, n)}")
        # long needles
        i = rng.randint(0, n - 20)
        j = n if rng.random() < 0.4 else rng.randint(i + 20, n)
        nd = h[i:j]
        if rng.random() < 0.4:
            k = rng.randrange(len(nd))
            nd[k] = rng.choice([c for c in al if c != nd[k]])
        hs, ns = L(h), L(nd)
        p = rng.choice([0, 0, i, i + 1, max(0, i - 1), n, NPOS, rng.randint(0, n)])
        fam = rng.choice(["find", "rfind"])
        out.append(f"{fam} {ck} {hs} {ns} {p}")
        out.append(f"{fam}{rng.choice(['_d', '_pd'])} {ck} {hs} {ns}")
        out.append(f"{fam}_p {ck} {hs} {ns} {p}")
        out.append(f"{rng.choice(['starts', 'ends', 'contains'])} {ck} {hs} {L(h[:j - i] if rng.random() < 0.3 else (h[n - (j - i):] if rng.random() < 0.5 else nd))}")
        # character-set searches with a long haystack of one letter and the match near one end
        run = [al[0]] * n
        if rng.random() < 0.7:
            run[rng.choice([0, 1, n - 1, n - 2, rng.randrange(n)])] = al[1]
        rs = L(run)
        out.append(f"{rng.choice(['ffo', 'flo'])} {ck} {rs} 1 {al[1]} {rng.choice([0, NPOS, n - 1, rng.randint(0, n)])}")
        out.append(f"{rng.choice(['ffno', 'flno'])} {ck} {rs} 1 {al[0]} {rng.choice([0, NPOS, n - 1, rng.randint(0, n)])}")
        out.append(f"{rng.choice(['ffno_c', 'flno_c', 'rfind_c', 'find_c'])} {ck} {rs} {rng.choice(al[:2])} {rng.choice([0, NPOS, n - 1])}")
        c0 = rng.randint(0, n + 2)
        out.append(f"copy {ck} {hs} {c0} {rng.randint(0, n)}")
        out.append(f"substr {ck} {hs} {rng.randint(0, n)} {c0}")


# positions / counts whose low 32 (or 31) bits are a small number: a pos or count that is narrowed to 32 bits (or to a
# signed type) somewhere on its way turns into an in-range position there
def narrow_points(n):
    return sorted({2**31 - 1, 2**31, 2**31 + 1, 2**32 - 1, 2**32, 2**32 + 1, 2**32 + 2, 2**32 + n, 2**33 + 1, 2**63,
                   2**63 + 1, 2**64 - 2**32, 2**64 - 2**32 + 1, 2**64 - 2**31, 2**64 - 2**31 + 1, 2**32 + 2**31 + 1})


def gen_narrow(ck, out, rng, hmax=3, nmax=2):
    """every operation with a pos / count argument on short views, with positions and counts just above 2^31, 2^32,
    2^63 and just below 2^64 (2^32 + k, 2^64 - 2^32 + k: equal to the in-range position k in their low 32 bits)"""
    al = ALPHA[ck][:2]
    H = strings(al, hmax)
    N = strings(al, nmax)
    for h in H:
        hs = L(h)
        P = narrow_points(len(h))
        for p in P:
            for n in N:
                for fam in FAMS:
                    out.append(f"{fam} {ck} {hs} {L(n)} {p}")
                if len(n) == 1:
                    for fam in FAMS:
                        out.append(f"{fam}_c {ck} {hs} {n[0]} {p}")
                        out.append(f"{fam}_p {ck} {hs} {L(n)} {p}")
                        out.append(f"{fam}_pc {ck} {hs} {L(n)} {p} 1")
            out.append(f"rmpre {ck} {hs} {p}")
            out.append(f"rmsuf {ck} {hs} {p}")
            out.append(f"at {ck} {hs} {p}")
            out.append(f"substr_d1 {ck} {hs} {p}")
            out.append(f"copy_d {ck} {hs} {p}")
            for q in list(range(0, len(h) + 2)) + [NPOS]:
                out.append(f"substr {ck} {hs} {q} {p}")
                out.append(f"substr {ck} {hs} {p} {q}")
                out.append(f"copy {ck} {hs} {p} {q}")
                out.append(f"copy {ck} {hs} {q} {p}")
                for b in N[:3]:
                    out.append(f"compare_3 {ck} {hs} {q} {p} {L(b)}")
                    out.append(f"compare_3 {ck} {hs} {p} {q} {L(b)}")
                    out.append(f"compare_3p {ck} {hs} {q} {p} {L(b)}")
                    out.append(f"compare_5 {ck} {hs} {q} {p} {L(b)} 0 {p}")
                    out.append(f"compare_5 {ck} {hs} 0 {p} {L(b)} {p} {q}")


# ---- huge views (ops big*): lengths around 2^31, 2^32, 2^33 ------------------------------------------------------------
BIG_CAP = 2**33 + 16
BIG_LENS = [2**31 - 1, 2**31, 2**31 + 1, 2**31 + 3, 2**32 - 1, 2**32, 2**32 + 1, 2**32 + 3, 2**32 + 2**31 + 2, 2**33, 2**33 + 3]
BIG_LENS_QUICK = [2**31 - 1, 2**31, 2**31 + 3, 2**32, 2**32 + 3, 2**33]


def BV(pre, n):
    """a big view: explicit prefix + length"""
    return f"{L(pre)} {n}"


def eff(n, p, k):
    """size of substr(p, k) of a view of n characters (None: pos > size)"""
    return None if p > n else min(k, n - p)


def gen_big(ck, out, rng, thorough=False, light=False):
    """Views of 2^31 .. 2^33 characters over an untouched zero-filled mapping (harness.cpp BigMap) against short views:
    every size_t computation of compare / the relational operators / starts_with / ends_with / substr / copy /
    remove_prefix / remove_suffix / operator[] / back is driven with two lengths (or a length and a position / count)
    that differ by 2^31, 2^32, 2^32 + 2^31 or 2^33, in both argument orders - a computation narrowed to 32 bits (or to
    a signed type) gives a different sign / offset / size there and nowhere in the small-length cases.  The explicit
    prefix is 'abc'-like, the rest of the view is NUL characters; positions just past a multiple of 2^32 land, when
    narrowed, inside the explicit prefix.  Only min(size) characters are compared, so no case walks a huge range."""
    al = ALPHA[ck]
    lens = BIG_LENS if thorough else BIG_LENS_QUICK
    pre3 = [al[0], al[1], al[0]]
    pres = [pre3, [al[0], al[1], al[2]]] if not light else [pre3]
    smalls = [pre3[:k] for k in range(0, 4)] + [[al[0], al[1], al[1]], [al[0], 0], [0], [0, 0], [al[1]]]
    if not light:
        smalls += [[al[0], al[1], al[2]], [al[2]], pre3 + [0], pre3 + [0, 0], pre3 + [al[0]]]
    out.append(f"bigprobe {ck}")
    for pre in pres:
        for n in lens:
            hv = BV(pre, n)
            for sm in smalls:
                sv = BV(sm, len(sm))
                # a short view that is itself a prefix of a big mapping but LONGER than its explicit characters
                svz = BV(sm, len(sm) + 2)
                for x, y in ((hv, sv), (sv, hv), (hv, svz), (svz, hv)):
                    out.append(f"bigcmp {ck} {x} {y}")
                    out.append(f"bigrel {ck} {x} {y}")
                    out.append(f"bigstarts {ck} {x} {y}")
                    out.append(f"bigends {ck} {x} {y}")
                if 0 not in sm:
                    out.append(f"bigcmpp {ck} {hv} {L(sm)}")
                    out.append(f"bigstartsp {ck} {hv} {L(sm)}")
                    out.append(f"bigendsp {ck} {hv} {L(sm)}")
                    out.append(f"bigrelpl {ck} {hv} {L(sm)}")
                    out.append(f"bigrelpr {ck} {hv} {L(sm)}")
                # substr(pos1, count1) of one side against the other: the substring or the other side is short
                for p1, k1 in ((0, NPOS), (0, n), (0, n - 1), (0, 2**31), (0, 2**32), (0, 2**32 + len(sm)), (1, NPOS),
                               (n - len(sm), NPOS), (n - len(sm), len(sm)), (n - 1, 1), (n, 0), (n, NPOS), (n + 1, 0),
                               (2**32, 3), (2**32 + 1, 2), (2**31, 2), (0, len(sm)), (0, len(sm) + 1)):
                    e = eff(n, p1, k1)
                    if e is None or min(e, len(sm)) <= 8:
                        out.append(f"bigcmp3 {ck} {hv} {p1} {k1} {sv}")
                        if 0 not in sm and (thorough or rng.random() < 0.5):
                            out.append(f"bigcmp3p {ck} {hv} {p1} {k1} {L(sm)}")
                            out.append(f"bigcmp4p {ck} {hv} {p1} {k1} {L(sm)} {rng.randint(0, len(sm))}")
                    # the short view's substring with a huge count (clamped) against the huge view
                    out.append(f"bigcmp3 {ck} {sv} {min(p1, len(sm))} {k1} {hv}")
                    if thorough or rng.random() < 0.35:
                        p2 = rng.choice([0, 0, 1, len(sm), n - 2, n, 2**32 + 1])
                        k2 = rng.choice([NPOS, n, 2**31, 2**32, 2**32 + 2, 2, 0])
                        e2 = eff(len(sm), min(p1, len(sm)), k1)
                        e1 = eff(n, p2, k2)
                        if e1 is None or min(e1, e2) <= 8:
                            out.append(f"bigcmp5 {ck} {hv} {p2} {k2} {sv} {min(p1, len(sm))} {k1}")
                            out.append(f"bigcmp5 {ck} {sv} {min(p1, len(sm))} {k1} {hv} {p2} {k2}")
            # one huge view and scalars: substr / copy / remove_prefix / remove_suffix / operator[] / back
            pts = sorted({0, 1, 2, 3, n - 3, n - 1, n, n + 1, 2**31 - 1, 2**31, 2**31 + 1, 2**32 - 1, 2**32, 2**32 + 1,
                          2**32 + 2, n - 2**31, n - 2**32, n - 2**32 + 1, NPOS, NPOS - 1, 2**63, 2**63 + 1} - {-1})
            pts = [p for p in pts if 0 <= p <= NPOS]
            cnts = [0, 1, 2, 3, n, n - 1, n + 1, 2**31, 2**32, 2**32 + 2, NPOS, 2**63]
            for p in pts:
                out.append(f"bigrmpre {ck} {hv} {p}")
                out.append(f"bigrmsuf {ck} {hv} {p}")
                out.append(f"bigat {ck} {hv} {p}")
                for k in cnts:
                    if light and rng.random() < 0.5:
                        continue
                    out.append(f"bigsubstr {ck} {hv} {p} {k}")
                    e = eff(n, p, k)
                    if e is None or e <= 64:
                        out.append(f"bigcopy {ck} {hv} {k} {p}")
            out.append(f"bigback {ck} {hv}")
    # the six search families on a huge haystack: forwards from a position near the end, backwards from a small one
    needles = [[0], [0, 0], [al[0]], [al[1]], [al[0], al[1]], [al[1], al[0]], [al[0], 0], [0, al[0]], []]
    for pre in pres:
        for n in lens:
            hv = BV(pre, n)
            fwd = sorted({n - 3, n - 2, n - 1, n, n + 1, n + 2**32, 2**32 + n - 1, NPOS, 2**63 + 1})
            fwd = [p for p in fwd if p <= NPOS and (p > n or n - p <= 64)]
            bwd = [0, 1, 2, 3, 4, 5]
            for nd in needles:
                nv = BV(nd, len(nd))
                if light and rng.random() < 0.5:
                    continue
                for p in fwd:
                    for fam in ("find", "ffo", "ffno"):
                        out.append(f"big{fam} {ck} {hv} {nv} {p}")
                for p in bwd:
                    for fam in ("rfind", "flo", "flno"):
                        out.append(f"big{fam} {ck} {hv} {nv} {p}")
                # a huge NEEDLE against a short haystack (never found; sizes compared / subtracted, nothing walked)
                for fam in ("find", "rfind"):
                    for p in (0, 1, len(nd), NPOS):
                        out.append(f"big{fam} {ck} {nv} {hv} {p}")
    # two views of ordinary length in the big mappings (the big ops agree with the ordinary ones there)
    for a in strings(al[:2], 2):
        for b in strings(al[:2], 2):
            out.append(f"bigcmp {ck} {BV(a, len(a))} {BV(b, len(b))}")
            out.append(f"bigrel {ck} {BV(a, len(a))} {BV(b, len(b))}")


def gen(tier, rng):
    out = []
    if tier == "thorough":
        gen_exhaustive("c", 5, 3, out, rng, full=True)
        gen_exhaustive("w", 4, 3, out, rng, full=True)
        gen_exhaustive("u", 4, 3, out, rng, full=True)
        gen_exhaustive("s", 3, 2, out, rng, light=True)
        gen_exhaustive("b", 3, 2, out, rng, light=True)
        for ck in ("c", "w", "u", "s", "b"):
            gen_random(ck, 30000, out, rng)
            gen_long(ck, 3000, out, rng)
            gen_nul(ck, 3, out)
            gen_traits(ck, out, rng, 8)
            gen_big(ck, out, rng, thorough=True, light=ck in ("s", "b"))
            gen_narrow(ck, out, rng, 3 if ck in ("c", "w", "u") else 2, 2)
    else:
        gen_exhaustive("c", 4, 3, out, rng)
        gen_exhaustive("w", 3, 2, out, rng, light=True)
        gen_exhaustive("u", 3, 2, out, rng, light=True)
        gen_random("c", 2500, out, rng)
        gen_random("w", 1200, out, rng)
        gen_random("u", 1200, out, rng)
        gen_exhaustive("s", 2, 2, out, rng, light=True)
        gen_exhaustive("b", 2, 2, out, rng, light=True)
        gen_random("s", 300, out, rng)
        gen_random("b", 300, out, rng)
        gen_long("c", 250, out, rng)
        for ck in ("w", "u", "s", "b"):
            gen_long(ck, 60, out, rng)
        gen_nul("c", 3, out)
        gen_traits("c", out, rng, 6)
        for ck in ("w", "u", "s", "b"):
            gen_nul(ck, 2, out)
            gen_traits(ck, out, rng, 5)
        gen_narrow("c", out, rng)
        for ck in ("w", "u", "s", "b"):
            gen_narrow(ck, out, rng, 2, 1)
        gen_big("c", out, rng)
        for ck in ("w", "u", "s", "b"):
            gen_big(ck, out, rng, light=True)
    return out


def nontrivial(case, impl):
    t = case.split()
    return impl.startswith("ok") and len(t) > 2 and t[2] != "0"
