"""C08 — string_view searches and comparisons: case generators and configuration."""
import itertools
import os

# Sanitizer reports are not symbolized: symbolizing costs ~100 ms per report, and a defect that
# over-reads produces thousands of crashing cases (each one is a re-forked child of the harness).
os.environ.setdefault("ASAN_OPTIONS", "detect_leaks=0:halt_on_error=0:suppress_equal_pcs=0:abort_on_error=1:"
                      "handle_abort=0:print_summary=0:allocator_may_return_null=1:symbolize=0:print_legend=0:"
                      "fast_unwind_on_fatal=1")

ID = "C08"
LEVEL = "proof"
# ASan in recover mode (see harness.cpp): a faulty case is reported as "crash asan" without killing the process;
# UBSan errors still abort
SAN = ["-fsanitize=address,undefined", "-fno-sanitize-recover=undefined", "-fsanitize-recover=address",
       "-fno-omit-frame-pointer"]
HARNESSES = [
    # plain build: guard zones readable and filled with the other argument's characters
    {"name": "main", "src": "harness.cpp", "flags": ["-O1", "-DTETL_ENABLE_CONTRACT_CHECKS=1"]},
    # sanitizer build: guard zones poisoned, a read one character outside a view is a crash
    # (char, wchar_t, char32_t only: halves its compile time; the thorough tier adds all five types)
    {"name": "asan", "src": "harness.cpp",
     "flags": ["-O1", "-g0", "-DTETL_ENABLE_CONTRACT_CHECKS=1", "-DVH_FEWER_TYPES"] + SAN},
    {"name": "asan5", "src": "harness.cpp", "thorough_only": True,
     "flags": ["-O1", "-g0", "-DTETL_ENABLE_CONTRACT_CHECKS=1"] + SAN},
]

NPOS = 2**64 - 1
FAMS = ["find", "rfind", "ffo", "ffno", "flo", "flno"]
# per character type: the exhaustive alphabet {a, b, 0x80-ish} and extra letters for random strings
ALPHA = {
    "c": [97, 98, -128],            # char: 0x80 is negative as a char, larger than 'a' as unsigned char
    "w": [97, 98, -128],            # wchar_t is a signed 32-bit type here: -128 < 'a' also for std
    "u": [97, 98, 0x80000005],      # char32_t: unsigned, value above INT32_MAX
    "s": [97, 98, 0x8000],
    "b": [97, 98, 0x80],
}
EXTRA = {
    "c": [0, 127, -1, 99],
    "w": [0, 0x7FFFFFFF, -0x80000000, 128, 99],
    "u": [0, 0xFFFFFFFF, 128, 99],
    "s": [0, 0xFFFF, 128, 99],
    "b": [0, 0xFF, 127, 99],
}

RULE = ("exhaustive: every (haystack, needle) over a 3-letter alphabet {a, b, 0x80-like} up to the stated lengths x "
        "every pos in [0,|h|+2] and npos (x every count in [0,|s|] for the (s,pos,count) overloads, every (pos,count) "
        "pair in {0..|a|+1, npos}^2 for compare/substr/copy) for all six search families and their Char / Char const* "
        "overloads, compare (6 overloads), the six relational operators, starts_with/ends_with/contains (3 overloads "
        "each), substr, copy, remove_prefix, remove_suffix; char with |h|<=4,|n|<=3 and wchar_t/char32_t with smaller "
        "bounds in the quick tier; plus seeded random longer strings with embedded NULs and type-limit characters. "
        "Each case runs in a plain build (adversarial readable guard zones) and an ASan+UBSan build (poisoned guard "
        "zones flush against both ends of every view). non-trivial = distinct case whose impl outcome is ok on a "
        "non-empty haystack")

TRUSTED_BASE = ["reference leg: libstdc++ 12 std::basic_string_view / std::char_traits on the same character data",
                "AddressSanitizer manual poisoning (granule-exact on both sides of each argument block) for the "
                "'only characters inside the views are read' observation on the compiled code"]
ASSUMPTIONS = ["LP64: size_t is 64 bits, npos = 2^64-1", "char is signed 8-bit, wchar_t is signed 32-bit (x86-64 Linux)",
               "view lengths < 2^63 (theorem hypothesis)"]


def L(xs):
    return " ".join([str(len(xs))] + [str(x) for x in xs])


def strings(alpha, maxlen):
    out = []
    for n in range(0, maxlen + 1):
        out += [list(t) for t in itertools.product(alpha, repeat=n)]
    return out


def positions(n):
    return list(range(0, n + 3)) + [NPOS]


def gen_exhaustive(ck, hmax, nmax, out, rng, light=False, full=False):
    al = ALPHA[ck]
    H = strings(al, hmax)
    N = strings(al, nmax)
    for h in H:
        hs = L(h)
        ps = positions(len(h))
        for n in N:
            ns = L(n)
            for p in ps:
                for fam in FAMS:
                    out.append(f"{fam} {ck} {hs} {ns} {p}")
            out.append(f"contains {ck} {hs} {ns}")
            out.append(f"starts {ck} {hs} {ns}")
            out.append(f"ends {ck} {hs} {ns}")
        for c in al:
            for p in ps:
                for fam in FAMS:
                    out.append(f"{fam}_c {ck} {hs} {c} {p}")
            out.append(f"contains_c {ck} {hs} {c}")
            out.append(f"starts_c {ck} {hs} {c}")
            out.append(f"ends_c {ck} {hs} {c}")
        pcs = list(range(0, len(h) + 2)) + [NPOS, NPOS - 1]
        for p in pcs:
            for k in pcs:
                out.append(f"substr {ck} {hs} {p} {k}")
                out.append(f"copy {ck} {hs} {k} {p}")
            out.append(f"rmpre {ck} {hs} {p}")
            out.append(f"rmsuf {ck} {hs} {p}")
    # pointer overloads: C strings may contain an embedded zero (the C string then stops there)
    HS = strings(al, 2 if light else min(hmax, 3))
    SP = strings(al + [0], min(nmax, 2))
    for h in HS:
        hs = L(h)
        for s in SP:
            ss = L(s)
            for p in positions(len(h)):
                for fam in FAMS:
                    out.append(f"{fam}_p {ck} {hs} {ss} {p}")
                    if full or (p in (0, len(h), NPOS) and (light or rng.random() < 0.5)):
                        for k in range(0, len(s) + 1):
                            out.append(f"{fam}_pc {ck} {hs} {ss} {p} {k}")
            out.append(f"contains_p {ck} {hs} {ss}")
            out.append(f"starts_p {ck} {hs} {ss}")
            out.append(f"ends_p {ck} {hs} {ss}")
            out.append(f"compare_p {ck} {hs} {ss}")
    # compare family and relational operators
    A = strings(al, min(hmax, 3) if light else hmax)
    for a in A:
        for b in A:
            out.append(f"compare {ck} {L(a)} {L(b)}")
            if full or len(a) <= 3:
                out.append(f"rel {ck} {L(a)} {L(b)}")
    A3 = strings(al, 2 if light else 3)
    B3 = strings(al, 2)
    for a in A3:
        pcs = list(range(0, len(a) + 2)) + [NPOS]
        for b in B3:
            for p1 in pcs:
                for k1 in pcs:
                    out.append(f"compare_3 {ck} {L(a)} {p1} {k1} {L(b)}")
                    if len(b) <= 1 or p1 in (0, len(a)):
                        out.append(f"compare_3p {ck} {L(a)} {p1} {k1} {L(b)}")
                        for k2 in range(0, len(b) + 1) if (full or p1 == 0) else ():
                            out.append(f"compare_4p {ck} {L(a)} {p1} {k1} {L(b)} {k2}")
    A5 = strings(al[:2] if light else al, 2)
    for a in A5:
        pa = list(range(0, len(a) + 2)) + [NPOS]
        for b in A5:
            pb = list(range(0, len(b) + 2)) + [NPOS]
            for p1 in pa:
                for k1 in pa:
                    for p2 in pb:
                        for k2 in pb:
                            if not full and rng.random() < 0.75:
                                continue
                            out.append(f"compare_5 {ck} {L(a)} {p1} {k1} {L(b)} {p2} {k2}")


def rstr(rng, ck, maxlen, small=False):
    al = ALPHA[ck][:2] if small else ALPHA[ck] + EXTRA[ck]
    n = rng.randint(0, maxlen)
    # strings with repetitions so that partial matches and matches at the very end are frequent
    return [rng.choice(al if rng.random() < 0.25 else ALPHA[ck][:2]) for _ in range(n)]


def rpos(rng, n):
    r = rng.random()
    if r < 0.6:
        return rng.randint(0, n + 1)
    if r < 0.75:
        return n
    if r < 0.9:
        return rng.choice([NPOS, NPOS - 1, 2**63, 2**63 - 1, 2**32])
    return rng.randint(0, NPOS)


def gen_random(ck, count, out, rng):
    for _ in range(count):
        h = rstr(rng, ck, 24)
        if rng.random() < 0.5 and h:
            # needle cut out of the haystack (often its tail), sometimes perturbed / extended past the end
            i = rng.randint(0, len(h))
            j = len(h) if rng.random() < 0.5 else rng.randint(i, len(h))
            n = h[i:j]
            r = rng.random()
            if r < 0.2 and n:
                n[rng.randrange(len(n))] = rng.choice(ALPHA[ck])
            elif r < 0.4:
                n = n + [rng.choice(ALPHA[ck])]
        else:
            n = rstr(rng, ck, 5)
        p = rpos(rng, len(h))
        hs, ns = L(h), L(n)
        fam = rng.choice(FAMS)
        out.append(f"{fam} {ck} {hs} {ns} {p}")
        out.append(f"{rng.choice(FAMS)} {ck} {hs} {ns} {p}")
        v = rng.random()
        if v < 0.25:
            out.append(f"{fam}_p {ck} {hs} {ns} {p}")
        elif v < 0.5:
            out.append(f"{fam}_pc {ck} {hs} {ns} {p} {rng.randint(0, len(n))}")
        elif v < 0.65:
            c = rng.choice(h) if h and rng.random() < 0.7 else rng.choice(ALPHA[ck] + EXTRA[ck])
            out.append(f"{fam}_c {ck} {hs} {c} {p}")
        elif v < 0.8:
            out.append(f"{rng.choice(['contains', 'starts', 'ends'])}{rng.choice(['', '_p'])} {ck} {hs} {ns}")
        else:
            out.append(f"compare_5 {ck} {hs} {rpos(rng, len(h))} {rpos(rng, len(h))} {ns} {rpos(rng, len(n))} {rpos(rng, len(n))}")
        # comparisons of strings with a long common prefix
        a = rstr(rng, ck, 12)
        b = list(a)
        r = rng.random()
        if r < 0.3 and b:
            b[rng.randrange(len(b))] = rng.choice(ALPHA[ck] + EXTRA[ck])
        elif r < 0.5:
            b = b[:rng.randint(0, len(b))]
        elif r < 0.7:
            b = b + rstr(rng, ck, 3)
        out.append(f"rel {ck} {L(a)} {L(b)}")
        out.append(f"compare {ck} {L(a)} {L(b)}")
        out.append(f"compare_3 {ck} {L(a)} {rpos(rng, len(a))} {rpos(rng, len(a))} {L(b)}")
        out.append(f"substr {ck} {hs} {p} {rpos(rng, len(h))}")
        out.append(f"copy {ck} {hs} {rpos(rng, len(h))} {p}")
        out.append(f"{rng.choice(['rmpre', 'rmsuf'])} {ck} {hs} {p}")


def gen(tier, rng):
    out = []
    if tier == "thorough":
        gen_exhaustive("c", 5, 3, out, rng, full=True)
        gen_exhaustive("w", 4, 3, out, rng, full=True)
        gen_exhaustive("u", 4, 3, out, rng, full=True)
        gen_exhaustive("s", 3, 2, out, rng, light=True)
        gen_exhaustive("b", 3, 2, out, rng, light=True)
        for ck in ("c", "w", "u", "s", "b"):
            gen_random(ck, 30000, out, rng)
    else:
        gen_exhaustive("c", 4, 3, out, rng)
        gen_exhaustive("w", 3, 2, out, rng, light=True)
        gen_exhaustive("u", 3, 2, out, rng, light=True)
        gen_random("c", 2500, out, rng)
        gen_random("w", 1200, out, rng)
        gen_random("u", 1200, out, rng)
        gen_random("s", 300, out, rng)
        gen_random("b", 300, out, rng)
    return out


def nontrivial(case, impl):
    t = case.split()
    return impl.startswith("ok") and len(t) > 2 and t[2] != "0"
