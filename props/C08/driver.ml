(* C08 driver: model leg = extracted Model.v functions on exact-size views,
   spec leg = extracted Spec.v functions on the character lists.  Parsing/printing only. *)
let zlen l = z_of_int (List.length l)
let view_of l = { vbuf = l; voff = Z0; vlen = zlen l }
(* a C string argument: the array is the given characters plus a terminating zero *)
let carr_of l = view_of (l @ [ Z0 ])

let kinds = function
  | "c" -> (CChar, TChar)
  | "w" -> (CWchar, TWchar)
  | "b" -> (CChar8, TChar8)
  | "s" -> (CChar16, TChar16)
  | "u" -> (CChar32, TChar32)
  | _ -> raise Not_found

let res_s (f : 'a -> string) = function
  | Ok a -> "ok " ^ f a
  | Contract -> "contract"
  | UB _ -> "ub"
  | OutOfFuel -> "fuel"
let opt_s (f : 'a -> string) = function Some a -> "ok " ^ f a | None -> "na"
let zs = str_of_z
let bs = b2s
(* a view result: offset relative to the original data(), size, characters (read through rd) *)
let view_s (v : view) =
  match chars_m v with
  | Ok l -> join [ zs v.voff; zlist_s l ]
  | _ -> join [ zs v.voff; zs v.vlen; "unreadable" ]
let list_at off l = join [ zs off; zlist_s l ]
let rbind2 r f = match r with Ok a -> f a | Contract -> Contract | UB k -> UB k | OutOfFuel -> OutOfFuel

(* (view, Char, C string, (pointer,pos,count)) overloads, the three forms WITHOUT pos (the default argument of
   the declaration, ModelExt.v), the spec function and its defaulted form (SpecExt.v) *)
let search_family name =
  match name with
  | "find" -> ((find_m, find_c_m, find_p_m, find_pc_m, find_s), (find_d_m, find_c_d_m, find_p_d_m, find_d_s))
  | "rfind" -> ((rfind_m, rfind_c_m, rfind_p_m, rfind_pc_m, rfind_s), (rfind_d_m, rfind_c_d_m, rfind_p_d_m, rfind_d_s))
  | "ffo" ->
      ( (find_first_of_m, find_first_of_c_m, find_first_of_p_m, find_first_of_pc_m, find_first_of_s),
        (find_first_of_d_m, find_first_of_c_d_m, find_first_of_p_d_m, find_first_of_d_s) )
  | "ffno" ->
      ( (find_first_not_of_m, find_first_not_of_c_m, find_first_not_of_p_m, find_first_not_of_pc_m, find_first_not_of_s),
        (find_first_not_of_d_m, find_first_not_of_c_d_m, find_first_not_of_p_d_m, find_first_not_of_d_s) )
  | "flo" ->
      ( (find_last_of_m, find_last_of_c_m, find_last_of_p_m, find_last_of_pc_m, find_last_of_s),
        (find_last_of_d_m, find_last_of_c_d_m, find_last_of_p_d_m, find_last_of_d_s) )
  | "flno" ->
      ( (find_last_not_of_m, find_last_not_of_c_m, find_last_not_of_p_m, find_last_not_of_pc_m, find_last_not_of_s),
        (find_last_not_of_d_m, find_last_not_of_c_d_m, find_last_not_of_p_d_m, find_last_not_of_d_s) )
  | _ -> raise Not_found

let split_op op =
  match String.index_opt op '_' with
  | None -> (op, "")
  | Some i -> (String.sub op 0 i, String.sub op (i + 1) (String.length op - i - 1))

(* ---- huge views (ModelBig.v): `<explicit prefix> <length>` = a view of <length> characters at the start of a
   zero-filled allocation of 2^33+16 characters whose first characters are the explicit prefix *)
let big_cap = z_of_big (Big.add (Big.shift_left Big.one 33) (Big.of_int 16))
let next_bview t =
  let pre = next_zlist t in
  let n = next_z t in
  { bbuf = { spre = pre; sfill = Z0; scap = big_cap }; boff = Z0; blen = n }
(* offset, size and (for at most 16 characters) the characters of a result view *)
let bview_s (v : bview) =
  if Big.gt (big_of_z v.blen) (Big.of_int 16) then join [ zs v.boff; zs v.blen; "long" ]
  else match chars_b v with Ok l -> join [ zs v.boff; zlist_s l ] | _ -> join [ zs v.boff; zs v.blen; "unreadable" ]

(* spec side: the same result shape from the closed forms of SpecBig.v *)
let bview_sp (v : bview) =
  if Big.gt (big_of_z v.blen) (Big.of_int 16) then join [ zs v.boff; zs v.blen; "long" ]
  else join [ zs v.boff; zlist_s (chars_sp v) ]
let small z = Big.leq (big_of_z z) (Big.of_int 4096)
let zmin a b = if Big.leq (big_of_z a) (big_of_z b) then a else b

let run_big what t =
  let ck, ct = kinds (next_str t) in
  let bl l = join (List.map bs l) in
  if what = "probe" then ("ok 1", "ok 1")
  else
    let a = next_bview t in
    if Big.gt (big_of_z a.blen) (big_of_z big_cap) || List.length a.bbuf.spre > 256 then ("bad-case", "na")
    else
      (* the closed forms walk min(length1, length2) characters: only evaluated when that is short *)
      let cmp_s x y = if small (zmin x.blen y.blen) then "ok " ^ zs (compare_sp ct x y) else "na" in
      let rel_ss x y = if small (zmin x.blen y.blen) then "ok " ^ bl (rel_sp ct x y) else "na" in
      let sub_cmp_s p k y = match substr_sp a p k with Some s -> cmp_s s y | None -> "na" in
      let cstr l = sp_of_list (cstr_s (l @ [ Z0 ])) in
      match what with
      | "substr" ->
          let p = next_z t in
          let k = next_z t in
          (res_s bview_s (substr_b a p k), opt_s bview_sp (substr_sp a p k))
      | "rmpre" ->
          let n = next_z t in
          (res_s bview_s (remove_prefix_b a n), opt_s bview_sp (remove_prefix_sp a n))
      | "rmsuf" ->
          let n = next_z t in
          (res_s bview_s (remove_suffix_b a n), opt_s bview_sp (remove_suffix_sp a n))
      | "copy" ->
          let cnt = next_z t in
          let pos = next_z t in
          let avail = if Big.leq (big_of_z pos) (big_of_z a.blen) then Big.sub (big_of_z a.blen) (big_of_z pos) else Big.zero in
          if Big.gt (Big.min (big_of_z cnt) avail) (Big.of_int 64) then ("bad-case", "na")
          else
            ( res_s (fun (r, l) -> join (zs r :: List.map zs l)) (copy_b a cnt pos),
              opt_s (fun s -> join (zs s.blen :: List.map zs (chars_sp s))) (substr_sp a pos cnt) )
      | "at" ->
          let pos = next_z t in
          ( res_s (fun c -> join [ zs c; zs pos ]) (index_b a pos),
            if Big.lt (big_of_z pos) (big_of_z a.blen) then join [ "ok"; zs (bget a pos); zs pos ] else "na" )
      | "back" ->
          let last = z_of_big (Big.pred (big_of_z a.blen)) in
          ( res_s (fun c -> join [ zs c; zs last ]) (back_b a),
            if Big.sign (big_of_z a.blen) > 0 then join [ "ok"; zs (bget a last); zs last ] else "na" )
      | "cmpp" ->
          let s = next_zlist t in
          (res_s zs (compare_p_b ck a (carr_of s)), cmp_s a (cstr s))
      | "cmp3p" ->
          let p = next_z t in
          let k = next_z t in
          let s = next_zlist t in
          (res_s zs (compare3_p_b ck a p k (carr_of s)), sub_cmp_s p k (cstr s))
      | "cmp4p" ->
          let p = next_z t in
          let k = next_z t in
          let s = next_zlist t in
          let k2 = next_z t in
          (res_s zs (compare4_p_b ck a p k (view_of s) k2), sub_cmp_s p k (sp_of_list (sub0 s Z0 k2)))
      | "startsp" ->
          let s = next_zlist t in
          (res_s bs (starts_with_p_b ck a (carr_of s)), "ok " ^ bs (starts_with_sp a (cstr s)))
      | "endsp" ->
          let s = next_zlist t in
          (res_s bs (ends_with_p_b ck a (carr_of s)), "ok " ^ bs (ends_with_sp a (cstr s)))
      (* bigrelpl: the view comes first on the line, the C string second; the call is `s OP view` *)
      | "relpl" ->
          let s = next_zlist t in
          (res_s bl (rel_pl_b ck (carr_of s) a), rel_ss (cstr s) a)
      | "relpr" ->
          let s = next_zlist t in
          (res_s bl (rel_pr_b ck a (carr_of s)), rel_ss a (cstr s))
      | "cmp" ->
          let b = next_bview t in
          (res_s zs (compare_b ck a b), cmp_s a b)
      | "cmp3" ->
          let p = next_z t in
          let k = next_z t in
          let b = next_bview t in
          (res_s zs (compare3_b ck a p k b), sub_cmp_s p k b)
      | "cmp5" ->
          let p = next_z t in
          let k = next_z t in
          let b = next_bview t in
          let p2 = next_z t in
          let k2 = next_z t in
          ( res_s zs (compare5_b ck a p k b p2 k2),
            match (substr_sp a p k, substr_sp b p2 k2) with Some s, Some u -> cmp_s s u | _ -> "na" )
      | "rel" ->
          let b = next_bview t in
          (res_s bl (rel6_b ck a b), rel_ss a b)
      (* the search families on a huge haystack: the model's loops need fuel proportional to the haystack length, so
         the model leg is the closed form that Properties_big.v (C08_big_search) proves equal to find_m ... on the
         expanded views; it walks at most `range` indices *)
      | "find" | "rfind" | "ffo" | "ffno" | "flo" | "flno" ->
          let b = next_bview t in
          let pos = next_z t in
          let forward = what = "find" || what = "ffo" || what = "ffno" in
          let bp = big_of_z pos and bn = big_of_z a.blen in
          let range = if forward then (if Big.gt bp bn then Big.zero else Big.sub bn bp) else Big.min bp bn in
          let byset = what <> "find" && what <> "rfind" in
          if Big.gt range (Big.of_int 4096) || (Big.gt (big_of_z b.blen) (Big.of_int 64) && (byset || Big.gt bn (Big.of_int 4096)))
          then ("bad-case", "na")
          else
            let f =
              match what with
              | "find" -> find_sp | "rfind" -> rfind_sp | "ffo" -> find_first_of_sp | "ffno" -> find_first_not_of_sp
              | "flo" -> find_last_of_sp | _ -> find_last_not_of_sp
            in
            let r = "ok " ^ zs (f a b pos) in
            (r, r)
      | "starts" ->
          let b = next_bview t in
          (res_s bs (starts_with_b ck a b), if small b.blen || Big.gt (big_of_z b.blen) (big_of_z a.blen) then "ok " ^ bs (starts_with_sp a b) else "na")
      | "ends" ->
          let b = next_bview t in
          (res_s bs (ends_with_b ck a b), if small b.blen || Big.gt (big_of_z b.blen) (big_of_z a.blen) then "ok " ^ bs (ends_with_sp a b) else "na")
      | _ -> raise Not_found

let run_case op t =
  if String.length op > 3 && String.sub op 0 3 = "big" then run_big (String.sub op 3 (String.length op - 3)) t else
  let ck, ct = kinds (next_str t) in
  let base, variant = split_op op in
  match base with
  | "find" | "rfind" | "ffo" | "ffno" | "flo" | "flno" -> (
      let (fm, fcm, fpm, fpcm, fs), (fdm, fcdm, fpdm, fds) = search_family base in
      let h = next_zlist t in
      match variant with
      | "" ->
          let n = next_zlist t in
          let pos = next_z t in
          (res_s zs (fm (view_of h) (view_of n) pos), "ok " ^ zs (fs h n pos))
      | "d" ->
          let n = next_zlist t in
          (res_s zs (fdm (view_of h) (view_of n)), "ok " ^ zs (fds h n))
      | "cd" ->
          let c = next_z t in
          (res_s zs (fcdm (view_of h) c), "ok " ^ zs (fds h [ c ]))
      | "pd" ->
          let s = next_zlist t in
          (res_s zs (fpdm (view_of h) (carr_of s)), "ok " ^ zs (fds h (cstr_s s)))
      | "c" ->
          let c = next_z t in
          let pos = next_z t in
          (res_s zs (fcm (view_of h) c pos), "ok " ^ zs (fs h [ c ] pos))
      | "p" ->
          let s = next_zlist t in
          let pos = next_z t in
          (res_s zs (fpm (view_of h) (carr_of s) pos), "ok " ^ zs (fs h (cstr_s s) pos))
      | "pc" ->
          let s = next_zlist t in
          let pos = next_z t in
          let cnt = next_z t in
          (res_s zs (fpcm (view_of h) (view_of s) pos cnt), "ok " ^ zs (fs h (sub0 s Z0 cnt) pos))
      | _ -> raise Not_found)
  | "contains" -> (
      let h = next_zlist t in
      match variant with
      | "" ->
          let n = next_zlist t in
          (res_s bs (contains_m (view_of h) (view_of n)), "ok " ^ bs (contains_s h n))
      | "c" ->
          let c = next_z t in
          (res_s bs (contains_c_m (view_of h) c), "ok " ^ bs (contains_s h [ c ]))
      | "p" ->
          let s = next_zlist t in
          (res_s bs (contains_p_m (view_of h) (carr_of s)), "ok " ^ bs (contains_s h (cstr_s s)))
      | _ -> raise Not_found)
  | "starts" | "ends" -> (
      let h = next_zlist t in
      let st = base = "starts" in
      let fs = if st then starts_with_s else ends_with_s in
      match variant with
      | "" ->
          let n = next_zlist t in
          ( res_s bs ((if st then starts_with_m else ends_with_m) ck (view_of h) (view_of n)),
            "ok " ^ bs (fs h n) )
      | "c" ->
          let c = next_z t in
          (res_s bs ((if st then starts_with_c_m else ends_with_c_m) (view_of h) c), "ok " ^ bs (fs h [ c ]))
      | "p" ->
          let s = next_zlist t in
          ( res_s bs ((if st then starts_with_p_m else ends_with_p_m) ck (view_of h) (carr_of s)),
            "ok " ^ bs (fs h (cstr_s s)) )
      | _ -> raise Not_found)
  | "compare" -> (
      let a = next_zlist t in
      match variant with
      | "" ->
          let b = next_zlist t in
          (res_s zs (compare_m ck (view_of a) (view_of b)), "ok " ^ zs (compare_s ct a b))
      | "3" ->
          let p1 = next_z t in
          let k1 = next_z t in
          let b = next_zlist t in
          (res_s zs (compare3_m ck (view_of a) p1 k1 (view_of b)), opt_s zs (compare3_s ct a p1 k1 b))
      | "5" ->
          let p1 = next_z t in
          let k1 = next_z t in
          let b = next_zlist t in
          let p2 = next_z t in
          let k2 = next_z t in
          ( res_s zs (compare5_m ck (view_of a) p1 k1 (view_of b) p2 k2),
            opt_s zs (compare5_s ct a p1 k1 b p2 k2) )
      | "p" ->
          let s = next_zlist t in
          (res_s zs (compare_p_m ck (view_of a) (carr_of s)), "ok " ^ zs (compare_s ct a (cstr_s s)))
      | "3p" ->
          let p1 = next_z t in
          let k1 = next_z t in
          let s = next_zlist t in
          ( res_s zs (compare3_p_m ck (view_of a) p1 k1 (carr_of s)),
            opt_s zs (compare3_s ct a p1 k1 (cstr_s s)) )
      | "4p" ->
          let p1 = next_z t in
          let k1 = next_z t in
          let s = next_zlist t in
          let k2 = next_z t in
          ( res_s zs (compare4_p_m ck (view_of a) p1 k1 (view_of s) k2),
            opt_s zs (compare3_s ct a p1 k1 (sub0 s Z0 k2)) )
      | _ -> raise Not_found)
  | "rel" -> (
      let bl l = join (List.map bs l) in
      let a = next_zlist t in
      let b = next_zlist t in
      match variant with
      | "" -> (res_s bl (rel6_m ck (view_of a) (view_of b)), "ok " ^ bl (rel_s ct a b))
      (* C string OP view *)
      | "pl" -> (res_s bl (rel_pl_m ck (carr_of a) (view_of b)), "ok " ^ bl (rel_s ct (cstr_s a) b))
      (* view OP C string *)
      | "pr" -> (res_s bl (rel_pr_m ck (view_of a) (carr_of b)), "ok " ^ bl (rel_s ct a (cstr_s b)))
      | _ -> raise Not_found)
  | "front" | "back" ->
      let h = next_zlist t in
      let last = z_of_int (List.length h - 1) in
      (* value and position (offset from data()) of the referenced character *)
      let f off c = join [ zs c; zs off ] in
      if base = "front" then (res_s (f Z0) (front_m (view_of h)), opt_s (f Z0) (front_s h))
      else (res_s (f last) (back_m (view_of h)), opt_s (f last) (back_s h))
  | "at" ->
      let h = next_zlist t in
      let pos = next_z t in
      let f c = join [ zs c; zs pos ] in
      (res_s f (index_m (view_of h) pos), opt_s f (index_s h pos))
  (* ---- char_traits members as operations (ModelTraits.v / SpecTraits.v) ---- *)
  | "tr" -> (
      let buf_s d l = join [ zs (z_of_int d); zlist_s l ] in
      match variant with
      | "move" | "copy" ->
          let buf = next_zlist t in
          let d = next_int t in
          let s = next_int t in
          let cnt = next_int t in
          if d + cnt > List.length buf || s + cnt > List.length buf then ("bad-case", "na")
          else
            let dn = nat_of_int d and sn = nat_of_int s and cn = nat_of_int cnt in
            let m = if variant = "move" then tr_move_m buf dn sn cn else tr_copy_m buf dn sn cn in
            (* std copy: dest not in [source, source + count); the forward loop is also right for dest = source *)
            let in_domain = variant = "move" || not (s < d && d < s + cnt) in
            (res_s (buf_s d) m, if in_domain then "ok " ^ buf_s d (move_s buf dn sn cn) else "na")
      | "fill" ->
          let buf = next_zlist t in
          let d = next_int t in
          let cnt = next_int t in
          let c = next_z t in
          if d + cnt > List.length buf then ("bad-case", "na")
          else
            ( res_s (buf_s d) (tr_fill_m buf (nat_of_int d) (nat_of_int cnt) c),
              "ok " ^ buf_s d (fill_s buf (nat_of_int d) (nat_of_int cnt) c) )
      | "cmp" ->
          let a = next_zlist t in
          let b = next_zlist t in
          let cnt = next_int t in
          if cnt > List.length a || cnt > List.length b then ("bad-case", "na")
          else
            ( res_s zs (traits_compare ck (view_of a) (view_of b) (z_of_int cnt)),
              "ok " ^ zs (tr_compare_s ct a b (z_of_int cnt)) )
      | "find" ->
          let sl = next_zlist t in
          let cnt = next_int t in
          let c = next_z t in
          let o = function Some i -> zs i | None -> "-1" in
          if cnt > List.length sl then ("bad-case", "na")
          else (res_s o (traits_find (view_of sl) (z_of_int cnt) c), "ok " ^ o (tr_find_s sl (z_of_int cnt) c))
      | "len" ->
          let sl = next_zlist t in
          (res_s zs (strlen_m (carr_of sl)), "ok " ^ zs (tr_length_s (sl @ [ Z0 ])))
      | "chr" ->
          let a = next_z t in
          let b = next_z t in
          ( join [ "ok"; bs (tr_eq_m a b); bs (tr_lt_m ck a b); zs (tr_assign_m a b) ],
            join [ "ok"; bs (big_of_z a = big_of_z b); bs (char_lt ct a b); zs b ] )
      | "toint" ->
          let c = next_z t in
          let e = to_int_type_m ck c in
          let es = to_int_type_s ct c in
          ( join [ "ok"; zs e; bs (eq_int_type_m ck e (eof_m ck)); zs (eof_m ck); zs (to_char_type_m ck e) ],
            (* [char.traits.require]: to_char_type(to_int_type(c)) = c *)
            join [ "ok"; zs es; bs (big_of_z es = big_of_z (eof_s ct)); zs (eof_s ct); zs c ] )
      | "tochar" ->
          let i = next_z t in
          (join [ "ok"; zs (to_char_type_m ck i) ], join [ "ok"; zs (to_char_type_s ct i) ])
      | "eqint" ->
          let i = next_z t in
          let j = next_z t in
          let ne = not_eof_m ck i in
          let is_eof = big_of_z i = big_of_z (eof_s ct) in
          ( join [ "ok"; bs (eq_int_type_m ck i j); zs ne; bs (eq_int_type_m ck ne (eof_m ck)) ],
            (* not_eof(e) = e if e is not eof(), else SOME value that is not eof(): etl and libstdc++ both use 0 *)
            join [ "ok"; bs (big_of_z i = big_of_z j); (if is_eof then "0" else zs i); "0" ] )
      | _ -> raise Not_found)
  | "ctor" when variant = "it" ->
      (* basic_string_view(first, last) views exactly [first, last) *)
      let h = next_zlist t in
      ("ok " ^ view_s (view_of h), "ok " ^ list_at Z0 h)
  | "swap" ->
      let a = next_zlist t in
      let b = next_zlist t in
      let x, y = swap_m (view_of a) (view_of b) in
      (join [ "ok"; view_s x; "ok"; view_s y ], join [ "ok"; list_at Z0 b; "ok"; list_at Z0 a ])
  | "substr" when variant = "d0" ->
      let h = next_zlist t in
      (res_s view_s (substr_d0_m (view_of h)), opt_s (list_at Z0) (substr_d0_s h))
  | "substr" when variant = "d1" ->
      let h = next_zlist t in
      let pos = next_z t in
      (res_s view_s (substr_d1_m (view_of h) pos), opt_s (list_at pos) (substr_d1_s h pos))
  | "copy" when variant = "d" ->
      let h = next_zlist t in
      let cnt = next_z t in
      let f (r, l) = join [ zs r; zlist_s l ] in
      (res_s f (copy_d_m (view_of h) cnt), opt_s f (copy_d_s h cnt))
  | "substr" ->
      let h = next_zlist t in
      let pos = next_z t in
      let cnt = next_z t in
      (res_s view_s (substr_m (view_of h) pos cnt), opt_s (list_at pos) (substr_s h pos cnt))
  | "copy" ->
      let h = next_zlist t in
      let cnt = next_z t in
      let pos = next_z t in
      let f (r, l) = join [ zs r; zlist_s l ] in
      (res_s f (copy_m (view_of h) cnt pos), opt_s f (copy_s h cnt pos))
  | "rmpre" ->
      let h = next_zlist t in
      let n = next_z t in
      (res_s view_s (remove_prefix_m (view_of h) n), opt_s (list_at n) (remove_prefix_s h n))
  | "rmsuf" ->
      let h = next_zlist t in
      let n = next_z t in
      (res_s view_s (remove_suffix_m (view_of h) n), opt_s (list_at Z0) (remove_suffix_s h n))
  | _ -> raise Not_found

let () = main run_case
